#!/bin/bash
# seedround.sh <round> <Cxx> : confirm both delivered seeds of a round in the agent's worktree (not /repo)
R=$1; ID=$2
for m in m1 m2; do
  SD=/tmp/seed$R/$ID/$m
  [ -f $SD/patch.diff ] || { echo "$ID/$m: no patch"; continue; }
  CR=$(cat $SD/crate.txt 2>/dev/null | head -1 | tr -d ' \n')
  [ -z "$CR" ] && CR=wow-mpq
  if [ -f $SD/demo.rs ]; then
    /verif/tools/confirm_seed.sh /tmp/wt$R-$ID $SD $CR > $SD/confirm.log 2>&1
  elif grep -q "cargo build" $SD/demo.sh 2>/dev/null; then
    # the demo takes the repository root and builds the CLI itself
    /verif/tools/confirm_seed_root.sh /tmp/wt$R-$ID $SD $CR > $SD/confirm.log 2>&1
  else
    /verif/tools/confirm_seed_sh.sh /tmp/wt$R-$ID $SD $CR > $SD/confirm.log 2>&1
  fi
  echo "$ID/$m: $(tail -2 $SD/confirm.log | tr '\n' ' ')"
done
