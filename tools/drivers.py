"""Python-side drivers used by ./check (process-level checks and source scans)."""
import os, re, subprocess, json, time, shutil, hashlib


def scan_shared_state(ctx):
    """C09 assumption A1: the library keeps no shared mutable state a parallel task could race on.
    Lexical scan of wow-mpq/src for statics / lazily initialised globals / thread-locals (tests excluded)."""
    root = "/repo/file-formats/archives/wow-mpq/src"
    pat = re.compile(r"^\s*(pub(\([a-z]+\))?\s+)?static\s+(mut\s+)?[A-Z_]+\s*:|lazy_static!|thread_local!|OnceLock<|OnceCell<|LazyLock<|Lazy<")
    hits = []
    n = 0
    for d, _, fs in os.walk(root):
        for f in fs:
            if not f.endswith(".rs") or f == "tests.rs" or "test_utils" in d:
                continue
            n += 1
            in_tests = False
            for i, line in enumerate(open(os.path.join(d, f), errors="replace")):
                if "#[cfg(test)]" in line:
                    in_tests = True
                if in_tests:
                    continue
                if pat.search(line) and "&'static" not in line and "//" not in line.split("static")[0]:
                    # immutable plain-data statics (tables) are fine: only flag interior mutability or `mut`
                    if re.search(r"static\s+mut|Mutex|RwLock|Atomic|Cell|lazy_static|thread_local|OnceLock|LazyLock|Lazy<", line):
                        hits.append("%s:%d: %s" % (os.path.join(d, f), i + 1, line.strip()))
    res = {"evals": n, "stats": {"a1.files_scanned": n, "a1.shared_state_hits": len(hits)}, "samples": [], "oracle_fail": [],
           "disagreements": []}
    for h in hits:
        res["disagreements"].append((0, "A1 source scan: shared mutable state in wow-mpq", h, "none expected"))
    return res


# ---------------------------------------------------------------- C12: strace trace refinement + fault enumeration
TRACED = "openat,open,creat,write,pwrite64,writev,pwritev,lseek,fsync,fdatasync,rename,renameat,renameat2,unlink,unlinkat,ftruncate,close,link,linkat,copy_file_range,sendfile"


def _parse_trace(path, sb):
    """returns list of (name, ordinal_within_name, relevant, abstract_op or None, line)"""
    fdmap, counts, out, ids = {}, {}, [], {}

    def pid_of(p):
        if p not in ids:
            ids[p] = 2 + len([k for k in ids if not k.endswith("/dest.mpq")]) if not p.endswith("/dest.mpq") else 1
        return ids[p]
    for line in open(path, errors="replace"):
        m = re.match(r"^\d+\s+(\w+)\((.*)\)\s+=\s+(-?\d+|\?)", line)
        if not m:
            continue
        name, args, ret = m.group(1), m.group(2), m.group(3)
        counts[name] = counts.get(name, 0) + 1
        k = counts[name]
        rel, op = False, None
        paths = re.findall(r'"((?:[^"\\]|\\.)*)"', args)
        if name in ("openat", "open", "creat"):
            p = paths[0] if paths else ""
            if p.startswith(sb):
                rel = True
                if ret not in ("?",) and int(ret) >= 0:
                    fdmap[int(ret)] = p
                op = ("c%d" if ("O_CREAT" in args or name == "creat" or "O_TRUNC" in args) else "o%d") % pid_of(p)
                if ("O_WRONLY" in args or "O_RDWR" in args) and "O_CREAT" not in args and "O_TRUNC" not in args and p.endswith("/dest.mpq"):
                    op = "o%d" % pid_of(p)   # destination opened read-write (MutableArchive::open); actual writes are `w`
        elif name in ("write", "pwrite64", "writev", "pwritev", "lseek", "fsync", "fdatasync", "ftruncate", "close"):
            fm = re.match(r"(\d+)", args)
            fd = int(fm.group(1)) if fm else -1
            if fd in fdmap:
                rel = True
                p = fdmap[fd]
                if name in ("write", "pwrite64", "writev", "pwritev", "ftruncate"):
                    op = "w%d" % pid_of(p)
                else:
                    op = "o%d" % pid_of(p)
                if name == "close":
                    del fdmap[fd]
        elif name in ("rename", "renameat", "renameat2", "link", "linkat"):
            ps = [p for p in paths if p.startswith(sb)]
            if len(ps) == 2:
                rel = True
                op = "m%d>%d" % (pid_of(ps[0]), pid_of(ps[1]))
        elif name in ("unlink", "unlinkat"):
            ps = [p for p in paths if p.startswith(sb)]
            if ps:
                rel = True
                op = "u%d" % pid_of(ps[0])
        out.append((name, k, rel, op, line.strip()[:160]))
    return out


def c12_driver(ctx):
    wvh, wvmodel, tier, seed = ctx["wvh"], ctx["wvmodel"], ctx["tier"], ctx["seed"]
    base = os.path.join(ctx["outdir"], "sb")
    shutil.rmtree(base, ignore_errors=True)
    os.makedirs(base)
    res = {"evals": 0, "nontrivial": 0, "stats": {}, "samples": [], "oracle_fail": [], "disagreements": [], "model_cases": 0}
    st = res["stats"]
    OLD = b"OLD-CONTENT-" * 40

    def bump(k, n=1):
        st[k] = st.get(k, 0) + n
    configs = [("build", 1, False), ("build", 1, True), ("build", 3, True), ("build", 4, False), ("compact", 1, True), ("compactdirty", 1, True)]
    if tier == "thorough":
        configs = [("build", v, pre) for v in (1, 2, 3, 4) for pre in (False, True)] + [("compact", v, True) for v in (1, 2, 3)] + [("compactdirty", v, True) for v in (1, 2)]
    for ci, (kind, ver, pre) in enumerate(configs):
        sb = os.path.join(base, "c%d" % ci)
        dest = os.path.join(sb, "dest.mpq")

        def prepare():
            shutil.rmtree(sb, ignore_errors=True)
            os.makedirs(sb)
            if kind == "compact":
                subprocess.run([wvh, "fsop", "build", str(ver), dest, str(seed)], stdout=subprocess.DEVNULL)
                subprocess.run([wvh, "fsop", "remove", dest], stdout=subprocess.DEVNULL)
                return open(dest, "rb").read()
            if kind == "compactdirty":
                subprocess.run([wvh, "fsop", "build", str(ver), dest, str(seed)], stdout=subprocess.DEVNULL)
                return open(dest, "rb").read()
            if pre:
                open(dest, "wb").write(OLD)
                return OLD
            return None
        cmd = [wvh, "fsop", "build", str(ver), dest, str(seed)] if kind == "build" else [wvh, "fsop", kind, dest]

        def state(old):
            cur = open(dest, "rb").read() if os.path.exists(dest) else None
            if cur == old:
                return "old"
            if cur is None:
                return "vanished"
            if kind == "build":
                ok = subprocess.run([wvh, "fsop", "verify", dest, str(seed)], stdout=subprocess.PIPE, text=True)
                return "new" if ok.returncode == 0 else "partial:" + ok.stdout.strip()[:80]
            a = subprocess.run([wvh, "fsop", "verify", dest, str(seed), "2"], stdout=subprocess.PIPE, text=True)
            if a.returncode == 0:
                return "new"
            b = subprocess.run([wvh, "fsop", "verify", dest, str(seed)], stdout=subprocess.PIPE, text=True)
            return "old-flushed" if b.returncode == 0 else "partial:" + a.stdout.strip()[:80]
        old = prepare()
        tr = os.path.join(sb, "trace.txt")
        p = subprocess.run(["strace", "-f", "-qq", "-o", tr, "-e", "trace=" + TRACED] + cmd, stdout=subprocess.PIPE, text=True)
        calls = _parse_trace(tr, sb)
        rel = [c for c in calls if c[2]]
        ops = [c[3] for c in rel if c[3]]
        bump("c12.%s.v%d.relevant_calls" % (kind, ver), len(rel))
        # --- trace refinement: the real system-call trace must have the safe shape (model decides)
        req = "c12shape 1 %s" % (",".join(ops) if ops else "-")
        mo = subprocess.run([wvmodel], input=req + "\n", stdout=subprocess.PIPE, text=True).stdout.strip()
        res["model_cases"] += 1
        if mo != "safe" and kind != "compactdirty":   # (the dirty variant legitimately flushes the removal in place first)
            res["disagreements"].append((ci, req[:300], "trace of %s v%d" % (kind, ver), mo))
        if p.returncode != 0 or state(old) != "new":
            res["oracle_fail"].append(("baseline-op-failed", "%s v%d pre=%s: exit %d state %s" % (kind, ver, pre, p.returncode, state(old))))
            continue
        if len(res["samples"]) < 3:
            res["samples"].append({"config": "%s v%d preexisting=%s" % (kind, ver, pre), "abstract_trace": ",".join(ops)[:300]})
        # --- fault enumeration at every relevant call (quick: all open/rename/unlink/fsync, every 2nd write/lseek/close)
        points = []
        for i, c in enumerate(rel):
            if tier == "thorough" or c[0] not in ("write", "lseek", "close") or i % 2 == 0 or i >= len(rel) - 6:
                points.append(c)
        first_write = next((i for i, c in enumerate(rel) if c[0] in ("write", "pwrite64")), 0)
        for c in points:
            for mode in ("error=ENOSPC", "signal=SIGKILL"):
                if c[0] == "close" and mode.startswith("error"):
                    continue
                old = prepare()
                inj = "inject=%s:%s:when=%d" % (c[0], mode, c[1])
                r = subprocess.run(["strace", "-f", "-qq", "-o", "/dev/null", "-e", "trace=" + c[0], "-e", inj] + cmd,
                                   stdout=subprocess.PIPE, stderr=subprocess.PIPE, text=True)
                s = state(old)
                res["evals"] += 1
                bump("c12.%s.%s" % (mode.split("=")[0], s.split(":")[0]))
                what = "%s v%d preexisting=%s, %s at %s #%d (%s): exit %d, destination %s" % (kind, ver, pre, mode, c[0], c[1], c[4][:70], r.returncode, s)
                if rel.index(c) > first_write:
                    res["nontrivial"] += 1
                ok_states = ("old", "new") if kind == "build" else ("old", "new", "old-flushed")
                if s not in ok_states:
                    res["oracle_fail"].append(("dest-partial-after-" + ("kill" if "KILL" in mode else "io-error"), what))
                elif mode.startswith("error") and r.returncode == 0 and s != "new":
                    res["oracle_fail"].append(("reported-ok-but-destination-not-new", what))
                elif mode.startswith("error") and r.returncode == 1 and s == "new" and kind == "build":
                    res["oracle_fail"].append(("reported-error-but-destination-replaced", what))
        # --- write-size limits (RLIMIT_FSIZE with SIGXFSZ ignored: short writes, then EFBIG)
        for blocks in ([1, 2, 8, 30] if tier == "quick" else [1, 2, 3, 5, 8, 13, 21, 30, 40]):
            old = prepare()
            sh = "trap '' XFSZ; ulimit -f %d; exec \"$@\"" % blocks
            r = subprocess.run(["sh", "-c", sh, "sh"] + cmd, stdout=subprocess.PIPE, stderr=subprocess.PIPE, text=True)
            s = state(old)
            res["evals"] += 1
            res["nontrivial"] += 1
            bump("c12.fsize_limit.%s" % s.split(":")[0])
            what = "%s v%d preexisting=%s, file size limit %d bytes: exit %d, destination %s" % (kind, ver, pre, blocks * 512, r.returncode, s)
            ok_states = ("old", "new") if kind == "build" else ("old", "new", "old-flushed")
            if s not in ok_states:
                res["oracle_fail"].append(("dest-partial-under-write-limit", what))
            elif r.returncode == 0 and s != "new":
                res["oracle_fail"].append(("reported-ok-but-destination-not-new", what))
    shutil.rmtree(base, ignore_errors=True)
    return res


# ---------------------------------------------------------------- CLI build shared by C11 / C20
CLI_TARGET = "/verif/.build/cli-target"


def build_cli():
    env = dict(os.environ, CARGO_NET_OFFLINE="true", CARGO_TARGET_DIR=CLI_TARGET)
    p = subprocess.run(["cargo", "build", "-p", "warcraft-rs", "--offline", "--quiet"], cwd="/repo", env=env,
                       stdout=subprocess.PIPE, stderr=subprocess.STDOUT, text=True)
    return p.returncode == 0, p.stdout, os.path.join(CLI_TARGET, "debug", "warcraft-rs")


def _snapshot(root):
    snap = {}
    for d, dirs, files in os.walk(root):
        for f in files:
            p = os.path.join(d, f)
            try:
                stt = os.lstat(p)
                h = hashlib.sha1(open(p, "rb").read()).hexdigest() if not os.path.islink(p) else os.readlink(p)
                snap[p] = (stt.st_size, stt.st_mtime_ns, h)
            except OSError:
                pass
        for dd in dirs:
            snap[os.path.join(d, dd) + "/"] = ("dir",)
    return snap


class _R:
    def __init__(self, seed):
        self.s = (seed ^ 0x9E3779B97F4A7C15) & (2**64 - 1)

    def next(self):
        self.s = (self.s + 0x9E3779B97F4A7C15) & (2**64 - 1)
        z = self.s
        z = ((z ^ (z >> 30)) * 0xBF58476D1CE4E5B9) & (2**64 - 1)
        z = ((z ^ (z >> 27)) * 0x94D049BB133111EB) & (2**64 - 1)
        return z ^ (z >> 31)

    def below(self, n):
        return self.next() % n if n else 0

    def pick(self, xs):
        return xs[self.below(len(xs))]


def c11_driver(ctx):
    """run the freshly built CLI on archives with hostile entry names inside a deep sandbox; snapshot before/after"""
    res = {"evals": 0, "nontrivial": 0, "stats": {}, "samples": [], "oracle_fail": [], "disagreements": [], "model_cases": 0}
    st = res["stats"]
    ok, out, cli = build_cli()
    if not ok:
        res["oracle_fail"].append(("cli-does-not-build", out[-800:]))
        return res
    wvh, wvmodel, tier, seed = ctx["wvh"], ctx["wvmodel"], ctx["tier"], ctx["seed"]
    rng = _R(seed)
    root = os.path.join(ctx["outdir"], "sb11")
    shutil.rmtree(root, ignore_errors=True)
    outdir = os.path.join(root, "l1", "l2", "l3", "l4", "out")
    os.makedirs(outdir)
    for canary in ("l1/canary.txt", "l1/l2/l3/l4/sibling.txt", "top.txt"):
        open(os.path.join(root, canary), "w").write("canary")
    dirs = ["..", ".", "", "a", "Dir", "x" * 120, "\u00fc\u4e16", "C:", "b.dat", "...", " ", "con"]
    names, edge = [], []
    n_names = 90 if tier == "quick" else 400
    while len(names) < n_names:
        k = rng.below(5)
        parts = [rng.pick(dirs) for _ in range(k)] + ["f%d.txt" % len(names)]     # unique leaf: no file/dir collisions
        sep = [rng.pick(["\\", "/", "\\", "\\\\"]) for _ in range(k + 1)]
        prefix = rng.pick(["", "", "", "\\", "/", "C:\\", "C:", "\\\\?\\", "..\\", "../"])
        name = prefix + "".join(p_ + s_ for p_, s_ in zip(parts[:-1], sep)) + parts[-1]
        if name.count("..") - name.count("...") > 3 or name.startswith("-"):
            continue
        names.append(name)
    # absolute names pointing into the sandbox (an escape lands inside it and is detected by the snapshot)
    for i in range(4):
        names.append(rng.pick(["", "C:"]) + (root + "/abs_escape_%d.txt" % i).replace("/", "\\"))
        names.append(root + "/abs_fwd_%d.txt" % i)
    names += ["..\\escaped.txt", "..\\..\\..\\up3.txt", "a\\..\\..\\b.txt", "World\\Maps\\../../../mixed.txt", "ok\\plain.txt", "UPPER\\File.TXT"]
    # edge names (weird last components: the extractor may abort on them; only the snapshot oracle applies)
    edge = ["a\\", "a\\.", "a\\..", "..", ".", "\\", "C:", "x\\..\\..", "..\\..\\", "dir\\sub\\..\\..\\..\\e.txt", "\\\\server\\share\\f.txt"]
    namesfile = os.path.join(root, "names.hex")
    open(namesfile, "w").write("\n".join(n.encode().hex() for n in names) + "\n")
    base = os.path.join(root, "base.mpq")
    patch = os.path.join(root, "patch.mpq")
    edgea = os.path.join(root, "edge.mpq")
    r0 = subprocess.run([wvh, "fsop", "mk11", base, namesfile], stdout=subprocess.PIPE, text=True)
    half = os.path.join(root, "names2.hex")
    open(half, "w").write("\n".join(n.encode().hex() for n in names[::2]) + "\n")
    subprocess.run([wvh, "fsop", "mk11", patch, half], stdout=subprocess.DEVNULL)
    edgef = os.path.join(root, "edge.hex")
    open(edgef, "w").write("\n".join(n.encode().hex() for n in edge) + "\n")
    subprocess.run([wvh, "fsop", "mk11", edgea, edgef], stdout=subprocess.DEVNULL)
    if r0.returncode != 0 or not os.path.exists(base):
        res["oracle_fail"].append(("sandbox-archive-not-built", r0.stdout[:300]))
        return res
    # model prediction per name
    reqs = []
    for pres in (0, 1):
        for n in names:
            reqs.append("c11rel %d %s" % (pres, n.encode().hex()))
    mo = subprocess.run([wvmodel], input="\n".join(reqs) + "\n", stdout=subprocess.PIPE, text=True).stdout.split("\n")
    pred = {}
    for r, a in zip(reqs, mo):
        _, pres, hx = r.split(" ")
        pred[(int(pres), hx)] = None if a == "none" else "/".join(bytes.fromhex(c).decode("utf-8", "surrogateescape") for c in a.split("/"))
    for pres in (0, 1):
        for chain in (0, 1):
            for explicit in (0, 1):
                for skip in ((1,) if tier == "quick" and (chain or explicit) else (1, 0)):
                    shutil.rmtree(outdir, ignore_errors=True)
                    os.makedirs(outdir)
                    before = _snapshot(root)
                    cmd = [cli, "mpq", "extract", base, "-o", outdir, "--threads", "2"]
                    if pres:
                        cmd.append("-p")
                    if skip:
                        cmd.append("--skip-errors")
                    if chain:
                        cmd += ["--patch", patch]
                    if explicit:
                        cmd += ["--"] + names
                    p = subprocess.run(cmd, stdout=subprocess.PIPE, stderr=subprocess.PIPE, text=True, cwd=outdir)
                    after = _snapshot(root)
                    res["evals"] += len(names)
                    cfgname = "preserve=%d chain=%d explicit=%d skip=%d" % (pres, chain, explicit, skip)
                    changed = [q for q in after if q not in before or before[q] != after[q]]
                    outside = [q for q in changed if not (q == outdir + "/" or q.startswith(outdir + "/"))]
                    inside = sorted(q[len(outdir) + 1:] for q in changed if q.startswith(outdir + "/") and not q.endswith("/"))
                    st["c11.%s.files_written" % cfgname.replace(" ", ",")] = len(inside)
                    for q in outside:
                        res["oracle_fail"].append(("extraction-wrote-outside-output-dir", "%s: %s (exit %d)" % (cfgname, q, p.returncode)))
                    if not outside:
                        res["nontrivial"] += 1
                    # model correspondence (only when every entry was processed: --skip-errors)
                    if skip:
                        want = sorted({pred[(pres, n.encode().hex())] for n in names if pred[(pres, n.encode().hex())] is not None})
                        # an entry whose predicted path is a directory created for another entry cannot be written: tolerate subset
                        res["model_cases"] += 1
                        if not explicit:
                            want = want + ["(listfile)"]     # whole-archive extraction also writes the listfile entry itself
                        extra = [x for x in inside if x not in want]
                        if extra:
                            res["disagreements"].append((0, "extract " + cfgname, "wrote " + ", ".join(extra[:5]), "model predicts no such path"))
                        missing = [w for w in want if w not in inside and not any(i.startswith(w + "/") for i in inside) and not any(w.startswith(i + "/") for i in inside)]
                        if missing and len(res["samples"]) < 6:
                            res["samples"].append({"config": cfgname, "predicted_but_not_written": missing[:5]})
                    if len(res["samples"]) < 3:
                        res["samples"].append({"config": cfgname, "exit": p.returncode, "written": inside[:6], "names": names[:6]})
    if os.path.exists(edgea):
        for pres in (0, 1):
            for skip in (0, 1):
                shutil.rmtree(outdir, ignore_errors=True)
                os.makedirs(outdir)
                before = _snapshot(root)
                cmd = [cli, "mpq", "extract", edgea, "-o", outdir] + (["-p"] if pres else []) + (["--skip-errors"] if skip else [])
                p = subprocess.run(cmd, stdout=subprocess.PIPE, stderr=subprocess.PIPE, text=True, cwd=outdir)
                after = _snapshot(root)
                res["evals"] += len(edge)
                for q in [q for q in after if (q not in before or before[q] != after[q]) and not (q == outdir + "/" or q.startswith(outdir + "/"))]:
                    res["oracle_fail"].append(("extraction-wrote-outside-output-dir", "edge names preserve=%d skip=%d: %s" % (pres, skip, q)))
    shutil.rmtree(root, ignore_errors=True)
    return res
