"""Python-side drivers used by ./check (process-level checks and source scans)."""
import os, re, subprocess, json, time, shutil, hashlib


def scan_shared_state(ctx):
    """C09 assumption A1: the library keeps no shared mutable state a parallel task could race on.
    Lexical scan of wow-mpq/src for statics / lazily initialised globals / thread-locals (tests excluded)."""
    root = "/repo/file-formats/archives/wow-mpq/src"
    pat = re.compile(r"^\s*(pub(\([a-z]+\))?\s+)?static\s+(mut\s+)?[A-Z_]+\s*:|lazy_static!|thread_local!|OnceLock<|OnceCell<|LazyLock<|Lazy<")
    hits = []
    n = 0
    for d, _, fs in os.walk(root):
        for f in fs:
            if not f.endswith(".rs") or f == "tests.rs" or "test_utils" in d:
                continue
            n += 1
            in_tests = False
            for i, line in enumerate(open(os.path.join(d, f), errors="replace")):
                if "#[cfg(test)]" in line:
                    in_tests = True
                if in_tests:
                    continue
                if pat.search(line) and "&'static" not in line and "//" not in line.split("static")[0]:
                    # immutable plain-data statics (tables) are fine: only flag interior mutability or `mut`
                    if re.search(r"static\s+mut|Mutex|RwLock|Atomic|Cell|lazy_static|thread_local|OnceLock|LazyLock|Lazy<", line):
                        hits.append("%s:%d: %s" % (os.path.join(d, f), i + 1, line.strip()))
    res = {"evals": n, "stats": {"a1.files_scanned": n, "a1.shared_state_hits": len(hits)}, "samples": [], "oracle_fail": [],
           "disagreements": []}
    for h in hits:
        res["disagreements"].append((0, "A1 source scan: shared mutable state in wow-mpq", h, "none expected"))
    return res
