"""Python-side drivers used by ./check (process-level checks and source scans)."""
import os, re, subprocess, json, time, shutil, hashlib


def scan_shared_state(ctx):
    """C09 assumption A1: the library keeps no shared mutable state a parallel task could race on.
    Lexical scan of wow-mpq/src for statics / lazily initialised globals / thread-locals (tests excluded)."""
    root = "/repo/file-formats/archives/wow-mpq/src"
    pat = re.compile(r"^\s*(pub(\([a-z]+\))?\s+)?static\s+(mut\s+)?[A-Z_]+\s*:|lazy_static!|thread_local!|OnceLock<|OnceCell<|LazyLock<|Lazy<")
    hits = []
    n = 0
    for d, _, fs in os.walk(root):
        for f in fs:
            if not f.endswith(".rs") or f == "tests.rs" or "test_utils" in d:
                continue
            n += 1
            in_tests = False
            for i, line in enumerate(open(os.path.join(d, f), errors="replace")):
                if "#[cfg(test)]" in line:
                    in_tests = True
                if in_tests:
                    continue
                if pat.search(line) and "&'static" not in line and "//" not in line.split("static")[0]:
                    # immutable plain-data statics (tables) are fine: only flag interior mutability or `mut`
                    if re.search(r"static\s+mut|Mutex|RwLock|Atomic|Cell|lazy_static|thread_local|OnceLock|LazyLock|Lazy<", line):
                        hits.append("%s:%d: %s" % (os.path.join(d, f), i + 1, line.strip()))
    res = {"evals": n, "stats": {"a1.files_scanned": n, "a1.shared_state_hits": len(hits)}, "samples": [], "oracle_fail": [],
           "disagreements": []}
    for h in hits:
        res["disagreements"].append((0, "A1 source scan: shared mutable state in wow-mpq", h, "none expected"))
    return res


# ---------------------------------------------------------------- C12: strace trace refinement + fault enumeration
TRACED = "openat,open,creat,write,pwrite64,writev,pwritev,lseek,fsync,fdatasync,rename,renameat,renameat2,unlink,unlinkat,ftruncate,close,link,linkat,copy_file_range,sendfile"


def _parse_trace(path, sb):
    """returns list of (name, ordinal_within_name, relevant, abstract_op or None, line)"""
    fdmap, counts, out, ids = {}, {}, [], {}

    def pid_of(p):
        if p not in ids:
            ids[p] = 2 + len([k for k in ids if not k.endswith("/dest.mpq")]) if not p.endswith("/dest.mpq") else 1
        return ids[p]
    for line in open(path, errors="replace"):
        m = re.match(r"^\d+\s+(\w+)\((.*)\)\s+=\s+(-?\d+|\?)", line)
        if not m:
            continue
        name, args, ret = m.group(1), m.group(2), m.group(3)
        counts[name] = counts.get(name, 0) + 1
        k = counts[name]
        rel, op = False, None
        paths = re.findall(r'"((?:[^"\\]|\\.)*)"', args)
        if name in ("openat", "open", "creat"):
            p = paths[0] if paths else ""
            if p.startswith(sb):
                rel = True
                if ret not in ("?",) and int(ret) >= 0:
                    fdmap[int(ret)] = p
                op = ("c%d" if ("O_CREAT" in args or name == "creat" or "O_TRUNC" in args) else "o%d") % pid_of(p)
                if ("O_WRONLY" in args or "O_RDWR" in args) and "O_CREAT" not in args and "O_TRUNC" not in args and p.endswith("/dest.mpq"):
                    op = "o%d" % pid_of(p)   # destination opened read-write (MutableArchive::open); actual writes are `w`
        elif name in ("write", "pwrite64", "writev", "pwritev", "lseek", "fsync", "fdatasync", "ftruncate", "close"):
            fm = re.match(r"(\d+)", args)
            fd = int(fm.group(1)) if fm else -1
            if fd in fdmap:
                rel = True
                p = fdmap[fd]
                if name in ("write", "pwrite64", "writev", "pwritev", "ftruncate"):
                    op = "w%d" % pid_of(p)
                else:
                    op = "o%d" % pid_of(p)
                if name == "close":
                    del fdmap[fd]
        elif name in ("rename", "renameat", "renameat2", "link", "linkat"):
            ps = [p for p in paths if p.startswith(sb)]
            if len(ps) == 2:
                rel = True
                op = "m%d>%d" % (pid_of(ps[0]), pid_of(ps[1]))
        elif name in ("unlink", "unlinkat"):
            ps = [p for p in paths if p.startswith(sb)]
            if ps:
                rel = True
                op = "u%d" % pid_of(ps[0])
        out.append((name, k, rel, op, line.strip()[:160]))
    return out


def c12_driver(ctx):
    wvh, wvmodel, tier, seed = ctx["wvh"], ctx["wvmodel"], ctx["tier"], ctx["seed"]
    base = os.path.join(ctx["outdir"], "sb")
    shutil.rmtree(base, ignore_errors=True)
    os.makedirs(base)
    res = {"evals": 0, "nontrivial": 0, "stats": {}, "samples": [], "oracle_fail": [], "disagreements": [], "model_cases": 0}
    st = res["stats"]
    OLD = b"OLD-CONTENT-" * 40

    def bump(k, n=1):
        st[k] = st.get(k, 0) + n
    # destination before the build: absent, holding earlier content, or reserved as an EMPTY file (File::create / touch / a
    # named temp file) - in all three a failed or killed build leaves it exactly as it was
    configs = [("build", 1, False), ("build", 1, True), ("build", 3, True), ("build", 4, False), ("build", 1, "empty"), ("build", 3, "empty"), ("compact", 1, True), ("compactdirty", 1, True)]
    if tier == "thorough":
        configs = [("build", v, pre) for v in (1, 2, 3, 4) for pre in (False, True, "empty")] + [("compact", v, True) for v in (1, 2, 3)] + [("compactdirty", v, True) for v in (1, 2)]
    for ci, (kind, ver, pre) in enumerate(configs):
        sb = os.path.join(base, "c%d" % ci)
        dest = os.path.join(sb, "dest.mpq")

        def prepare():
            shutil.rmtree(sb, ignore_errors=True)
            os.makedirs(sb)
            if kind == "compact":
                subprocess.run([wvh, "fsop", "build", str(ver), dest, str(seed)], stdout=subprocess.DEVNULL)
                subprocess.run([wvh, "fsop", "remove", dest], stdout=subprocess.DEVNULL)
                return open(dest, "rb").read()
            if kind == "compactdirty":
                subprocess.run([wvh, "fsop", "build", str(ver), dest, str(seed)], stdout=subprocess.DEVNULL)
                return open(dest, "rb").read()
            if pre == "empty":
                open(dest, "wb").close()
                return b""
            if pre:
                open(dest, "wb").write(OLD)
                return OLD
            return None
        cmd = [wvh, "fsop", "build", str(ver), dest, str(seed)] if kind == "build" else [wvh, "fsop", kind, dest]

        def state(old):
            cur = open(dest, "rb").read() if os.path.exists(dest) else None
            if cur == old:
                return "old"
            if cur is None:
                return "vanished"
            if kind == "build":
                ok = subprocess.run([wvh, "fsop", "verify", dest, str(seed)], stdout=subprocess.PIPE, text=True)
                return "new" if ok.returncode == 0 else "partial:" + ok.stdout.strip()[:80]
            a = subprocess.run([wvh, "fsop", "verify", dest, str(seed), "2"], stdout=subprocess.PIPE, text=True)
            if a.returncode == 0:
                return "new"
            b = subprocess.run([wvh, "fsop", "verify", dest, str(seed)], stdout=subprocess.PIPE, text=True)
            return "old-flushed" if b.returncode == 0 else "partial:" + a.stdout.strip()[:80]
        old = prepare()
        tr = os.path.join(sb, "trace.txt")
        p = subprocess.run(["strace", "-f", "-qq", "-o", tr, "-e", "trace=" + TRACED] + cmd, stdout=subprocess.PIPE, text=True)
        calls = _parse_trace(tr, sb)
        rel = [c for c in calls if c[2]]
        ops = [c[3] for c in rel if c[3]]
        bump("c12.%s.v%d.relevant_calls" % (kind, ver), len(rel))
        # --- trace refinement: the real system-call trace must have the safe shape (model decides)
        req = "c12shape 1 %s" % (",".join(ops) if ops else "-")
        mo = subprocess.run([wvmodel], input=req + "\n", stdout=subprocess.PIPE, text=True).stdout.strip()
        res["model_cases"] += 1
        if mo != "safe" and kind != "compactdirty":   # (the dirty variant legitimately flushes the removal in place first)
            res["disagreements"].append((ci, req[:300], "trace of %s v%d" % (kind, ver), mo))
        if p.returncode != 0 or state(old) != "new":
            res["oracle_fail"].append(("baseline-op-failed", "%s v%d pre=%s: exit %d state %s" % (kind, ver, pre, p.returncode, state(old))))
            continue
        if len(res["samples"]) < 3:
            res["samples"].append({"config": "%s v%d preexisting=%s" % (kind, ver, pre), "abstract_trace": ",".join(ops)[:300]})
        # --- fault enumeration at every relevant call (quick: all open/rename/unlink/fsync, every 2nd write/lseek/close)
        points = []
        for i, c in enumerate(rel):
            if tier == "thorough" or c[0] not in ("write", "lseek", "close") or i % 2 == 0 or i >= len(rel) - 6:
                points.append(c)
        first_write = next((i for i, c in enumerate(rel) if c[0] in ("write", "pwrite64")), 0)
        for c in points:
            for mode in ("error=ENOSPC", "signal=SIGKILL"):
                if c[0] == "close" and mode.startswith("error"):
                    continue
                old = prepare()
                inj = "inject=%s:%s:when=%d" % (c[0], mode, c[1])
                r = subprocess.run(["strace", "-f", "-qq", "-o", "/dev/null", "-e", "trace=" + c[0], "-e", inj] + cmd,
                                   stdout=subprocess.PIPE, stderr=subprocess.PIPE, text=True)
                s = state(old)
                res["evals"] += 1
                bump("c12.%s.%s" % (mode.split("=")[0], s.split(":")[0]))
                what = "%s v%d preexisting=%s, %s at %s #%d (%s): exit %d, destination %s" % (kind, ver, pre, mode, c[0], c[1], c[4][:70], r.returncode, s)
                if rel.index(c) > first_write:
                    res["nontrivial"] += 1
                ok_states = ("old", "new") if kind == "build" else ("old", "new", "old-flushed")
                if s not in ok_states:
                    res["oracle_fail"].append(("dest-partial-after-" + ("kill" if "KILL" in mode else "io-error"), what))
                elif mode.startswith("error") and r.returncode == 0 and s != "new":
                    res["oracle_fail"].append(("reported-ok-but-destination-not-new", what))
                elif mode.startswith("error") and r.returncode == 1 and s == "new" and kind == "build":
                    res["oracle_fail"].append(("reported-error-but-destination-replaced", what))
        # --- write-size limits (RLIMIT_FSIZE with SIGXFSZ ignored: short writes, then EFBIG)
        for blocks in ([1, 2, 8, 30] if tier == "quick" else [1, 2, 3, 5, 8, 13, 21, 30, 40]):
            old = prepare()
            sh = "trap '' XFSZ; ulimit -f %d; exec \"$@\"" % blocks
            r = subprocess.run(["sh", "-c", sh, "sh"] + cmd, stdout=subprocess.PIPE, stderr=subprocess.PIPE, text=True)
            s = state(old)
            res["evals"] += 1
            res["nontrivial"] += 1
            bump("c12.fsize_limit.%s" % s.split(":")[0])
            what = "%s v%d preexisting=%s, file size limit %d bytes: exit %d, destination %s" % (kind, ver, pre, blocks * 512, r.returncode, s)
            ok_states = ("old", "new") if kind == "build" else ("old", "new", "old-flushed")
            if s not in ok_states:
                res["oracle_fail"].append(("dest-partial-under-write-limit", what))
            elif r.returncode == 0 and s != "new":
                res["oracle_fail"].append(("reported-ok-but-destination-not-new", what))
    shutil.rmtree(base, ignore_errors=True)
    return res


# ---------------------------------------------------------------- CLI build shared by C11 / C20
CLI_TARGET = "/verif/.build/cli-target"


def build_cli():
    env = dict(os.environ, CARGO_NET_OFFLINE="true", CARGO_TARGET_DIR=CLI_TARGET)
    p = subprocess.run(["cargo", "build", "-p", "warcraft-rs", "--offline", "--quiet"], cwd="/repo", env=env,
                       stdout=subprocess.PIPE, stderr=subprocess.STDOUT, text=True)
    return p.returncode == 0, p.stdout, os.path.join(CLI_TARGET, "debug", "warcraft-rs")


def _snapshot(root):
    snap = {}
    for d, dirs, files in os.walk(root):
        for f in files:
            p = os.path.join(d, f)
            try:
                stt = os.lstat(p)
                h = hashlib.sha1(open(p, "rb").read()).hexdigest() if not os.path.islink(p) else os.readlink(p)
                snap[p] = (stt.st_size, stt.st_mtime_ns, h)
            except OSError:
                pass
        for dd in dirs:
            snap[os.path.join(d, dd) + "/"] = ("dir",)
    return snap


class _R:
    def __init__(self, seed):
        self.s = (seed ^ 0x9E3779B97F4A7C15) & (2**64 - 1)

    def next(self):
        self.s = (self.s + 0x9E3779B97F4A7C15) & (2**64 - 1)
        z = self.s
        z = ((z ^ (z >> 30)) * 0xBF58476D1CE4E5B9) & (2**64 - 1)
        z = ((z ^ (z >> 27)) * 0x94D049BB133111EB) & (2**64 - 1)
        return z ^ (z >> 31)

    def below(self, n):
        return self.next() % n if n else 0

    def pick(self, xs):
        return xs[self.below(len(xs))]


def c11_driver(ctx):
    """run the freshly built CLI on archives with hostile entry names inside a deep sandbox; snapshot before/after"""
    res = {"evals": 0, "nontrivial": 0, "stats": {}, "samples": [], "oracle_fail": [], "disagreements": [], "model_cases": 0}
    st = res["stats"]
    ok, out, cli = build_cli()
    if not ok:
        res["oracle_fail"].append(("cli-does-not-build", out[-800:]))
        return res
    wvh, wvmodel, tier, seed = ctx["wvh"], ctx["wvmodel"], ctx["tier"], ctx["seed"]
    rng = _R(seed)
    root = os.path.join(ctx["outdir"], "sb11")
    shutil.rmtree(root, ignore_errors=True)
    outdir = os.path.join(root, "l1", "l2", "l3", "l4", "out")
    os.makedirs(outdir)
    for canary in ("l1/canary.txt", "l1/l2/l3/l4/sibling.txt", "top.txt"):
        open(os.path.join(root, canary), "w").write("canary")
    dirs = ["..", ".", "", "a", "Dir", "x" * 120, "\u00fc\u4e16", "C:", "b.dat", "...", " ", "con"]
    names, edge = [], []
    n_names = 90 if tier == "quick" else 400
    while len(names) < n_names:
        k = rng.below(5)
        parts = [rng.pick(dirs) for _ in range(k)] + ["f%d.txt" % len(names)]     # unique leaf: no file/dir collisions
        sep = [rng.pick(["\\", "/", "\\", "\\\\"]) for _ in range(k + 1)]
        prefix = rng.pick(["", "", "", "\\", "/", "C:\\", "C:", "\\\\?\\", "..\\", "../"])
        name = prefix + "".join(p_ + s_ for p_, s_ in zip(parts[:-1], sep)) + parts[-1]
        if name.count("..") - name.count("...") > 3 or name.startswith("-"):
            continue
        names.append(name)
    # absolute names pointing into the sandbox (an escape lands inside it and is detected by the snapshot)
    for i in range(4):
        names.append(rng.pick(["", "C:"]) + (root + "/abs_escape_%d.txt" % i).replace("/", "\\"))
        names.append(root + "/abs_fwd_%d.txt" % i)
    names += ["..\\escaped.txt", "..\\..\\..\\up3.txt", "a\\..\\..\\b.txt", "World\\Maps\\../../../mixed.txt", "ok\\plain.txt", "UPPER\\File.TXT"]
    # entries sharing one base name, an ordinary one first and traversal ones after it (a flattened extraction meets the
    # same leaf again and must not fall back to the entry's own path), and directories followed by more ".." than directories
    names += ["docs\\readme.txt", "..\\x\\readme.txt", "..\\..\\readme.txt", "a\\..\\..\\..\\readme.txt", "sub\\readme.txt", "\\readme.txt",
              "a\\b\\..\\..\\..\\deep.txt", "data\\..\\..\\sibling\\deep.txt"]
    # edge names (weird last components: the extractor may abort on them; only the snapshot oracle applies)
    edge = ["a\\", "a\\.", "a\\..", "..", ".", "\\", "C:", "x\\..\\..", "..\\..\\", "dir\\sub\\..\\..\\..\\e.txt", "\\\\server\\share\\f.txt"]
    namesfile = os.path.join(root, "names.hex")
    open(namesfile, "w").write("\n".join(n.encode().hex() for n in names) + "\n")
    base = os.path.join(root, "base.mpq")
    patch = os.path.join(root, "patch.mpq")
    edgea = os.path.join(root, "edge.mpq")
    r0 = subprocess.run([wvh, "fsop", "mk11", base, namesfile], stdout=subprocess.PIPE, text=True)
    half = os.path.join(root, "names2.hex")
    open(half, "w").write("\n".join(n.encode().hex() for n in names[::2]) + "\n")
    subprocess.run([wvh, "fsop", "mk11", patch, half], stdout=subprocess.DEVNULL)
    edgef = os.path.join(root, "edge.hex")
    open(edgef, "w").write("\n".join(n.encode().hex() for n in edge) + "\n")
    subprocess.run([wvh, "fsop", "mk11", edgea, edgef], stdout=subprocess.DEVNULL)
    if r0.returncode != 0 or not os.path.exists(base):
        res["oracle_fail"].append(("sandbox-archive-not-built", r0.stdout[:300]))
        return res
    # model prediction per name
    reqs = []
    for pres in (0, 1):
        for n in names:
            reqs.append("c11rel %d %s" % (pres, n.encode().hex()))
    mo = subprocess.run([wvmodel], input="\n".join(reqs) + "\n", stdout=subprocess.PIPE, text=True).stdout.split("\n")
    pred = {}
    for r, a in zip(reqs, mo):
        _, pres, hx = r.split(" ")
        pred[(int(pres), hx)] = None if a == "none" else "/".join(bytes.fromhex(c).decode("utf-8", "surrogateescape") for c in a.split("/"))
    for pres in (0, 1):
        for chain in (0, 1):
            for explicit in (0, 1):
                for skip in ((1,) if tier == "quick" and (chain or explicit) else (1, 0)):
                    shutil.rmtree(outdir, ignore_errors=True)
                    os.makedirs(outdir)
                    before = _snapshot(root)
                    cmd = [cli, "mpq", "extract", base, "-o", outdir, "--threads", "2"]
                    if pres:
                        cmd.append("-p")
                    if skip:
                        cmd.append("--skip-errors")
                    if chain:
                        cmd += ["--patch", patch]
                    if explicit:
                        cmd += ["--"] + names
                    p = subprocess.run(cmd, stdout=subprocess.PIPE, stderr=subprocess.PIPE, text=True, cwd=outdir)
                    after = _snapshot(root)
                    res["evals"] += len(names)
                    cfgname = "preserve=%d chain=%d explicit=%d skip=%d" % (pres, chain, explicit, skip)
                    changed = [q for q in after if q not in before or before[q] != after[q]]
                    outside = [q for q in changed if not (q == outdir + "/" or q.startswith(outdir + "/"))]
                    inside = sorted(q[len(outdir) + 1:] for q in changed if q.startswith(outdir + "/") and not q.endswith("/"))
                    st["c11.%s.files_written" % cfgname.replace(" ", ",")] = len(inside)
                    for q in outside:
                        res["oracle_fail"].append(("extraction-wrote-outside-output-dir", "%s: %s (exit %d)" % (cfgname, q, p.returncode)))
                    if not outside:
                        res["nontrivial"] += 1
                    # model correspondence (only when every entry was processed: --skip-errors)
                    if skip:
                        want = sorted({pred[(pres, n.encode().hex())] for n in names if pred[(pres, n.encode().hex())] is not None})
                        # an entry whose predicted path is a directory created for another entry cannot be written: tolerate subset
                        res["model_cases"] += 1
                        if not explicit:
                            want = want + ["(listfile)"]     # whole-archive extraction also writes the listfile entry itself
                        extra = [x for x in inside if x not in want]
                        if extra:
                            res["disagreements"].append((0, "extract " + cfgname, "wrote " + ", ".join(extra[:5]), "model predicts no such path"))
                        missing = [w for w in want if w not in inside and not any(i.startswith(w + "/") for i in inside) and not any(w.startswith(i + "/") for i in inside)]
                        if missing and len(res["samples"]) < 6:
                            res["samples"].append({"config": cfgname, "predicted_but_not_written": missing[:5]})
                    if len(res["samples"]) < 3:
                        res["samples"].append({"config": cfgname, "exit": p.returncode, "written": inside[:6], "names": names[:6]})
    if os.path.exists(edgea):
        for pres in (0, 1):
            for skip in (0, 1):
                shutil.rmtree(outdir, ignore_errors=True)
                os.makedirs(outdir)
                before = _snapshot(root)
                cmd = [cli, "mpq", "extract", edgea, "-o", outdir] + (["-p"] if pres else []) + (["--skip-errors"] if skip else [])
                p = subprocess.run(cmd, stdout=subprocess.PIPE, stderr=subprocess.PIPE, text=True, cwd=outdir)
                after = _snapshot(root)
                res["evals"] += len(edge)
                for q in [q for q in after if (q not in before or before[q] != after[q]) and not (q == outdir + "/" or q.startswith(outdir + "/"))]:
                    res["oracle_fail"].append(("extraction-wrote-outside-output-dir", "edge names preserve=%d skip=%d: %s" % (pres, skip, q)))
    shutil.rmtree(root, ignore_errors=True)
    return res


# ---------------------------------------------------------------- C20: the CLI's exit status and outputs
def c20_driver(ctx):
    res = {"evals": 0, "nontrivial": 0, "stats": {}, "samples": [], "oracle_fail": [], "disagreements": [], "model_cases": 0}
    st = res["stats"]

    def bump(k, n=1):
        st[k] = st.get(k, 0) + n
    ok, out, cli = build_cli()
    if not ok:
        res["oracle_fail"].append(("cli-does-not-build", out[-800:]))
        return res
    wvh, wvmodel, tier, seed = ctx["wvh"], ctx["wvmodel"], ctx["tier"], ctx["seed"]
    rng = _R(seed)
    root = os.path.join(ctx["outdir"], "sb20")
    shutil.rmtree(root, ignore_errors=True)
    os.makedirs(root)

    def run(args, cwd=None):
        p = subprocess.run([cli] + args, stdout=subprocess.PIPE, stderr=subprocess.PIPE, text=True, cwd=cwd or root, timeout=120)
        return p.returncode, p.stdout, p.stderr
    model_reqs = []   # (request, implementation answer)

    # ---- A. create -> list/info -> extract
    versions = ["v1", "v2", "v3", "v4"]
    comps = ["none", "zlib", "bzip2", "lzma"]
    n_sets = 6 if tier == "quick" else 40
    for si in range(n_sets):
        sdir = os.path.join(root, "set%d" % si)
        src = os.path.join(sdir, "src")
        os.makedirs(src)
        files = {}
        nfiles = 7 if si == 0 else 1 + rng.below(7)     # the first set uses every kind of name (spaces, parentheses, no extension)
        for fi in range(nfiles):
            kind = rng.below(6)
            size = [0, 1, 5, 511, 4096, 20000][kind] if rng.below(3) else rng.below(9000)
            cls = rng.below(3)
            if cls == 0:
                data = bytes((rng.next() & 0xFF) for _ in range(size))          # incompressible
            elif cls == 1:
                data = bytes([65 + (j // 13 + fi) % 7 for j in range(size)])     # compressible
            else:
                data = b"\0" * size
            name = ["a.txt", "B.DAT", "c c.bin", "d-%d.x" % fi, "(1) notes.txt", "e.tar.gz", "f"][fi % 7]
            open(os.path.join(src, name), "wb").write(data)
            files[name] = (data, cls)
        ver, comp = versions[si % 4], comps[(si // 2) % 4]
        arch = os.path.join(sdir, "t.mpq")
        add = []
        for n in files:
            add += ["-a", os.path.join(src, n)]
        rc, so, se = run(["mpq", "create", arch, "--version", ver, "--compression", comp, "--with-listfile"] + add)
        res["evals"] += 1
        bump("c20.create.%s.%s.exit%d" % (ver, comp, rc))
        if rc != 0:
            # a create that cannot do what was asked must not leave an archive claiming success; nothing further to check
            continue
        # list agrees with the library
        rc, so, se = run(["mpq", "list", arch])
        lib = subprocess.run([wvh, "fsop", "list", arch], stdout=subprocess.PIPE, text=True)
        libnames = sorted(l.split("\t")[0] for l in lib.stdout.strip().split("\n") if l and not l.startswith("ERR"))
        clinames = sorted(l.strip() for l in so.split("\n") if l.strip() and not l.startswith(("Total", "Files", "---", "Archive", "Reading", "Found", "Parsing")))
        res["evals"] += 1
        if rc != 0 or not all(n in clinames for n in libnames):
            res["oracle_fail"].append(("list-disagrees-with-library", "set%d %s %s: exit %d cli=%s lib=%s" % (si, ver, comp, rc, clinames[:8], libnames[:8])))
        rc, so, se = run(["mpq", "info", arch])
        res["evals"] += 1
        if rc != 0:
            res["oracle_fail"].append(("info-fails-on-valid-archive", "set%d %s %s: %s" % (si, ver, comp, se[-200:])))
        # extract: whole archive / explicit names / with a missing name, with and without skip-errors
        for mode in ("all", "explicit", "missing", "missing-skip"):
            outd = os.path.join(sdir, "out-" + mode)
            os.makedirs(outd)
            args = ["mpq", "extract", arch, "-o", outd, "--threads", str(1 + rng.below(4))]
            want = dict(files)
            if mode == "explicit":
                pickn = list(files)[: max(1, len(files) // 2)]
                args += ["--"] + pickn
                want = {n: files[n] for n in pickn}
            if mode.startswith("missing"):
                args += (["--skip-errors"] if mode.endswith("skip") else []) + ["--"] + list(files)[:2] + ["no-such-file.bin"]
                want = {n: files[n] for n in list(files)[:2]}
            rc, so, se = run(args)
            res["evals"] += 1
            failed = 1 if mode.startswith("missing") else 0
            model_reqs.append(("c20exit extract %d 1 %d %d 0" % (1 if mode.endswith("skip") else 0, len(want) + failed, failed), str(rc)))
            bump("c20.extract.%s.exit%d" % (mode, rc))
            for n, (data, cls) in want.items():
                pth = os.path.join(outd, n)
                got = open(pth, "rb").read() if os.path.isfile(pth) else None
                if mode == "missing" and rc != 0:
                    continue       # the call failed as a whole and said so
                if rc == 0 and got != data:
                    multi_raw = len(data) > 4096 and (cls == 0 or comp == "none")
                    tag = "create-extract-differs-multisector-raw" if multi_raw else "exit0-but-output-incomplete-or-different"
                    res["oracle_fail"].append((tag, "set%d %s %s mode=%s: %s (%d bytes, class %d) -> %s" % (
                        si, ver, comp, mode, n, len(data), cls, "missing" if got is None else "%d bytes differ" % len(got))))
                elif rc == 0:
                    res["nontrivial"] += 1
            if mode == "missing" and rc == 0:
                res["oracle_fail"].append(("missing-name-but-exit0", "set%d %s %s: explicit missing name without --skip-errors exited 0" % (si, ver, comp)))
        # second generation over an existing output directory: same names, same lengths, different bytes. An exit-0 extract
        # must leave the CURRENT archive's bytes there (stale files of the right length are not "complete output")
        gen2 = {n: (bytes((b ^ 0xFF) for b in d), c) for n, (d, c) in files.items()}
        src2 = os.path.join(sdir, "src2")
        os.makedirs(src2)
        add2 = []
        for n, (d, c) in gen2.items():
            open(os.path.join(src2, n), "wb").write(d)
            add2 += ["-a", os.path.join(src2, n)]
        arch2 = os.path.join(sdir, "t2.mpq")
        rc, so, se = run(["mpq", "create", arch2, "--version", ver, "--compression", comp, "--with-listfile"] + add2)
        if rc == 0:
            outd = os.path.join(sdir, "out-all")
            rc, so, se = run(["mpq", "extract", arch2, "-o", outd, "--threads", str(1 + rng.below(4))])
            res["evals"] += 1
            bump("c20.extract.over-existing.exit%d" % rc)
            model_reqs.append(("c20exit extract 0 1 %d 0 0" % len(gen2), str(rc)))
            for n, (data, cls) in gen2.items():
                pth = os.path.join(outd, n)
                got = open(pth, "rb").read() if os.path.isfile(pth) else None
                if rc == 0 and got != data:
                    multi_raw = len(data) > 4096 and (cls == 0 or comp == "none")
                    tag = "create-extract-differs-multisector-raw" if multi_raw else "exit0-but-output-incomplete-or-different"
                    res["oracle_fail"].append((tag, "set%d %s %s re-extract over existing output: %s (%d bytes) -> %s" % (
                        si, ver, comp, n, len(data), "missing" if got is None else ("stale first-generation bytes" if got == files[n][0] else "%d bytes differ" % len(got)))))
                elif rc == 0 and len(data) > 0:
                    res["nontrivial"] += 1
        # validate: intact archive -> 0; with a file's data destroyed -> non-zero
        rc, so, se = run(["mpq", "validate", arch])
        res["evals"] += 1
        model_reqs.append(("c20exit validate 0 1 %d 0 0" % len(files), str(rc)))
        raw = bytearray(open(arch, "rb").read())
        big = [n for n, (d, c) in files.items() if len(d) >= 511 and c == 1 and comp != "none"]
        if big and len(raw) > 600:
            # overwrite the compressed payload region (after the header, before the tables) with junk
            hdr = {"v1": 32, "v2": 44, "v3": 68, "v4": 208}[ver]
            for i in range(hdr, min(len(raw) - 64, hdr + max(400, (len(raw) * 6) // 10))):
                if i % 3:
                    raw[i] ^= 0x5A
            bad = os.path.join(sdir, "bad.mpq")
            open(bad, "wb").write(raw)
            rc2, so2, se2 = run(["mpq", "validate", bad])
            res["evals"] += 1
            libv = subprocess.run([wvh, "fsop", "verify", bad, "0"], stdout=subprocess.PIPE, text=True)
            said_failed = "\u2717" in so2 or "validation failed" in so2.lower()
            bump("c20.validate.corrupt.exit%d" % rc2)
            if said_failed and rc2 == 0:
                res["oracle_fail"].append(("validate-reports-failure-but-exit0", "set%d %s %s: stdout says failed, exit 0: %s" % (si, ver, comp, so2.strip()[-120:])))
    # ---- A1b. an archive with many members (more than any internal batch): one member damaged at a time, wherever it sits
    #           in the file list, makes `mpq validate` and a whole-archive extract exit non-zero
    bdir = os.path.join(root, "many")
    os.makedirs(os.path.join(bdir, "in"))
    nmany = 150 if tier == "quick" else 333
    addm = []
    for i in range(1, nmany + 1):
        f = os.path.join(bdir, "in", "file_%03d.txt" % i)
        open(f, "w").write("".join("file %d line %d - some compressible payload text\n" % (i, j) for j in range(200)))
        addm += ["--add", f]
    archm = os.path.join(bdir, "a.mpq")
    rc, so, se = run(["mpq", "create", archm, "--compression", "zlib", "--with-listfile"] + addm)
    res["evals"] += 1
    if rc == 0:
        rc, so, se = run(["mpq", "validate", archm])
        res["evals"] += 1
        model_reqs.append(("c20exit validate 0 1 %d 0 0" % nmany, str(min(rc, 1))))
        if rc != 0:
            res["oracle_fail"].append(("intact-archive-fails-validation", "%d-member archive: validate exit %d" % (nmany, rc)))
        rawm = open(archm, "rb").read()
        victims = [1, 10, nmany // 2, nmany - 70, nmany] if tier == "quick" else [1, 2, 10, 63, 64, 65, 128, 129, nmany // 2, nmany - 70, nmany - 1, nmany]
        for v in victims:
            vname = "file_%03d.txt" % v
            rc, so, se = run(["mpq", "info", archm, vname])
            m = re.search(r"File position: 0x([0-9A-Fa-f]+)", so)
            if not m:
                bump("c20.many.position_unknown")
                continue
            pos = int(m.group(1), 16)
            badm = os.path.join(bdir, "bad.mpq")
            open(badm, "wb").write(rawm[:pos] + b"\xff" * 64 + rawm[pos + 64:])
            libbad = subprocess.run([wvh, "fsop", "readable", badm, vname], stdout=subprocess.PIPE, text=True).returncode != 0
            if not libbad:
                bump("c20.many.damage_ineffective")
                continue
            rc, so, se = run(["mpq", "validate", badm])
            res["evals"] += 1
            bump("c20.many.validate.victim%s.exit%d" % ("-last-batch" if v > nmany - 64 else "-earlier", min(rc, 1)))
            model_reqs.append(("c20exit validate 0 1 %d 1 0" % nmany, str(min(rc, 1))))
            if rc == 0:
                res["oracle_fail"].append(("unreadable-member-but-validate-exit0", "%d-member archive, %s damaged (library cannot read it): mpq validate exit 0" % (nmany, vname)))
            outm = os.path.join(bdir, "out-%d" % v)
            rc, so, se = run(["mpq", "extract", badm, "-o", outm])
            res["evals"] += 1
            model_reqs.append(("c20exit extract 0 1 %d 1 0" % nmany, str(min(rc, 1))))
            if rc == 0:
                res["oracle_fail"].append(("exit0-but-output-incomplete-or-different", "%d-member archive, %s damaged: whole-archive extract exit 0" % (nmany, vname)))
            shutil.rmtree(outm, ignore_errors=True)
    # ---- A2. --preserve-paths: nested names are recreated, an entry that cannot be placed inside the output directory is a
    #          failed extraction (non-zero exit unless --skip-errors), and nothing is written outside
    for pi, ver in enumerate(versions if tier != "quick" else ["v1", "v3"]):
        pdir = os.path.join(root, "pp%d" % pi)
        src = os.path.join(pdir, "src")
        os.makedirs(src)
        pfiles = {"ok.txt": b"ordinary file\n" * (1 + pi), "sub\\inner.bin": bytes(range(200)) * (pi + 1), "..\\escape.txt": b"would leave the output directory\n"}
        addp = []
        for n, d in pfiles.items():
            open(os.path.join(src, n), "wb").write(d)
            addp += ["-a", os.path.join(src, n)]
        arch = os.path.join(pdir, "p.mpq")
        rc, so, se = run(["mpq", "create", arch, "--version", ver, "--with-listfile"] + addp)
        res["evals"] += 1
        if rc != 0:
            bump("c20.preserve.create_failed")
            continue
        def produced(outd, n, d):
            cands = [os.path.join(outd, *n.split("\\")), os.path.join(outd, n), os.path.join(outd, n.split("\\")[-1])]
            return any(os.path.isfile(c) and open(c, "rb").read() == d for c in cands if os.path.realpath(c).startswith(os.path.realpath(outd) + os.sep))
        for mode, extra, names in (("preserve", ["--preserve-paths"], []), ("preserve-explicit", ["--preserve-paths", "--threads", "1"], ["ok.txt", "..\\escape.txt"]),
                                   ("preserve-skip", ["--preserve-paths", "--skip-errors"], []), ("flat", [], list(pfiles))):
            outer = os.path.join(pdir, "outer-" + mode)
            outd = os.path.join(outer, "out")
            os.makedirs(outd)
            rc, so, se = run(["mpq", "extract", arch, "-o", outd] + extra + (["--"] + names if names else []))
            res["evals"] += 1
            bump("c20.extract.%s.exit%d" % (mode, rc))
            want = {n: pfiles[n] for n in (names or pfiles)}
            missing = [n for n, d in want.items() if not produced(outd, n, d)]
            if os.path.exists(os.path.join(outer, "escape.txt")):
                res["oracle_fail"].append(("extract-writes-outside-output-directory", "%s %s: ../escape.txt created" % (ver, mode)))
            if rc == 0 and missing and "--skip-errors" not in extra:
                res["oracle_fail"].append(("exit0-but-output-incomplete-or-different", "%s extract %s: exit 0 but not produced: %s" % (ver, " ".join(extra), missing)))
            if "--skip-errors" in extra:
                if rc != 0:
                    res["oracle_fail"].append(("skip-errors-but-nonzero-exit", "%s extract %s: exit %d" % (ver, " ".join(extra), rc)))
                for n in ("ok.txt", "sub\\inner.bin"):
                    if not produced(outd, n, pfiles[n]):
                        res["oracle_fail"].append(("exit0-but-output-incomplete-or-different", "%s extract %s: %s not produced" % (ver, " ".join(extra), n)))
            if mode == "flat" and rc == 0 and not missing:
                res["nontrivial"] += 1
            model_reqs.append(("c20exit extract %d 1 %d %d 0" % (1 if "--skip-errors" in extra else 0, len(want), len(missing)), str(min(rc, 1))))
    # ---- B. every format family: valid / truncated / corrupted / empty / missing input
    for kind, cmds in (("dbc", [["dbc", "info"], ["dbc", "list"], ["dbc", "analyze"]]),
                       ("wdt", [["wdt", "info"], ["wdt", "validate"], ["wdt", "tiles"], ["wdt", "tree"]]),
                       ("wdl", [["wdl", "info"], ["wdl", "validate"], ["wdl", "tree"]]),
                       ("mpq", [["mpq", "info"], ["mpq", "list"], ["mpq", "validate"], ["mpq", "tree"]]),
                       ("adt", [["adt", "info"], ["adt", "validate"], ["adt", "tree"]]),
                       ("wmo", [["wmo", "info"], ["wmo", "validate"], ["wmo", "tree"]]),
                       ("m2", [["m2", "info"], ["m2", "validate"], ["m2", "tree"]]),
                       ("blp", [["blp", "info"], ["blp", "validate"]])):
        good = os.path.join(root, "good." + kind)
        if kind == "mpq":
            shutil.copy(os.path.join(root, "set0", "t.mpq"), good) if os.path.exists(os.path.join(root, "set0", "t.mpq")) else None
        else:
            subprocess.run([wvh, "fsop", "mkfile", kind, good])
        if not os.path.exists(good):
            continue
        data = open(good, "rb").read()
        variants = {"valid": data, "empty": b"", "half": data[: len(data) // 2], "header-only": data[:12],
                    "magic-zeroed": b"\0\0\0\0" + data[4:], "tail-cut": data[:-3],
                    # the signature and version survive, every count and offset behind them is zero: loads, holds nothing
                    "hollow": data[:8] + b"\0" * max(0, len(data) - 8)}
        # reporting flags of the family's validate sub-command (they change what is printed, never the verdict)
        rflags = []
        if any(c[1] == "validate" for c in cmds):
            _, helptxt, helperr = run([kind, "validate", "--help"])
            for fl in ("--warnings", "--detailed", "--verbose"):
                if fl in helptxt + helperr:
                    rflags.append([fl])
            if len(rflags) >= 2:
                rflags.append([f[0] for f in rflags])
        for vn, vb in variants.items():
            pth = os.path.join(root, "in-%s.%s" % (vn, kind))
            open(pth, "wb").write(vb)
            lib = subprocess.run([wvh, "fsop", "parse", kind, pth], stdout=subprocess.PIPE, text=True).returncode == 0
            for c in cmds:
                rc, so, se = run(c + [pth])
                res["evals"] += 1
                # the global quiet flag changes what is printed, never the verdict
                if vn != "valid":
                    for qargs in (["-q"] + c + [pth], c + [pth, "--quiet"]):
                        rq, _, _ = run(qargs)
                        res["evals"] += 1
                        if min(rq, 1) != min(rc, 1):
                            res["oracle_fail"].append(("quiet-flag-changes-exit-status", "%s on %s input: exit %d without -q, %d with (%s)" % (" ".join(c), vn, rc, rq, " ".join(qargs[:2]))))
                if c[1] == "validate" and rc != 0:
                    for fl in rflags:
                        rf, sof, _ = run(c + [pth] + fl)
                        res["evals"] += 1
                        bump("c20.%s.validate.%s.with%s.exit%d" % (kind, vn, "".join(fl), min(rf, 1)))
                        if rf == 0:
                            res["oracle_fail"].append(("reporting-flag-turns-failure-into-success", "%s validate on %s input: exit %d, with %s: exit 0" % (kind, vn, rc, " ".join(fl))))
                bump("c20.%s.%s.%s.exit%d" % (kind, c[1], vn, min(rc, 1) if rc >= 0 else 2))
                model_reqs.append(("c20exit other 0 %d 0 0 0" % (1 if lib else 0), str(min(rc, 1)))) if not (lib and rc != 0) else None
                if not lib and rc == 0:
                    res["oracle_fail"].append(("malformed-input-but-exit0", "%s %s on %s input (library rejects it): exit 0" % (c[0], c[1], vn)))
                if rc < 0 or rc > 2:
                    res["oracle_fail"].append(("cli-crashed", "%s %s on %s input: exit %d %s" % (c[0], c[1], vn, rc, se[-150:])))
        for c in cmds:
            rc, so, se = run(c + [os.path.join(root, "does-not-exist." + kind)])
            res["evals"] += 1
            if rc == 0:
                res["oracle_fail"].append(("missing-input-but-exit0", "%s %s" % (c[0], c[1])))
    # ---- C. BLP family through the tool's own converter: info / validate on every (size, format) combination
    import zlib, struct

    def png(w, h):
        rowsb = b"".join(b"\0" + bytes([(x * 37 + y * 11) % 256, (x * 5) % 256, (y * 9) % 256, 255 if (x + y) % 3 else 0]) * 1 for y in range(h) for x in range(1))
        raw = b"".join(b"\0" + b"".join(bytes([(x * 37 + y * 11) % 256, (x * 5) % 256, (y * 9) % 256, 255 if (x + y) % 3 else 0]) for x in range(w)) for y in range(h))

        def chunk(t, d):
            c = struct.pack(">I", len(d)) + t + d
            return c + struct.pack(">I", zlib.crc32(t + d) & 0xFFFFFFFF)
        return b"\x89PNG\r\n\x1a\n" + chunk(b"IHDR", struct.pack(">IIBBBBB", w, h, 8, 6, 0, 0, 0)) + chunk(b"IDAT", zlib.compress(raw)) + chunk(b"IEND", b"")
    sizes = [(1, 1), (2, 2), (6, 6), (6, 20), (8, 8), (16, 4), (5, 7), (64, 64)] if tier == "quick" else \
            [(w, h) for w in (1, 2, 3, 4, 6, 8, 12, 16, 64) for h in (1, 2, 4, 5, 20, 64)]
    for (w, h) in sizes:
        pp = os.path.join(root, "i%dx%d.png" % (w, h))
        open(pp, "wb").write(png(w, h))
        for ver, fmt in (("blp1", "raw1"), ("blp1", "jpeg"), ("blp2", "raw1"), ("blp2", "raw3"), ("blp2", "dxt1"), ("blp2", "dxt3"), ("blp2", "dxt5")):
            for strict in ([], ["--strict"]):
                outb = os.path.join(root, "o%dx%d-%s-%s.blp" % (w, h, ver, fmt))
                rc, so, se = run(["blp", "convert", pp, outb, "--blp-version", ver, "--blp-format", fmt])
                res["evals"] += 1
                bump("c20.blp.convert.%s.%s.exit%d" % (ver, fmt, min(rc, 1)))
                if rc == 0 and not os.path.isfile(outb):
                    res["oracle_fail"].append(("exit0-but-output-incomplete-or-different", "blp convert %dx%d %s %s: exit 0, no output file" % (w, h, ver, fmt)))
                if rc != 0 or not os.path.isfile(outb):
                    continue
                rc, so, se = run(["blp", "validate", outb] + strict)
                res["evals"] += 1
                has_err = "Errors:" in so or "\u2717" in so
                bump("c20.blp.validate.%s.exit%d" % ("errors" if has_err else "clean", min(rc, 1)))
                model_reqs.append(("c20exit validate 0 1 1 %d 0" % (1 if has_err else 0), str(min(rc, 1))))
                if has_err and rc == 0:
                    res["oracle_fail"].append(("validate-reports-failure-but-exit0", "blp validate %s on %dx%d %s %s: prints errors, exits 0" % (" ".join(strict), w, h, ver, fmt)))
                rc, so, se = run(["blp", "info", outb])
                res["evals"] += 1
                if rc != 0:
                    res["oracle_fail"].append(("info-fails-on-valid-archive", "blp info on converter output %dx%d %s %s: exit %d" % (w, h, ver, fmt, rc)))
    # ---- model correspondence for the exit-status table
    if model_reqs:
        mo = subprocess.run([wvmodel], input="\n".join(r for r, _ in model_reqs) + "\n", stdout=subprocess.PIPE, text=True).stdout.split("\n")
        for (r, a), m in zip(model_reqs, mo):
            res["model_cases"] += 1
            if a != m:
                res["disagreements"].append((0, r, a, m))
    res["samples"].append({"example_requests": [r for r, _ in model_reqs[:4]]})
    shutil.rmtree(root, ignore_errors=True)
    return res


# ---------------------------------------------------------------- C19: lock-order graph of the C API (lexical scan)
LOCKS = ["NEXT_HANDLE", "ARCHIVES", "FILES", "FIND_HANDLES"]


def _functions(src):
    """(name, body) for every fn in the file, by brace matching (strings/comments stripped first)"""
    src = re.sub(r"//[^\n]*", "", src)
    src = re.sub(r'"(?:[^"\\]|\\.)*"', '""', src)
    out = []
    for m in re.finditer(r"\bfn\s+(\w+)\s*(?:<[^>]*>)?\s*\(", src):
        i = src.find("{", m.end())
        semi = src.find(";", m.end())
        if i < 0 or (0 <= semi < i):
            continue
        depth, j = 0, i
        while j < len(src):
            if src[j] == "{":
                depth += 1
            elif src[j] == "}":
                depth -= 1
                if depth == 0:
                    break
            j += 1
        out.append((m.group(1), src[i + 1:j]))
    return out


def lock_graph(path="/repo/ffi/storm-ffi/src/lib.rs"):
    src = open(path, errors="replace").read()
    fns = _functions(src)
    names = [n for n, _ in fns]
    lockre = re.compile(r"\b(%s)\s*\.\s*lock\s*\(\s*\)" % "|".join(LOCKS))
    direct = {n: set(lockre.findall(b)) for n, b in fns}
    calls = {n: {c for c in re.findall(r"\b(\w+)\s*\(", b) if c in names and c != n} for n, b in fns}
    acq = {n: set(direct[n]) for n in names}
    changed = True
    while changed:
        changed = False
        for n in names:
            for c in calls[n]:
                if not acq[c] <= acq[n]:
                    acq[n] |= acq[c]
                    changed = True
    edges = set()
    where = {}
    for fname, body in fns:
        alive = []   # (lock, var, depth)
        depth = 0
        seg = ""
        for ch in body + ";":
            if ch in ";{}":
                s = seg.strip()
                seg = ""
                temps = []
                for m in re.finditer(r"\b(%s)\s*\.\s*lock\s*\(\s*\)|\b(\w+)\s*\(" % "|".join(LOCKS), s):
                    got = []
                    if m.group(1):
                        got = [m.group(1)]
                    elif m.group(2) in names and m.group(2) != fname:
                        got = sorted(acq[m.group(2)])
                    for L in got:
                        for (h, _, _) in alive + temps:
                            edges.add((h, L))
                            where.setdefault((h, L), "%s: holds %s, acquires %s%s" % (fname, h, L, "" if m.group(1) else " via " + m.group(2) + "()"))
                        if m.group(1):
                            temps.append((L, None, depth))
                lm = re.match(r"^let\s+(?:mut\s+)?(\w+)\s*=\s*(%s)\s*\.\s*lock\s*\(\s*\)(?:\s*\.\s*unwrap\s*\(\s*\))?$" % "|".join(LOCKS), s)
                if lm and ch == ";":
                    alive.append((lm.group(2), lm.group(1), depth))
                elif ch == "{" and re.match(r"^(match|if\s+let|while\s+let)\b", s) and lockre.search(s):
                    for L in lockre.findall(s):
                        alive.append((L, None, depth + 1))
                for dm in re.finditer(r"\bdrop\s*\(\s*(\w+)\s*\)", s):
                    alive = [a for a in alive if a[1] != dm.group(1)]
                if ch == "{":
                    depth += 1
                elif ch == "}":
                    depth -= 1
                    alive = [a for a in alive if a[2] <= depth]
            else:
                seg += ch
    return sorted(edges), where


def _fn_body(src, name):
    """source text of `fn name(...) { ... }` (brace matching from the first `{` behind the signature)"""
    m = re.search(r"fn\s+%s\s*\(" % re.escape(name), src)
    if not m: return ""
    i = src.find("{", m.end())
    depth, k = 0, i
    while k < len(src):
        if src[k] == "{": depth += 1
        elif src[k] == "}":
            depth -= 1
            if depth == 0: return src[i:k + 1]
        k += 1
    return src[i:]


def close_protocol(path="/repo/ffi/storm-ffi/src/lib.rs"):
    """the facts Model.C19Close assumes about the C API's source, read lexically: the order of SFileCloseArchive's three sections,
    whether SFileFindFirstFile looks the archive up again after storing its handle, whether SFileOpenFileEx keeps the archive
    table locked until the file handle is stored"""
    src = open(path).read()
    idx = {n: i for i, n in enumerate(LOCKS)}
    body = _fn_body(src, "SFileCloseArchive")
    marks = []
    for lock, verb in (("ARCHIVES", "remove"), ("FILES", "retain"), ("FIND_HANDLES", "retain")):
        m = re.search(r"\b%s\b(?:(?!;).)*?\.%s\(" % (lock, verb), body, re.S)
        marks.append((m.start() if m else 10 ** 9, idx[lock], bool(m)))
    order = [l for pos, l, found in sorted(marks) if found]
    fb = _fn_body(src, "SFileFindFirstFile")
    ins = re.search(r"FIND_HANDLES\s*\.lock\(\)\s*\.unwrap\(\)\s*\.insert\(", fb)
    recheck = False
    if ins:
        rest = fb[ins.end():]
        look = re.search(r"ARCHIVES\s*\.lock\(\)\s*\.unwrap\(\)\s*\.contains_key\(", rest)
        recheck = bool(look and re.search(r"FIND_HANDLES\s*\.lock\(\)\s*\.unwrap\(\)\s*\.remove\(", rest[look.end():]))
    ob = _fn_body(src, "SFileOpenFileEx")
    g = re.search(r"\n    let (?:mut )?(\w+) = ARCHIVES\s*\.lock\(\)", ob)   # a guard bound at the level of the function body
    fi = re.search(r"FILES\s*\.lock\(\)\s*\.unwrap\(\)\s*\.insert\(", ob)
    atomic = bool(g and fi and g.start() < fi.start() and not re.search(r"drop\(\s*%s\s*\)" % g.group(1), ob[g.end():fi.start()]))
    return order, recheck, atomic


def gen_locks_lean():
    edges, where = lock_graph()
    order, recheck, atomic = close_protocol()
    idx = {n: i for i, n in enumerate(LOCKS)}
    lines = ["/- GENERATED by tools/drivers.py:gen_locks_lean from ffi/storm-ffi/src/lib.rs (lexical lock-order scan). Do not edit. -/",
             "import WowVerif.Lib.Graph", "namespace Wv.Gen",
             "def lockNames : List String := [%s]" % ", ".join('"%s"' % n for n in LOCKS),
             "/-- (held, acquired) pairs found in the source -/",
             "def lockEdges : List (Nat × Nat) := [%s]" % ", ".join("(%d, %d)" % (idx[a], idx[b]) for a, b in edges),
             "def lockEdgesAcyclic : Bool := Wv.Graph.acyclic %d lockEdges" % len(LOCKS),
             "/-- SFileCloseArchive: the tables it empties, in source order (Model.C19Close assumes ARCHIVES, FILES, FIND_HANDLES) -/",
             "def closeSections : List Nat := [%s]" % ", ".join(str(x) for x in order),
             "/-- SFileFindFirstFile looks the archive up again after storing its handle and drops the handle if it is gone -/",
             "def findRechecks : Bool := %s" % ("true" if recheck else "false"),
             "/-- SFileOpenFileEx keeps the archive table locked until the file handle is stored -/",
             "def openFileAtomic : Bool := %s" % ("true" if atomic else "false"), "end Wv.Gen", ""]
    return "\n".join(lines), edges, where


def c19_pregen(ctx=None):
    """regenerate lean/WowVerif/Gen/Locks.lean from the C API's current source (before lake build)"""
    text, edges, where = gen_locks_lean()
    path = "/verif/lean/WowVerif/Gen/Locks.lean"
    old = open(path).read() if os.path.exists(path) else None
    if old != text:
        open(path, "w").write(text)
    return {"edges": [list(e) for e in edges], "where": list(where.values())}


def c19_mt_driver(ctx):
    """multi-threaded stress of the C API as a child process under a watchdog: a hang is a deadlock"""
    res = {"evals": 0, "nontrivial": 0, "stats": {}, "samples": [], "oracle_fail": [], "disagreements": [], "model_cases": 0}
    outd = os.path.join(ctx["outdir"], "mt")
    reps = 3 if ctx["tier"] == "quick" else 12
    for i in range(reps):
        try:
            p = subprocess.run([ctx["wvh"], "run", "C19MT", "--seed", str(ctx["seed"] + i), "--tier", ctx["tier"], "--out", outd],
                               stdout=subprocess.PIPE, stderr=subprocess.PIPE, text=True, timeout=90 if ctx["tier"] == "quick" else 300)
        except subprocess.TimeoutExpired as e:
            phase = (e.stderr or b"").decode(errors="replace").strip().split("\n")[-1] if e.stderr else "?"
            res["oracle_fail"].append(("ffi-call-does-not-return", "C API stress run %d hung (watchdog); last phase: %s" % (i, phase)))
            continue
        res["evals"] += 1
        if p.returncode != 0:
            res["oracle_fail"].append(("ffi-crash", "C API stress run %d exited with %d: %s" % (i, p.returncode, p.stderr[-300:])))
            continue
        try:
            stt = json.load(open(os.path.join(outd, "stats.json")))
            res["evals"] += stt.get("distribution", {}).get("c19mt.thread_rounds", 0)
            res["nontrivial"] += 1
            for l in open(os.path.join(outd, "oracle.txt")):
                parts = l.rstrip("\n").split("\t", 2)
                if len(parts) == 3 and parts[0] == "FAIL":
                    res["oracle_fail"].append((parts[1], parts[2]))
        except Exception:
            pass
    lg = c19_pregen()
    res["stats"]["c19.lock_edges"] = len(lg["edges"])
    res["samples"].append({"lock_order_edges": lg["where"]})
    return res


# ---------------------------------------------------------------- C01 / C02: archives written by the Lean model, read by Rust
def _model(wvmodel, lines):
    return subprocess.run([wvmodel], input="\n".join(lines) + "\n", stdout=subprocess.PIPE, text=True).stdout.split("\n")


def c01_write_driver(ctx):
    """direction (b): every `mpqwrite` request the harness recorded is executed by the Lean writer; the Rust reader
    must open the result and return every file under several spellings, and must not resolve a never-added name"""
    res = {"evals": 0, "nontrivial": 0, "stats": {}, "samples": [], "oracle_fail": [], "disagreements": [], "model_cases": 0}
    reqf = os.path.join(ctx["outdir"], "mpqwrite-requests.txt")
    if not os.path.exists(reqf):
        return res
    lines = [l.rstrip("\n").split("\t") for l in open(reqf) if "\t" in l]
    limit = 60 if ctx["tier"] == "quick" else 600
    lines = lines[:limit]
    outs = _model(ctx["wvmodel"], [l[0] for l in lines])
    tmpd = os.path.join(ctx["outdir"], "w01")
    os.makedirs(tmpd, exist_ok=True)
    for (req, exp), arch in zip(lines, outs):
        af, ef = os.path.join(tmpd, "a.txt"), os.path.join(tmpd, "e.txt")
        open(af, "w").write(arch)
        open(ef, "w").write(exp)
        p = subprocess.run([ctx["wvh"], "fsop", "readall", af, ef], stdout=subprocess.PIPE, text=True)
        res["evals"] += 1
        res["model_cases"] += 1
        fails = [l for l in p.stdout.split("\n") if l.startswith("FAIL")]
        if fails:
            res["disagreements"].append((0, req[:200], "rust reader on the model-written archive: " + "; ".join(fails[:3]), "every file reads back"))
        else:
            res["nontrivial"] += 1
    res["stats"]["c01.model_written_archives_read_by_rust"] = res["evals"]
    shutil.rmtree(tmpd, ignore_errors=True)
    return res


# ---------------------------------------------------------------- C02: interoperability with an independent implementation
def _rle_dec(s):
    if s == "-":
        return b""
    out = bytearray()
    for p in s.split("."):
        if p.startswith("z"):
            out += b"\0" * int(p[1:])
        else:
            out += bytes.fromhex(p)
    return bytes(out)


def _rle_enc(b):
    if not b:
        return "-"
    out, lit, i = [], bytearray(), 0
    while i < len(b):
        if b[i] == 0:
            j = i
            while j < len(b) and b[j] == 0:
                j += 1
            if j - i >= 8:
                if lit:
                    out.append(lit.hex())
                    lit = bytearray()
                out.append("z%d" % (j - i))
            else:
                lit += b"\0" * (j - i)
            i = j
        else:
            lit.append(b[i])
            i += 1
    if lit:
        out.append(lit.hex())
    return ".".join(out)


def _ref_decode_unit(stored, expected):
    """the independent codec of the reference implementation: CPython's zlib / bz2"""
    import zlib, bz2
    if len(stored) >= expected:
        return stored[:expected]
    m, payload = stored[0], stored[1:]
    if m == 0x02:
        return zlib.decompress(payload)
    if m == 0x10:
        return bz2.decompress(payload)
    raise ValueError("method %#x outside the published subset" % m)


def _ref_encode_unit(plain, method):
    import zlib, bz2
    if method == 0 or not plain:
        return plain
    payload = zlib.compress(plain, 6) if method == 0x02 else bz2.compress(plain, 9)
    return plain if 1 + len(payload) >= len(plain) else bytes([method]) + payload


def c02_driver(ctx):
    res = {"evals": 0, "nontrivial": 0, "stats": {}, "samples": [], "oracle_fail": [], "disagreements": [], "model_cases": 0}
    st = res["stats"]

    def bump(k, n=1):
        st[k] = st.get(k, 0) + n
    wvh, wvmodel, tier, seed = ctx["wvh"], ctx["wvmodel"], ctx["tier"], ctx["seed"]
    d = os.path.join(ctx["outdir"], "c02")
    shutil.rmtree(d, ignore_errors=True)
    os.makedirs(d)
    n = 40 if tier == "quick" else 400
    subprocess.run([wvh, "fsop", "mk02", d, str(seed), str(n)], stdout=subprocess.DEVNULL)
    # ---- direction 1: archives written by the builder, read by the reference (Lean layout/crypto + CPython codecs)
    for i in range(n):
        ap, tp = os.path.join(d, "a%d.mpq" % i), os.path.join(d, "a%d.txt" % i)
        if not (os.path.exists(ap) and os.path.exists(tp)):
            continue
        arch = open(ap, "rb").read()
        if len(arch) > 150000:
            continue
        lines = open(tp).read().strip().split("\n")
        cfg = lines[0]
        ar = _rle_enc(arch)
        files = [l.split(" ") for l in lines[1:]]
        outs = _model(wvmodel, ["mpqheader " + ar] + ["mpqunits published %s %s" % (ar, f[0]) for f in files] +
                      ["mpqunits published %s %s" % (ar, b"never\\added.bin".hex())] +
                      ["mpqunits code %s %s" % (ar, f[0]) for f in files])
        outs_code = outs[2 + len(files):]
        rust_hdr = subprocess.run([wvh, "fsop", "header", ap], stdout=subprocess.PIPE, text=True).stdout.strip()
        res["evals"] += 1
        res["model_cases"] += 1
        if outs[0] != rust_hdr:
            res["disagreements"].append((i, "header of builder archive (%s)" % cfg, rust_hdr, outs[0]))
        # the reference reader is strict about what the header and the block table announce (a lenient reader hides what a
        # reader written from the published layout trips over): the optional V2 table of high position words is absent (0)
        # or lies inside the archive, and every live block's stored extent lies inside the archive
        import struct as _st
        if len(arch) >= 44 and arch[:4] == b"MPQ\x1a" and _st.unpack_from("<H", arch, 12)[0] >= 1:
            hib = _st.unpack_from("<Q", arch, 32)[0]
            nblk = _st.unpack_from("<I", arch, 28)[0]
            res["evals"] += 1
            bump("c02.v2_header.hi_block_pos_%s" % ("zero" if hib == 0 else "set"))
            if hib != 0 and hib + 2 * nblk > len(arch):
                res["oracle_fail"].append(("reference-cannot-open-builder-archive", "%s: header announces a table of high position words at %#x (%d entries), beyond the archive (%#x bytes)" % (cfg, hib, nblk, len(arch))))
        blk = _model(wvmodel, ["mpqblocks " + ar])[0]
        res["model_cases"] += 1
        if not blk.startswith("err"):
            for bi, row in enumerate(blk.split(";")):
                try:
                    pos, csz, fsz, flg = [int(x) for x in row.split(",")]
                except ValueError:
                    continue
                res["evals"] += 1
                if flg & 0x80000000 and pos + csz > len(arch):
                    res["oracle_fail"].append(("block-entry-extent-outside-archive", "%s: block %d announces %#x stored bytes at %#x (flags %#x, %d bytes of content), archive is %#x bytes" % (cfg, bi, csz, pos, flg, fsz, len(arch))))
        for fi, (f, o) in enumerate(zip(files, outs[1:])):
            name = bytes.fromhex(f[0]).decode("utf-8", "replace")
            method, enc, want = int(f[1]), int(f[2]), _rle_dec(f[3])
            res["evals"] += 1
            cls = "%s-%s-%s" % ("path" if "\\" in name else "flat", ["plain", "enc", "fixkey"][enc], "tail%d" % (len(want) % 4) if enc else "na")
            bump("c02.ref_reads_builder." + cls)
            what = "%s file=%s len=%d method=%#x enc=%d" % (cfg, name, len(want), method, enc)
            if not o.startswith("ok "):
                res["oracle_fail"].append(("reference-cannot-read-builder-file", what + ": " + o))
                continue
            try:
                _, flags, units = o.split(" ", 2)
                got = b"".join(_ref_decode_unit(_rle_dec(u.split(":", 1)[1]), int(u.split(":", 1)[0])) for u in units.split(";")) if units else b""
            except Exception as e:
                got = None
                err = str(e)
            if got != want:
                tag = "reference-reads-different-bytes"
                if enc and "\\" in name:
                    tag = "interop-file-key-from-full-path"
                elif enc:
                    # flat name, so the key agrees: what differs is the handling of the 1-3 bytes after the last whole dword
                    tag = "interop-encrypted-tail-bytes"
                res["oracle_fail"].append((tag, what + (": %s" % err if got is None else ": %d bytes, differ" % len(got))))
                # inside the region of a listed convention difference the independent codecs must still agree once the
                # library's own two conventions are used: anything else is a new violation, not the listed finding
                oc = outs_code[fi] if fi < len(outs_code) else "err"
                try:
                    _, _, units = oc.split(" ", 2)
                    got2 = b"".join(_ref_decode_unit(_rle_dec(u.split(":", 1)[1]), int(u.split(":", 1)[0])) for u in units.split(";")) if units else b""
                except Exception as e2:
                    got2 = None
                if got2 != want:
                    res["oracle_fail"].append(("independent-codecs-cannot-read-builder-file", what + ": even with the library's key and tail conventions"))
            else:
                res["nontrivial"] += 1
        if not outs[1 + len(files)].startswith("err notfound"):
            res["oracle_fail"].append(("reference-resolves-never-added-name", cfg))
    # ---- direction 2: archives written by the reference, read by this library
    rng = _R(seed + 7)
    nrev = 30 if tier == "quick" else 300
    for i in range(nrev):
        ver, shift = rng.below(2), rng.pick([0, 0, 1, 3])
        ssz = 512 << shift
        specs, exp = [], []
        odd_tail = {}       # name -> some stored unit's length is not a multiple of 4 (where finding D11b applies)
        nf = 1 + rng.below(5)
        for k in range(nf):
            name = ["flat%d.txt" % k, "Dir\\Sub\\file%d.dat" % k, "a\\b%d.bin" % k, "x%d" % k, "zone\\Azeroth_%d.wdt" % k][k % 5 if i % 2 else k % 4]
            ln = rng.pick([0, 1, 2, 3, 5, ssz - 1, ssz, ssz + 1, 2 * ssz, 3 * ssz + 7, rng.below(3 * ssz) + 1])
            cls = rng.below(3)
            if k == 0 and i % 2 == 1:
                # every second archive starts with a compressible file of exactly 2 or 3 sectors (sector counts derived from
                # file_size / sector_size differ from ceil() only there)
                ln, cls = (2 + i % 4 // 2) * ssz, 1 + i % 2
            data = bytes((rng.next() & 0xFF) for _ in range(ln)) if cls == 0 else bytes([65 + (j // 9 + k) % 5 for j in range(ln)]) if cls == 1 else b"\0" * ln
            method = rng.pick([0, 0x02, 0x10])
            if k == 0 and i % 2 == 1:
                method = 0x02
            enc = rng.below(3)
            secs = [data] if ln <= ssz else [data[j:j + ssz] for j in range(0, ln, ssz)]
            units = [_ref_encode_unit(s_, method) for s_ in secs]
            specs.append("%s|%d|%s|%s" % (name.encode().hex(), enc, _rle_enc(data), ",".join(_rle_enc(u) for u in units) if units else "-"))
            odd_tail[name.upper().replace("/", "\\")] = any(len(u) % 4 for u in units)
            exp.append("%s=%s" % (name.encode().hex(), _rle_enc(data)))
            bump("c02.lib_reads_reference.%s.%s" % (["plain", "enc", "fixkey"][enc], "path" if "\\" in name else "flat"))
        # two archives in three are what an independent writer leaves after "add T.., add the files, remove T..": files may
        # sit behind deleted markers in their probe chains, which a conformant lookup walks over
        tombs = ["removed%d_%d.tmp" % (i, t) for t in range(rng.below(4) + 1)] if i % 3 else []
        hs = 4
        while hs < 2 * (nf + len(tombs)):
            hs *= 2
        if tombs:
            bump("c02.lib_reads_reference.with_deleted_markers")
            out = _model(wvmodel, ["mpqwritetomb published %d %d %d %s %s" % (ver, shift, hs, ",".join(t.encode().hex() for t in tombs), " ".join(specs))])[0]
        else:
            out = _model(wvmodel, ["mpqwrite published %d %d %d %s" % (ver, shift, hs, " ".join(specs))])[0]
        af, ef = os.path.join(d, "r.txt"), os.path.join(d, "e.txt")
        open(af, "w").write(out)
        open(ef, "w").write(" ".join(exp))
        p = subprocess.run([wvh, "fsop", "readall", af, ef], stdout=subprocess.PIPE, text=True)
        res["evals"] += nf
        lines = p.stdout.split("\n")
        if i % 3 == 2:
            # the same archive behind a foreign prefix (header on a later 512-byte boundary): positions in the tables - and the
            # position that enters a position-adjusted key - stay relative to the archive's own start
            pre = 512 * (1 + i % 2)
            p2 = subprocess.run([wvh, "fsop", "readall", af, ef, str(pre)], stdout=subprocess.PIPE, text=True)
            res["evals"] += nf
            bump("c02.lib_reads_reference.behind_prefix")
            # a file that is also unreadable at offset 0 is not a prefix matter (its error text may differ: it quotes file sizes)
            failed0 = {l.split(":")[0] for l in lines if l.startswith("FAIL")}
            lines += [l + " [archive behind a %d-byte prefix]" % pre for l in p2.stdout.split("\n") if l.startswith("FAIL") and l.split(":")[0] not in failed0]
        for l in lines:
            if l.startswith("FAIL"):
                nm = l.split(":")[0].replace("FAIL ", "")
                spec_enc = next((int(sp.split("|")[1]) for sp in specs if bytes.fromhex(sp.split("|")[0]).decode().upper().replace("/", "\\") == nm.upper().replace("/", "\\")), 0)
                tag = "library-cannot-read-reference-file"
                if "[archive behind a " in l:
                    # read correctly at offset 0, wrongly behind a prefix: neither recorded finding depends on where the archive starts
                    tag = "library-cannot-read-reference-file-behind-prefix"
                elif spec_enc and ("\\" in nm or "/" in nm):
                    tag = "interop-file-key-from-full-path"
                elif spec_enc and odd_tail.get(nm.upper().replace("/", "\\"), False):
                    tag = "interop-encrypted-tail-bytes"
                res["oracle_fail"].append((tag, "reference-written V%d shift=%d: %s" % (ver + 1, shift, l)))
        if "ok" in p.stdout.split("\n"):
            res["nontrivial"] += nf
    if len(res["samples"]) < 2:
        res["samples"].append({"direction1": "builder archive -> Lean layout/crypto (published conventions) + CPython zlib/bz2", "direction2": "CPython-compressed units -> Lean writer -> Archive::open/read_file"})
    shutil.rmtree(d, ignore_errors=True)
    return res
