"""Python-side drivers used by ./check (process-level checks and source scans)."""
import os, re, subprocess, json, time, shutil, hashlib


def scan_shared_state(ctx):
    """C09 assumption A1: the library keeps no shared mutable state a parallel task could race on.
    Lexical scan of wow-mpq/src for statics / lazily initialised globals / thread-locals (tests excluded)."""
    root = "/repo/file-formats/archives/wow-mpq/src"
    pat = re.compile(r"^\s*(pub(\([a-z]+\))?\s+)?static\s+(mut\s+)?[A-Z_]+\s*:|lazy_static!|thread_local!|OnceLock<|OnceCell<|LazyLock<|Lazy<")
    hits = []
    n = 0
    for d, _, fs in os.walk(root):
        for f in fs:
            if not f.endswith(".rs") or f == "tests.rs" or "test_utils" in d:
                continue
            n += 1
            in_tests = False
            for i, line in enumerate(open(os.path.join(d, f), errors="replace")):
                if "#[cfg(test)]" in line:
                    in_tests = True
                if in_tests:
                    continue
                if pat.search(line) and "&'static" not in line and "//" not in line.split("static")[0]:
                    # immutable plain-data statics (tables) are fine: only flag interior mutability or `mut`
                    if re.search(r"static\s+mut|Mutex|RwLock|Atomic|Cell|lazy_static|thread_local|OnceLock|LazyLock|Lazy<", line):
                        hits.append("%s:%d: %s" % (os.path.join(d, f), i + 1, line.strip()))
    res = {"evals": n, "stats": {"a1.files_scanned": n, "a1.shared_state_hits": len(hits)}, "samples": [], "oracle_fail": [],
           "disagreements": []}
    for h in hits:
        res["disagreements"].append((0, "A1 source scan: shared mutable state in wow-mpq", h, "none expected"))
    return res


# ---------------------------------------------------------------- C12: strace trace refinement + fault enumeration
TRACED = "openat,open,creat,write,pwrite64,writev,pwritev,lseek,fsync,fdatasync,rename,renameat,renameat2,unlink,unlinkat,ftruncate,close,link,linkat,copy_file_range,sendfile"


def _parse_trace(path, sb):
    """returns list of (name, ordinal_within_name, relevant, abstract_op or None, line)"""
    fdmap, counts, out, ids = {}, {}, [], {}

    def pid_of(p):
        if p not in ids:
            ids[p] = 2 + len([k for k in ids if not k.endswith("/dest.mpq")]) if not p.endswith("/dest.mpq") else 1
        return ids[p]
    for line in open(path, errors="replace"):
        m = re.match(r"^\d+\s+(\w+)\((.*)\)\s+=\s+(-?\d+|\?)", line)
        if not m:
            continue
        name, args, ret = m.group(1), m.group(2), m.group(3)
        counts[name] = counts.get(name, 0) + 1
        k = counts[name]
        rel, op = False, None
        paths = re.findall(r'"((?:[^"\\]|\\.)*)"', args)
        if name in ("openat", "open", "creat"):
            p = paths[0] if paths else ""
            if p.startswith(sb):
                rel = True
                if ret not in ("?",) and int(ret) >= 0:
                    fdmap[int(ret)] = p
                op = ("c%d" if ("O_CREAT" in args or name == "creat" or "O_TRUNC" in args) else "o%d") % pid_of(p)
                if ("O_WRONLY" in args or "O_RDWR" in args) and "O_CREAT" not in args and "O_TRUNC" not in args and p.endswith("/dest.mpq"):
                    op = "o%d" % pid_of(p)   # destination opened read-write (MutableArchive::open); actual writes are `w`
        elif name in ("write", "pwrite64", "writev", "pwritev", "lseek", "fsync", "fdatasync", "ftruncate", "close"):
            fm = re.match(r"(\d+)", args)
            fd = int(fm.group(1)) if fm else -1
            if fd in fdmap:
                rel = True
                p = fdmap[fd]
                if name in ("write", "pwrite64", "writev", "pwritev", "ftruncate"):
                    op = "w%d" % pid_of(p)
                else:
                    op = "o%d" % pid_of(p)
                if name == "close":
                    del fdmap[fd]
        elif name in ("rename", "renameat", "renameat2", "link", "linkat"):
            ps = [p for p in paths if p.startswith(sb)]
            if len(ps) == 2:
                rel = True
                op = "m%d>%d" % (pid_of(ps[0]), pid_of(ps[1]))
        elif name in ("unlink", "unlinkat"):
            ps = [p for p in paths if p.startswith(sb)]
            if ps:
                rel = True
                op = "u%d" % pid_of(ps[0])
        out.append((name, k, rel, op, line.strip()[:160]))
    return out


def c12_driver(ctx):
    wvh, wvmodel, tier, seed = ctx["wvh"], ctx["wvmodel"], ctx["tier"], ctx["seed"]
    base = os.path.join(ctx["outdir"], "sb")
    shutil.rmtree(base, ignore_errors=True)
    os.makedirs(base)
    res = {"evals": 0, "nontrivial": 0, "stats": {}, "samples": [], "oracle_fail": [], "disagreements": [], "model_cases": 0}
    st = res["stats"]
    OLD = b"OLD-CONTENT-" * 40

    def bump(k, n=1):
        st[k] = st.get(k, 0) + n
    configs = [("build", 1, False), ("build", 1, True), ("build", 3, True), ("build", 4, False), ("compact", 1, True), ("compactdirty", 1, True)]
    if tier == "thorough":
        configs = [("build", v, pre) for v in (1, 2, 3, 4) for pre in (False, True)] + [("compact", v, True) for v in (1, 2, 3)] + [("compactdirty", v, True) for v in (1, 2)]
    for ci, (kind, ver, pre) in enumerate(configs):
        sb = os.path.join(base, "c%d" % ci)
        dest = os.path.join(sb, "dest.mpq")

        def prepare():
            shutil.rmtree(sb, ignore_errors=True)
            os.makedirs(sb)
            if kind == "compact":
                subprocess.run([wvh, "fsop", "build", str(ver), dest, str(seed)], stdout=subprocess.DEVNULL)
                subprocess.run([wvh, "fsop", "remove", dest], stdout=subprocess.DEVNULL)
                return open(dest, "rb").read()
            if kind == "compactdirty":
                subprocess.run([wvh, "fsop", "build", str(ver), dest, str(seed)], stdout=subprocess.DEVNULL)
                return open(dest, "rb").read()
            if pre:
                open(dest, "wb").write(OLD)
                return OLD
            return None
        cmd = [wvh, "fsop", "build", str(ver), dest, str(seed)] if kind == "build" else [wvh, "fsop", kind, dest]

        def state(old):
            cur = open(dest, "rb").read() if os.path.exists(dest) else None
            if cur == old:
                return "old"
            if cur is None:
                return "vanished"
            if kind == "build":
                ok = subprocess.run([wvh, "fsop", "verify", dest, str(seed)], stdout=subprocess.PIPE, text=True)
                return "new" if ok.returncode == 0 else "partial:" + ok.stdout.strip()[:80]
            a = subprocess.run([wvh, "fsop", "verify", dest, str(seed), "2"], stdout=subprocess.PIPE, text=True)
            if a.returncode == 0:
                return "new"
            b = subprocess.run([wvh, "fsop", "verify", dest, str(seed)], stdout=subprocess.PIPE, text=True)
            return "old-flushed" if b.returncode == 0 else "partial:" + a.stdout.strip()[:80]
        old = prepare()
        tr = os.path.join(sb, "trace.txt")
        p = subprocess.run(["strace", "-f", "-qq", "-o", tr, "-e", "trace=" + TRACED] + cmd, stdout=subprocess.PIPE, text=True)
        calls = _parse_trace(tr, sb)
        rel = [c for c in calls if c[2]]
        ops = [c[3] for c in rel if c[3]]
        bump("c12.%s.v%d.relevant_calls" % (kind, ver), len(rel))
        # --- trace refinement: the real system-call trace must have the safe shape (model decides)
        req = "c12shape 1 %s" % (",".join(ops) if ops else "-")
        mo = subprocess.run([wvmodel], input=req + "\n", stdout=subprocess.PIPE, text=True).stdout.strip()
        res["model_cases"] += 1
        if mo != "safe" and kind != "compactdirty":   # (the dirty variant legitimately flushes the removal in place first)
            res["disagreements"].append((ci, req[:300], "trace of %s v%d" % (kind, ver), mo))
        if p.returncode != 0 or state(old) != "new":
            res["oracle_fail"].append(("baseline-op-failed", "%s v%d pre=%s: exit %d state %s" % (kind, ver, pre, p.returncode, state(old))))
            continue
        if len(res["samples"]) < 3:
            res["samples"].append({"config": "%s v%d preexisting=%s" % (kind, ver, pre), "abstract_trace": ",".join(ops)[:300]})
        # --- fault enumeration at every relevant call (quick: all open/rename/unlink/fsync, every 2nd write/lseek/close)
        points = []
        for i, c in enumerate(rel):
            if tier == "thorough" or c[0] not in ("write", "lseek", "close") or i % 2 == 0 or i >= len(rel) - 6:
                points.append(c)
        first_write = next((i for i, c in enumerate(rel) if c[0] in ("write", "pwrite64")), 0)
        for c in points:
            for mode in ("error=ENOSPC", "signal=SIGKILL"):
                if c[0] == "close" and mode.startswith("error"):
                    continue
                old = prepare()
                inj = "inject=%s:%s:when=%d" % (c[0], mode, c[1])
                r = subprocess.run(["strace", "-f", "-qq", "-o", "/dev/null", "-e", "trace=" + c[0], "-e", inj] + cmd,
                                   stdout=subprocess.PIPE, stderr=subprocess.PIPE, text=True)
                s = state(old)
                res["evals"] += 1
                bump("c12.%s.%s" % (mode.split("=")[0], s.split(":")[0]))
                what = "%s v%d preexisting=%s, %s at %s #%d (%s): exit %d, destination %s" % (kind, ver, pre, mode, c[0], c[1], c[4][:70], r.returncode, s)
                if rel.index(c) > first_write:
                    res["nontrivial"] += 1
                ok_states = ("old", "new") if kind == "build" else ("old", "new", "old-flushed")
                if s not in ok_states:
                    res["oracle_fail"].append(("dest-partial-after-" + ("kill" if "KILL" in mode else "io-error"), what))
                elif mode.startswith("error") and r.returncode == 0 and s != "new":
                    res["oracle_fail"].append(("reported-ok-but-destination-not-new", what))
                elif mode.startswith("error") and r.returncode == 1 and s == "new" and kind == "build":
                    res["oracle_fail"].append(("reported-error-but-destination-replaced", what))
        # --- write-size limits (RLIMIT_FSIZE with SIGXFSZ ignored: short writes, then EFBIG)
        for blocks in ([1, 2, 8, 30] if tier == "quick" else [1, 2, 3, 5, 8, 13, 21, 30, 40]):
            old = prepare()
            sh = "trap '' XFSZ; ulimit -f %d; exec \"$@\"" % blocks
            r = subprocess.run(["sh", "-c", sh, "sh"] + cmd, stdout=subprocess.PIPE, stderr=subprocess.PIPE, text=True)
            s = state(old)
            res["evals"] += 1
            res["nontrivial"] += 1
            bump("c12.fsize_limit.%s" % s.split(":")[0])
            what = "%s v%d preexisting=%s, file size limit %d bytes: exit %d, destination %s" % (kind, ver, pre, blocks * 512, r.returncode, s)
            ok_states = ("old", "new") if kind == "build" else ("old", "new", "old-flushed")
            if s not in ok_states:
                res["oracle_fail"].append(("dest-partial-under-write-limit", what))
            elif r.returncode == 0 and s != "new":
                res["oracle_fail"].append(("reported-ok-but-destination-not-new", what))
    shutil.rmtree(base, ignore_errors=True)
    return res
