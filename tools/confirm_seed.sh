#!/bin/bash
# confirm_seed.sh <worktree> <seed-dir> <crate> [<demo-kind>]
# Confirms a seeded change: compiles, crate's existing tests pass with it, demo fails with it and passes without it.
set -u
WT=$1; SD=$2; CRATE=$3
export CARGO_NET_OFFLINE=true
cd "$WT" || exit 2
git checkout -q -- . ; git clean -fdq -e target
CR_DIR=$(cargo metadata --offline --no-deps --format-version 1 2>/dev/null | python3 -c "import sys,json; m=json.load(sys.stdin); print([p for p in m['packages'] if p['name']=='$CRATE'][0]['manifest_path'].rsplit('/',1)[0])")
echo "crate dir: $CR_DIR"
git apply "$SD/patch.diff" || { echo "RESULT patch-does-not-apply"; exit 1; }
cargo test -p "$CRATE" --offline > "$SD/confirm-tests-mutated.log" 2>&1; T_MUT=$?
mkdir -p "$CR_DIR/tests"; cp "$SD/demo.rs" "$CR_DIR/tests/wv_seed_demo.rs"
cargo test -p "$CRATE" --offline --test wv_seed_demo > "$SD/confirm-demo-mutated.log" 2>&1; D_MUT=$?
git checkout -q -- . ; 
cargo test -p "$CRATE" --offline --test wv_seed_demo > "$SD/confirm-demo-clean.log" 2>&1; D_CLEAN=$?
rm -f "$CR_DIR/tests/wv_seed_demo.rs"; git clean -fdq -e target
echo "RESULT tests_with_change=$T_MUT demo_with_change=$D_MUT demo_clean=$D_CLEAN"
if [ $T_MUT -eq 0 ] && [ $D_MUT -ne 0 ] && [ $D_CLEAN -eq 0 ]; then echo CONFIRMED; else echo NOT-CONFIRMED; fi
