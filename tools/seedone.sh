#!/bin/bash
# seedone.sh <round> <Cxx>/<m> ... : run selected seeds of a round through the quick check (serially)
R=$1; shift
for X in "$@"; do ID=${X%/*}; m=${X#*/}
  P=/tmp/seed$R/$ID/$m/patch.diff; [ -f $P ] || { echo "$X: no patch"; continue; }
  /verif/tools/seedtest.sh $P $ID quick > /tmp/seed$R/$ID/$m/check.log 2>&1
  echo "$ID/$m: $(grep -c '^VIOLATION' /tmp/seed$R/$ID/$m/check.log) violation lines; $(grep '^VIOLATION' /tmp/seed$R/$ID/$m/check.log | head -1 | tr '\n' ' '); $(tail -1 /tmp/seed$R/$ID/$m/check.log)"
done
