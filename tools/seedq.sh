#!/bin/bash
# seedq.sh <round> <Cxx>... : confirm and run both seeds of each named property, serially (one /repo at a time)
R=$1; shift
for ID in "$@"; do
  /verif/tools/seedround.sh $R $ID 2>&1 | tail -2
  /verif/tools/seedone.sh $R $ID/m1 $ID/m2 2>&1 | tail -2
done
