"""Per-property configuration for ./check (theorem audit lists live in lean/WowVerif/Audit/Cxx.lean)."""

COMMON_TB = [
    "the tie: harness wvh (Rust, linked against /repo's current crates), its generators and canonicalisers; "
    "correspondence is sampling, not a proof that Model = Rust on all inputs",
    "constants in Gen/Consts.lean are dumped from the freshly compiled crates by `wvh dump-consts`",
    "Rust compiler, std, OS",
]

PROPS = {
    "C04": dict(
        rule=("requests: every 0/1-byte string and every 2-byte UTF-8 scalar x 5 hash types, a strided (quick) or "
              "complete (thorough) sweep of ASCII pairs, random structured names up to 300 bytes, keys x buffers of "
              "every length 0..17 plus large random buffers; all 1280+512 table entries against the reference. "
              "non-trivial = a spelling variant that differs bytewise from the original name, or a non-empty buffer "
              "under a non-zero key; distinct by FNV hash of the canonical request"),
        trusted_base=COMMON_TB + [
            "Spec.Crypt (reference hash, cipher, crypt-table generator, lookup3 hashlittle2) as written from the "
            "published format; `decide +kernel` evaluates the 1280-entry and 256-entry table equalities in the kernel",
            "hash_string/jenkins_hash/het_hash take &str: bytes >= 0x80 reach the implementation only inside valid "
            "UTF-8; the theorems cover all byte strings"],
        assumptions=["hash_type + 255 < 2^32 (the five published hash types satisfy it)"],
    ),
}

PROPS["C17"] = dict(
    rule=("generated schemas of 1..24 fields over all nine field types (arrays of 1..4 elements, key field anywhere) x "
          "tables of 0..2000 (quick) / 10^4 (thorough) records with duplicate, empty and non-ASCII strings and duplicate "
          "keys; every table goes source bytes -> Rust parse -> Rust write -> Rust/Lean parse, through eager, lazy, "
          "iterator, parallel, mmap readers and hashed / binary-searched key lookups; plus truncations and boundary "
          "header values of valid files. non-trivial = table with >= 2 distinct non-empty strings; distinct by FNV hash "
          "of schema+table"),
    trusted_base=COMMON_TB + [
        "Model.C17Dbc is the complete WDBC format as wow-cdbc implements it (header, records, string block, interning "
        "order, UTF-8 check); WDB2/WDB5 headers are not modelled",
        "Rust std's binary_search_by_key and sort_by_key contracts (sortedness is proved, the search itself is std's)",
        "rayon chunking in parse_records_parallel is observed, not modelled (see C09 for the scheduling argument)"],
    assumptions=["table counts and sizes fit the 32-bit header fields (Fits)",
                 "strings are NUL-free well-formed UTF-8 (the API hands out &str)"],
)

PROPS["C18"] = dict(
    rule=("SoftF32 (Lean) vs hardware binary32 on random and domain-specific operand pairs (bit-exact); tile_to_world and "
          "world_to_tile on all 4096 tiles plus tile centres and random world points; generated WDT files (versions "
          "Classic..Dragonflight x terrain/WMO-only x sparse/dense/corner tile grids x MAID/MWMO/MODF, 1 in 5 deliberately "
          "not well-formed) written by the crate, read by the crate and by the Lean model, truncated at 15 offsets, "
          "converted between versions; generated WDL files (9 versions x 0..4096 tiles x holes none/all/some x WMO / ML "
          "chunks) checked by an independent Lean chunk walker and by the model's offset-table function. non-trivial = a "
          "tile that round-trips / a well-formed file with content; distinct by FNV hash of its description"),
    trusted_base=COMMON_TB + [
        "Lib.SoftF32: my exact binary32 model (validated bit-exactly against hardware every run); the coordinate "
        "theorem is `decide +kernel` over all 64 indices of each axis on that model",
        "fixed-layout chunk payloads (MPHD, MAIN, MAID, MODF entries, MARE heights) are little-endian field dumps: the "
        "harness builds the expected payloads itself field by field; the Lean model carries them as bytes",
        "WDL header chunks (MWMO/MWID/MODF/ML**) are opaque in the layout theorem"],
    assumptions=["WDT WellFormed: sizes fit, flags <= 0xFFFF, MWMO present only where the version rule emits it, MAID only "
                 "for BfA+, names non-empty NUL-free", "WDL TileOk: MARE payload = TOTAL_COUNT*2 bytes, MAHO = MASK_COUNT*2"],
)

PROPS["C03"] = dict(
    rule=("inputs of 35 (quick) / 80 (thorough) lengths from 0 to 2^20 (2^21 thorough), around 4 KiB / 64 KiB boundaries, "
          "x 6 compressibility classes (constant, zeros, random, periodic, sparse with literal runs of 0x7f..0x83 and "
          "zero runs of 0x82..0x87, text) x 7 single selectors; all 256 selector bytes; 3000 (quick) / 20000 synthetic "
          "(clen, dlen, method) triples around every ratio threshold for the acceptance arithmetic; ADPCM mono/stereo "
          "length and interleaving; for the sparse compressor model every string over {0, x} up to length 10 (12 thorough) "
          "and 400 (3000) run-structured inputs (literal runs 1..0x182 with isolated zeros, zero runs 1..0x18b) compared "
          "byte for byte. non-trivial = a framed unit that round-trips; distinct by FNV hash of method, class, "
          "length and payload length"),
    trusted_base=COMMON_TB + [
        "zlib (flate2), bzip2, lzma-rs, pklib/implode and the in-tree Huffman/ADPCM codecs are parameters of the model; "
        "their inversion on each explored input is observed by the oracle, not proved",
        "the sparse compressor and decoder are hand-written models of sparse.rs (token level for the compressor), "
        "tied to the code by byte-for-byte comparison of compress output and decode results on every run"],
    assumptions=["Codec round trip dec(enc d) = d for third-party codecs (sampled)"],
)

PROPS["C08"] = dict(
    rule=("4 small archives (overlapping file sets, one sharing everything with another, one name in no archive) and "
          "priorities {-1,0,0,5}: a 1/7 (quick) or complete (thorough) sweep of all 841 two-operation histories over "
          "{add, remove, set-priority, clear} plus random histories of 3..12 operations; after every operation the chain "
          "order, find/read/contains for every name (case- and slash-varied spellings) and the listing are compared with "
          "the model and with independent bookkeeping; parallel vs sequential construction; COPY and BSD0 patches built by "
          "a harness-side encoder, each applied to the right base, a wrong base, and with every header byte and a sample "
          "of payload bytes altered. non-trivial = a lookup decided among >= 2 archives holding the name, or a well-formed "
          "patch; distinct by FNV hash of history+name / patch bytes"),
    trusted_base=COMMON_TB + [
        "an archive 'contains' a name iff its listing does (what rebuild_file_map consults); archives without a listfile "
        "are outside the harness' world", "MD5 is abstract in the theorems; the executable model uses Spec.Md5 (RFC 1321), "
        "validated against the md-5 crate through the patch cases",
        "patch files reached through a chain (PATCH_FILE-flagged entries) are not generated: the builder cannot produce "
        "them; apply_patch is driven directly"],
    assumptions=["set_priority counts as a new insertion for tie-breaking (the weaker reading of 'earliest added wins ties')"],
)

import drivers
PROPS["C09"] = dict(
    rule=("one archive of 40 files (sizes 0..70000, 8 names absent) read through extract_with_config for request lists of "
          "length {0,1,9,10,11,999,1000,1001,2500} (+ {2,29..31,5001} thorough) with adjacent and distant duplicates, missing "
          "names first/middle/last/scattered, case- and slash-varied spellings, x threads {1,3,8} (+{2,32}) x batch sizes "
          "{1,2,7,10,64,N} x skip-errors on/off, under CPU contention; ParallelArchive::{extract_files_parallel, "
          "extract_files_batched, process_files_parallel, extract_matching_parallel} and "
          "parallel::extract_from_multiple_archives; every slot compared with a sequential read_file. non-trivial = a call "
          "with >= 2 requests whose every slot matched; distinct by FNV hash of call + request indices"),
    trusted_base=COMMON_TB + [
        "A1: tasks are pure functions of (archive bytes, name): private handle per task/batch, no shared mutable state "
        "in wow-mpq/src (lexical source scan every run)", "A2: rayon's indexed parallel collect preserves index order",
        "real schedules are sampled (threads x contention), not enumerated: the theorems quantify over all schedules of "
        "the model, the tie samples the implementation's"],
    assumptions=["A1 no shared mutable state", "A2 rayon indexed collect order", "batch size > 0 (chunks(0) panics; see C05)"],
    drivers=[drivers.scan_shared_state],
)

PROPS["C12"] = dict(
    no_harness=True,
    rule=("for build V1 (fresh and pre-existing destination), V3, V4 and compact V1 (thorough: V1..V4 x fresh/pre-existing, "
          "compact V1..V3): the real system-call trace (strace) is abstracted to create/write/rename/unlink operations and "
          "checked against the model's safe shape; then every relevant call (quick: every open/rename/unlink/fsync and every "
          "second write/lseek/close; thorough: all) is made to fail with ENOSPC and, separately, to kill the process "
          "(strace fault injection), plus file-size limits (short writes); after each run the destination is classified "
          "old / new (opens and every file reads back) / partial. non-trivial = a fault after the first byte was written"),
    trusted_base=COMMON_TB + [
        "rename(2) replaces the destination atomically (one step of the model); durability across power loss is outside "
        "the property", "strace's view of the process is complete (single-threaded operations) and tools/drivers.py "
        "abstracts it faithfully (descriptor-to-path tracking)"],
    assumptions=["rename atomic", "faults are injected one at a time"],
    drivers=[drivers.c12_driver],
)

PROPS["C11"] = dict(
    no_harness=True,
    rule=("~100 (quick) / ~410 (thorough) entry names from a grammar of '..', '.', empty, long, unicode, 'C:', reserved-looking "
          "components joined by '\\\\', '/', doubled separators, with prefixes '', '\\\\', '/', 'C:\\\\', 'C:', '\\\\\\\\?\\\\', '..\\\\', plus "
          "absolute names pointing into the sandbox and classic traversal names; two archives (base + patch) built with "
          "those names and a generated listfile; the freshly built warcraft-rs binary extracts into a 5-level-deep sandbox "
          "for preserve-paths x patch-chain x explicit-names x skip-errors; a recursive snapshot (size, mtime, sha1) before "
          "and after decides whether anything outside the output directory changed; the set of files written is compared "
          "with the Lean model's prediction per name. evaluations = names x runs; non-trivial = a run that wrote nothing outside"),
    trusted_base=COMMON_TB + [
        "lexical containment only: symlinks inside the output directory, case-insensitive file systems and Windows path "
        "semantics are not modelled", "std::path::Path::components / file_name / PathBuf::push on Unix as modelled in "
        "Model.C11Path (validated by the differential run)"],
    assumptions=["Unix path semantics", "no pre-existing symlinks under the output directory"],
    drivers=[drivers.c11_driver],
)

PROPS["C20"] = dict(
    no_harness=True,
    rule=("6 (quick) / 40 (thorough) generated file sets (1..7 files, sizes 0..20000, incompressible / compressible / zero, "
          "names with spaces, parentheses, mixed case) x create options (v1..v4 x none/zlib/bzip2/lzma, listfile) x extract "
          "modes (whole archive, explicit names, explicit with a missing name, the same with --skip-errors; 1..4 threads): "
          "exit status, files written byte-for-byte, `mpq list`/`info` against the library's view, `mpq validate` on intact "
          "and damaged archives; for the dbc / wdt / wdl / mpq families every info/list/validate/tree/tiles/analyze "
          "sub-command on valid, empty, half, header-only, magic-zeroed, tail-cut and non-existent inputs, compared with "
          "whether the library accepts the same bytes. non-trivial = a file that round-tripped through create+extract"),
    trusted_base=COMMON_TB + ["argument parsing and progress output are not modelled; stdout is parsed loosely (file names, "
                              "the words 'failed'/'error')", "blp / m2 / wmo / adt sub-commands are exercised once their generators "
                              "exist in the harness (see C13-C16)"],
    assumptions=["a sub-command 'cannot do what was asked' iff the library rejects the same input or a per-item read fails"],
    drivers=[drivers.c20_driver],
)

PROPS["C19"] = dict(
    rule=("150 (quick) / 1500 (thorough) single-threaded call histories of 5..40 calls over {open, close, open-file, close-file, "
          "read, seek (32/64-bit offsets, all three origins, negative and huge), size, has-file, find-first/next/close} on two "
          "archives with live, stale, closed, null and forged handle values and caller buffers fenced by canaries, each "
          "answer compared with the Lean handle-table model (stateful) and contents/sizes/existence with the Rust API; long "
          "(> 260 byte) names through SFileGetFileName and the find data; 3 (12) multi-threaded stress runs (4/8 threads "
          "sharing archive handles, one thread churning open/close and stale closes) under a watchdog; the lock-order graph "
          "re-extracted from the source. non-trivial = a history with a successful read; distinct by FNV hash"),
    trusted_base=COMMON_TB + [
        "raw pointer writes are observed (canaries), not proved; real thread schedules are sampled; the lock-order graph is "
        "a lexical scan of `.lock()` nesting (let-bound guards, match/if-let scrutinees, temporaries, calls to functions "
        "of the same file) in tools/drivers.py:lock_graph",
        "the C API's source is compiled into the harness with #[path] (the crate only builds as cdylib/staticlib)"],
    assumptions=["handle ids are unique (one counter)", "add/remove/rename/flush/compact through the C API are covered by C06's "
                 "machinery on the Rust API, not replayed here"],
    pregen=[drivers.c19_pregen],
    drivers=[drivers.c19_mt_driver],
)

PROPS["C01"] = dict(
    rule=("140 (quick) / 2500 (thorough) archives over version V1..V4 x sector shift {0,1,2,3,5,8} x method {none, zlib, bzip2, "
          "LZMA, sparse} x {plain, encrypted, encrypted+fix-key} x sector CRC x attributes {none, CRC32, full} x listfile x table "
          "compression, 1..6 files each of length {0, 1..5, sector-1, sector, sector+1, 2 sectors, 3 sectors+7, random} x "
          "{random, constant, periodic, sparse, text}; every file read under 4 spellings, never-added names, listing and sizes "
          "(oracle); the Lean reader on the Rust-built bytes with a codec table computed by the public compressor; the Lean "
          "writer's archives (V1/V2) read by the Rust reader. non-trivial = a multi-sector file that round-trips"),
    trusted_base=COMMON_TB + [
        "third-party codecs enter the model as a finite table stored-unit -> plain-unit built with wow_mpq::compress",
        "the whole-archive theorems are about Model.Mpq's writer and reader (classic tables, header V1/V2); that these are "
        "what the Rust builder and reader do is established per run by the two-way correspondence on real archive bytes; "
        "attribute timestamps, user-data headers and sector checksums are not modelled (the header of every version and both extended tables are modelled on their own: Model.C01Header, C01Bet, C01Het)",
        "archive_roundtrip's hypotheses: pairwise different (hash A, hash B) pairs of the names (what the format identifies a "
        "file by), files.length <= hashSize < 2^32-2, archive < 4 GiB, every stored unit either raw or a strictly shorter "
        "codec output that the codec table maps back and the ratio heuristics admit (D2 is exactly the failure of that clause)"],
    assumptions=["no 64-bit name-hash collision between distinct folded names (hypothesis DistinctPairs)", "codec round trip on the explored units (hypothesis FileOK)"],
    drivers=[drivers.c01_write_driver],
)

PROPS["C02"] = dict(
    no_harness=True,
    rule=("direction 1: 40 (quick) / 400 (thorough) archives built by ArchiveBuilder over the published subset (V1/V2, classic "
          "tables, none/zlib/bzip2, plain / encrypted / fix-key, sector shifts 0..8, sector CRC, listfile) are opened by the "
          "reference (Lean layout/probing/keys/cipher under the published conventions, CPython zlib/bz2 as codecs); every file "
          "must decode to the input, never-added names must be not-found, header fields must agree with the library's view. "
          "direction 2: 30 / 300 archives laid out by the reference writer from CPython-compressed units are read by "
          "Archive::open/read_file under several spellings. non-trivial = a file that crosses the implementation boundary intact"),
    trusted_base=COMMON_TB + [
        "the reference is Model.Mpq with publishedConv as I wrote it from the published format; CPython's zlib and bz2 "
        "(independent C libraries) are its codecs", "V3/V4, HET/BET, LZMA/PKWare/sparse are outside the property's subset"],
    assumptions=["published file key = hash of the plain name (after the last path separator); published cipher leaves the "
                 "1-3 tail bytes unencrypted (StormLib's documented behaviour)"],
    drivers=[drivers.c02_driver],
)

PROPS["C06"] = dict(
    rule="histories of 1..12 (4 in 5) or 30..70 (1 in 5) operations over {add (none/zlib/bzip2/lzma/sparse x plain/encrypted/FIX_KEY x replace flag), remove, rename, compact, flush, close+reopen} on builder-made archives V1..V4, with/without (listfile) and (attributes), 0..10 initial files; names from a pool with two groups colliding on one home slot of a 16-slot table (one group on the last slot, so probes wrap), names that are substrings of one another, and enough fillers to exhaust the hash table. After every close+reopen and at the end every pool name is read through Archive::open and compared with a BTreeMap, the listing with its key set, in-session find_file with its membership; each history runs on a worker thread with a 30 s limit. For archives without (attributes) the whole history is replayed by the Lean model and every hash slot, block entry and header position on disk after each flush/reopen/compact is compared. non-trivial = a history that passed all comparisons; distinct by FNV hash of its description",
    trusted_base=COMMON_TB + [
        "the model follows modification.rs function by function; compact's rebuilt layout is taken from the file (the builder is C01's subject) and only its key set and sizes are compared with the model's prediction",
        "stored (compressed) lengths are computed by the harness with the crate's own compress() and passed to the model; the model does not model the codecs",
        "archives with (attributes) are covered by the map oracle only (the attributes file's size is time- and flag-dependent)",
        "HomeOk: the offset hash is a function of the (A,B) hash pair on the names in play (true unless two names collide in 64 bits of hash yet differ in the third)",
    ],
    assumptions=["in-session read_file is not compared (the statement speaks of the state after close+reopen); in-session find_file is",
                 "a failed operation may leave the file layout changed (rename of an encrypted file flushes first) as long as the map is unchanged"],
)

PROPS["C07"] = dict(
    rule="source archives from the C01 generator (V1..V4 cycled, sector shift 0..8, sector CRCs, (attributes) none/crc/full, with (6 in 7) or without (listfile), compressed tables, 1..6+ files incl. encrypted, FIX_KEY, multi-sector, store-raw boundary units) x target version V1..V4 / preserve / modernize x skip_encrypted x skip_signatures x verify x compression override {none, store, zlib, bzip2} x sector-size override x list_only. After rebuild_archive: every selected readable source file is read from the target and compared bit by bit, excluded files must be absent, the summary must count what is in the target, compare_archives(content check) must report no content difference and only excluded names as missing; the model's summary (or the name of the unreadable file in the error) is compared with the implementation's. non-trivial = a rebuilt archive that passed all comparisons; distinct by FNV hash of source+options",
    trusted_base=COMMON_TB + [
        "the listing and per-file readability the model is given are those the library's own reader reports for the source (Archive::list / read_file); reader correctness is C01's subject",
        "the builder that writes the target is C01's subject; the model treats re-adding as a map insert",
        "a rebuild that errors after extraction (verification refusing a target the reader's ratio limit rejects, C03 finding D2) is counted, not compared",
    ],
    assumptions=["'listed files' = what Archive::list returns (names from the (listfile) that resolve); a source without (listfile) has no listed names and rebuild reports an error",
                 "special files (listfile)/(attributes) are carried as ordinary files; only (listfile)'s presence, not its bytes, is compared"],
)

PROPS["C10"] = dict(
    rule="six small archives carrying each kind of integrity metadata (sector checksums V1/V2 with raw, compressed, multi-sector, encrypted and FIX_KEY files; full CRC32+MD5 attributes V1/V3; V4 header and table digests; a weak-signed V1 archive): the intact archive must verify, then every offset (thorough) or every 7th offset plus the first 8 and last 12 bytes (quick) of each protected region (stored file data incl. offset/checksum tables, the (attributes) file, header, hash/block/HET/BET tables, all signed bytes and the signature) is altered with four patterns (xor one byte, zero one byte, zero a run of 5, random run of 2..8) and the oracle requires: open/read/verify reports failure, or every file's content is still bit-identical (signature: must stop verifying). Plus signed byte strings of ~132 KiB with the signature block inside, at and across 64 KiB digest-unit boundaries, flipped bit by bit around the block and at random offsets, and the digest compared with MD5 of the bytes with the signature file zeroed. Lean ADLER32/CRC32 definitions are compared with adler2 / crc32fast on boundary-length and random buffers. non-trivial = an alteration that was detected; distinct by FNV hash of world+offset+pattern",
    trusted_base=COMMON_TB + [
        "MD5 is an abstract function in the theorems; its collision resistance (and RSA's) is assumed, not proved",
        "checksums detect every single-byte change (theorem) but multi-byte changes only up to collision probability; those are sampled by the harness",
        "a panic on a damaged archive counts as 'not silently accepted' here; absence of panics is C05's subject",
    ],
    assumptions=["protected bytes = the stored bytes of a checksummed file incl. its sector offset and checksum tables; the (attributes) file and the data of files it covers; V4 header and tables; every byte the weak signature's digest covers and the 64 signature bytes (not the 8 unsigned header bytes of the signature file)"],
)

PROPS["C16"] = dict(
    rule="images of 12 (quick) / 20 (thorough, up to 512x512) sizes incl. 1x1, non-square, non-power-of-two and one-pixel-wide/high, five content kinds (noise > 256 colours, <= 7 colours, all transparent, gradients, flat) x 25 targets (BLP0/1/2 x palettised at alpha 0/1/4/8, raw BGRA, JPEG with/without alpha, DXT1/3/5 with/without alpha) x mipmaps on/off x filter Nearest/Triangle (quick: a rotating third of the grid): image_to_blp -> encode -> parse must give the identical BlpImage, a second encode identical bytes, level count and per-level dimensions down to 1x1, every level decodable at its dimensions, locator extents inside the file, disjoint, unused slots zero and equal to the model's layout; raw BGRA pixels equal the source; palettised colours are palette entries and alpha equals the source alpha quantised as the model's packAlpha predicts. mipmaps_count is compared with floor(log2) for widths 1..600 and the powers of two +-1 up to 65535. non-trivial = a (size, target, mips) combination that passed all comparisons",
    trusted_base=COMMON_TB + [
        "JPEG and DXT pixel content is lossy and not compared; only structure, sizes and layout are",
        "colour quantisation (color_quant) is taken as given: only membership of decoded colours in the palette is checked",
        "the image crate's resize produces the requested dimensions (checked per level by the oracle)",
    ],
    assumptions=["dimensions below 65536 (the format's own limit, enforced by the encoder)"],
)

PROPS["C14"] = dict(
    rule="builder inputs over versions VanillaEarly..MoP (cycled): 1..5 textures with names of varying length, 0..3 models, 0..2 WMOs, placements, optional flight bounds (TBC+), water with 1..3 layers per chunk on arbitrary chunks incl. first/last (WotLK+), texture flags, amplifier, and 0 (256 generated chunks), 1, 3 or 256 populated terrain chunks with heights and optional layers+alpha, shadow, references, vertex colours switched on/off per chunk. For every tile: the serialised bytes are walked by an independent chunk reader (must tile the file; MCNK sub-chunks must tile the chunk), the layout of the file is given to the Lean model which recomputes MHDR (flags and 11 offsets), all 256 MCIN entries and the 15 derived MCNK header fields and compares them with the bytes in the file; parse_adt's content must equal the builder's, and three rounds of from_root_adt->to_bytes->parse must keep the content and not grow the file. non-trivial = a tile that passed all comparisons",
    trusted_base=COMMON_TB + [
        "content equality is by a canonical rendering of the parsed structures written in the harness (floats by bit pattern); derived fields (offsets, sizes, counts) are excluded from it and checked through the model instead",
        "the version label inferred from chunk presence is not content: a MoP tile without MoP-only chunks is byte-for-byte a WotLK tile; label differences are counted, their consequences (content change, growth) are checked",
        "absent MTXF and all-zero MTXF are the same content (the serializer always writes the chunk for WotLK+)",
        "MCNK chunk payloads are validated as written by this crate (136-byte header); sub-chunk payload encodings are the parsers' business",
    ],
    assumptions=[],
)

PROPS["C15"] = dict(
    rule="roots over versions Classic..MoP (cycled) with every list empty / one / several: materials (texture offsets into MOTX), groups with names sharing prefixes and repeated names, portals, portal references, visibility lists incl. empty lists in leading/middle/trailing position, lights, doodad definitions and sets, textures; plus one group file per case (vertices, normals, texture coordinates, indices, batches, vertex colours, doodad references on/off). Root: independent framing walk, MOHD counts recomputed by the Lean model from chunk sizes, MOGI name offsets resolved against MOGN by the model, MOVV/MOVB decoded by the model, parse_root content equal to the input, header counts equal to list lengths, second write byte-identical, convert_root to a second version (all 25 pairs over a run) keeps the content. Group: one MOGP spanning the file, sub-chunks tile it, element counts from chunk sizes equal list lengths. One root in eight carries doodad definitions with arbitrary name offsets (known finding D39). non-trivial = a root that passed all comparisons",
    trusted_base=COMMON_TB + [
        "root bounds are derived data in this crate (the parser recomputes them as the union of the group boxes); inputs are generated consistent with that",
        "group files: the crate has no parser for the legacy WmoGroup the writer takes (parse_group is a stub), so group content is checked through chunk framing and element counts only",
        "doodad definitions use name offsets that are a fixed point of the writer's renumbering, except in the known-finding sample",
    ],
    assumptions=["light and doodad-set records are compared field by field through the parser; liquids and BSP nodes of groups are not generated"],
)

PROPS["C13"] = dict(
    rule="models over versions Vanilla..MoP (cycled): names of varying length, global sequences, 1..5 bones whose translation/scale tracks draw time lines from a shared pool (shared time line with own values, fully shared tracks, own ranges pre-WotLK), vertices, materials, static transparency tracks, events with and without time lists, attachments with and without animated scale; write -> parse must give the same content (structures through the parser, key frames read from the file through the (count, offset) pairs), a second write the same bytes, conversion to the same version the same bytes and to another version (all 25 pairs over a run) the shared content; the relocated offsets of all bone key-frame blobs are compared with the Lean relocation model's. Skins: old and versioned layouts x every list empty/one/many, write -> parse -> write. non-trivial = a model or skin that passed all comparisons",
    trusted_base=COMMON_TB + [
        "only the sections listed are generated (no lights, emitters, colour/texture animations, rotations): their serialisation uses the same relocation scheme but is not exercised; legacy-container .anim files cannot be read back (finding D65), modern ones are generated",
        "old-layout skins carry at least 6 indices except in the known-finding sample (D40)",
    ],
    assumptions=["rotation tracks (compressed quaternions) are left empty: their element size differs by version and the generator keeps to vec3 tracks"],
)

PROPS["C05"] = dict(
    rule="valid seed files of every format (MPQ V1..V4 incl. one behind a user-data header, COPY and BSD0 patches, M2 models in three versions, skins in both layouts, ADT tiles of three versions, WMO roots and groups of three versions, the repository's BLP fixtures plus encoder output for seven encodings with full mip chains, a WDBC table, WDT and WDL files) are mutated by: every prefix (quick: ~48 per seed), every aligned dword of the first KiB and every chunk/sub-chunk size field and MCNK header dword replaced by 0, 1, 2^31-1, 2^31, 2^32-1, len-1, len, len+1 (quick: a rotating third of the fields), pairs of hostile values in the first 8 dwords, chunk deletion / duplication / swapping, and random havoc; every public open/parse/list/read entry point of the format runs on each mutant in a supervised worker process: a panic (caught, identified by file and message), a worker death (abort, failed allocation, stack overflow), no progress for 25 s, a peak allocation above 256 MiB, or a single request above 3 GiB is a failure. The MPQ header search and ADT chunk discovery results on the mutants are compared with the Lean model. non-trivial = a mutant the parser rejected with an error",
    trusted_base=COMMON_TB + [
        "absence of panics/aborts is a property of the compiled Rust code: it is established by running it (sampling), the theorems cover only the modelled loops and the allocation rule",
        "the harness is built with overflow checks on (as `cargo test` builds are), so arithmetic overflow counts as a panic",
        "allocation accounting is by a counting global allocator in the worker; the 256 MiB / 3 GiB thresholds are the harness' reading of 'out of proportion' for inputs of a few KiB to ~1 MiB",
    ],
    assumptions=["the mutation seeds are the valid files listed in the rule; a parser path no seed reaches is not exercised"],
)

# ---- additions made after the second round of seeded changes (what each generator / oracle now also covers)
EXTRA_RULE = {
 "C01": "file names use every letter (case folding of the whole alphabet); collision groups on the last hash slot (probe chains that wrap). V3/V4: the extended tables resolve every added name and confirm its name hash; members of 128 KiB..3 MB so that extended block-table entries of every width (below, at and past 64 bits) are built, each compared with the classic block entry and with Model.C01Bet byte for byte; the reader on 400/4000 arbitrary tables (any column widths 0..64, any bytes); 136 reads of an 8 MiB member in one process; one archive in three carries names whose extended-table byte is 0xFF or 0x80 (two of them colliding); the builder's hash-entry table and the candidates / confirmed index of 14 lookups per archive against Model.C01Het. sectored files that are almost incompressible (random sectors, one ending in 4..128 zeros) under every method; sparse literal runs of exactly 127..130 / 255..258 / 385 bytes between zero runs.",
 "C02": "two reference-written archives in three carry deleted markers (independent writer that added and removed files: Model writeArchiveTomb), names containing every letter incl. z. the reference reader is strict about what a lenient reader forgives: the V2 header's table of high position words is absent or inside the archive, every live block's stored extent (model op mpqblocks) lies inside the archive.",
 "C03": "the in-tree sparse compressor byte for byte on every {0,x} string up to length 10/12 and run-structured inputs; ADPCM mono/stereo combined with every second-stage method on sine, square-wave and click signals; 560 decodes of a 2 MiB block in one process (no budget shared between calls). stereo ADPCM with one steady channel (left / right); the ADPCM encoder on 90/600 generated signals (drift, jumps, sine, full-scale alternation, noise; refused lengths included) and the decoder on its streams, on mutated streams (markers inserted, bits flipped, truncated, other bit shifts) and other declared sizes, byte for byte against Model.C03Adpcm. 2^20+1 and 2^21 bytes in every tier.",
 "C05": "(attributes) special files parsed directly (7 flag sets x 3 block counts x 10 requested block counts); the last 1..8 bytes cut off every seed; every pair of hostile values over the first 8 dwords for DBC/patch/skin/attributes seeds. seeds for water tiles (MH2O header rows, instances, bitmaps, vertex data mutated field by field), chunked models (MD21 + every auxiliary chunk), modern and legacy .anim files, WDB2 (basic / extended) and WDB5 containers. a chunk moved to the end of the file or right behind the first chunk (also the last three chunks).",
 "C06": "adds whose data preparation fails after the early checks passed (unsupported selector combination, ADPCM on odd lengths), as new names and as replaces.",
 "C07": "reported counts against the harness' own bookkeeping (listed entries, entries the options exclude); fixed witness of D2 through rebuild.",
 "C09": "requests of 5001/5003/5007 names (own splitting path) in the quick tier; the archive at the same path replaced and extracted again in the same process through every parallel entry point. archive members in every storage form (default, encrypted + compressed, encrypted with the position-adjusted key and stored as is, stored plain, bzip2); extract_matching_parallel over all sub-directory predicates and all files.",
 "C10": "every protected archive also verified behind a 512- and a 1536-byte prefix; an empty and a one-byte file in every protected archive; an archive with full attributes after an in-place add (MutableArchive): untouched and added files verify, altered bytes of untouched files are detected. files mixing stored-as-is and compressed sectors under sector checksums; 700/3000 signed contents (short RSA values occur). an existing file REPLACED in place (V1, V2, V4) in an archive with full attributes: the replaced file verifies too.",
 "C11": "traversal names that share a leaf name with an ordinary entry (flattened extraction meets the same base name again); directories followed by more '..' than directories.",
 "C13": "textures with and without file names, events with per-animation ranges, cameras with any subset of position/target/roll tracks; the relocation correspondence also for the event, attachment and camera sections. header flags incl. the texture-combiner bit for Cataclysm/MoP models; 80/600 modern .anim files (0..3 sections, 0..5 bones each, every subset of translation / rotation / scaling tracks with 0..4 keys, arbitrary float bits): write->parse->write, conversion to the same and to the other container, and the model's reading and re-laying-out of the writer's bytes. skins whose bone-index table is shorter / longer than the vertex lookup or empty.",
 "C14": "every combination of flight bounds / water / texture flags per version (version detection and chunk selection depend on which markers occur together). terrain chunks carrying MCRD and MCRW alone and together; water instances reaching the far edge (x+w = 8 / y+h = 8). MoP tiles with texture height parameters and the four blend-mesh chunks; the chunk index read straight from the bytes (entry i = i-th terrain chunk).",
 "C15": "one root in four with stale header counts (lists edited after the header was filled in); the group writer's bytes through the crate's own group reader (known finding D53). portals with 0..6 corners; group flag conversion over every version pair against Model groupFlagsTo. header bounds read from the written bytes against the object's; index lists longer than the batches cover and batches that draw nothing; element counts read from the group's sub-chunk sizes.",
 "C16": "every image class (noise, few colours, fully transparent, gradient, flat opaque) at every size on the exact BGRA target.",
 "C17": "structured key columns (consecutive, sorted with duplicates and gaps, a duplicate exactly compensating a gap, descending) and lookups of every value in the key range. source files whose string block does not start with the empty string; the lazy iterator through nth / step_by / skip / last / count, fresh and after it has advanced.",
 "C19": "handles forged in the high 32 bits of live archive and file handles; 24/120 histories on writable archives (SFileCreateArchive2 V1..V4: add with/without replace, remove, rename, flush, compact) with the C API's view of every name compared with a name->bytes map after every call and the closed archive read by the Rust API. buffer-size sweeps around the exact fit for SFileGetArchiveName / SFileGetFileInfo. file handles kept open across later steps of writable-archive histories (a new open never depends on older handles); names longer than the find-data buffer whose byte 259 falls inside a 2-, 3- or 4-byte character.",
 "C20": "a second generation (same names and lengths, other bytes) extracted over the first one's output; --preserve-paths with nested, unsafe and explicit names with and without --skip-errors. every format family (dbc, wdt, wdl, mpq, adt, wmo, m2, blp) on valid / empty / half / header-only / magic-zeroed / tail-cut / missing input; the global -q/--quiet flag before and after the sub-command never changes the exit status; a 150/333-member archive with one member damaged at a time (first, early, middle, last batch, last). hollow inputs (signature and version, everything else zero: load but hold nothing); the reporting flags (--warnings / --detailed / --verbose, alone and together) of every validate sub-command never turn a failing validation into exit 0.",
 "C04": "the HET/BET table wrapper (encrypt_data / decrypt_table_data) on tables of every length mod 4 (slots 1..40 x index bits 1..8). both byte wrappers on slices that start at every address modulo 4 inside a larger buffer (result independent of the slice's position; neighbours untouched).",
 "C08": "patch entries (TPatchInfo + PTCH, flag set in the block table) inside chains: applied over the base, a failing patch is an error and never the base or the raw patch bytes. identity patches (result = base) applied to an altered, longer, shorter and empty base; after a patched read the history goes on (patch archive re-prioritised below the base, back, removed, re-added, chain cleared) and every answer follows the chain as it is now.",
 "C12": "the destination reserved beforehand as an EMPTY file (besides absent and holding earlier content).",
}
ROUND5 = {
 "C01": "the archive header of every built archive through Model.C01Header (fields against the builder's request), every header field replaced by boundary values (sizes around each version's minimum, versions 0..5, shifts around the limit, table positions around the archive size, table sizes around the entry limits and non-powers of two), truncations at every field boundary, V3 headers announcing the V4 size; one archive in four carries name pairs that differ only in the case of a non-ASCII letter; builds with two names that are one name to the archive (ASCII case / slash direction) must be refused (V1..V4).",
 "C02": "one reference-written archive in three is also read behind a 512- or 1024-byte foreign prefix (position-adjusted keys are relative to the archive's own start).",
 "C05": "fields that belong together made hostile at once: (offset, size) entries of the BLP mipmap locator, adjacent (count, offset) pairs of model / skin / animation headers.",
 "C07": "sources whose names differ only in the case of a non-ASCII letter (distinct files: the format folds ASCII only).",
 "C08": "the file map and the listing after every step against Model.C08Read (c08map, c08list); patch entries that do not parse (signature / digest-block signature altered, cut inside the header) and three-level chains (base, patch, patch over patch; lower patch intact, unparseable, altered) against readFile of the model; two archives whose names differ only in the case of a non-ASCII letter under three priority orders.",
 "C09": "two more generations at the same path: an archive without (listfile) and one whose external listfile names only every second member.",
 "C13": "the five (count, offset) pairs in the header of every written skin and the file size against Model.C13Skin's section layout.",
 "C15": "the MOHD payload of every written root (seven counts, packed ambient colour, bounding box by bit pattern) against Lib.Record's encoding of the object's values.",
 "C16": "the header of every encoded file through Model.C16Header, every one of its first 28 bytes replaced by boundary values, truncations at every field boundary (header error classes are read from the parser's error context; a header the parser accepted but whose content it refused is counted, not compared).",
 "C18": "file-id tables of 1..12 sections in well-formed files; the MPHD payload, the first three MODF entries and three MAIN entries of every written file against Lib.Record's encoding of the object's field values (op rec).",
 "C14": "the offsets recorded in the water chunk of every written file (256 headers and all instance records, read from the bytes) against Model.C14Water's layout; 40/400 water-only tiles with bitmap-only, vertex-only, bare and attribute-only entries.",
 "C19": "the bytes written by SFileGetArchiveName at every buffer size, by SFileGetFileName and into the find data for long, multi-byte and nested names against Model.C19Buf; a close-race phase: three threads open files and searches on an archive handle while a fourth closes it - nothing they obtained may be usable once SFileCloseArchive has returned.",
}
for _k, _v in ROUND5.items():
    EXTRA_RULE[_k] = (EXTRA_RULE.get(_k, "") + " " + _v).strip()
for _k, _v in EXTRA_RULE.items():
    _r = PROPS[_k]["rule"]
    PROPS[_k]["rule"] = (_r if isinstance(_r, str) else "".join(_r)) + " ALSO: " + _v
