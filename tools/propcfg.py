"""Per-property configuration for ./check (theorem audit lists live in lean/WowVerif/Audit/Cxx.lean)."""

COMMON_TB = [
    "the tie: harness wvh (Rust, linked against /repo's current crates), its generators and canonicalisers; "
    "correspondence is sampling, not a proof that Model = Rust on all inputs",
    "constants in Gen/Consts.lean are dumped from the freshly compiled crates by `wvh dump-consts`",
    "Rust compiler, std, OS",
]

PROPS = {
    "C04": dict(
        rule=("requests: every 0/1-byte string and every 2-byte UTF-8 scalar x 5 hash types, a strided (quick) or "
              "complete (thorough) sweep of ASCII pairs, random structured names up to 300 bytes, keys x buffers of "
              "every length 0..17 plus large random buffers; all 1280+512 table entries against the reference. "
              "non-trivial = a spelling variant that differs bytewise from the original name, or a non-empty buffer "
              "under a non-zero key; distinct by FNV hash of the canonical request"),
        trusted_base=COMMON_TB + [
            "Spec.Crypt (reference hash, cipher, crypt-table generator, lookup3 hashlittle2) as written from the "
            "published format; `decide +kernel` evaluates the 1280-entry and 256-entry table equalities in the kernel",
            "hash_string/jenkins_hash/het_hash take &str: bytes >= 0x80 reach the implementation only inside valid "
            "UTF-8; the theorems cover all byte strings"],
        assumptions=["hash_type + 255 < 2^32 (the five published hash types satisfy it)"],
    ),
}
