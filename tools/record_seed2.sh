#!/bin/bash
# record_seed2.sh <round> <Cxx> <m-in> <m-out> "<needs>" "<detected-by>" : store a confirmed seed of a later round under
# /verif/seeded/<Cxx>-<m-out>/ with its patch refreshed against /repo HEAD
export SEED_ROUND=$1; R=$1; ID=$2; MI=$3; MO=$4; NEEDS=$5; DET=$6
SRC=/tmp/seed$R/$ID/$MI; DST=/verif/seeded/$ID-$MO
mkdir -p $DST
cp $SRC/patch.diff $DST/patch.orig.diff
cd /repo && git diff --quiet || { echo "/repo not clean"; exit 2; }
(git apply $SRC/patch.diff 2>/dev/null || git apply --3way $SRC/patch.diff) || { echo "does not apply"; git checkout -q -- .; exit 2; }
git reset -q; git diff > $DST/patch.diff; git checkout -q -- .
for f in demo.rs demo.sh notes.md confirm.log crate.txt; do [ -f $SRC/$f ] && cp $SRC/$f $DST/; done
python3 - "$DST" "$ID" "$NEEDS" "$DET" <<'PY'
import json,sys,os
d,prop,needs,det=sys.argv[1:5]
conf=open(os.path.join(d,'confirm.log')).read() if os.path.exists(os.path.join(d,'confirm.log')) else ''
json.dump({"property":prop,"breaks":prop,"round":int(os.environ.get("SEED_ROUND","2")),"needs_to_manifest":needs,
 "confirmed_by":"tools/confirm_seed*.sh in the agent's scratch worktree: crate tests pass with the change, demo fails with it, passes without",
 "confirm_result":[l for l in conf.split('\n') if l.startswith('RESULT') or 'CONFIRMED' in l],
 "check_run":"tools/seedtest.sh %s/patch.diff %s"%(d,prop),"detected_by":det,
 "note":"patch.diff applies to /repo HEAD (refreshed after later fix: commits); patch.orig.diff is as delivered"},open(os.path.join(d,'meta.json'),'w'),indent=1)
PY
echo recorded $DST
