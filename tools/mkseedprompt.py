#!/usr/bin/env python3
"""mkseedprompt.py <Cxx> <round> : write /tmp/seed<round>/<Cxx>.prompt.txt for a fresh seeding sub-agent.
The agent sees only the property text and short descriptions of changes already found (to avoid duplicates)."""
import json, sys, os, glob
V = "/verif"
pid, rnd = sys.argv[1], sys.argv[2]
prop = [json.loads(l) for l in open(f"{V}/properties.jsonl") if json.loads(l)["id"] == pid][0]
out = f"/tmp/seed{rnd}"
os.makedirs(f"{out}/{pid}", exist_ok=True)
prev = []
NOPREV = os.environ.get("SEED_NOPREV") == "1"   # round 5 on: the agent sees the property text only
for d in [] if NOPREV else sorted(glob.glob(f"{V}/seeded/{pid}-*/notes.md")):
    first = open(d).read().split("\n")[0].lstrip("# ").strip()
    prev.append(first)
a = prop["anchors"]
mech = str(a.get("mechanism", ""))
ALSO = "" if NOPREV else ", and different mechanisms from the changes ALREADY FOUND listed below"
FOUND = "" if NOPREV else "ALREADY FOUND (do not repeat these; pick other code sites / other mechanisms named above):\n" + "\n".join(f"  - {p}" for p in prev)
txt = f"""You are helping to test a verification effort for the Rust workspace "warcraft-rs" (readers/writers for World of Warcraft file formats: MPQ, M2, ADT, WMO, BLP, DBC, WDT, WDL, a C FFI and a CLI). You have your own scratch git worktree of the repository at /tmp/wt{rnd}-{pid} (a detached checkout; work ONLY there — never touch /repo or /verif, and do not read anything under /verif). The sandbox has no network; build with `cargo ... --offline` (set CARGO_NET_OFFLINE=true). The worktree has its own `target/` directory; builds take a few minutes.

Below is a semantic property that the code base is supposed to satisfy. Your job: craft TWO different, realistic code changes (bugs a developer could plausibly introduce: an off-by-one, a wrong boundary, a dropped case, a refactor that changes a corner, an "optimisation" that is wrong for some inputs, two sites that each look fine alone) each of which BREAKS this property, while the workspace still compiles and the EXISTING test suite still passes (no test edited, removed or added to the repo's suite). Prefer changes that need something specific to manifest — an unusual input, a particular size relative to a boundary, a specific multi-step sequence of operations, a particular configuration or interleaving — NOT ones that ordinary use or a trivial smoke test would expose at once. The two changes should touch different mechanisms{ALSO}.

PROPERTY
--------
{pid} — {prop['title']}

STATEMENT: {prop['statement']}

QUANTIFIER: {prop['quantifier']['text']}

WHY TESTS CANNOT SETTLE IT: {prop['why_tests_cant']}

ANCHOR FILES: {', '.join(a.get('files', []))}

MECHANISMS: {mech}

{FOUND}

--------

For each change i ∈ {{1,2}} deliver, under {out}/{pid}/m<i>/ :
  - patch.diff      : `git diff` of the change against the worktree's HEAD (only the bug; apply-able with `git apply` at the repository root)
  - a demonstration : a small standalone Rust test file `demo.rs` (an integration test placed, when you run it, under the affected crate's `tests/` directory, using only the crate's public API — or, for the CLI, a shell script `demo.sh`) that FAILS with the change applied and PASSES on the unmodified code. Keep the copy in {out}/{pid}/m<i>/ ; do not leave it in the patch.
  - notes.md        : first line `# {pid} / m<i> — <one-line description>`; then which part of the property it breaks, what exactly is needed for it to manifest (input / sequence / configuration), the exact commands you ran, and their outcomes.
  - crate.txt       : the cargo package name of the affected crate (e.g. wow-mpq)

Required verification (do it yourself, report honestly):
  1. with the change applied: the affected crate(s) compile, and `cargo test -p <affected crate> --offline` passes (all existing tests). Existing tests that already fail on the unmodified tree (if any) do not count — check by running them on the clean tree too.
  2. with the change applied: the demonstration fails. With the change reverted (`git checkout -- .` then copy the demo back): the demonstration passes.
If a candidate change makes an existing test fail, discard it and find another. When finished, leave the worktree clean (`git checkout -- . && git clean -fdq -e target`), and reply with a short summary: for each change, one paragraph (what, where, what it needs to manifest) and whether all verification steps succeeded.
"""
open(f"{out}/{pid}.prompt.txt", "w").write(txt)
print(f"{out}/{pid}.prompt.txt", len(prev), "previous")
