TEXT = {
 "C04": dict(
  text=("Machine-checked Lean 4 theorems, for all inputs: the 1280-entry crypt table and both folding tables "
        "compiled into the crate equal the reference tables (kernel evaluation); the name hash equals the reference "
        "MPQ hash for every hash type and byte string and is invariant under case/slash folding; block and byte-level "
        "decryption invert encryption for every key and every length (tail bytes, key 0, wrapping tail key included); "
        "the code's hashlittle2 tail match equals lookup3. The model is tied to the code by constants regenerated "
        "from the compiled crate every run and by differential execution of the compiled model and of the Lean "
        "reference against the real functions."),
  note=("Lean kernel; axioms propext, Quot.sound only; Spec.Crypt is the reference as I wrote it from the published "
        "algorithms; the model-to-code tie is sampling (exhaustive for strings of length <= 1, 2-byte UTF-8 scalars, "
        "buffer lengths 0..17) and &str restricts the implementation side to valid UTF-8."),
  technique="Lean 4 proof (induction, kernel-evaluated table equalities) + regenerated constants + differential correspondence"),
}
NA = {}
