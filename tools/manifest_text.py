TEXT = {
 "C04": dict(
  text=("Machine-checked Lean 4 theorems, for all inputs: the 1280-entry crypt table and both folding tables "
        "compiled into the crate equal the reference tables (kernel evaluation); the name hash equals the reference "
        "MPQ hash for every hash type and byte string and is invariant under case/slash folding; block and byte-level "
        "decryption invert encryption for every key and every length (tail bytes, key 0, wrapping tail key included); "
        "the code's hashlittle2 tail match equals lookup3. The model is tied to the code by constants regenerated "
        "from the compiled crate every run and by differential execution of the compiled model and of the Lean "
        "reference against the real functions."),
  note=("Lean kernel; axioms propext, Quot.sound only; Spec.Crypt is the reference as I wrote it from the published "
        "algorithms; the model-to-code tie is sampling (exhaustive for strings of length <= 1, 2-byte UTF-8 scalars, "
        "buffer lengths 0..17) and &str restricts the implementation side to valid UTF-8."),
  technique="Lean 4 proof (induction, kernel-evaluated table equalities) + regenerated constants + differential correspondence"),
}
TEXT["C17"] = dict(
  text=("Machine-checked Lean 4 theorems about a complete model of the WDBC format as the crate reads and writes it: "
        "for every schema (all field types, arrays, any key position) and every well-typed table, parse(write t) "
        "resolves back to exactly t; written size = 20 + records x record size + string block; the string block is the "
        "NUL-terminated concatenation of a duplicate-free list (empty string + the table's strings); sequential-cursor "
        "decoding equals seek-based decoding of record i at i x record size for every byte string (eager = lazy = mmap "
        "= parallel); hashed key lookups are sound and complete, and the sorted key map is sorted and consistent. The "
        "model is tied to the code by differential execution both ways (Rust-written bytes parsed by the model, model "
        "written bytes compared byte-for-byte, malformed files by outcome class) and by a property oracle over all "
        "access paths of the real crate."),
  note=("Lean kernel, axioms propext/Quot.sound/Classical.choice at most; model hand-written from the Rust; tie is "
        "sampling; std binary search and rayon are trusted; WDB2/WDB5 not modelled. Four genuine defects found by this "
        "check were repaired in /repo (see known_findings.jsonl 'fixed' entries)."),
  technique="Lean 4 proof (round-trip by induction, interning invariant) + two-way differential correspondence")
TEXT["C18"] = dict(
  text=("Machine-checked Lean 4 theorems: world_to_tile(tile_to_world(x,y)) = (x,y) for all 64x64 tiles on an exact "
        "binary32 model (kernel evaluation); an independent chunk walker recovers exactly the serialised chunk list and "
        "framing tiles the file; for every well-formed WDT value parse(write w) = w with the version re-detected and a "
        "second write is byte-identical; every MAOF entry the WDL writer records is the file position of that tile's "
        "MARE header. Tied to the code by bit-exact float validation, regenerated constants, and differential execution "
        "of writer, reader (incl. truncated files) and offset table against the real crates, plus a property oracle "
        "(round trip, second write, conversions preserve tiles)."),
  note=("Lean kernel + propext/Quot.sound; SoftF32, the WDT chunk-level model and the WDL layout model are hand-written; "
        "field codecs inside fixed-layout payloads are checked by the harness, not proved; the tie is sampling. One "
        "genuine defect (960 tiles not inverting) was repaired in /repo."),
  technique="Lean 4 proof (kernel-evaluated finite domain on a soft-float model, chunk-framing induction) + differential correspondence")
TEXT["C03"] = dict(
  text=("Machine-checked Lean 4 theorems about the compression front end and the decompressor's acceptance arithmetic: "
        "the stored form is never longer than the input for any codec output; the reader's size-only raw-vs-compressed "
        "rule recovers the data whenever the codec inverts; a closed form of everything validate_file_bounds / adaptive "
        "limits / pattern detection / +-10% / monitor accept; the in-tree sparse codec INVERTS EXACTLY: a model of "
        "sparse.rs:compress (scan, StormLib's 0x81 quirk, zero-run splitting, tail flush) is proved to emit a well-formed "
        "token stream standing for its input, the decoder model is proved correct on such streams with an over-long final "
        "zero marker, hence decode(compress d) = d for every non-empty d < 4 GiB, and through the store-raw front end for "
        "every d. The lossy selectors: an exact model of the in-tree IMA ADPCM encoder and decoder (adpcm.rs, mono and "
        "stereo) with adpcm_length (the decoder accepts the encoder's stream and returns exactly the input length, every "
        "input, level and channel count), adpcm_functional (what comes back sample for sample: step-size markers never move "
        "a sample to the other channel) and adpcm_stereo_is_two_monos (the stereo codec on an interleaved signal is the "
        "interleaving of the mono codec on each channel - channel interleaving is preserved). The statement 'the compressor's own output is always accepted' is FALSE of the code: proved as "
        "_partial under the ratio hypothesis, with a kernel-checked witness that is replayed on the implementation "
        "(known finding D2). Tied to the code by differential execution of framing decisions, selector support, "
        "acceptance outcomes, sparse and ADPCM encoding (byte for byte) and decoding (own, mutated and truncated streams), and by a round-trip / never-expands oracle over all selectors."),
  note=("third-party codecs and the in-tree Huffman codec are parameters (round trip sampled, not proved). Known findings D2 (ratio limits reject own output) and D25 (PKWare output undecodable); two "
        "defects repaired (PKWare ASCII-mode panic; ADPCM+BZip2 blocks rejected on read because the intermediate stage was "
        "held to an exact size)."),
  technique="Lean 4 proof (arithmetic closed form; sparse codec round trip by induction over the compressor's scan; ADPCM length / channel independence by induction over marker groups) + differential correspondence + round-trip oracle")
TEXT["C08"] = dict(
  text=("Machine-checked Lean 4 theorems: after every history of add / remove / set-priority / clear the chain is ordered "
        "by (priority descending, insertion ascending) with fresh stamps (induction over histories); a lookup returns an "
        "entry that contains the name and precedes every other entry containing it — highest priority wins, earliest added "
        "wins ties; not-found iff no archive lists the name; parallel construction is priority-ordered; whatever "
        "apply_patch returns matches both declared digests and the declared size for COPY and BSD0 (every control triple "
        "bound-checked), and the RLE stage yields exactly the declared length. Tied to the code by stateful differential "
        "execution of histories (order and winner after every step), of patch parsing/application outcomes on well-formed "
        "and altered patches, and by a property oracle with independent bookkeeping."),
  note=("MD5 abstract in theorems; listing-based containment; patch entries inside chains not generated (builder cannot "
        "emit them); tie is sampling. Observation (not a violation): BSD0 backward seeks saturate to 0 instead of "
        "StormLib's sign-magnitude meaning, so such patches end in an MD5 error."),
  technique="Lean 4 proof (invariant by induction over operation histories, refinement to first-match lookup) + stateful differential correspondence")
TEXT["C09"] = dict(
  text=("Machine-checked Lean 4 theorems over a model in which tasks are pure functions and results are collected by "
        "request index: for EVERY completion order (any list mentioning every index) slot i holds task i's result, so two "
        "schedules always agree; chunk-then-flatten is the identity for every batch size k > 0, hence batched = unbatched = "
        "sequential map with the thread count not occurring at all; with skip-errors a failing name changes only its own "
        "slot; without it the call succeeds iff every request succeeds and then returns the sequential results in order. "
        "Tied to the code by differential execution over request lists x threads x batch sizes x skip under contention, a "
        "source scan for shared mutable state (assumption A1), and a slot-by-slot oracle against sequential read_file."),
  note=("PARTIAL: real thread schedules are sampled, not proved; A1 (no shared mutable state) is a lexical scan, A2 "
        "(rayon's indexed collect) is trusted."),
  technique="Lean 4 proof (schedule-independence and chunk/flatten lemmas) + differential correspondence under contention")
TEXT["C12"] = dict(
  text=("Machine-checked Lean 4 theorem over a file-system model: for ANY operation trace in which nothing touches the "
        "destination except one rename onto it, after EVERY prefix (process death at any system call) and from every "
        "initial file system the destination holds exactly its previous content or exactly the temp file's content at "
        "the rename; a trace without that rename leaves it untouched. The implementation is tied to that shape by "
        "abstracting its real strace trace (descriptor tracking) and having the model decide it, and by fault enumeration: "
        "ENOSPC and SIGKILL injected at the relevant calls and RLIMIT_FSIZE short writes, after which the destination "
        "must be byte-identical to before or a complete archive whose files read back."),
  note=("PARTIAL: rename atomicity is an assumption; the temp file's completeness at the rename is established by the "
        "fault enumeration (sampled configurations), not proved; single faults only."),
  technique="Lean 4 proof (prefix-closed invariant over operation traces) + strace trace refinement + fault enumeration")
TEXT["C11"] = dict(
  text=("Machine-checked Lean 4 theorem over a model of name -> system path -> components -> output path: for EVERY entry "
        "name (any bytes) and both modes, if anything is written it is written at <out>/c1/.../cn with n >= 1 and every ci "
        "non-empty, not '.' or '..', and free of separators, i.e. lexically inside <out>; traversal names are refused. "
        "Tied to the code by running the freshly built CLI on archives with hostile names in a sandbox with canary files, "
        "a before/after snapshot of the whole sandbox (property oracle), and comparison of the written file set with the "
        "model's per-name prediction."),
  note=("PARTIAL: lexical (no symlinks, Unix only). One genuine defect (preserve-paths wrote '..\\x' and absolute names "
        "outside the output directory) was repaired in /repo."),
  technique="Lean 4 proof (path-component model) + sandboxed differential run of the CLI with filesystem snapshots")
TEXT["C20"] = dict(
  text=("Lean 4 theorems about the exit-status decision logic (zero exit without error-skipping implies every requested "
        "item was produced; an input that does not open, a fatal I/O error, a failed validation or a failed extraction "
        "without skipping implies a non-zero exit; skipping isolates failures) and a differential tie that runs the binary "
        "built from the current tree: create -> extract byte-for-byte over versions x compressions x extract modes, "
        "list/info against the library's view, validate on damaged archives, and every sub-command of four format "
        "families on valid / truncated / corrupted / missing inputs against the library's accept/reject verdict and the "
        "model's exit-status table."),
  note=("PARTIAL: the proof covers the decision table only; argument parsing and output formatting are observed. One "
        "defect repaired (mpq validate exited 0 after reporting failure)."),
  technique="Lean 4 proof (decision table) + differential run of the CLI binary against the library and the model")
TEXT["C19"] = dict(
  text=("Machine-checked Lean 4 theorems over a model of the three handle tables with ARBITRARY handle values: after every "
        "call sequence ids stay below one strictly increasing counter (never reused), positions stay within the file, "
        "every file and search handle belongs to a live archive; a read returns min(requested, remaining); invalid handles "
        "are errors and no-ops; closing an archive removes exactly its own file and search handles; and the lock "
        "acquisition graph re-extracted from the source on every run is acyclic (kernel-decided). Tied to the code by "
        "stateful differential execution of call histories with live/stale/null/forged handles and canary-fenced buffers, "
        "agreement of bytes/sizes/existence with the Rust API on read-only and on writable archives (before and after flush), handles forged in the high 32 bits, and multi-threaded stress under a watchdog."),
  note=("PARTIAL: unsafe pointer writes and thread interleavings are observed, not proved; lock graph is lexical; writable "
        "archives (SFileCreateArchive2, add/remove/rename/flush/compact) are covered by histories compared with a "
        "name -> bytes map and with the Rust reader, not by the handle-table theorems. Five defects repaired (search "
        "handles survived SFileCloseArchive; names > MAX_PATH overran caller buffers; SFileVerifyArchive self-deadlocked; "
        "SFileHasFile answered from the stale read-only view of a writable archive; SFileAddFileEx replaced an existing "
        "file without MPQ_FILE_REPLACEEXISTING)."),
  technique="Lean 4 proof (invariant by induction over call sequences, kernel-decided lock-graph acyclicity) + stateful differential correspondence + watchdog stress")
TEXT["C01"] = dict(
  text=("Machine-checked Lean 4 theorems about an MPQ reader/writer model. WHOLE ARCHIVE: for every file set with pairwise "
        "different name-hash pairs that fits the hash table, every layout the writer chooses (single unit, plain sectors, "
        "sectors behind an offset table), every encryption mode (none, name key, position-adjusted key) and every stored "
        "form of every unit the codec table maps back, reading the i-th name from the written archive returns the i-th "
        "content (archive_roundtrip), under every spelling that differs in ASCII case or slash direction "
        "(archive_roundtrip_spelling), and a name whose hash pair differs from every added name's is reported not found "
        "(archive_absent); header V1/V2, archive below 4 GiB. Proved by an insertion invariant over the builder's whole "
        "hash-table loop, a byte-level account of header, placement and both encrypted tables, and one lemma per layout. "
        "Below it the carrier theorems (probing mirror, spelling invariance, cipher inversion, sector partition, store-raw "
        "rule, table encryption). The model is tied to the code BOTH WAYS on real archive bytes: the Lean reader reads what "
        "the Rust builder wrote across the configuration product, the Rust reader reads what the Lean writer wrote, plus the "
        "property oracle (every spelling, never-added names, listing, sizes) on the implementation."),
  note=("PARTIAL: codecs are a table (sparse is proved in C03); of V3/V4 both extended tables are modelled and "
        "proved: the bit-packed block-entry table (bet_roundtrip: every row reads back exactly at every entry width; "
        "bet_columns_independent for foreign widths) and the hash-entry table with the lookup through it (het_build_total: "
        "the builder always completes it; het_finds: every added file is among the candidates of its own lookup; "
        "het_resolves_own / het_absent: the candidate confirmed by the 64-bit name hashes is the file itself, a never-added "
        "name resolves to nothing; Jenkins hashlittle2 is an input, supplied per name by the harness), each tied byte for "
        "byte to the builder's tables and to the reader's lookups; V3/V4 headers and table compression are covered by the "
        "correspondence and the oracle only. Five defects repaired (D63: the free-slot marker 0xFF of the hash-entry table "
        "is a valid name byte - one name in 128 was unreachable through the extended tables and broke its probe chain; found "
        "because the proof of het_finds needed nameHash1 != FREE; the others: all-raw "
        "multi-sector files read back with their offset table / garbage when encrypted; failed sector decompression became "
        "zeros; D58 the builder filled the BET name-hash array with a different Jenkins variant than the reader checks; "
        "D59 extended block-table entries wider than 64 bits lost their high bits or overflowed: V3/V4 archives over "
        "about 1 MB read back wrong bytes or could not be built); also in the model's EXTRA rule: names whose table byte is "
        "0xFF / 0x80, colliding pairs. Known finding D2 (ratio limits reject own output) "
        "shared with C03."),
  technique="Lean 4 proof (whole-archive write/read composition by invariant + byte-level layout lemmas; cipher and probing lemmas; extended tables: bit-packing as one little-endian number, probing invariant) + two-way differential correspondence on real archive bytes")
TEXT["C02"] = dict(
  text=("An independent reference implementation (Lean model of the published layout, probing, key derivation and cipher "
        "with Spec constants; CPython zlib/bz2 as codecs) is run against the library in both directions on real archive "
        "bytes, and Lean theorems pin down exactly where the two agree: the crate's flag, header-size, method and table-key "
        "constants and its crypt/fold tables equal the published ones (kernel-evaluated against values regenerated from "
        "the compiled crate); key derivation coincides for names without a path separator and the cipher for buffers of "
        "whole dwords, so inside that region every C01 carrier theorem transfers to the reference; outside it the two "
        "provably differ (kernel-checked witnesses = the two listed findings). At the level of whole archives: for any set "
        "of unencrypted files the code's writer and the reference writer produce the same bytes, hence each side's reader "
        "returns every file the other side wrote (interop_unencrypted, from C01's archive_roundtrip)."),
  note=("PARTIAL: V1/V2 subset; CPython codecs trusted. Known findings: encrypted files in sub-directories use a key "
        "derived from the full path (published: plain name); the 1-3 tail bytes of encrypted buffers are encrypted "
        "(published: left plain). Both break interoperability for those files in both directions."),
  technique="Lean 4 proof (constant equalities by kernel evaluation, agreement region + witnesses) + two-way differential run against an independent reference")
NA = {}

TEXT["C06"] = dict(
    text="Machine-checked Lean 4 theorems about a function-by-function model of MutableArchive: the hash table with deleted markers refines a finite map under the probe-chain invariant for every history of puts and deletes of any length on any table size (step_refines, history_reach, session_reach: add/replace/remove/flush and rename - plain and encrypted path, successful or failing half way - are histories of table steps: add_steps, remove_steps, rename_steps); an insertion fails only when no slot is free and then changes nothing (bounded probe loop is complete); new data and rewritten tables always land behind every existing block and behind the tables the header points to, so bytes of untouched files are never written (addCore_layout, flush_layout, read_write_disjoint). Tied to the code by replaying whole random and boundary histories through the model and comparing every hash slot, block entry and header position the implementation left on disk, plus a BTreeMap oracle after every close+reopen.",
    note="Six genuine defects repaired in /repo (tables overrun appended data / V3-V4 unusable after flush; infinite loop on a full table and mutation before failure; FIX_KEY key and padding; rename of encrypted files; listfile substring match; compact from stale view inventing names). compact is covered by the correspondence and the oracle, not by a theorem of its own; archives with (attributes) by the oracle only.",
    technique="Lean 4 proof (refinement of open addressing with tombstones to a map by invariant + induction over histories; layout invariant) + whole-history differential correspondence on on-disk tables",
)

TEXT["C07"] = dict(
    text="Machine-checked Lean 4 theorems about a model of rebuild_archive and of compare's content check, for every listing and option set: a successful rebuild re-adds exactly the listed files the options do not exclude, in order, with the bytes the reader returned (extract_names/sound/complete); the only other outcome is an error naming a selected file that could not be read, never a silent skip (extract_error); the summary counts are truthful and add up (counts_truthful); as a map the result holds every non-excluded name's content and nothing under excluded names (rebuilt_lookup); comparing source and result reports no content difference and exactly the excluded names as missing (compare_clean). Tied to the code by a source x target-version x options sweep comparing the model's summary/error with rebuild_archive's, plus a bit-for-bit content oracle on the rebuilt archive and compare_archives' report.",
    note="Two genuine defects repaired in /repo (V3/V4 sources rebuilt to an empty archive reported as success, silent skip of unreadable files, count underflow; compare summary underflow). Known finding D2 reached through rebuild (a highly compressible file recompressed into the target is then refused by the target reader's ratio limit; a fixed witness runs in every tier), with its consequence D2c in compare. Reader and builder correctness are C01's subject and are assumed here.",
    technique="Lean 4 proof (structural induction over the listing; map refinement) + differential correspondence over source x target x options",
)

TEXT["C10"] = dict(
    text="Machine-checked Lean 4 theorems: changing any single byte of a buffer of any length changes its ADLER32 and its CRC32 (the latter via injectivity of the table-driven register step, with the table facts checked by kernel evaluation over all 256 entries); whatever the sectored reader returns matches every stored sector checksum, a raw sector with one altered byte fails the read, and intact sectors are accepted unchanged; SFileVerifyFile's decision accepts only content matching the CRC32/MD5 attributes and rejects any one-byte change; the weak signature's digest input differs whenever two archives differ in a byte outside the signature file (full coverage). Tied to the code by running the Lean checksum definitions against adler2/crc32fast, the digest-coverage model against calculate_mpq_hash_md5, and by altering every protected offset of archives carrying each kind of metadata with an oracle 'failure reported or content bit-identical'.",
    note="Partial by nature: MD5/RSA strength is assumed; multi-byte alterations are covered by checksums only probabilistically (sampled). Four genuine defects repaired in /repo: sector checksums of multi-sector files were never verified (and damaged offsets/empty sectors returned zeros); builder wrote HET/BET positions in the wrong header order so V4 digests failed on intact archives; header-controlled allocations aborted the process; in-place modification threw away every recorded checksum of untouched files and recorded CRC32 0 / MD5 zeros for the files it added (D56, D57).",
    technique="Lean 4 proof (algebraic detection lemmas for ADLER32/CRC32, soundness of accept/reject logic, coverage of the signed range) + exhaustive-offset corruption oracle and checksum correspondence",
)

TEXT["C16"] = dict(
    text="Machine-checked Lean 4 theorems: the generated mip chain has mipmaps_count+1 levels, level i has dimensions (max(w/2^i,1), max(h/2^i,1)) = mipmap_size(i), and the last level is 1x1, for all dimensions the format allows; the locator's (offset,size) pairs tile the region behind header and colour map, stay inside it and never overlap, for any list of level sizes; 1-bit and 4-bit alpha packing followed by the decoder's unpacking returns the source alpha quantised to the declared depth for every pixel index and every pixel count (also not a multiple of 8 / 2), with the packed length ceil(n*bits/8). Tied to the code by comparing the model's mip counts, layouts and packed alpha bytes with what image_to_blp/encode_blp produce over a size x target x mipmap grid, plus structural equality of encode->parse, byte-identical re-encode and exact-pixel oracles for the lossless encodings.",
    note="Two genuine defects repaired in /repo (mip chains of non-square images stopped before 1x1 so BLP0 output did not parse and JPEG levels were duplicated; the DXT parser counted blocks as ceil(w*h/16) and truncated levels whose sides are not multiples of 4). Lossy pixel content (JPEG, DXT, palette choice) is outside the statement and not compared.",
    technique="Lean 4 proof (induction on the halving chain with log2, list layout invariants, bit-packing round trip via chunking lemmas) + differential correspondence on layouts/packed alpha and round-trip oracles",
)

TEXT["C14"] = dict(
    text="Machine-checked Lean 4 theorems about the derived data of an ADT root file as functions of the chunk layout: walking the written bytes yields exactly the chunks written with nothing left over (framing_tiles); every position computed for a chunk is the file offset of a chunk header with that name and payload length (pos_points_at_chunk), hence every MHDR offset, every MCIN entry and every MCNK header offset points at a chunk of the named type, for any list of chunks of any sizes. Tied to the code by recomputing MHDR, MCIN and the MCNK header fields from the layout of every file the serializer writes (first build and after re-serialisation) and comparing with the bytes, an independent framing walk, and content oracles for build->parse and three parse->rebuild rounds (same content, no growth).",
    note="Four genuine defects repaired in /repo (vertex colours lost: has_mccv flag never set; MTXF/MTXP/blend-mesh parsers read through all following chunks, growing the tile every round; MCRF bytes read as MCRF+MCRD+MCRW and written three times; from_root_adt invented an MFBO chunk for TBC+ tiles). Content preservation itself is decided by the oracle (it needs the real parsers), not by a theorem: partial.",
    technique="Lean 4 proof (induction over the chunk list: computed positions are chunk headers; reuse of the IFF framing lemmas) + layout-to-derived-data correspondence on every written file + round-trip content oracle",
)

TEXT["C15"] = dict(
    text="Machine-checked Lean 4 theorems about the derived data of WMO files: in a table of NUL-terminated strings the offset recorded for entry i addresses exactly string i, for every list of NUL-free strings incl. shared prefixes, repeats and empty names (stringAt_nameOffsets); the MOVV/MOVB encoding of visibility lists decodes to the same lists for every list of lists, empty lists in any position, as long as no entry equals the terminator 0xFFFF (decodeVis_encode); a chunk of n records of k bytes yields the count n. Tied to the code by recomputing MOHD counts from the chunk sizes of every written root, resolving the written MOGI offsets against MOGN and decoding the written MOVV/MOVB with the model, an independent framing walk, and write->parse->write / conversion content oracles; group files through framing and element counts.",
    note="Partial: the group writer's output is not readable by the crate's group reader (two different layouts: known finding D53), so group content is checked at the framing level only; liquids/BSP not generated. One genuine defect fix in /repo (MOMT/MLIQ declared sizes, MOGI name offsets); one known finding (D39: doodad model names are not representable in WmoRoot, name offsets are renumbered on write).",
    technique="Lean 4 proof (induction over string tables and run-length lists with arbitrary prefix) + differential correspondence on written files + round-trip oracles",
)

TEXT["C13"] = dict(
    text="Machine-checked Lean 4 theorems about the offset relocation scheme M2Model::write uses for preserved key-frame data in all ten animated sections: for every list of blobs in which equal original offsets carry equal bytes, every original offset is mapped and the written data section holds exactly that blob at the mapped offset, whether written for this track or shared with an earlier one (relocate_reads); equal original offsets get equal new offsets (relocate_alias); nothing is written twice (emit_bounded). No bound on the number of tracks or sizes. ANIMATION FILES: a word-level model of the modern .anim container (header, entry table, sections with per-bone offset table and sequential track data) with anim_section_roundtrip (a section survives write->parse wherever it lies, with the size the writer records) and anim_file_roundtrip (whole files, any number of sections, bones and keys). Tied to the code by the model reading the writer's bytes and laying them out again byte for byte (c13animparse / c13animrw), by comparing the model's relocated offsets with those found in written files for bones with shared and own time lines, and by write->parse->write / conversion content oracles for models (key frames read through the file's (count, offset) pairs) and for skins in both layouts.",
    note="Partial: bones (translation/scale), vertices, textures with names, materials, transparency, events with ranges, attachments and cameras are generated; .anim files (modern container; write->parse->write, same-version and cross-container conversion) are generated; lights, emitters, colour/texture animations and bone rotations are not; whole-model content preservation is the oracle's part, the relocation theorems are tied to the bone, event, attachment and camera sections. Four defects repaired in /repo (skin submesh record size 40 vs 48; texture file-name references patched into other sections' bytes; event ranges not relocated; D64 the .anim writer recorded a section size the reader cannot use - no file with bone data parsed back - found because the section theorem needed entrySize = 16 + 4*bones); known findings D40 (tiny old-layout skins are taken for the versioned layout), D65 (the legacy .anim reader is a placeholder), D66 (a trackless bone's id is not stored).",
    technique="Lean 4 proof (invariant over the first-occurrence relocation map and the emitted data, by induction over the blob list; .anim container write/parse composition by induction over bones and sections) + differential correspondence on relocated offsets and .anim bytes + round-trip/conversion oracles",
)

TEXT["C05"] = dict(
    text="Machine-checked Lean 4 theorems about the loops every container parser starts with and the allocation rule: the MPQ header search returns within len/512+1 probes on every input and an offset it reports carries the header signature (findHeader_terminates, scan_at_sound); chunk discovery returns at most len/8 chunks whose headers and payloads together are no longer than the input (discover_bounded); a declared count reserves at most 64K elements and a read buffer never exceeds what is left of the stream. Tied to the code by comparing both loops with the implementation on mutated inputs, and — for the property proper, which is about the compiled code — a supervised mutation run over all formats and entry points with panic capture, worker-death detection, progress watchdog and allocation accounting.",
    note="Partial by nature: totality of the Rust parsers is established by running them on structured mutants (sampling), not by proof. Eight fix commits in /repo (one per crate) removed every crash the run found: header-controlled allocations up to 85 GB, process aborts, arithmetic overflows, a third-party decoder panic reachable through an unchecked header byte. Three more (D60 water instances larger than a cell, D61 .anim section shorter than its header, D62 unvalidated WDB2/WDB5 headers: 4 GiB allocation abort) after seeds for those formats were added. Theorems also bound what the patch decoders can produce: rle_output_bounded / bsd0_output_bounded (C08) and sparse_output_bounded (C03).",
    technique="Lean 4 proof (fuel sufficiency for the header scan, size accounting for the chunk walk) + supervised structure-aware mutation testing with allocation accounting",
)

# ---- session 3 additions (kept as edits of the texts above so that the originals stay readable) ----
def _ins(pid, key, before, text):
    v = TEXT[pid][key]
    assert before in v, (pid, key, before)
    TEXT[pid][key] = v.replace(before, text + before, 1)
def _rep(pid, key, old, new):
    v = TEXT[pid][key]
    assert old in v, (pid, key, old)
    TEXT[pid][key] = v.replace(old, new, 1)

_ins("C08", "text", "Tied to the code by stateful differential execution",
     "The rest of patch_chain.rs is modelled too (Model.C08Read): the hash map rebuild_file_map fills with or_insert answers exactly "
     "'first archive in chain order that lists the key' (filemap_is_first_match, a refinement of the map to lookup); the listing is the "
     "union of the archives' names, each once, ascending (listing_is_union); whatever a read through a patch entry returns is the base "
     "itself or matches digest and size of the HIGHEST-priority patch version, every archive's patch version having been read and parsed - "
     "an unreadable one is an error, never skipped (patched_read_verified, unreadable_patch_is_error). ")
_rep("C08", "note", "patch entries inside chains not generated (builder cannot emit them); ",
     "patch entries inside chains are made by flagging builder output (one and two patch levels over a base); ")
TEXT["C08"]["note"] += (" Two defects repaired (D68: an unparseable patch entry was skipped and the unpatched base returned as Ok - found when "
     "readPatched had to say what an unreadable patch version means; D69: the chain folded names with Unicode upper-casing while archives "
     "fold ASCII only, so names differing in the case of a non-ASCII letter were sent to the wrong archive).")
_rep("C08", "technique", "refinement to first-match lookup)",
     "refinement of the or_insert file map to first-match lookup, union / nodup / sorted listing, last-applied-patch digest by induction over the patch list)")
_ins("C01", "text", "Below it the carrier theorems",
     "THE HEADER, V1-V4 (Model.C01Header = MpqHeader::read_with_limits with every check of validate_header_security + builder "
     "write_header, over the generic fixed-layout record codec Lib.Record): header_roundtrip (every well-formed header of every version is "
     "read back exactly from the writer's bytes) and header_accepts_only_wellformed (whatever the reader accepts passed every security "
     "check and the file starts with exactly the writer's bytes for it - a second write is byte-identical). ")
_ins("C16", "text", "Tied to the code by",
     "The HEADER itself is modelled field by field in the parser's order (Model.C16Header over Lib.Record, with the parser's "
     "normalisations): header_roundtrip (encode_header -> parse_header is the identity on every normal BLP0/1/2 header) and header_size "
     "(28/156/148 bytes, what the reader skips). ")
_ins("C19", "text", "Tied to the code by",
     "CALLER BUFFERS (Model.C19Buf): SFileGetArchiveName writes path+NUL only if it fits buffer_size and fails exactly when it does not "
     "(archive_name_within_buffer), SFileGetFileName writes at most MAX_PATH bytes ending in NUL for a name of any length "
     "(file_name_within_max_path), the find data's name array is filled with exactly 260 bytes ending in NUL with szPlainName inside it "
     "(find_data_within_array). ")
_ins("C14", "text", "Tied to the code by",
     "THE WATER CHUNK (Model.C14Water = write_mh2o_chunk's offset bookkeeping): for any entries with any number of layers and any mix of "
     "exists bitmaps, vertex data and attributes, the regions named by the recorded offsets (instance blocks, bitmaps, vertex blocks, "
     "attribute blocks) follow one another without gap or overlap from the end of the header table to the end of the chunk, hence are "
     "pairwise disjoint and inside it (water_offsets_tile); absent parts are recorded as 0 and the layer count is the number of layers "
     "(water_entry_fields). ")
_ins("C18", "text", "Tied to the code by",
     "The fixed-layout payloads (MPHD, MAIN entries, MODF entries) are layouts of the generic record codec: values that fit are read back "
     "exactly and the record has the chunk's record size (wdt_payload_records_roundtrip). ")
_ins("C13", "text", "Tied to the code by",
     "SKIN FILES: the five data sections named by the recorded (count, offset) pairs follow the header without gap or overlap up to the "
     "end of the file, an empty section being recorded as offset 0 (skin_sections_tile, both layouts and the BfA header). ")
_rep("C19", "technique", "kernel-decided lock-graph acyclicity)", "kernel-decided lock-graph acyclicity; invariant over ALL schedules of the close protocol, whose shape is re-extracted from the source; caller-buffer bounds)")
_rep("C14", "technique", "reuse of the IFF framing lemmas)", "reuse of the IFF framing lemmas; tiling of the water chunk's regions by induction over entries and layers)")
_rep("C13", "technique", "by induction over bones and sections)", "by induction over bones and sections; tiling of the skin sections)")
_rep("C16", "technique", "bit-packing round trip via chunking lemmas)", "bit-packing round trip via chunking lemmas; header write->read over the generic record codec)")
_rep("C01", "technique", "probing invariant)", "probing invariant; header V1-V4 write->read and read->write over the generic record codec)")
_rep("C18", "technique", "chunk-framing induction)", "chunk-framing induction, payload records over the generic record codec)")
_ins("C06", "text", "Tied to the code by",
     "COMPACT (Model.C06Compact: refuse an archive with a live entry no listed name resolves, fail when a file cannot be read, otherwise "
     "re-add every file to a fresh archive = C07's extraction without exclusions): when it succeeds the new archive holds under every live "
     "name exactly the content read from the old one and nothing else (compact_preserves_map, from C07's rebuilt_lookup / extract_sound / "
     "extract_complete); one unresolvable entry and nothing is replaced (compact_refuses_unresolvable). ")
_rep("C06", "note", "compact is covered by the correspondence and the oracle, not by a theorem of its own;", "compact's decision and result are stated as theorems about Model.C06Compact, whose refusal gate is the `resolvable` predicate the correspondence compares and whose result is what the map oracle compares after reopening;")
_rep("C19", "text", "(find_data_within_array). ", "(find_data_within_array), SFileGetFileInfo writes a value of n bytes only into a buffer of at least n bytes (info_within_buffer). ")
_ins("C05", "text", "Tied to the code by",
     "An archive header the reader accepts announces tables of at most a million 16-byte entries each, a sector shift of at most 20, and "
     "tables inside the announced size plus 64 KiB (mpq_accepted_header_bounds, mpq_accepted_tables_inside: consequences of the header model "
     "of C01, which is compared with MpqHeader::read on every mutated header). ")
_rep("C16", "text", "(28/156/148 bytes, what the reader skips). ", "(28/156/148 bytes, what the reader skips); whatever the parser accepts is a normal form (header_parse_normal). ")
_rep("C14", "text", "(water_entry_fields). ", "(water_entry_fields); the chunk's size is the header table plus exactly the bytes the entries hold, a function of the content alone (water_size_is_content). ")
_rep("C08", "text", "ascending (listing_is_union); ", "ascending (listing_is_union), and a name is listed exactly when the file map resolves it (listed_iff_found); ")

