#!/bin/bash
# seedregress.sh [ids...] : run every recorded seed (or the named ones) through its property's quick check with the
# current machinery; store the verdict and the oracle tags / disagreement kinds in seeded/<id>/check.json
cd /verif
IDS=${@:-$(ls seeded)}
for S in $IDS; do
  ID=${S%%-*}; D=/verif/seeded/$S
  [ -f $D/patch.diff ] || continue
  tools/seedtest.sh $D/patch.diff $ID quick > /tmp/seedreg-$S.log 2>&1
  python3 - "$S" "$ID" <<'PY'
import sys, json, glob, re
s, pid = sys.argv[1:3]
log = open('/tmp/seedreg-%s.log' % s).read()
viol = re.findall(r'^VIOLATION property=\S+ replay=(\S+)(.*)$', log, re.M)
tags = []
for path, rest in viol:
    try:
        d = json.load(open(path)); tags.append(d.get('tag') or d.get('kind') or '?')
    except Exception:
        tags.append('?')
summary = [l for l in log.split('\n') if ' tier=quick:' in l]
rc = re.findall(r'seedtest rc=(\d+)', log)
out = {"seed": s, "violation_lines": len(viol), "no_failing_input_found": any('no-failing-input-found' in r for _, r in viol),
       "tags": tags, "summary": summary[-1] if summary else "", "rc": int(rc[-1]) if rc else None,
       "applies": 'PATCH-DOES-NOT-APPLY' not in log}
json.dump(out, open('/verif/seeded/%s/check.json' % s, 'w'), indent=1)
print("%s: rc=%s violations=%d tags=%s%s" % (s, out["rc"], len(viol), ",".join(tags)[:120], "" if out["applies"] else " PATCH-DOES-NOT-APPLY"))
PY
  rm -f /tmp/seedreg-$S.log
done
