#!/bin/bash
# record_seed.sh <ID> <m> <property> "<needs>" "<detected-by>" : copy a confirmed seed into /verif/seeded/<ID>-<m>/
ID=$1; M=$2; PROP=$3; NEEDS=$4; DET=$5
SRC=/tmp/seed-out/$ID/$M; DST=/verif/seeded/$ID-$M
mkdir -p $DST
[ -f $DST/patch.diff ] || cp $SRC/patch.diff $DST/patch.diff
cp $SRC/patch.diff $DST/patch.orig.diff
for f in demo.rs demo.sh notes.md confirm.log; do [ -f $SRC/$f ] && cp $SRC/$f $DST/; done
python3 - "$DST" "$PROP" "$NEEDS" "$DET" <<'PY'
import json,sys,os
d,prop,needs,det=sys.argv[1:5]
conf=open(os.path.join(d,'confirm.log')).read() if os.path.exists(os.path.join(d,'confirm.log')) else ''
json.dump({"property":prop,"breaks":prop,"needs_to_manifest":needs,
 "confirmed_by":"tools/confirm_seed.sh in a scratch worktree: crate tests pass with the change, demo fails with it, passes without",
 "confirm_result":[l for l in conf.split('\n') if l.startswith('RESULT') or 'CONFIRMED' in l],
 "check_run":"tools/seedtest.sh %s/patch.diff %s"%(d,prop),"detected_by":det,
 "note":"patch.diff applies to /repo HEAD (rebased over fix: commits where needed); patch.orig.diff is as delivered against the pinned commit"},open(os.path.join(d,'meta.json'),'w'),indent=1)
PY
echo recorded $DST
