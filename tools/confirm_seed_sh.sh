#!/bin/bash
# confirm_seed_sh.sh <worktree> <seed-dir> <crate-for-tests> : like confirm_seed.sh for CLI demos (demo.sh).
# demo.sh is invoked as `demo.sh <binary>` with WARCRAFT_RS=<binary> also exported (both conventions in use).
set -u
WT=$1; SD=$2; CRATE=$3
export CARGO_NET_OFFLINE=true
cd "$WT" || exit 2
git checkout -q -- . ; git clean -fdq -e target
git apply "$SD/patch.diff" || { echo "RESULT patch-does-not-apply"; exit 1; }
cargo test -p "$CRATE" --offline > "$SD/confirm-tests-mutated.log" 2>&1; T_MUT=$?
cargo build -p warcraft-rs --offline > /dev/null 2>&1
cp target/debug/warcraft-rs /tmp/wrs-mut-$$
git checkout -q -- .
cargo build -p warcraft-rs --offline > /dev/null 2>&1
cp target/debug/warcraft-rs /tmp/wrs-clean-$$
WARCRAFT_RS=/tmp/wrs-mut-$$ bash "$SD/demo.sh" /tmp/wrs-mut-$$ > "$SD/confirm-demo-mutated.log" 2>&1; D_MUT=$?
WARCRAFT_RS=/tmp/wrs-clean-$$ bash "$SD/demo.sh" /tmp/wrs-clean-$$ > "$SD/confirm-demo-clean.log" 2>&1; D_CLEAN=$?
rm -f /tmp/wrs-mut-$$ /tmp/wrs-clean-$$
git clean -fdq -e target
echo "RESULT tests_with_change=$T_MUT demo_with_change=$D_MUT demo_clean=$D_CLEAN"
if [ $T_MUT -eq 0 ] && [ $D_MUT -ne 0 ] && [ $D_CLEAN -eq 0 ]; then echo CONFIRMED; else echo NOT-CONFIRMED; fi
