#!/bin/bash
# confirm_seed_root.sh <worktree> <seed-dir> <crate> : CLI demos that take the repository root (demo.sh <root>) and build the CLI themselves
set -u
WT=$1; SD=$2; CRATE=$3
export CARGO_NET_OFFLINE=true
cd "$WT" || exit 2
git checkout -q -- . ; git clean -fdq -e target
git apply "$SD/patch.diff" || { echo "RESULT patch-does-not-apply"; exit 1; }
cargo test -p "$CRATE" --offline > "$SD/confirm-tests-mutated.log" 2>&1; T_MUT=$?
bash "$SD/demo.sh" "$WT" > "$SD/confirm-demo-mutated.log" 2>&1; D_MUT=$?
git checkout -q -- .
bash "$SD/demo.sh" "$WT" > "$SD/confirm-demo-clean.log" 2>&1; D_CLEAN=$?
git clean -fdq -e target
echo "RESULT tests_with_change=$T_MUT demo_with_change=$D_MUT demo_clean=$D_CLEAN"
if [ $T_MUT -eq 0 ] && [ $D_MUT -ne 0 ] && [ $D_CLEAN -eq 0 ]; then echo CONFIRMED; else echo NOT-CONFIRMED; fi
