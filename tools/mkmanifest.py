#!/usr/bin/env python3
"""Regenerate MANIFEST.json from tools/propcfg.py + tools/manifest_text.py."""
import json, os, sys
sys.path.insert(0, os.path.dirname(os.path.abspath(__file__)))
import propcfg, manifest_text
V = os.path.dirname(os.path.dirname(os.path.abspath(__file__)))
allp = [json.loads(l)["id"] for l in open(os.path.join(V, "properties.jsonl"))]
checks = []
for p in allp:
    if p not in propcfg.PROPS or p not in manifest_text.TEXT:
        continue
    t = manifest_text.TEXT[p]
    checks.append({
        "property_id": p,
        "quick_cmd": "./check %s --tier quick" % p,
        "thorough_cmd": "./check %s --tier thorough" % p,
        "evidence_file": "/verif/evidence/%s.json" % p,
        "replay_cmd_template": "./check %s --replay {path}" % p,
        "engine": "lean4-proof+correspondence",
        "level_claimed": {"category": "proof", "text": t["text"], "design_ref": "DESIGN.md section 6, " + p},
        "level_note": t["note"],
        "technique": t["technique"],
    })
na = [{"property_id": p, "reason": manifest_text.NA.get(p, "check under construction in this round; not claimed yet")}
      for p in allp if p not in [c["property_id"] for c in checks]]
m = {
    "version": 1,
    "setup_cmd": "./setup.sh",
    "hooks": {"guard": "wowverif_hooks", "enable": "none needed: every entry point used is already public; "
              "checks build /repo's crates as path dependencies of /verif/harness",
              "baseline_off_cmd": "cd /repo && cargo test --workspace --no-fail-fast --offline",
              "source_commits": [], "add_only": True},
    "engines": [{"name": "lean4-proof+correspondence", "path": "/verif/check",
                 "serves_properties": [c["property_id"] for c in checks],
                 "kind_free_text": "Lean 4 theorems about hand-written executable models (lean/WowVerif), constants "
                 "regenerated from the compiled crates on every run, differential correspondence of the compiled "
                 "model (wvmodel) against the real crates through a Rust harness (harness/)"}],
    "checks": checks,
    "not_applicable": na,
    "notes": "See DESIGN.md. known_findings.jsonl lists genuine defects recorded rather than repaired.",
}
json.dump(m, open(os.path.join(V, "MANIFEST.json"), "w"), indent=1)
print("claimed:", [c["property_id"] for c in checks])
