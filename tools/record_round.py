#!/usr/bin/env python3
"""record_round.py <round> <Cxx> <m-in> <m-out> [closed-by text] : record a confirmed, detected seed of a round under
seeded/<Cxx>-<m-out>/ (patch refreshed against /repo HEAD via record_seed2.sh), with needs-to-manifest taken from the
agent's notes and the detection stream (P/M/I) read from the check log of the run that caught it."""
import sys, os, re, json, subprocess, shutil
rnd, pid, mi, mo = sys.argv[1:5]
closed = sys.argv[5] if len(sys.argv) > 5 else ""
src = f"/tmp/seed{rnd}/{pid}/{mi}"
log = open(f"{src}/check.log", errors="replace").read()
notes = open(f"{src}/notes.md", errors="replace").read()
needs = ""
m = re.search(r"(?is)(needs?[^\n]*manifest[^\n]*|what it needs[^\n]*|trigger[^\n]*)\n(.*?)(\n#|\n\*\*[A-Z]|\Z)", notes)
if m: needs = (m.group(2).strip() or m.group(1)).replace("\n", " ")[:420]
if not needs: needs = notes.split("\n")[0].lstrip("# ").strip()
streams = []
summ = [l for l in log.split("\n") if " tier=quick:" in l]
s = summ[-1] if summ else ""
if re.search(r"obligations (\d+)/(\d+)", s) and (lambda a: a.group(1) != a.group(2))(re.search(r"obligations (\d+)/(\d+)", s)): streams.append("P (proof obligation)")
if "MODEL-DISAGREES" in log or re.search(r"\((?!0 )\d+ disagreements\)", s): streams.append("M (model vs implementation)")
if re.search(r"oracle \d+ evals \((?!0 )\d+ failures", s) or "ORACLE" in log: streams.append("I (implementation vs property oracle)")
nf = "no-failing-input-found" in log
viol = len(re.findall(r"^VIOLATION", log, re.M))
if viol == 0: print("NOT DETECTED - not recording as caught"); sys.exit(1)
det = " + ".join(streams or ["process-level driver"]) + " -> VIOLATION " + ("without a failing input (no-failing-input-found)" if nf else "with failing input")
if closed: det += "; missed by the checks as they stood when the seed was written, closed by: " + closed
subprocess.check_call(["/verif/tools/record_seed2.sh", rnd, pid, mi, mo, needs, det])
dst = f"/verif/seeded/{pid}-{mo}"
shutil.copy(f"{src}/check.log", f"{dst}/check.first.log")
tags = []
for path in re.findall(r"^VIOLATION property=\S+ replay=(\S+)", log, re.M):
    try: d = json.load(open(path)); tags.append(d.get("tag") or d.get("kind") or "?")
    except Exception: pass
json.dump({"seed": f"{pid}-{mo}", "violation_lines": viol, "no_failing_input_found": nf, "tags": tags, "summary": s, "rc": 1,
           "applies": True, "source": "run through the check when the seed was recorded (check.first.log)"}, open(f"{dst}/check.json", "w"), indent=1)
print("ok", dst, det)
