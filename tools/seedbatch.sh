#!/bin/bash
# seedbatch.sh <round> <Cxx>... : run every delivered seed of the round through the quick check (serially; /repo is shared)
R=$1; shift
for ID in "$@"; do for m in m1 m2; do
  P=/tmp/seed$R/$ID/$m/patch.diff; [ -f $P ] || continue
  /verif/tools/seedtest.sh $P $ID quick > /tmp/seed$R/$ID/$m/check.log 2>&1
  echo "$ID/$m: $(grep -c '^VIOLATION' /tmp/seed$R/$ID/$m/check.log) violation lines; $(grep '^VIOLATION' /tmp/seed$R/$ID/$m/check.log | head -2 | tr '\n' ' '); $(tail -1 /tmp/seed$R/$ID/$m/check.log)"
done; done
