#!/usr/bin/env python3
"""Assemble DESIGN.md: hand-written sections below + tables generated from propcfg.py, manifest_text.py,
known_findings.jsonl, seeded/*/meta.json and the Audit files (so the document cannot drift from what runs)."""
import json, os, re, sys, glob
V = os.path.dirname(os.path.dirname(os.path.abspath(__file__)))
sys.path.insert(0, os.path.join(V, "tools"))
import propcfg, manifest_text

props = [json.loads(l) for l in open(os.path.join(V, "properties.jsonl"))]
titles = {p["id"]: p["title"] for p in props}

def theorems(pid):
    p = os.path.join(V, "lean/WowVerif/Audit/%s.lean" % pid)
    if not os.path.exists(p):
        return []
    return [l.split()[-1].split(".")[-1] for l in open(p) if l.startswith("#print axioms")]

HEAD = r'''# DESIGN — machine-checked proof (Lean 4) for warcraft-rs properties C01–C20

Status: built. All 20 properties are claimed in MANIFEST.json; every check (quick and thorough) exits 0 on the current /repo
tree; more than 200 property theorems; 208 seeded changes from six rounds of sub-agents are all reported.
This file is assembled by `tools/mkdesign.py`: the prose is written by hand, the per-property tables, the
findings list and the seeded-change table are generated from the same files the checks read.

Contents: 1 approach · 2 architecture · 3 how a verdict is reached · 4 trusted base · 5 per-property status ·
6 per-property design notes · 7 genuine defects (repaired / recorded) · 8 false alarms corrected ·
9 seeded changes and which check catches them · 10 tooling limits and what is not covered

---------------------------------------------------------------------------------------------------------

## 1. Approach, and why it reaches what the tests cannot

warcraft-rs is a set of readers and writers for binary game formats. Its 1264 tests sample a few dozen points
and nearly always read with the code that wrote. The properties in `properties.jsonl` quantify over every
input, size, operation history, crash point or schedule. For each property the deliverable is

1. **an executable Lean 4 model** (`lean/WowVerif/Model/CxxName.lean`) of the logic the property depends on —
   small total functions over `List UInt8`, `Nat`, `BitVec 32`, `Option`, plain structures, written by hand
   from the Rust, function by function (probe loops, offset bookkeeping, record sizes, tail handling,
   error branches included). Where the property is "equals the published algorithm" there is also a
   `Spec` written from the published description (MPQ crypt table / hash / cipher, lookup3, MD5, binary32);
2. **theorems** (`lean/WowVerif/Props/Cxx.lean`, helper lemmas apart in `Lemmas/`) stating the property about the
   model for all inputs — by induction over lists / histories, invariants preserved by every step, refinement
   to a trivial abstract object, or, where the quantifier is a finite table, `decide +kernel` over the whole
   table. Every file ends with `example`s showing that the hypotheses are satisfiable;
3. **a tie to /repo's current working tree, re-established on every run**:
   * *regeneration*: constants the theorems mention (1280-entry crypt table, fold tables, hash-type
     offsets, flag bits, header sizes, table keys, WDL counts) are dumped from the freshly compiled crates
     (`wvh dump-consts`) into `Gen/Consts.lean`; the FFI lock-order graph and the shape of its close protocol (order of
     SFileCloseArchive's sections, the search's second look-up, the open's lock scope) are re-extracted from
     `ffi/storm-ffi/src/lib.rs` into `Gen/Locks.lean`; the theorems over them are re-elaborated;
   * *correspondence*: a Rust harness (`harness/`, crate `wv-harness`, path-dependent on /repo's crates)
     generates structured inputs / operation histories from one PRNG seed, runs the **real code in
     process**, writes one request line per case and the implementation's canonical answer; the compiled
     Lean model (`wvmodel`, a `lean_exe`) answers the same request lines; the two streams are diffed line
     by line. For several properties the direction is also reversed (Lean writes the bytes, Rust reads
     them: C01, C02, C17, C18).

A change to the code that breaks a property then breaks a proof obligation (regenerated constant or graph no
longer satisfies the theorem), or the correspondence (model and code now disagree), or the property oracle
that runs next to it on the same inputs. What a theorem gives that the tests do not: *all* strings, keys and
buffer lengths for the cipher and hash laws; *all* histories for the chain, the handle tables and the archive
map; *all* chunk lists for the offset tables; *all* listings for rebuild; every single-byte alteration for
the checksums — no bound on sizes, depths or steps.

Three streams are kept apart in every report (and in `evidence/Cxx.json`):
**P** proof obligations discharged / failed; **M** model-vs-implementation disagreements; **I** implementation
-vs-property-oracle failures (the implementation violates the property on a concrete input, whatever the
model says).

## 2. Architecture

```
/verif/check                 ./check Cxx --tier quick|thorough [--seed N] [--replay file]   (python3)
/verif/setup.sh              builds harness, regenerates Gen/*, builds Lean library + wvmodel, builds the CLI
/verif/lean/                 lake project WowVerif (no Mathlib anywhere; core + Std only)
    WowVerif/Base, Lib       bytes, IFF chunk framing, fixed-layout records, exact binary32 arithmetic, Kahn acyclicity
    WowVerif/Spec            published algorithms (crypt table, hash, cipher, lookup3, MD5)
    WowVerif/Gen             GENERATED on every run from /repo (constants, lock graph)
    WowVerif/Model           executable models + DispatchNN.lean (request line -> answer)
    WowVerif/Lemmas, Props   helper lemmas; property theorems (one file per property)
    WowVerif/Audit           `#print axioms` for every property theorem (= the obligation list)
    Driver.lean              wvmodel: one request line in, one answer line out
/verif/harness/              Rust: wvh dump-consts | run Cxx | fsop … | c05child …
/verif/tools/                propcfg.py (rule, trusted base per property), manifest_text.py, drivers.py
                             (process-level drivers: strace, CLI sandbox, MT stress, reference codecs),
                             mkmanifest.py, mkdesign.py, seedtest.sh, confirm_seed*.sh, record_seed*.sh, mkseedprompt.py,
                             seedround.sh / seedone.sh / seedregress.sh (seeding rounds and their regression)
/verif/known_findings.jsonl  genuine defects: "fixed" (with /repo commit) and "finding" (recorded, by tag)
/verif/seeded/<id>-m<k>/     seeded breaking changes: patch.diff, demo, notes, confirmation log, meta.json
/verif/evidence/Cxx.json     rewritten by every run
```

`./check Cxx`: (1) rebuild the harness against /repo's working tree (cargo, offline, path deps);
(2) `wvh dump-consts` → `Gen/Consts.lean`, lock-graph scan → `Gen/Locks.lean` (only rewritten when changed);
(3) `lake build wvmodel WowVerif.Props.Cxx` — a failing elaboration is mapped to the enclosing theorem name;
(4) forbidden-construct grep (`sorry`, `admit`, `axiom`, `native_decide`, `bv_decide`, `implemented_by`,
`unsafe`, `maxHeartbeats 0`) and `lake env lean Audit/Cxx.lean`: every theorem's axioms must be within
{propext, Classical.choice, Quot.sound}; the thorough tier adds `leanchecker` on the property module;
(5) `wvh run Cxx --seed … --tier …` (real code, in process) writes cases / impl answers / oracle verdicts /
distribution statistics; (6) `wvmodel` answers the case file, answers are diffed; (7) process-level drivers
where the property lives outside a function call (C09, C11, C12, C19, C20, C01, C02); (8) verdict and evidence.

## 3. How a verdict is reached

* **exit 0** — all obligations discharged with allowed axioms, no model disagreement, every oracle failure
  (if any) carries a tag listed as `finding` in `known_findings.jsonl` (printed as `KNOWN-FINDING:` lines);
* **exit 1, `VIOLATION property=Cxx replay=<file>`** — an oracle failure with an unlisted tag (the replay
  JSON holds seed, tier, the failing case text and how to re-run it), or a proof / correspondence break.
  When a proof or the correspondence breaks, the check first looks for a concrete failing input: the oracle
  stream of the same run, then one more run of the thorough generator. If none is found the line ends with
  `no-failing-input-found` and the replay file names the theorem or the first disagreeing request line;
* a harness that no longer compiles against /repo's working tree (a public signature it uses changed) or a failing
  constant dump means the tie cannot be established: reported as `VIOLATION … no-failing-input-found` with a replay
  file holding the compiler output (exit 1), not as a tool failure.

The known-findings file is never written at run time. `fixed` entries suppress nothing. Tags are specific to
a mechanism (e.g. `interop-file-key-from-full-path`), and inside the region a finding covers the checks keep a
second, independent oracle alive (C02: the CPython codecs must still read the file once the library's own two
conventions are applied), so a different defect in the same region is still reported.

## 4. Trusted base

* Lean 4.33 kernel; axioms per theorem as printed by the Audit files — only `propext`, `Classical.choice`,
  `Quot.sound` occur; no `native_decide`, no `bv_decide`, no axioms of our own, no `sorry`. The large finite
  checks (crypt table 1280 entries, fold tables 256, CRC table 256, lock graph) use `decide +kernel`, i.e.
  kernel evaluation;
* the **models are hand-written**: what is proved is proved about them. What ties them to the Rust is the
  correspondence run — differential testing with structured generators, i.e. *sampling*. It is the weaker
  link and is stated as such in every evidence file (`trusted_base`);
* the harness (generators, canonicalisers, oracles), `check`, `drivers.py`; rustc, std, the OS; strace for C12;
* CPython's zlib/bz2 as independent codecs in C02; MD5 is an abstract function in C08/C10 theorems (its
  executable Spec is validated against the md-5 crate); RSA and MD5 strength are assumed in C10;
* **modelled, not verified** (per property in §5/§6): third-party compression codecs (a codec table supplied per case;
  the in-tree sparse codec is modelled and proved in C03),
  filesystem semantics (C12 models the syscall trace), thread scheduling (C19: lock-order graph + stress),
  JPEG/DXT pixel content, colour quantisation, the real parsers' memory safety (C05 runs them).

## 5. Per-property status
'''

def section5():
    out = ["| id | property | deciding technique | theorems (obligations) |", "|---|---|---|---|"]
    for p in props:
        pid = p["id"]
        t = manifest_text.TEXT.get(pid)
        th = theorems(pid)
        out.append("| %s | %s | %s | %d: %s |" % (pid, titles[pid], t["technique"] if t else "—", len(th), ", ".join("`%s`" % x for x in th)))
    return "\n".join(out) + "\n"

NOTES_HEAD = r'''
## 6. Per-property design notes

For every property: what is proved (about the model), how the model is tied to the code, what the generator
covers (the `rule` recorded in the evidence file), what is assumed, and what is partial.
'''

def section6():
    out = []
    for p in props:
        pid = p["id"]
        t = manifest_text.TEXT.get(pid); c = propcfg.PROPS.get(pid)
        if not t or not c:
            continue
        out.append("### %s — %s\n" % (pid, titles[pid]))
        out.append("**Proved / decided.** " + t["text"] + "\n")
        out.append("**Explored by the tie.** " + c["rule"] + "\n")
        extra = [x for x in c.get("trusted_base", []) if x not in propcfg.COMMON_TB]
        if extra:
            out.append("**Modelled or assumed.** " + "; ".join(extra) + ("; " + "; ".join(c.get("assumptions", [])) if c.get("assumptions") else "") + "\n")
        out.append("**Partiality / remarks.** " + t["note"] + "\n")
    return "\n".join(out)

def section7():
    rows = [json.loads(l) for l in open(os.path.join(V, "known_findings.jsonl")) if l.strip() and not l.startswith("#")]
    out = ["\n## 7. Genuine defects found in wowemulation-dev/warcraft-rs\n",
           "Every entry was first shown against the real code (failing input / history in the oracle stream). `fixed` = a "
           "minimal unguarded `fix:` commit in /repo (the crate's own tests still pass); `finding` = recorded, printed as "
           "`KNOWN-FINDING` by the check, not repaired because the repair is not small (reason in the text).\n",
           "| property | id | status | /repo commit | oracle tag | what failed |", "|---|---|---|---|---|---|"]
    for r in rows:
        d = r["description"]; d = re.sub(r"^fixed: property=\S+ \S+ ", "", d)
        out.append("| %s | %s | %s | %s | `%s` | %s |" % (r["property"], r["id"], r["status"], r.get("commit", ""), r["tag"], d.replace("|", "/")))
    out.append("\nRecorded findings in one sentence each: **D2/D25** (C03, C01) the decompressor's ratio heuristics reject "
               "the builder's own highly compressible output, and PKWare ASCII-mode output of the crate's own compressor is "
               "refused — changing the limits is a policy decision; **D11a/D11b** (C02) file keys are derived from the full "
               "path and the 1–3 tail bytes of an encrypted buffer are encrypted, both differing from the published format "
               "on *both* the writer and the reader side, so repairing one side alone breaks the crate's own archives; "
               "**D39** (C15) `WmoRoot` cannot carry doodad model names; **D40** (C13) the skin layout heuristic misreads "
               "old-layout skins with ≤ 4 indices.\n")
    return "\n".join(out)

FALSE = r'''
## 8. False alarms corrected (machinery, not code)

A check that is right was never loosened; these were errors of the machinery and were repaired there:

* C17: the model lacked UTF-8 validation of strings and disagreed with the reader on invalid bytes → `utf8Valid`
  added to the model (the code was right);
* C11: the first extraction driver saw "Is a directory" aborts caused by its own colliding leaf names → unique
  leaves, separate edge-case archive; `(listfile)` added to the expected set of whole-archive runs;
* C20: the validate oracle matched the word "error" in log output on stderr → stdout markers only;
* C08: the harness' BSD0 encoder emitted backward seeks the decoder (by design) saturates → forward-only encoder
  (observation kept in the C08 note);
* C02: duplicate names in reference-written archives (generator bug) and a wrong tail classification;
* C14: the version label inferred from chunk presence was first treated as content (a MoP tile without MoP-only
  chunks *is* a WotLK tile) → counted, its consequences (content change, growth) are what is checked; absent
  and all-zero MTXF are the same content;
* C15: root bounds are derived data in this crate (recomputed from the groups on parse) → inputs are generated
  consistent with that instead of flagging the difference;
* C10: a panic on a damaged archive is counted as "not silently accepted" (no-panic is C05's subject);
* C05: the in-process correspondence calls were given a time limit after a seeded non-terminating header search
  stalled the check instead of producing a verdict;
* C08 (after the C05 repairs): the C05 `fix:` commit for wow-mpq added two refusals to the patch path (an RLE
  declared size above 128 bytes per input byte; a BSD0 new-file size above diff + extra bytes). The C08 model
  still described the previous decoder, which zero-padded an over-declared RLE size, so 36 header-altered
  patches were `err format` in the code and `ok` in the model. The code is right (a refusal never violates C08,
  and every well-formed patch is still accepted - oracle `well-formed-patch-rejected-or-wrong`); the model
  was brought back in line (`rleDecompress`, `applyBsd0`) and `rle_length` / `applyBsd0_size` re-proved.
* C01 / C02 (model-written archives read back by the library): after name pairs differing only in the case of a
  non-ASCII letter were added to the shared archive generator, the harness' own read-back spelled names with
  `str::to_uppercase` (all of Unicode) and so asked the library for the *other* file of the pair: 15 disagreements on the
  unchanged tree. The code is right (the format folds ASCII letters only); the harness now folds ASCII only
  (`to_ascii_uppercase` in `spellings`, the read-back and `fsop readall`). Found the same hour, before any registered check ran
  on it. The library's one real use of Unicode folding (the patch chain's key) is defect D69.
* C02 (direction 2): every failure of an encrypted reference-written file was attributed to one of the two recorded
  findings by the file's flags alone. The tags are now applied only where the finding explains the failure (a stored
  unit whose length is not a multiple of 4 for D11b; a failure that appears only behind a prefix is never attributed) -
  this is what let the seeded change C02-m9 hide. The first version of the "only behind a prefix" test compared error
  texts, which quote file sizes: in the thorough tier a file already unreadable at offset 0 (finding D11a) was reported as a
  prefix failure on the unchanged tree; the test now goes by file name. Found by running every thorough command after the change.
* C19 (not committed): an "independent" oracle for seek positions (start / end relative seeks clamp to the nearer end of the
  file) failed on the unchanged tree for negative offsets from the start and for i32::MIN from the end. The property demands
  memory safety and agreement with the Rust API, which has no seek; where such a seek lands is the C API's own rule (it is what
  the handle-table model encodes and compares). The oracle demanded more than the property states and was dropped the same
  hour; the seeded change C19-m11 stays reported through the model correspondence, without a failing input.

## 9. Seeded changes (fresh sub-agents, own worktrees) and which check catches them

Each change was produced by a sub-agent that saw only the property text, compiles, passes the crate's test
suite, and was confirmed here in a scratch worktree (`tools/confirm_seed*.sh`: tests pass with the change, the
demonstration fails with it and passes without). `tools/seedtest.sh <patch> Cxx` applies it to /repo, runs the
check, and reverts. Five rounds were run (m1/m2; then m3/m4, m5/m6 and m7/m8 by agents that were also given one-line
descriptions of the changes earlier agents had delivered, so that they would look elsewhere; the fifth round, m9/m10, by
agents that were given the property text and a worktree and nothing else; and a small sixth round, m11/m12, of the same kind
for C01, C14, C16 and C19, the properties whose models grew last): 208 changes;
`tools/seedregress.sh` re-runs recorded seeds against the current checks (`seeded/<id>/check.json`; a full run
takes about five hours, so the later rounds carry the verdict of the run that closed them): all are caught except
C12-m2, which no longer breaks the property since a later repair of /repo and is rightly not reported. The first
version of the checks missed 6 of the first 40, 19 of the second 40, 14 of the third 40, 21 of the fourth 40, 7 of
the fifth 40 and none of the last 8 (later agents dig where earlier ones had not); every miss led to a stronger generator or oracle (marked
*strengthened* / "closed by"), never to a special case for the seed, and several of those strengthenings - and
the agents' side remarks - exposed genuine defects of the unchanged code (D50..D55, D58..D64, D67, D69, D70). Seeds reported
*without a failing input* (the model or a proof obligation stops matching, no oracle fires) are marked so: for
those the replay names the correspondence that no longer checks.
'''

def section9():
    out = ["| seed | needs to manifest | detected by |", "|---|---|---|"]
    for d in sorted(glob.glob(os.path.join(V, "seeded/*/meta.json"))):
        m = json.load(open(d)); sid = os.path.basename(os.path.dirname(d))
        det = m.get("detected_by", "")
        cj = os.path.join(os.path.dirname(d), "check.json")
        if os.path.exists(cj):
            c = json.load(open(cj))
            if c.get("violation_lines"):
                det += " — last regression run: VIOLATION, tags " + ", ".join("`%s`" % t for t in c.get("tags", [])[:4]) + (" (no failing input found)" if c.get("no_failing_input_found") else "")
        if m.get("superseded"):
            det = "SUPERSEDED — " + m["superseded"]
        out.append("| %s | %s | %s |" % (sid, m.get("needs_to_manifest", "").replace("|", "/"), det.replace("|", "/")))
    out.append("\n*Round 2, missed at first:* C02-m3, C03-m3, C03-m4, C05-m3, C05-m4, C06-m3, C09-m3, C10-m3, C10-m4, C11-m4, C13-m4, "
               "C14-m3, C15-m4, C16-m4, C17-m4, C19-m3, C19-m4, C20-m3, C20-m4 (caught only through a broken obligation, "
               "without a failing input, at first: C02-m4, C07-m3, C09-m4). What was added is listed per property under "
               "'Explored by the tie ... ALSO' in section 6.\n")
    out.append("\n*Round 3, missed at first:* C01-m6, C03-m6, C04-m6, C08-m6, C10-m5, C10-m6, C13-m5, C14-m5, C14-m6, C15-m5, "
               "C15-m6, C19-m6, C20-m5, C20-m6 (what closed each is in its row).\n")
    out.append("\n*Round 4, missed at first:* C01-m7, C01-m8, C02-m7, C02-m8, C03-m8, C04-m8, C05-m8, C08-m7, C08-m8, C09-m8, C10-m7, "
               "C12-m7, C13-m7, C14-m7, C15-m7, C15-m8, C17-m7, C17-m8, C19-m7, C19-m8, C20-m8 (what closed each is in its row).\n")
    out.append("\n*Round 5 (property text only), missed at first:* C01-m9 (two added names that are one name to the archive; the first run "
               "flagged it only through a false alarm of the machinery, the regression run showed the miss), C02-m9 (position-adjusted key of an archive behind a prefix), "
               "C05-m10 (two related locator fields hostile at once), C07-m9 (names differing in non-ASCII case), C09-m9 (members the "
               "listfile does not name), C18-m9 (file-id tables of more than eight sections); the false alarm is described in section 8 (what closed each is in its row).\n")
    out.append("\n*Strengthened after a miss:* C01-m1 (store-raw boundary units added to the generator), C07-m1 (sources with "
               "external / partial listfiles), C08-m2 (digest-field cases), C12-m2 (dirty compaction variant), C20-m2 (BLP "
               "sub-commands), C11 (separate edge archive). C19-m2 is a lock-order inversion whose demonstration is "
               "schedule-dependent (2 of 3 runs); the check catches it deterministically because the lock graph is "
               "re-extracted from the source and `lock_graph_acyclic` stops checking.\n")
    return "\n".join(out)

TAIL = r'''
## 10. Tooling limits, and what is not covered

* No Mathlib is imported anywhere: core Lean + `omega`, `simp only`, `decide +kernel`, `fun_induction` sufficed, and
  it keeps `wvmodel` linkable as a `lean_exe` (fast driver: thousands of requests per second).
* The kernel cannot evaluate very large concrete examples (32 K-element lists); such facts are stated through
  lemmas, not `example`s. `decide +kernel` needs single-pass definitions (a lazily re-evaluated table took 400 s,
  the restructured one 10 s).
* Rust is tied to the models by differential execution, not by a translator: no Rust-to-Lean translator for
  this code base could be written in the time available (binrw derive macros, trait-generic readers, I/O
  everywhere), so the regeneration route is used only for constants, the lock graph and the shape of the C API's close
  protocol (order of SFileCloseArchive's sections, the search's second look-up, the open's lock scope).
* A theorem whose statement mentions a definition with large numeric literals applied to a variable (the BLP magic as
  `0x30504C42 + v * 0x1000000`) made the kernel run for minutes and stop with "deep recursion"; stating the lemma for an
  arbitrary number with the needed facts as hypotheses and instantiating it afterwards avoids that.
* Fixed-layout headers are instances of one generic record codec (`Lib.Record`: a layout is a list of field widths; write→read,
  read→write and injectivity proved once for every layout): the MPQ header V1–V4 and the BLP header use it. The other fixed
  records (MPHD / MAIN / MODF, MOHD, MHDR / MCIN / MCNK header, M2 header) are still compared as bytes or field by field by the
  harness rather than through a Lean layout.
* Not covered / partial, by property (details in §6): C03 the third-party compressors and the in-tree Huffman codec
  (framing, selector and limit logic and the in-tree sparse and ADPCM codecs are modelled and proved); C05 totality is established by running the parsers (sampling), the theorems
  cover the front loops and the allocation rule; C09 the rayon runtime; C10 collision resistance of MD5,
  RSA, multi-byte checksum collisions; C12 real crash injection is by strace fault injection on the syscall
  trace, not power loss; C13 lights, emitters, colour / texture animations and bone rotations are not generated; the legacy .anim container cannot be read back (D65);
  C14/C15/C13 whole-file content preservation is an oracle (needs the real parsers), the theorems cover
  the derived data (offset tables, string tables, relocation); C15 group content cannot be parsed back by the
  crate; C16 lossy pixel content; C19 scheduling in general (lock graph + stress with watchdog; the close-versus-open protocol is modelled over ALL schedules: close_leaves_nothing); C20 conversion sub-commands other than `blp convert` and `mpq create/extract` are not driven.
* Hooks: none were needed (`MANIFEST.hooks.source_commits` is empty); every entry point used is public.
'''

doc = HEAD + section5() + NOTES_HEAD + section6() + section7() + FALSE + section9() + TAIL
open(os.path.join(V, "DESIGN.md"), "w").write(doc)
print("DESIGN.md: %d lines" % doc.count("\n"))
