#!/bin/bash
# seedtest.sh <patch> <Cxx> [tier] : apply a seeded change to /repo, run the check, undo. Prints the check's verdict.
P=$1; ID=$2; TIER=${3:-quick}
cd /repo || exit 2
git diff --quiet || { echo "/repo not clean"; exit 2; }
git apply "$P" 2>/dev/null || git apply --3way "$P" 2>/dev/null || { echo "PATCH-DOES-NOT-APPLY"; git reset -q --hard HEAD; exit 2; }
git reset -q 2>/dev/null
cd /verif && ./check $ID --tier $TIER; RC=$?
git -C /repo reset -q --hard HEAD ; git -C /repo status --short | head -3
echo "seedtest rc=$RC"
