import re,collections,sys
rows=[l.rstrip('\n').split('\t') for l in open('/verif/.build/run/C07/oracle.txt') if l.startswith('FAIL')]
by=collections.defaultdict(list)
for _,tag,case in rows:
    v=re.search(r':: source (V\d)',case); v=v.group(1) if v else '?'
    by[(tag,v)].append(case)
for k in sorted(by):
    c=min(by[k],key=len)
    print(k,len(by[k])); print('   ',c[:int(sys.argv[1]) if len(sys.argv)>1 else 800])
