import collections,re,sys
p=sys.argv[1]; w=int(sys.argv[2]) if len(sys.argv)>2 else 300
rows=[l.rstrip('\n').split('\t') for l in open(p,errors='replace') if l.startswith('FAIL')]
by=collections.defaultdict(list)
for r in rows:
    if len(r)<3: continue
    m=re.match(r'([\w /\->]*?): ',r[2]); by[(r[1],(m.group(1) if m else '')[-40:])].append(r[2])
for k in sorted(by): print(len(by[k]),k,'|',min(by[k],key=len)[:w])
