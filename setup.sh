#!/bin/sh
# Build the framework offline from files on disk: Rust harness (against /repo's working tree) + Lean project.
set -e
cd "$(dirname "$0")"
export CARGO_NET_OFFLINE=true
mkdir -p .build evidence replays
[ -f harness/Cargo.lock ] || cp /repo/Cargo.lock harness/Cargo.lock
(cd harness && cargo build --release --offline --quiet)
.build/target/release/wvh dump-consts > .build/Consts.lean.new
cmp -s .build/Consts.lean.new lean/WowVerif/Gen/Consts.lean || cp .build/Consts.lean.new lean/WowVerif/Gen/Consts.lean
python3 -c "import sys; sys.path.insert(0, 'tools'); import drivers; drivers.c19_pregen()"
(cd lean && lake build WowVerif wvmodel)
# the CLI binary used by the process-level checks (C11, C20), built from /repo's working tree
(cd /repo && CARGO_TARGET_DIR=/verif/.build/cli-target cargo build -p warcraft-rs --offline --quiet)
echo setup-ok
