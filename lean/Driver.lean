/-
  wvmodel — the executable Lean model behind a one-line-in / one-line-out protocol.
  Imports only import-free model modules (no Mathlib), so it links as a `lean_exe`.
-/
import WowVerif.Model.Dispatch01
import WowVerif.Model.Dispatch03
import WowVerif.Model.Dispatch04
import WowVerif.Model.Dispatch05
import WowVerif.Model.Dispatch06
import WowVerif.Model.Dispatch07
import WowVerif.Model.Dispatch08
import WowVerif.Model.Dispatch09
import WowVerif.Model.Dispatch10
import WowVerif.Model.Dispatch13
import WowVerif.Model.Dispatch14
import WowVerif.Model.Dispatch15
import WowVerif.Model.Dispatch16
import WowVerif.Model.Dispatch11
import WowVerif.Model.Dispatch12
import WowVerif.Model.Dispatch19
import WowVerif.Model.Dispatch20
import WowVerif.Model.Dispatch17
import WowVerif.Model.Dispatch18
import WowVerif.Model.Dispatch18b
import WowVerif.Model.Dispatch18c

open Wv Wv.Drv

structure St where
  chain : Wv.Chain.Chain := {}
  ffi : Wv.Ffi.St := {}
  codec : Wv.Mpq.Codec := []

def step (st : St) (line : String) : St × String :=
  let toks := (line.trimAscii.toString.splitOn " ").filter (· ≠ "")
  match (((((((((((((((((c04 toks).orElse (fun _ => c17 toks)).orElse (fun _ => c18 toks)).orElse (fun _ => c18b toks)).orElse (fun _ => c18c toks)).orElse (fun _ => c03 toks)).orElse (fun _ => c09 toks)).orElse (fun _ => c12 toks)).orElse (fun _ => c11 toks)).orElse (fun _ => c20 toks)).orElse (fun _ => c06 toks)).orElse (fun _ => c07 toks)).orElse (fun _ => c10 toks)).orElse (fun _ => c16 toks)).orElse (fun _ => c14 toks)).orElse (fun _ => c15 toks)).orElse (fun _ => c13 toks)).orElse (fun _ => c05 toks) with
  | some r => (st, r)
  | none =>
    match c08 st.chain toks with
    | some (c, r) => ({ st with chain := c }, r)
    | none =>
      match c19 st.ffi toks with
      | some (f, r) => ({ st with ffi := f }, r)
      | none =>
        match c01 st.codec toks with
        | some (cd, r) => ({ st with codec := cd }, r)
        | none => (st, "bad-op")

partial def loop (hin : IO.FS.Stream) (hout : IO.FS.Stream) (st : St) : IO Unit := do
  let line ← hin.getLine
  if line.isEmpty then return ()
  let (st', out) := step st line
  hout.putStrLn out
  loop hin hout st'

def main : IO Unit := do
  let hin ← IO.getStdin
  let hout ← IO.getStdout
  loop hin hout {}
  hout.flush
