/-
  Lib.Iff — IFF-style chunk framing used by WDT / WDL / ADT / WMO: magic (4 bytes) + size (u32 LE) + payload.
  Import-free.
-/
import WowVerif.Base.Bytes
namespace Wv.Iff
open Wv

structure Chunk where
  magic : Bytes      -- 4 bytes as they appear in the file (reversed FourCC)
  data : Bytes
  deriving DecidableEq, Repr

def encode (c : Chunk) : Bytes := c.magic ++ natLE 4 c.data.length ++ c.data
def serialize (cs : List Chunk) : Bytes := cs.flatMap encode

inductive Walk
  | done (cs : List Chunk)                 -- clean end: fewer than 8 bytes left (header read hits EOF)
  | short (cs : List Chunk) (magic : Bytes) (size : Nat) (avail : Bytes)  -- payload runs past the end
  deriving DecidableEq, Repr

/-- walk chunk headers; fuel = number of bytes (each step consumes ≥ 8) -/
def walk : Nat → Bytes → List Chunk → Walk
  | 0, _, acc => .done acc.reverse
  | f+1, bs, acc =>
    match bs with
    | m0 :: m1 :: m2 :: m3 :: s0 :: s1 :: s2 :: s3 :: rest =>
      let size := leNat [s0, s1, s2, s3]
      let payload := rest.take size
      if payload.length = size then walk f (rest.drop size) ({ magic := [m0, m1, m2, m3], data := payload } :: acc)
      else .short acc.reverse [m0, m1, m2, m3] size rest
    | _ => .done acc.reverse

def walkAll (bs : Bytes) : Walk := walk (bs.length / 8 + 1) bs []

def WF (c : Chunk) : Prop := c.magic.length = 4 ∧ c.data.length < 2 ^ 32

end Wv.Iff
