/- Lib.Graph — tiny directed-graph acyclicity check (Kahn's algorithm), kernel-evaluable. -/
namespace Wv.Graph

/-- one round: drop every node that no remaining edge points at, together with its outgoing edges -/
def peel (nodes : List Nat) (edges : List (Nat × Nat)) : List Nat × List (Nat × Nat) :=
  let keep := nodes.filter fun v => edges.any fun e => e.2 == v
  (keep, edges.filter fun e => keep.contains e.1)

def peelN : Nat → List Nat → List (Nat × Nat) → List Nat
  | 0, nodes, _ => nodes
  | f+1, nodes, edges => let (n', e') := peel nodes edges; peelN f n' e'

/-- acyclic iff peeling source nodes `n` times leaves nothing (a self-loop or a cycle is never peeled) -/
def acyclic (n : Nat) (edges : List (Nat × Nat)) : Bool := (peelN n (List.range n) edges).isEmpty

end Wv.Graph
