/-
  Lib.Record — fixed-layout little-endian records: a record is a list of (width in bytes, value) pairs written one
  after the other; a reader takes the list of widths and returns the values and what is left of the input.
  Every fixed header / table entry of the formats (MPQ header V1–V4, BLP header, MPHD, MAIN, MODF, MOHD, MHDR, MCNK
  header, DBC header …) is an instance: a layout = a list of widths. Signed and float fields are carried by bit
  pattern, byte arrays (digests) as one little-endian number of that many bytes. Import-free.
-/
import WowVerif.Base.Bytes
namespace Wv.Rec
open Wv

/-- write the fields one after the other -/
def enc : List (Nat × Nat) → Bytes
  | [] => []
  | (w, v) :: r => natLE w v ++ enc r

/-- read fields of the given widths; `none` when the input is too short (the reader's I/O error) -/
def dec : List Nat → Bytes → Option (List Nat × Bytes)
  | [], bs => some ([], bs)
  | w :: ws, bs =>
    if bs.length < w then none else
    match dec ws (bs.drop w) with
    | none => none
    | some (vs, rest) => some (leNat (bs.take w) :: vs, rest)

def total : List Nat → Nat
  | [] => 0
  | w :: ws => w + total ws

/-- the values fit their fields -/
def Fits (fs : List (Nat × Nat)) : Prop := ∀ f ∈ fs, f.2 < 256 ^ f.1

def fitsB (fs : List (Nat × Nat)) : Bool := fs.all fun f => decide (f.2 < 256 ^ f.1)

end Wv.Rec
