/-
  Lib.SoftF32 — IEEE-754 binary32 arithmetic with round-to-nearest-even, computed exactly over Nat/Int.
  Covers zero, subnormal inputs and normal results; an operation whose result would be subnormal, overflow or
  NaN returns `none` (the callers' domains never get there; the harness validates bit-exactly against hardware).
  `Float32` is opaque to Lean's kernel, this is not.
-/
namespace Wv.F32

/-- decoded finite value: (negative, m, e) meaning ±m·2^e -/
structure Dy where
  neg : Bool
  m : Nat
  e : Int
  deriving DecidableEq, Repr

def decode (bits : Nat) : Option Dy :=
  let E := bits / 8388608 % 256
  let frac := bits % 8388608
  let neg := bits / 2147483648 % 2 = 1
  if E = 255 then none
  else if E = 0 then some ⟨neg, frac, -149⟩
  else some ⟨neg, frac + 8388608, (E : Int) - 150⟩

/-- round the positive rational n/d to binary32 (nearest, ties to even); `none` outside the normal range -/
def roundPos (neg : Bool) (n d : Nat) : Option Nat :=
  if n = 0 then some (if neg then 2147483648 else 0) else
  if d = 0 then none else
  let k : Int := (Nat.log2 n : Int) - (Nat.log2 d : Int)
  let e0 : Int := k - 23
  let scale (e : Int) : Nat × Nat := if e ≥ 0 then (n, d * 2 ^ e.toNat) else (n * 2 ^ (-e).toNat, d)
  let (N0, D0) := scale e0
  let e := if N0 / D0 < 8388608 then e0 - 1 else e0
  let (N, D) := scale e
  let q := N / D
  let r := N % D
  let q' := if 2 * r > D ∨ (2 * r = D ∧ q % 2 = 1) then q + 1 else q
  let (q'', e') := if q' = 16777216 then (8388608, e + 1) else (q', e)
  let E := e' + 150
  if 1 ≤ E ∧ E ≤ 254 ∧ 8388608 ≤ q'' ∧ q'' < 16777216 then
    some ((if neg then 2147483648 else 0) + E.toNat * 8388608 + (q'' - 8388608))
  else none

/-- exact dyadic → rational numerator/denominator -/
def dyRat (m : Nat) (e : Int) : Nat × Nat := if e ≥ 0 then (m * 2 ^ e.toNat, 1) else (m, 2 ^ (-e).toNat)

def mul (a b : Nat) : Option Nat := do
  let x ← decode a; let y ← decode b
  let (n, d) := dyRat (x.m * y.m) (x.e + y.e)
  roundPos (x.neg != y.neg) n d

def div (a b : Nat) : Option Nat := do
  let x ← decode a; let y ← decode b
  if y.m = 0 then none else
  let (n1, d1) := dyRat x.m x.e
  let (n2, d2) := dyRat y.m y.e
  roundPos (x.neg != y.neg) (n1 * d2) (d1 * n2)

def addSigned (x y : Dy) : Option Nat :=
  let emin := if x.e ≤ y.e then x.e else y.e
  let xs : Int := (x.m * 2 ^ (x.e - emin).toNat : Nat)
  let ys : Int := (y.m * 2 ^ (y.e - emin).toNat : Nat)
  let s : Int := (if x.neg then -xs else xs) + (if y.neg then -ys else ys)
  if s = 0 then some (if x.neg && y.neg then 2147483648 else 0)
  else
    let (n, d) := dyRat s.natAbs emin
    roundPos (s < 0) n d

def add (a b : Nat) : Option Nat := do
  let x ← decode a; let y ← decode b
  addSigned x y

def sub (a b : Nat) : Option Nat := do
  let x ← decode a; let y ← decode b
  addSigned x { y with neg := !y.neg }

/-- `n as f32` for an unsigned integer -/
def ofNat (n : Nat) : Option Nat := roundPos false n 1

/-- the f32 nearest to the decimal literal num/den -/
def ofDecimal (num den : Nat) : Option Nat := roundPos false num den

/-- `x as u32`: truncation toward zero, saturating, NaN → 0 -/
def toU32 (a : Nat) : Nat :=
  match decode a with
  | none => if a % 8388608 = 0 ∧ a / 2147483648 % 2 = 0 then 4294967295 else 0   -- +inf saturates, -inf/NaN → 0
  | some x =>
    if x.neg then 0 else
    let v := if x.e ≥ 0 then x.m * 2 ^ x.e.toNat else x.m / 2 ^ (-x.e).toNat
    if v > 4294967295 then 4294967295 else v

end Wv.F32
