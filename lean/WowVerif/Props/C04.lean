/-
  Props.C04 — "Hashing and encryption equal the MPQ algorithms and are mutually inverse".
  Property theorems only; helper lemmas live in Lemmas/C04.lean.
  `Model.*` = what /repo's code does (constants regenerated from the compiled crate on every run),
  `Spec.*`  = the published algorithms (never regenerated).
-/
import WowVerif.Lemmas.C04
set_option linter.unusedSimpArgs false
namespace Wv.C04
open Wv Wv.Model Wv.Lemmas04

/-- the 1280-entry crypt table compiled into the crate equals the reference table -/
theorem crypt_table_eq : Gen.cryptTable = Spec.cryptTable := Lemmas04.crypt_table_eq
/-- the folding tables equal arithmetic ASCII upper/lower-casing on all 256 bytes -/
theorem fold_tables_eq : Gen.asciiToUpper = Spec.upperTable ∧ Gen.asciiToLower = Spec.lowerTable :=
  ⟨upper_table_eq, lower_table_eq⟩
/-- the hash-type offsets are the published ones -/
theorem hash_types_eq : Gen.hashTableOffset = 0 ∧ Gen.hashNameA = 0x100 ∧ Gen.hashNameB = 0x200 ∧
    Gen.hashFileKey = 0x300 ∧ Gen.hashKey2Mix = 0x400 := by decide

/-- the name hash equals the reference MPQ hash, every hash type (any offset that cannot wrap), every byte string -/
theorem hash_eq_reference (ty : Nat) (h : ty + 255 < 4294967296) (s : Bytes) :
    Model.hashString ty s = Spec.hashString ty s := by
  simp only [Model.hashString, Spec.hashString, foldl_hashStep_eq ty h]


/-- the hash is invariant under the code's own folding (ASCII case, slash direction) -/
theorem hash_fold_invariant (ty : Nat) (s : Bytes) :
    Model.hashString ty (s.map fold) = Model.hashString ty s := by
  simp only [Model.hashString, List.foldl_map, hashStep_fold]


/-- any two spellings that fold to the same bytes hash alike -/
theorem hash_spelling (ty : Nat) (s₁ s₂ : Bytes) (h : s₁.map fold = s₂.map fold) :
    Model.hashString ty s₁ = Model.hashString ty s₂ := by
  rw [← hash_fold_invariant ty s₁, ← hash_fold_invariant ty s₂, h]

/-- block decryption inverts block encryption: every key (0 included), every buffer -/
theorem decrypt_encrypt_block (key : W32) (d : List W32) :
    decryptBlock (encryptBlock d key) key = d := Lemmas04.decrypt_encrypt_block key d

/-- and the other way round -/
theorem encrypt_decrypt_block (key : W32) (d : List W32) :
    encryptBlock (decryptBlock d key) key = d := by
  unfold decryptBlock encryptBlock
  split <;> simp_all [encGo_decGo]

/-- for a non-zero key the code's cipher is the reference cipher -/
theorem encrypt_block_eq_reference (key : W32) (hk : key ≠ 0#32) (d : List W32) :
    encryptBlock d key = Spec.encGo key 0xEEEEEEEE#32 d := by
  have go : ∀ (k s : W32) (d : List W32), Model.encGo k s d = Spec.encGo k s d := by
    intro k s d
    induction d generalizing k s with
    | nil => rfl
    | cons p ps ih => simp only [Model.encGo, Spec.encGo, tbl_eq, ih]; rfl
  have hk' : ¬ key = 0 := hk
  simp only [encryptBlock, hk', if_false, go]

/-- byte-level wrappers (builder `encrypt_data` / reader `decrypt_file_data`): every key, every length,
    including lengths not divisible by four and a tail key that wraps to zero -/
theorem decrypt_encrypt_bytes (key : W32) (d : Bytes) :
    decryptBytes (encryptBytes d key) key = d := by
  by_cases h0 : (d.isEmpty || key == 0) = true
  · have e : encryptBytes d key = d := by simp only [encryptBytes, h0, if_true]
    rw [e]; simp only [decryptBytes, h0, if_true]
  · have hspec := toWords_spec d
    generalize hw : toWords d = wt at hspec
    obtain ⟨ws, t⟩ := wt
    simp only at hspec
    obtain ⟨hd, ht⟩ := hspec
    obtain ⟨m, hme, hmd⟩ := tail_mask (key + BitVec.ofNat 32 ws.length)
    have hk : (key == 0) = false := by
      cases hkk : (key == 0) <;> simp_all
    have hne : d.isEmpty = false := by
      cases hdd : d.isEmpty <;> simp_all
    by_cases htE : t.isEmpty = true
    · -- no tail
      have e : encryptBytes d key = ofWords (encryptBlock ws key) := by
        simp only [encryptBytes, h0, hw, htE, if_true]; simp
      have t0 : t = [] := List.isEmpty_iff.mp htE
      have hne' : (ofWords (encryptBlock ws key)).isEmpty = false := by
        have hl := ofWords_length (encryptBlock ws key)
        rw [encryptBlock_length] at hl
        have : d.length = 4 * ws.length := by rw [hd, t0, List.append_nil, ofWords_length]
        have : d.length ≠ 0 := by intro hz; simp [List.length_eq_zero_iff.mp hz] at hne
        cases hh : (ofWords (encryptBlock ws key)).isEmpty
        · rfl
        · rw [List.isEmpty_iff] at hh; rw [hh] at hl; simp at hl; omega
      rw [e]
      have tw := toWords_ofWords_append (encryptBlock ws key) [] (by simp)
      rw [List.append_nil] at tw
      simp only [decryptBytes, hne', hk, Bool.or_false, tw, decrypt_encrypt_block, List.isEmpty_nil, if_true]
      simp only [Bool.false_eq_true, if_false]
      rw [hd, t0, List.append_nil]
    · have htE' : t.isEmpty = false := by cases hh : t.isEmpty <;> simp_all
      have e : encryptBytes d key = ofWords (encryptBlock ws key) ++
          (w32le (padTail t ^^^ m)).take t.length := by
        simp only [encryptBytes, h0, hw, htE', hme]; simp
      rw [e]
      have hlen : ((w32le (padTail t ^^^ m)).take t.length).length = t.length := by
        simp [List.length_take, w32le_length]; omega
      have tw := toWords_ofWords_append (encryptBlock ws key) ((w32le (padTail t ^^^ m)).take t.length)
        (by rw [hlen]; exact ht)
      have hne' : (ofWords (encryptBlock ws key) ++ (w32le (padTail t ^^^ m)).take t.length).isEmpty = false := by
        cases hh : (ofWords (encryptBlock ws key) ++ (w32le (padTail t ^^^ m)).take t.length).isEmpty
        · rfl
        · rw [List.isEmpty_iff, List.append_eq_nil_iff] at hh
          have := hh.2; rw [← List.length_eq_zero_iff, hlen] at this
          have : t = [] := List.length_eq_zero_iff.mp this
          simp [this] at htE'
      have hte2 : ((w32le (padTail t ^^^ m)).take t.length).isEmpty = false := by
        cases hh : ((w32le (padTail t ^^^ m)).take t.length).isEmpty
        · rfl
        · rw [List.isEmpty_iff, ← List.length_eq_zero_iff, hlen] at hh
          have : t = [] := List.length_eq_zero_iff.mp hh
          simp [this] at htE'
      simp only [decryptBytes, hne', hk, Bool.or_false, tw, decrypt_encrypt_block, hte2,
        encryptBlock_length, hmd, hlen, Bool.false_eq_true, if_false]
      rw [tail_roundtrip t m ht, ← hd]

/-- the 12-way tail `match` of the code's hashlittle2 computes lookup3's hashlittle2 -/
theorem hashlittle2_eq_lookup3 (key : Bytes) (pc pb : W32) :
    Model.hashlittle2 key pc pb = Spec.hashlittle2 key pc pb := by
  unfold Model.hashlittle2 Spec.hashlittle2
  simp only [hl2Loop_eq]
  generalize hr : Spec.hl2Loop key.length key _ _ _ = r
  obtain ⟨k, a, b, c⟩ := r
  have hl := hl2Loop_len key.length key
    (0xdeadbeef#32 + BitVec.ofNat 32 key.length + pc) (0xdeadbeef#32 + BitVec.ofNat 32 key.length + pc)
    (0xdeadbeef#32 + BitVec.ofNat 32 key.length + pc + pb) (by omega)
  rw [hr] at hl
  simp only
  split
  · rfl
  · rename_i hne
    have hne' : k ≠ [] := by intro h; simp [h] at hne
    simp only [tailAdd_eq k a b c hl hne', final_eq]

/-- the HET hash depends only on the folded name -/
theorem het_hash_fold_invariant (s : Bytes) (bits : Nat) : hetHash (s.map fold) bits = hetHash s bits := by
  unfold hetHash
  simp only [List.map_map]
  have : (fold ∘ fold) = fold := by funext b; exact fold_idem b
  rw [this]

theorem het_hash_spelling (s₁ s₂ : Bytes) (bits : Nat) (h : s₁.map fold = s₂.map fold) :
    hetHash s₁ bits = hetHash s₂ bits := by
  rw [← het_hash_fold_invariant s₁, ← het_hash_fold_invariant s₂, h]

/-- the HET hash is lookup3's hashlittle2 (seeds 2, 1) of the folded name, masked to `bits` -/
theorem het_hash_is_lookup3 (s : Bytes) :
    hetHash s 64 = some (
      (((Spec.hashlittle2 (s.map Spec.foldByte) 2#32 1#32).2.zeroExtend 64 <<< 32) |||
        (Spec.hashlittle2 (s.map Spec.foldByte) 2#32 1#32).1.zeroExtend 64),
      UInt8.ofNat (((((Spec.hashlittle2 (s.map Spec.foldByte) 2#32 1#32).2.zeroExtend 64 <<< 32) |||
        (Spec.hashlittle2 (s.map Spec.foldByte) 2#32 1#32).1.zeroExtend 64) >>> 56).toNat % 256)) := by
  have hm : s.map fold = s.map Spec.foldByte := List.map_congr_left (fun b _ => fold_eq_spec b)
  simp only [hetHash, hm, hashlittle2_eq_lookup3, Nat.lt_irrefl, if_false]

/-- the one-at-a-time hash depends only on the folded name (either folding) -/
theorem joaat_fold_invariant (s : Bytes) : jenkinsOAAT (s.map fold) = jenkinsOAAT s := by
  unfold jenkinsOAAT
  have : ∀ (h : W64) (b : UInt8), joaatStep h (fold b) = joaatStep h b := by
    intro h b; simp only [joaatStep, foldLower_fold]
  simp only [List.foldl_map, this]

/-! non-vacuity / sanity: the documented test vectors, evaluated by the kernel on the model -/
example : Model.hashString 0 [0x28,0x6c,0x69,0x73,0x74,0x66,0x69,0x6c,0x65,0x29] = 0x5F3DE859#32 := by decide +kernel
example : decryptBytes (encryptBytes [1,2,3,4,5,6,7] 0xC1EB1CEF#32) 0xC1EB1CEF#32 = [1,2,3,4,5,6,7] := by decide +kernel
example : encryptBytes [1,2,3,4,5,6,7] 0xC1EB1CEF#32 ≠ [1,2,3,4,5,6,7] := by decide +kernel

end Wv.C04
