import WowVerif.Model.C07Rebuild
/-!
C07 — Rebuilding an archive preserves its file set and contents.

Theorems about the model of `rebuild_archive` / `compare_files` (for every listing, of any length, and every option set):
`extract_names`, `extract_complete`, `extract_sound` — a successful rebuild re-adds exactly the listed files the options do
not exclude, in order, each with the bytes the reader returned; `extract_error` — the only way out is an error naming a
selected file that could not be read (no silent loss); `counts_truthful`; `rebuilt_lookup` — the result as a map;
`compare_clean` — comparing source and result reports no content difference and exactly the excluded names as missing.
-/
namespace Wv.Rebuild
open Wv

def selected (o : Opts) (l : List Entry) : List Entry := l.filter fun e => !excluded o e

theorem extract_names (o : Opts) (l : List Entry) (xs : List (Bytes × Bytes)) (h : extract o l = .ok xs) :
    xs.map (·.1) = (selected o l).map (·.name) := by
  induction l generalizing xs with
  | nil => simp [extract] at h; subst h; rfl
  | cons e rest ih =>
    unfold extract at h
    by_cases hx : excluded o e = true
    · simp only [hx, if_true] at h
      simp only [selected, List.filter_cons, hx, Bool.not_true, Bool.false_eq_true, if_false]
      exact ih xs h
    · simp only [hx] at h
      cases hc : e.content with
      | none => simp [hc] at h
      | some d =>
        simp only [hc] at h
        cases hr : extract o rest with
        | error n => simp [hr] at h
        | ok ys =>
          simp only [hr] at h
          cases h
          have hx' : excluded o e = false := by simpa using hx
          simp only [selected, List.filter_cons, hx', Bool.not_false, if_true, List.map_cons]
          rw [ih ys hr]; rfl

theorem extract_sound (o : Opts) (l : List Entry) (xs : List (Bytes × Bytes)) (h : extract o l = .ok xs) :
    ∀ p ∈ xs, ∃ e ∈ l, e.name = p.1 ∧ e.content = some p.2 ∧ excluded o e = false := by
  induction l generalizing xs with
  | nil => simp [extract] at h; subst h; intro p hp; cases hp
  | cons e rest ih =>
    unfold extract at h
    by_cases hx : excluded o e = true
    · simp only [hx, if_true] at h
      intro p hp
      obtain ⟨e', he', r⟩ := ih xs h p hp
      exact ⟨e', by simp [he'], r⟩
    · simp only [hx] at h
      cases hc : e.content with
      | none => simp [hc] at h
      | some d =>
        simp only [hc] at h
        cases hr : extract o rest with
        | error n => simp [hr] at h
        | ok ys =>
          simp only [hr] at h
          cases h
          intro p hp
          simp only [List.mem_cons] at hp
          cases hp with
          | inl hp => subst hp; exact ⟨e, by simp, rfl, hc, by simpa using hx⟩
          | inr hp =>
            obtain ⟨e', he', r⟩ := ih ys hr p hp
            exact ⟨e', by simp [he'], r⟩

theorem extract_complete (o : Opts) (l : List Entry) (xs : List (Bytes × Bytes)) (h : extract o l = .ok xs) :
    ∀ e ∈ l, excluded o e = false → ∃ d, e.content = some d ∧ (e.name, d) ∈ xs := by
  induction l generalizing xs with
  | nil => intro e he; cases he
  | cons e0 rest ih =>
    unfold extract at h
    by_cases hx : excluded o e0 = true
    · simp only [hx, if_true] at h
      intro e he hne
      simp only [List.mem_cons] at he
      cases he with
      | inl he => subst he; rw [hx] at hne; cases hne
      | inr he => exact ih xs h e he hne
    · simp only [hx] at h
      cases hc : e0.content with
      | none => simp [hc] at h
      | some d =>
        simp only [hc] at h
        cases hr : extract o rest with
        | error n => simp [hr] at h
        | ok ys =>
          simp only [hr] at h
          cases h
          intro e he hne
          simp only [List.mem_cons] at he
          cases he with
          | inl he => subst he; exact ⟨d, hc, by simp⟩
          | inr he =>
            obtain ⟨d', hd', hm⟩ := ih ys hr e he hne
            exact ⟨d', hd', by simp [hm]⟩

/-- **No silent loss.** A rebuild that does not deliver every selected file fails, and names a selected file the
    reader could not read. -/
theorem extract_error (o : Opts) (l : List Entry) (n : Bytes) (h : extract o l = .error n) :
    ∃ e ∈ l, e.name = n ∧ excluded o e = false ∧ e.content = none := by
  induction l with
  | nil => simp [extract] at h
  | cons e rest ih =>
    unfold extract at h
    by_cases hx : excluded o e = true
    · simp only [hx, if_true] at h
      obtain ⟨e', he', r⟩ := ih h
      exact ⟨e', by simp [he'], r⟩
    · simp only [hx] at h
      cases hc : e.content with
      | none =>
        simp only [hc] at h
        cases h
        exact ⟨e, by simp, rfl, by simpa using hx, hc⟩
      | some d =>
        simp only [hc] at h
        cases hr : extract o rest with
        | error m =>
          simp only [hr] at h
          cases h
          obtain ⟨e', he', r⟩ := ih hr
          exact ⟨e', by simp [he'], r⟩
        | ok ys => simp [hr] at h

theorem filter_split_length (l : List Entry) (p : Entry → Bool) :
    l.length = (l.filter fun e => !p e).length + (l.filter p).length := by
  induction l with
  | nil => rfl
  | cons e rest ih =>
    simp only [List.filter_cons, List.length_cons]
    cases p e <;> simp <;> omega

/-- **The reported counts are truthful**: source = listed files, extracted = the selected ones, skipped = exactly the
    excluded ones, and they add up. -/
theorem counts_truthful (o : Opts) (l : List Entry) (s : Summary) (h : summary o l = .ok s) :
    s.source = l.length ∧ s.extracted = (selected o l).length ∧ s.skipped = (l.filter (excluded o)).length ∧
      s.source = s.extracted + s.skipped := by
  unfold summary at h
  cases hx : extract o l with
  | error n => simp [hx] at h
  | ok xs =>
    simp only [hx] at h
    cases h
    have hn := extract_names o l xs hx
    have hl : xs.length = (selected o l).length := by
      have := congrArg List.length hn
      simpa using this
    have hs := filter_split_length l (excluded o)
    simp only [selected] at hl ⊢
    refine ⟨trivial, hl, ?_, ?_⟩
    · show l.length - xs.length = _; omega
    · show l.length = xs.length + (l.length - xs.length); omega

def names (l : List Entry) : List Bytes := l.map (·.name)

theorem lookup_not_mem (xs : List (Bytes × Bytes)) (n : Bytes) (h : ∀ p ∈ xs, p.1 ≠ n) : lookup xs n = none := by
  unfold lookup
  rw [List.find?_eq_none.mpr]
  · rfl
  · intro p hp; simpa using h p hp

/-- **The rebuilt archive as a map**: under every listed name (names distinct) it holds exactly what the reader returned
    for the source, unless the options exclude the file, in which case it holds nothing. -/
theorem rebuilt_lookup (o : Opts) (l : List Entry) (xs : List (Bytes × Bytes)) (hnd : (names l).Nodup)
    (h : extract o l = .ok xs) : ∀ e ∈ l, lookup xs e.name = if excluded o e then none else e.content := by
  induction l generalizing xs with
  | nil => intro e he; cases he
  | cons e0 rest ih =>
    have hnd' : (names rest).Nodup := (List.nodup_cons.mp hnd).2
    have hfresh : ∀ e ∈ rest, e.name ≠ e0.name := by
      intro e he heq
      have : e0.name ∈ names rest := by rw [← heq]; exact List.mem_map_of_mem (f := fun x => x.name) he
      exact (List.nodup_cons.mp hnd).1 this
    unfold extract at h
    by_cases hx : excluded o e0 = true
    · simp only [hx, if_true] at h
      intro e he
      simp only [List.mem_cons] at he
      cases he with
      | inl he =>
        subst he
        simp only [hx, if_true]
        apply lookup_not_mem
        intro p hp heq
        obtain ⟨e', he', hn, _, _⟩ := extract_sound o rest xs h p hp
        exact hfresh e' he' (hn.trans heq)
      | inr he => exact ih xs hnd' h e he
    · simp only [hx] at h
      cases hc : e0.content with
      | none => simp [hc] at h
      | some d =>
        simp only [hc] at h
        cases hr : extract o rest with
        | error n => simp [hr] at h
        | ok ys =>
          simp only [hr] at h
          cases h
          intro e he
          simp only [List.mem_cons] at he
          cases he with
          | inl he =>
            subst he
            have hx' : excluded o e = false := by simpa using hx
            simp [lookup, hx', hc]
          | inr he =>
            have hne : e0.name ≠ e.name := fun heq => hfresh e he heq.symm
            have := ih ys hnd' hr e he
            unfold lookup at this ⊢
            rw [List.find?_cons_of_neg (by simpa using hne)]
            exact this

/-- the source as the reader sees it -/
def sourceMap (l : List Entry) : List (Bytes × Bytes) := l.filterMap fun e => e.content.map fun d => (e.name, d)

/-- **Comparing source and result reports no content difference**, and a readable source file is reported missing from
    the result exactly when the options exclude it. -/
theorem compare_clean (o : Opts) (l : List Entry) (xs : List (Bytes × Bytes)) (hnd : (names l).Nodup)
    (h : extract o l = .ok xs) :
    contentDifferences (sourceMap l) xs = [] ∧
    ∀ n, n ∈ sourceOnly (sourceMap l) xs ↔ ∃ e ∈ l, e.name = n ∧ e.content.isSome ∧ excluded o e = true := by
  have hl := rebuilt_lookup o l xs hnd h
  constructor
  · unfold contentDifferences
    rw [List.map_eq_nil_iff, List.filter_eq_nil_iff]
    intro p hp
    unfold sourceMap at hp
    rw [List.mem_filterMap] at hp
    obtain ⟨e, he, hpe⟩ := hp
    cases hc : e.content with
    | none => simp [hc] at hpe
    | some d =>
      simp only [hc, Option.map_some] at hpe
      cases hpe
      rw [hl e he]
      cases hx : excluded o e <;> simp [hc]
  · intro n
    unfold sourceOnly sourceMap
    simp only [List.mem_map, List.mem_filter, List.mem_filterMap]
    constructor
    · rintro ⟨p, ⟨⟨e, he, hpe⟩, hnone⟩, rfl⟩
      cases hc : e.content with
      | none => simp [hc] at hpe
      | some d =>
        simp only [hc, Option.map_some] at hpe
        cases hpe
        rw [hl e he] at hnone
        cases hx : excluded o e with
        | true => exact ⟨e, he, rfl, by simp [hc], hx⟩
        | false => simp [hx, hc] at hnone
    · rintro ⟨e, he, rfl, hsome, hx⟩
      obtain ⟨d, hd⟩ := Option.isSome_iff_exists.mp hsome
      refine ⟨(e.name, d), ⟨⟨e, he, by simp [hd]⟩, ?_⟩, rfl⟩
      rw [hl e he]; simp [hx]

/-! ## non-vacuity -/
example : (extract ⟨false, true⟩ [⟨[97], 0, some [1, 2]⟩, ⟨[98], 0x10000, some [3]⟩, ⟨[99], 0x10000, none⟩]).toOption = some [([97], [1, 2])] := by decide
example : (summary ⟨false, true⟩ [⟨[97], 0, some [1, 2]⟩, ⟨[98], 0x10000, some [3]⟩, ⟨[99], 0x10000, none⟩]).toOption = some ⟨3, 1, 2⟩ := by decide
example : (extract ⟨false, false⟩ [⟨[97], 0, some [1]⟩, ⟨[98], 0, none⟩]).toOption = none := by decide
example : (names [⟨[97], 0, some [1]⟩, ⟨[98], 0, none⟩]).Nodup := by decide

end Wv.Rebuild
