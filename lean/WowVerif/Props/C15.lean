import WowVerif.Model.C15Wmo
/-!
C15 — WMO: derived data of root and group files.

* `stringAt_nameOffsets` — in a table of NUL-terminated strings, the offset recorded for entry `i` addresses exactly
  string `i`, for every list of NUL-free strings (also with shared prefixes, repeated and empty names);
* `decodeVis_encode` — the MOVV/MOVB encoding of visibility lists decodes to the same lists, for every list of lists
  (empty lists in any position), provided no entry is the terminator value 0xFFFF;
* `count_of_size` — a chunk of `n` records of `k` bytes yields the count `n` (header counts equal list lengths).
-/
namespace Wv.Wmo
open Wv

theorem count_of_size (n k : Nat) (hk : 0 < k) : n * k / k = n := Nat.mul_div_cancel n hk

/-! ## string tables -/

theorem takeWhile_append_nul (n rest : Bytes) (h : ∀ b ∈ n, b ≠ 0) : (n ++ [0] ++ rest).takeWhile (· ≠ 0) = n := by
  induction n with
  | nil => simp
  | cons a r ih =>
    have ha := h a (by simp)
    simp only [List.cons_append, List.takeWhile_cons]
    rw [if_pos (by simpa using ha)]
    congr 1
    exact ih (fun b hb => h b (by simp [hb]))

/-- with `pfx` (of length `start`) in front, every recorded offset addresses its own string -/
theorem stringAt_go (names : List Bytes) (hn : ∀ n ∈ names, ∀ b ∈ n, b ≠ 0) (start : Nat) (pfx : Bytes) (hp : pfx.length = start) :
    ∀ i (hi : i < names.length), ∃ o, (nameOffsets start names)[i]? = some o ∧ stringAt (pfx ++ table names) o = names[i] := by
  induction names generalizing start pfx with
  | nil => intro i hi; simp at hi
  | cons n rest ih =>
    intro i hi
    cases i with
    | zero =>
      refine ⟨start, by simp [nameOffsets], ?_⟩
      unfold stringAt table
      rw [List.drop_left' hp]
      simpa using takeWhile_append_nul n (table rest) (hn n (by simp))
    | succ i =>
      have hl : (pfx ++ (n ++ [0])).length = start + n.length + 1 := by simp [hp]; omega
      obtain ⟨o, ho, hs⟩ := ih (fun m hm => hn m (by simp [hm])) (start + n.length + 1) (pfx ++ (n ++ [0])) hl i (by simpa using hi)
      refine ⟨o, by simpa [nameOffsets] using ho, ?_⟩
      have : pfx ++ table (n :: rest) = (pfx ++ (n ++ [0])) ++ table rest := by simp [table, List.append_assoc]
      rw [this]
      simpa using hs

/-- **Every name offset addresses its own name** -/
theorem stringAt_nameOffsets (names : List Bytes) (hn : ∀ n ∈ names, ∀ b ∈ n, b ≠ 0) (i : Nat) (hi : i < names.length) :
    ∃ o, (nameOffsets 0 names)[i]? = some o ∧ stringAt (table names) o = names[i] := by
  simpa using stringAt_go names hn 0 [] rfl i hi

/-! ## visibility lists -/

theorem u16le_value (x : Nat) (hx : x < 65536) :
    ((UInt8.ofNat (x % 256)).toNat + 256 * (UInt8.ofNat (x / 256 % 256)).toNat) = x := by
  have h1 : (UInt8.ofNat (x % 256)).toNat = x % 256 := by simp
  have h2 : (UInt8.ofNat (x / 256 % 256)).toNat = x / 256 % 256 := by simp
  rw [h1, h2]; omega

/-- reading at the start of an encoded list returns that list, whatever follows the terminator -/
theorem readList_encoded (l : List Nat) (hl : ∀ x ∈ l, x < 0xFFFF) (rest : Bytes) (f : Nat) (hf : l.length < f) :
    readList f (l.flatMap u16le ++ u16le 0xFFFF ++ rest) = l := by
  induction l generalizing f with
  | nil =>
    cases f with
    | zero => omega
    | succ f =>
      simp only [List.flatMap_nil, List.nil_append, u16le, List.cons_append, readList]
      have := u16le_value 0xFFFF (by decide)
      rw [this]; simp
  | cons x xs ih =>
    cases f with
    | zero => simp at hf
    | succ f =>
      have hx := hl x (by simp)
      simp only [List.flatMap_cons, u16le, List.cons_append, List.nil_append, readList]
      have hv := u16le_value x (by omega)
      rw [hv, if_neg (by omega)]
      congr 1
      have := ih (fun y hy => hl y (by simp [hy])) f (by simpa using hf)
      simpa [u16le] using this

theorem flat_len (l : List Nat) : (l.flatMap u16le).length = 2 * l.length := by
  induction l with
  | nil => rfl
  | cons a r ih =>
    simp only [List.flatMap_cons, List.length_append, u16le, List.length_cons, List.length_nil, ih]
    omega

theorem visData_length (ls : List (List Nat)) : (visData ls).length = 2 * (ls.map (·.length + 1)).sum := by
  induction ls with
  | nil => rfl
  | cons l rest ih =>
    have h1 := flat_len l
    simp only [visData, List.length_append, h1, ih, List.map_cons, List.sum_cons, u16le, List.length_cons, List.length_nil]
    omega

theorem decodeVis_go (ls : List (List Nat)) (hl : ∀ l ∈ ls, ∀ x ∈ l, x < 0xFFFF) (start : Nat) (pfx : Bytes) (hp : pfx.length = start)
    (f : Nat) (hf : ∀ l ∈ ls, l.length < f) :
    (visOffsets start ls).map (fun o => readList f ((pfx ++ visData ls).drop o)) = ls := by
  induction ls generalizing start pfx with
  | nil => rfl
  | cons l rest ih =>
    simp only [visOffsets, List.map_cons, visData]
    congr 1
    · rw [List.drop_left' hp]
      exact readList_encoded l (hl l (by simp)) _ f (hf l (by simp))
    · have hlen : (pfx ++ (l.flatMap u16le ++ u16le 0xFFFF)).length = start + 2 * (l.length + 1) := by
        have h1 := flat_len l
        simp only [List.length_append, hp, h1, u16le, List.length_cons, List.length_nil]; omega
      have := ih (fun m hm => hl m (by simp [hm])) (start + 2 * (l.length + 1)) (pfx ++ (l.flatMap u16le ++ u16le 0xFFFF)) hlen (fun m hm => hf m (by simp [hm]))
      simpa [List.append_assoc] using this

/-- **Visibility lists survive encode→decode**, empty lists included, wherever they stand -/
theorem decodeVis_encode (ls : List (List Nat)) (hl : ∀ l ∈ ls, ∀ x ∈ l, x < 0xFFFF) :
    decodeVis (visOffsets 0 ls) (visData ls) = ls := by
  unfold decodeVis
  have hf : ∀ l ∈ ls, l.length < (visData ls).length := by
    intro l hm
    rw [visData_length]
    have : l.length + 1 ≤ (ls.map (·.length + 1)).sum := by
      induction ls with
      | nil => cases hm
      | cons a r ih =>
        simp only [List.mem_cons] at hm
        simp only [List.map_cons, List.sum_cons]
        cases hm with
        | inl h => subst h; omega
        | inr h => have := ih (fun m hm' => hl m (by simp [hm'])) h; omega
    omega
  simpa using decodeVis_go ls hl 0 [] rfl (visData ls).length hf

/-! ## non-vacuity -/
example : nameOffsets 0 [[104, 97], [104], []] = [0, 3, 5] ∧ stringAt (table [[104, 97], [104], []]) 3 = [104] := by decide
example : decodeVis (visOffsets 0 [[], [7, 8], [], [9]]) (visData [[], [7, 8], [], [9]]) = [[], [7, 8], [], [9]] := by decide
example : rootCounts [("MOMT", 128), ("MOGI", 96), ("MODD", 40)] = [2, 3, 0, 0, 1, 1, 0] := by decide

/-! ## conversion of group flags -/

theorem groupFlagMask_mono (lo hi : Nat) (h : lo ≤ hi) : groupFlagMask hi &&& groupFlagMask lo = groupFlagMask lo := by
  unfold groupFlagMask
  by_cases h1 : lo < 3 <;> by_cases h2 : lo < 6 <;> by_cases h3 : hi < 3 <;> by_cases h4 : hi < 6 <;>
    simp only [h1, h2, h3, h4, if_true, if_false] <;> first | decide | omega

/-- CONVERSION KEEPS WHAT BOTH VERSIONS CAN REPRESENT: going to version `lo` by way of any later version `hi` keeps
    exactly the flags that going to `lo` directly keeps (nothing representable in `lo` is lost on the way up and down),
    converting twice is converting once, and nothing is ever added -/
theorem groupFlags_via_later (lo hi flags : Nat) (h : lo ≤ hi) :
    groupFlagsTo lo (groupFlagsTo hi flags) = groupFlagsTo lo flags := by
  unfold groupFlagsTo
  rw [Nat.and_assoc, groupFlagMask_mono lo hi h]

theorem groupFlags_idempotent (to flags : Nat) : groupFlagsTo to (groupFlagsTo to flags) = groupFlagsTo to flags :=
  groupFlags_via_later to to flags (Nat.le_refl _)

theorem groupFlags_adds_nothing (to flags : Nat) : groupFlagsTo to flags &&& flags = groupFlagsTo to flags := by
  unfold groupFlagsTo
  rw [Nat.and_assoc, Nat.and_comm (groupFlagMask to) flags, ← Nat.and_assoc, Nat.and_self]

/-- a Cataclysm-era flag survives MoP → Cataclysm, and is dropped below Cataclysm (non-vacuity of the thresholds) -/
example : groupFlagsTo 3 0x2C001 = 0x2C001 ∧ groupFlagsTo 2 0x2C001 = 1 ∧ groupFlagsTo 5 0x10000 = 0 ∧ groupFlagsTo 6 0x10000 = 0x10000 := by decide

end Wv.Wmo
