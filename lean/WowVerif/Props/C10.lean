import WowVerif.Model.C10Integrity
/-!
C10 — Corruption of protected data is detected; intact data always verifies.

Theorems about the executable definitions in `Model/C10Integrity.lean` (which the correspondence check runs against
adler2 / crc32fast and against the library's signature digest):

* `adler32_detects_single_byte`, `crc32_detects_single_byte` — changing any one byte of a buffer, at any position, in a
  buffer of any length, changes its ADLER32 resp. CRC32: no single-byte alteration of checksummed data can go unnoticed;
* `readSectors_sound`, `readSectors_detects` — whatever the sectored reader returns matches every stored sector checksum,
  so a raw sector with one altered byte (checksum table intact) fails the read;
* `verifyFile_sound`, `verifyFile_detects_single_byte` — `SFileVerifyFile` accepts only content whose CRC32 (and MD5)
  equal the attributes; one altered byte fails it;
* `maskSig_covers` — the signature digest's input differs whenever two archives differ in a byte outside the signature
  file, so every other byte is covered (collision resistance of MD5 itself is not provable and is assumed);
* `intact_verifies` — unmodified data passes all of these checks.
Multi-byte alterations are covered by the checksum only up to its collision probability; the harness samples them.
-/
namespace Wv.Integ
open Wv

/-! ## ADLER32 -/

def sumB (bs : Bytes) : Nat := (bs.map (·.toNat)).sum

theorem adler_a (bs : Bytes) (a b : Nat) : (bs.foldl adlerStep (a, b)).1 % 65521 = (a + sumB bs) % 65521 := by
  induction bs generalizing a b with
  | nil => simp [sumB]
  | cons x xs ih =>
    simp only [List.foldl_cons, adlerStep]
    rw [ih]
    simp only [sumB, List.map_cons, List.sum_cons]
    omega

theorem adler_a_lt (bs : Bytes) (a b : Nat) (ha : a < 65521) : (bs.foldl adlerStep (a, b)).1 < 65521 := by
  induction bs generalizing a b with
  | nil => exact ha
  | cons x xs ih =>
    simp only [List.foldl_cons, adlerStep]
    exact ih _ _ (Nat.mod_lt _ (by decide))

theorem sumB_append (a b : Bytes) : sumB (a ++ b) = sumB a + sumB b := by
  simp [sumB, List.map_append, List.sum_append]

/-- **Every single-byte change changes the ADLER32.** -/
theorem adler32_detects_single_byte (pre post : Bytes) (x y : UInt8) (h : x ≠ y) :
    adler32 (pre ++ x :: post) ≠ adler32 (pre ++ y :: post) := by
  intro he
  unfold adler32 adlerState at he
  have lx := adler_a_lt (pre ++ x :: post) 1 0 (by decide)
  have ly := adler_a_lt (pre ++ y :: post) 1 0 (by decide)
  have ax := adler_a (pre ++ x :: post) 1 0
  have ay := adler_a (pre ++ y :: post) 1 0
  rw [sumB_append] at ax ay
  have sx : sumB (x :: post) = x.toNat + sumB post := by simp [sumB]
  have sy : sumB (y :: post) = y.toNat + sumB post := by simp [sumB]
  rw [sx] at ax; rw [sy] at ay
  have hx := x.toNat_lt
  have hy := y.toNat_lt
  have hne : x.toNat ≠ y.toNat := fun e => h (UInt8.toNat_inj.mp e)
  generalize (List.foldl adlerStep (1, 0) (pre ++ x :: post)) = sx' at *
  generalize (List.foldl adlerStep (1, 0) (pre ++ y :: post)) = sy' at *
  omega

/-! ## the sectored reader -/

/-- whatever the reader returns is the concatenation of sectors that each match their stored checksum -/
theorem readSectors_sound (ds : List Bytes) (cs : List Nat) (out : Bytes) (h : readSectors ds cs = some out) :
    out = ds.flatten ∧ ds.length ≤ cs.length ∧ ∀ i (hi : i < ds.length), cs[i]? = some (adler32 ds[i]) := by
  induction ds generalizing cs out with
  | nil => simp [readSectors] at h; subst h; exact ⟨rfl, Nat.zero_le _, fun i hi => absurd hi (Nat.not_lt_zero _)⟩
  | cons d ds ih =>
    cases cs with
    | nil => simp [readSectors] at h
    | cons c cs =>
      simp only [readSectors] at h
      split at h
      · rename_i hc
        cases hr : readSectors ds cs with
        | none => simp [hr] at h
        | some r =>
          simp only [hr, Option.map_some] at h
          cases h
          obtain ⟨h1, h2, h3⟩ := ih cs r hr
          refine ⟨by simp [h1], by simp; omega, ?_⟩
          intro i hi
          cases i with
          | zero => simp [hc]
          | succ i => simpa using h3 i (by simpa using hi)
      · cases h

/-- intact sectors with their own checksums are accepted and returned unchanged -/
theorem readSectors_intact (ds : List Bytes) : readSectors ds (ds.map adler32) = some ds.flatten := by
  induction ds with
  | nil => rfl
  | cons d ds ih => simp [readSectors, ih]

/-- **A raw sector with one altered byte fails the read** (checksum table as written for the original sectors) -/
theorem readSectors_detects (before after : List Bytes) (pre post : Bytes) (x y : UInt8) (h : x ≠ y) :
    readSectors (before ++ (pre ++ y :: post) :: after) ((before ++ (pre ++ x :: post) :: after).map adler32) = none := by
  induction before with
  | nil =>
    simp only [List.nil_append, List.map_cons, readSectors]
    rw [if_neg (adler32_detects_single_byte pre post y x (Ne.symm h))]
  | cons b bs ih =>
    simp only [List.cons_append, List.map_cons, readSectors, if_true]
    rw [ih]; rfl

/-! ## CRC32 -/

theorem crcTable_length : crcTable.length = 256 := by simp [crcTable]

theorem crcTableA_get (i : Nat) (hi : i < 256) : crcTableA.getD i 0 = crcEntry i := by
  unfold crcTableA crcTable
  simp [Array.getD, hi]

/-- table facts, checked by evaluation over all 256 entries -/
theorem crc_top_bytes_distinct : ((List.range 256).map fun i => crcEntry i / 2 ^ 24).Nodup := by decide +kernel
theorem crc_entries_lt : ∀ i ∈ List.range 256, crcEntry i < 2 ^ 32 := by decide +kernel

theorem crcEntry_lt (i : Nat) (hi : i < 256) : crcEntry i < 2 ^ 32 := crc_entries_lt i (by simpa using hi)

theorem crc_top_inj (i j : Nat) (hi : i < 256) (hj : j < 256) (h : crcEntry i / 2 ^ 24 = crcEntry j / 2 ^ 24) : i = j := by
  have hn := crc_top_bytes_distinct
  have li : i < ((List.range 256).map fun i => crcEntry i / 2 ^ 24).length := by simpa using hi
  have lj : j < ((List.range 256).map fun i => crcEntry i / 2 ^ 24).length := by simpa using hj
  exact (List.getElem_inj (h₀ := li) (h₁ := lj) hn).mp (by simpa using h)

theorem xor_top (t h : Nat) (hh : h < 2 ^ 24) : Nat.xor t h / 2 ^ 24 = t / 2 ^ 24 := by
  have e : Nat.xor t h = t ^^^ h := rfl
  rw [e, ← Nat.shiftRight_eq_div_pow, Nat.shiftRight_xor_distrib, Nat.shiftRight_eq_div_pow, Nat.shiftRight_eq_div_pow,
    Nat.div_eq_of_lt hh, Nat.xor_zero]

theorem xor_low (c x : Nat) (hx : x < 256) : Nat.xor c x % 256 = Nat.xor (c % 256) x := by
  have e : Nat.xor c x = c ^^^ x := rfl
  have e2 : Nat.xor (c % 256) x = (c % 256) ^^^ x := rfl
  rw [e, e2]
  have : (256 : Nat) = 2 ^ 8 := by decide
  rw [this, Nat.xor_mod_two_pow, Nat.mod_eq_of_lt (by omega : x < 2 ^ 8)]

theorem xor_cancel_right (a b c : Nat) (h : Nat.xor a c = Nat.xor b c) : a = b := by
  have e1 : Nat.xor a c = a ^^^ c := rfl
  have e2 : Nat.xor b c = b ^^^ c := rfl
  rw [e1, e2] at h
  have := congrArg (· ^^^ c) h
  simp only [Nat.xor_assoc, Nat.xor_self, Nat.xor_zero] at this
  exact this

theorem xor_cancel_left (a b c : Nat) (h : Nat.xor c a = Nat.xor c b) : a = b := by
  have e1 : Nat.xor c a = c ^^^ a := rfl
  have e2 : Nat.xor c b = c ^^^ b := rfl
  rw [e1, e2, Nat.xor_comm c a, Nat.xor_comm c b] at h
  have := congrArg (· ^^^ c) h
  simp only [Nat.xor_assoc, Nat.xor_self, Nat.xor_zero] at this
  exact this

theorem idx_lt (c : Nat) (x : UInt8) : Nat.xor c x.toNat % 256 < 256 := Nat.mod_lt _ (by decide)

theorem crcStep_lt (c : Nat) (x : UInt8) (hc : c < 2 ^ 32) : crcStep c x < 2 ^ 32 := by
  unfold crcStep
  rw [crcTableA_get _ (idx_lt c x)]
  have e : Nat.xor (crcEntry (Nat.xor c x.toNat % 256)) (c / 256) = crcEntry (Nat.xor c x.toNat % 256) ^^^ (c / 256) := rfl
  rw [e]
  exact Nat.xor_lt_two_pow (crcEntry_lt _ (idx_lt c x)) (by omega)

/-- one CRC step is injective in the register -/
theorem crcStep_inj (c c' : Nat) (x : UInt8) (hc : c < 2 ^ 32) (hc' : c' < 2 ^ 32) (h : crcStep c x = crcStep c' x) : c = c' := by
  unfold crcStep at h
  rw [crcTableA_get _ (idx_lt c x), crcTableA_get _ (idx_lt c' x)] at h
  have hh : c / 256 < 2 ^ 24 := by omega
  have hh' : c' / 256 < 2 ^ 24 := by omega
  have ht := congrArg (· / 2 ^ 24) h
  simp only [xor_top _ _ hh, xor_top _ _ hh'] at ht
  have hi := crc_top_inj _ _ (idx_lt c x) (idx_lt c' x) ht
  rw [hi] at h
  have hhi : c / 256 = c' / 256 := xor_cancel_left _ _ _ h
  rw [xor_low c _ x.toNat_lt, xor_low c' _ x.toNat_lt] at hi
  have hlo : c % 256 = c' % 256 := xor_cancel_right _ _ _ hi
  omega

theorem crcState_lt (bs : Bytes) (c : Nat) (hc : c < 2 ^ 32) : bs.foldl crcStep c < 2 ^ 32 := by
  induction bs generalizing c with
  | nil => exact hc
  | cons x xs ih => exact ih _ (crcStep_lt c x hc)

theorem crc_fold_inj (bs : Bytes) (c c' : Nat) (hc : c < 2 ^ 32) (hc' : c' < 2 ^ 32) (h : bs.foldl crcStep c = bs.foldl crcStep c') : c = c' := by
  induction bs generalizing c c' with
  | nil => exact h
  | cons x xs ih =>
    simp only [List.foldl_cons] at h
    exact crcStep_inj c c' x hc hc' (ih _ _ (crcStep_lt c x hc) (crcStep_lt c' x hc') h)

theorem crcStep_byte_inj (c : Nat) (x y : UInt8) (h : crcStep c x = crcStep c y) : x = y := by
  unfold crcStep at h
  rw [crcTableA_get _ (idx_lt c x), crcTableA_get _ (idx_lt c y)] at h
  have ht := xor_cancel_right _ _ _ h
  have hi : Nat.xor c x.toNat % 256 = Nat.xor c y.toNat % 256 := by
    apply crc_top_inj _ _ (idx_lt c x) (idx_lt c y)
    rw [ht]
  rw [xor_low c _ x.toNat_lt, xor_low c _ y.toNat_lt] at hi
  exact UInt8.toNat_inj.mp (xor_cancel_left _ _ _ hi)

/-- **Every single-byte change changes the CRC32.** -/
theorem crc32_detects_single_byte (pre post : Bytes) (x y : UInt8) (h : x ≠ y) :
    crc32 (pre ++ x :: post) ≠ crc32 (pre ++ y :: post) := by
  intro he
  unfold crc32 crcState at he
  have he' := xor_cancel_right _ _ _ he
  simp only [List.foldl_append, List.foldl_cons] at he'
  have hpre := crcState_lt pre 0xFFFFFFFF (by decide)
  have := crc_fold_inj post _ _ (crcStep_lt _ x hpre) (crcStep_lt _ y hpre) he'
  exact h (crcStep_byte_inj _ x y this)

/-! ## `SFileVerifyFile` -/

theorem verifyFile_sound (md5 : Bytes → Bytes) (data : Bytes) (crc : Nat) (digest : Bytes)
    (h : verifyFile md5 data (some crc) (some digest) = true) : crc32 data = crc ∧ md5 data = digest := by
  simpa [verifyFile] using h

/-- a file with one altered byte fails verification against the attributes written for the original -/
theorem verifyFile_detects_single_byte (md5 : Bytes → Bytes) (pre post : Bytes) (x y : UInt8) (h : x ≠ y) (digest : Option Bytes) :
    verifyFile md5 (pre ++ y :: post) (some (crc32 (pre ++ x :: post))) digest = false := by
  have := crc32_detects_single_byte pre post y x (Ne.symm h)
  simp [verifyFile, this]

/-- unmodified data passes every check -/
theorem intact_verifies (md5 : Bytes → Bytes) (data : Bytes) (ds : List Bytes) :
    verifyFile md5 data (some (crc32 data)) (some (md5 data)) = true ∧ readSectors ds (ds.map adler32) = some ds.flatten := by
  refine ⟨?_, readSectors_intact ds⟩
  unfold verifyFile
  simp

/-! ## signature coverage -/

theorem maskSig_length (bs : Bytes) (pos len : Nat) : (maskSig bs pos len).length = bs.length := by
  unfold maskSig
  simp only [List.length_append, List.length_take, List.length_replicate, List.length_drop]
  omega

/-- **Every byte outside the signature file reaches the digest**: two archives of equal length that differ at an index
    outside `[pos, pos+len)` have different digest inputs. -/
theorem maskSig_covers (a b : Bytes) (pos len i : Nat) (hl : a.length = b.length) (hi : i < a.length)
    (hout : i < pos ∨ pos + len ≤ i) (hd : a[i]? ≠ b[i]?) : maskSig a pos len ≠ maskSig b pos len := by
  intro he
  apply hd
  have hg : (maskSig a pos len)[i]? = (maskSig b pos len)[i]? := by rw [he]
  unfold maskSig at hg
  cases hout with
  | inl hlt =>
    have la : i < (a.take pos).length := by simp; omega
    have lb : i < (b.take pos).length := by simp; omega
    rw [List.append_assoc, List.append_assoc, List.getElem?_append_left la, List.getElem?_append_left lb] at hg
    rw [List.getElem?_take_of_lt hlt, List.getElem?_take_of_lt hlt] at hg
    exact hg
  | inr hge =>
    have la : (a.take pos ++ List.replicate ((a.drop pos).take len).length 0).length = pos + len := by
      simp only [List.length_append, List.length_take, List.length_replicate, List.length_drop]; omega
    have lb : (b.take pos ++ List.replicate ((b.drop pos).take len).length 0).length = pos + len := by
      simp only [List.length_append, List.length_take, List.length_replicate, List.length_drop]; omega
    rw [List.getElem?_append_right (by omega), List.getElem?_append_right (by omega), la, lb] at hg
    rw [List.getElem?_drop, List.getElem?_drop] at hg
    have : pos + len + (i - (pos + len)) = i := by omega
    rw [this] at hg
    exact hg

/-! ## non-vacuity -/
example : adler32 [87, 105, 107, 105, 112, 101, 100, 105, 97] = 0x11E60398 := by decide
example : crc32 [49, 50, 51, 52, 53, 54, 55, 56, 57] = 0xCBF43926 := by decide +kernel
example : readSectors [[1, 2], [3]] [adler32 [1, 2], adler32 [3]] = some [1, 2, 3] := by decide
example : maskSig [1, 2, 3, 4, 5] 1 2 = [1, 0, 0, 4, 5] := by decide

end Wv.Integ
