import WowVerif.Model.C14Adt
import WowVerif.Lemmas.Iff
import WowVerif.Lemmas.C14Water
/-!
C14 — ADT: in every produced file the chunk framing tiles the file exactly and every offset-table entry points at a
chunk of the named type.

The serializer's derived data is modelled as functions of the chunk layout (`mhdrOf`, `mcinOf`, `mcnkOf`); the
correspondence check recomputes them from the layout of every file the implementation writes and compares with the
bytes in the file. The theorems say what those functions guarantee, for every list of chunks of any sizes:
* `framing_tiles` — walking the written bytes yields exactly the chunks, with nothing left over;
* `pos_points_at_chunk` — every position computed by `posOf` is the file offset of the header of a chunk with that
  name and payload length;
* `mhdr_entry_points_at_named`, `mcin_entry_points_at_mcnk`, `mcnk_offset_points_at_named` — hence every MHDR offset,
  MCIN entry and MCNK header offset points at a chunk of the named type (or is zero when there is none).
Content equality across build→parse→rebuild rounds is the oracle's part (it needs the parsers), not a theorem.
-/
namespace Wv.Adt
open Wv Wv.Iff

/-- layout of a chunk list under a naming of magics -/
def layOf (name : Chunk → String) (cs : List Chunk) : Layout := cs.map fun c => (name c, c.data.length)

/-- **Framing tiles the file**: a chunk walk over the written bytes returns exactly the chunks written, and ends cleanly -/
theorem framing_tiles (cs : List Chunk) (h : ∀ c ∈ cs, WF c) : walkAll (serialize cs) = .done cs := walk_serialize cs h

theorem serialize_cons (c : Chunk) (cs : List Chunk) : serialize (c :: cs) = encode c ++ serialize cs := by
  simp [serialize]

/-- **Positions are chunk headers**: with `pfx` (of length `start`) written before the chunks, every entry of `posOf`
    is the offset at which a chunk of that name and payload length begins -/
theorem pos_points_at_chunk (name : Chunk → String) (cs : List Chunk) (h : ∀ c ∈ cs, WF c) (start : Nat) (pfx : Bytes)
    (hp : pfx.length = start) :
    ∀ t ∈ posOf start (layOf name cs), ∃ c ∈ cs, t.1 = name c ∧ t.2.2 = c.data.length ∧
      ∃ rest, (pfx ++ serialize cs).drop t.2.1 = encode c ++ rest := by
  induction cs generalizing start pfx with
  | nil => intro t ht; simp [layOf, posOf] at ht
  | cons c cs ih =>
    intro t ht
    simp only [layOf, List.map_cons, posOf, List.mem_cons] at ht
    cases ht with
    | inl ht =>
      subst ht
      refine ⟨c, by simp, rfl, rfl, serialize cs, ?_⟩
      simp only [serialize_cons]
      rw [List.drop_left' hp]
    | inr ht =>
      have hl : (pfx ++ encode c).length = start + 8 + c.data.length := by
        rw [List.length_append, encode_length c (h c (by simp)), hp]; omega
      obtain ⟨c', hc', h1, h2, rest, hr⟩ := ih (fun x hx => h x (by simp [hx])) (start + 8 + c.data.length) (pfx ++ encode c) hl t ht
      refine ⟨c', by simp [hc'], h1, h2, rest, ?_⟩
      rw [serialize_cons, ← List.append_assoc]
      exact hr

theorem firstOf_mem (id : String) (ps : List (String × Nat × Nat)) (p n : Nat) (h : firstOf id ps = some (p, n)) :
    (id, p, n) ∈ ps := by
  unfold firstOf at h
  cases hf : ps.find? (·.1 == id) with
  | none => simp [hf] at h
  | some t =>
    simp only [hf, Option.map_some, Option.some.injEq] at h
    have hm := List.mem_of_find?_eq_some hf
    have hid := List.find?_some hf
    simp only [beq_iff_eq] at hid
    have : t = (id, p, n) := by
      cases t with
      | mk a b => simp only at hid h; subst hid; rw [h]
    rw [← this]; exact hm

/-- **Every MHDR offset points at a chunk of the named type.** If the layout has a chunk named `id`, the position the
    MHDR field is computed from is the offset of a chunk header with that name; the stored field is that position
    relative to the MHDR payload (offset 20). -/
theorem mhdr_entry_points_at_named (name : Chunk → String) (cs : List Chunk) (h : ∀ c ∈ cs, WF c) (id : String) (p n : Nat)
    (hf : firstOf id (posOf 0 (layOf name cs)) = some (p, n)) :
    ∃ c ∈ cs, name c = id ∧ c.data.length = n ∧ ∃ rest, (serialize cs).drop p = encode c ++ rest := by
  have hm := firstOf_mem id _ p n hf
  obtain ⟨c, hc, h1, h2, rest, hr⟩ := pos_points_at_chunk name cs h 0 [] rfl (id, p, n) hm
  exact ⟨c, hc, h1.symm, h2.symm, rest, by simpa using hr⟩

/-- **Every MCIN entry points at an MCNK chunk of the recorded size** (entries beyond the chunks present are zero) -/
theorem mcin_entry_points_at_mcnk (name : Chunk → String) (cs : List Chunk) (h : ∀ c ∈ cs, WF c) :
    ∀ e ∈ ((posOf 0 (layOf name cs)).filter (·.1 == "MCNK")).map (·.2),
      ∃ c ∈ cs, name c = "MCNK" ∧ c.data.length = e.2 ∧ ∃ rest, (serialize cs).drop e.1 = encode c ++ rest := by
  intro e he
  rw [List.mem_map] at he
  obtain ⟨t, ht, rfl⟩ := he
  rw [List.mem_filter] at ht
  obtain ⟨c, hc, h1, h2, rest, hr⟩ := pos_points_at_chunk name cs h 0 [] rfl t ht.1
  have hid : t.1 = "MCNK" := by simpa using ht.2
  exact ⟨c, hc, by rw [← h1, hid], h2.symm, rest, by simpa using hr⟩

theorem mcin_length (l : Layout) (h : ((posOf 0 l).filter (·.1 == "MCNK")).length ≤ 256) : (mcinOf l).length = 256 := by
  unfold mcinOf
  simp only [List.length_append, List.length_map, List.length_replicate]
  omega

/-- **Every MCNK header offset points at a sub-chunk of the named type**: `hdr` is the 8-byte chunk header plus the
    136-byte MCNK header written before the sub-chunks -/
theorem mcnk_offset_points_at_named (name : Chunk → String) (subs : List Chunk) (h : ∀ c ∈ subs, WF c) (hdr : Bytes)
    (hh : hdr.length = subStart) (id : String) (p n : Nat) (hf : firstOf id (posOf subStart (layOf name subs)) = some (p, n)) :
    ∃ c ∈ subs, name c = id ∧ c.data.length = n ∧ ∃ rest, (hdr ++ serialize subs).drop p = encode c ++ rest := by
  have hm := firstOf_mem id _ p n hf
  obtain ⟨c, hc, h1, h2, rest, hr⟩ := pos_points_at_chunk name subs h subStart hdr hh (id, p, n) hm
  exact ⟨c, hc, h1.symm, h2.symm, rest, hr⟩

/-! ## non-vacuity -/
example : mhdrOf [("MVER", 4), ("MHDR", 64), ("MCIN", 4096), ("MTEX", 10), ("MH2O", 3)] =
    [2, 64, 4168, 0, 0, 0, 0, 0, 0, 0, 4186, 0, 0, 0, 0, 0] := by decide
example : (mcinOf [("MVER", 4), ("MCNK", 100), ("MCNK", 50)]).take 3 = [(12, 100), (120, 50), (0, 0)] := by decide
example : (mcnkOf [("MCVT", 580), ("MCNR", 448), ("MCLY", 32), ("MCCV", 580)]).ofsLayer = 1188 := by decide

/-! ### the water chunk (Model.C14Water = write_mh2o_chunk's offset bookkeeping) -/

/-- WATER OFFSETS POINT AT THEIR DATA, NOTHING OVERLAPS: for any 256 (or fewer) entries with any number of layers, any mix of
    exists bitmaps, vertex data of any size and attributes, the regions named by the offsets the writer records — the
    instance block of every entry, every bitmap, every vertex block, every attribute block — follow one another without
    gap or overlap from the end of the header table (3072) to the end of the chunk payload; one header per entry; and
    consequently they are pairwise disjoint and inside the payload. -/
theorem water_offsets_tile (es : List Water.Entry) :
    Water.Tiles 3072 (Water.allRegions es (Water.layout es).1) (Water.layout es).2 ∧
    (Water.layout es).1.length = es.length ∧
    (Water.allRegions es (Water.layout es).1).Pairwise (fun a b => a.1 + a.2 ≤ b.1) ∧
    (∀ r ∈ Water.allRegions es (Water.layout es).1, 3072 ≤ r.1 ∧ r.1 + r.2 ≤ (Water.layout es).2) := by
  have h := Water.all_tile es 3072
  have s := Water.tiles_sorted _ _ _ h.1
  exact ⟨h.1, h.2, s.1, s.2⟩

/-- what is recorded for one entry: the instance offset is where the entry starts (0 for an entry without layers), the
    layer count is the number of layers, and an absent bitmap / vertex block / attribute block is recorded as 0 -/
theorem water_entry_fields (pos : Nat) (e : Water.Entry) :
    (Water.layEntry pos e).1.count = e.layers.length ∧
    (Water.layEntry pos e).1.inst = (if e.layers.length = 0 then 0 else pos) ∧
    (e.attrs = false → (Water.layEntry pos e).1.attr = 0) := by
  refine ⟨rfl, rfl, fun h => ?_⟩
  simp [Water.layEntry, h]

/-- THE WATER CHUNK'S SIZE is the header table plus exactly the bytes of what the entries hold (24 per layer, 8 per bitmap, the
    vertex data, 16 per attribute block): a function of the content alone, so serialising the same content again cannot grow it -/
theorem water_size_is_content (es : Water.Entry |> List) :
    (Water.layout es).2 = 3072 + (es.map Water.entryBytes).sum := Water.layAll_end es 3072

/-! non-vacuity: two layers (bitmap only; bitmap + 648 bytes of vertex data) with attributes, then an attribute-only entry -/
example : Water.layout [⟨[⟨true, none⟩, ⟨true, some 648⟩], true⟩, ⟨[], true⟩] =
    ([⟨3072, 2, 3784, [(3120, 0), (3128, 3136)]⟩, ⟨0, 0, 3800, []⟩], 3816) := by decide

end Wv.Adt
