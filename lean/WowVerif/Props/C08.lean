/-
  Props.C08 — "Patch-chain lookup returns the highest-priority version whatever the history".
-/
import WowVerif.Lemmas.C08
import WowVerif.Lemmas.C08Read
namespace Wv.C08
open Wv Wv.Chain

/-- INVARIANT over every history of add / remove / set-priority / clear: the chain is ordered by
    (priority descending, insertion order ascending among equals) and stamps are fresh -/
theorem chain_sorted (ops : List Op) : CInv (run ops) := Chain.chain_sorted ops

/-- READ: the entry a lookup selects contains the name, and every other entry containing the name comes after it
    in (priority, insertion) order — highest priority wins, earliest added wins ties. `has id name` is the
    archive's listing (what rebuild_file_map consults). -/
theorem read_is_best (has : Nat → Nat → Bool) (ops : List Op) (name : Nat) (e : Entry)
    (hl : lookup has (run ops) name = some e) :
    e ∈ (run ops).entries ∧ has e.id name = true ∧
      ∀ e' ∈ (run ops).entries, has e'.id name = true → e' = e ∨ Before e e' :=
  Chain.read_is_best has (run ops) (Chain.chain_sorted ops) name e hl

/-- NOT FOUND: a name in no archive is not found, and conversely -/
theorem notfound_iff (has : Nat → Nat → Bool) (c : Chain) (name : Nat) :
    lookup has c name = none ↔ ∀ e ∈ c.entries, has e.id name = false := Chain.lookup_none_iff has c name

/-- parallel construction yields a priority-ordered chain -/
theorem parallel_sorted (l : List (Nat × Int)) :
    (fromParallel l).entries.Pairwise (fun a b => a.prio ≥ b.prio) := Chain.fromParallel_sorted l

/-- PATCHES: a returned result matches the digest the patch declares for the base and for the result, and has the
    declared size — never unverified bytes. `md5` is any function (the theorem does not depend on MD5's properties). -/
theorem patch_result_verified (md5 : Bytes → Bytes) (p : Patch) (base out : Bytes)
    (h : applyPatch md5 p base = .ok out) :
    md5 base = p.md5Before ∧ md5 out = p.md5After ∧ out.length = p.sizeAfter ∧ base.length = p.sizeBefore :=
  ⟨(Chain.applyPatch_verified md5 p base out h).1, (Chain.applyPatch_verified md5 p base out h).2,
   (Chain.applyPatch_size md5 p base out h).1, (Chain.applyPatch_size md5 p base out h).2⟩

/-- the RLE stage always yields exactly the declared number of bytes -/
theorem rle_length (c : Bytes) (size : Nat) (skip : Bool) (out : Bytes) (h : rleDecompress c size skip = some out) :
    out.length = size := Chain.rle_length c size skip out h

/-- whatever a patch header declares, the RLE stage yields at most 128 bytes per byte of patch data … -/
theorem rle_output_bounded (c : Bytes) (size : Nat) (skip : Bool) (out : Bytes)
    (h : rleDecompress c size skip = some out) : out.length ≤ 128 * c.length := Chain.rle_output_bounded c size skip out h

/-- … and so does a whole BSD0 patch: the patched file is never longer than 128 bytes per byte of patch data -/
theorem bsd0_output_bounded (p : Patch) (base out : Bytes) (h : applyBsd0 p base = some out) :
    out.length ≤ 128 * p.data.length := Chain.bsd0_output_bounded p base out h

/-! ### the file map, the listing and reads through patch entries (Model.C08Read) -/

/-- FILE MAP = FIRST MATCH: the hash map that rebuild_file_map fills archive by archive (`or_insert`) answers, for every
    key and every list of listings, with the first archive in chain order that lists the key — the map IS `lookup` -/
theorem filemap_is_first_match (lists : List (List Nat)) (k : Nat) :
    mapGet (rebuildMap lists) k = lists.findIdx? (·.contains k) := Chain.rebuildMap_get lists k

/-- LISTING = UNION of the archives' names, each once, ascending -/
theorem listing_is_union (lists : List (List Nat)) :
    (∀ n, n ∈ listing lists ↔ ∃ l ∈ lists, n ∈ l) ∧ (listing lists).Nodup ∧ (listing lists).Pairwise (· ≤ ·) :=
  ⟨Chain.listing_mem lists, Chain.listing_nodup lists, Chain.listing_sorted lists⟩

/-- LISTED = FOUND: a name appears in the chain's listing exactly when the file map resolves it (contains_file / read_file find
    it) — "a name in no archive is not found", and nothing is listed that cannot be looked up -/
theorem listed_iff_found (lists : List (List Nat)) (n : Nat) :
    n ∈ listing lists ↔ (mapGet (rebuildMap lists) n).isSome = true := by
  rw [Chain.listing_mem, Chain.rebuildMap_get, List.findIdx?_isSome, List.any_eq_true]
  constructor
  · rintro ⟨l, hl, hn⟩; exact ⟨l, hl, by simpa using hn⟩
  · rintro ⟨l, hl, hn⟩; exact ⟨l, hl, by simpa using hn⟩

/-- READ OF AN ORDINARY ENTRY: when the archive the file map selects holds the name as a plain file, the read returns exactly
    that archive's content (and a name the map does not hold is not found) -/
theorem plain_read_is_winners_content (md5 : Bytes → Bytes) (vers : List Ver) (i : Nat) (d : Bytes)
    (h : vers[i]? = some (.plain (some d))) :
    readFile md5 vers (some i) = .ok d ∧ readFile md5 vers none = .error .notFound := by
  constructor
  · simp [readFile, h]
  · rfl

/-- READ THROUGH A PATCH ENTRY: whatever `read_patched_file` returns is either the base itself (no archive holds a patch
    version of the name) or matches the digest and size declared by the HIGHEST-PRIORITY patch version; every archive's
    patch version was read and parsed (none skipped), for any digest function -/
theorem patched_read_verified (md5 : Bytes → Bytes) (vers : List Ver) (out : Bytes)
    (h : readPatched md5 vers = .ok out) :
    ∃ ps b, patchesOf vers = some ps ∧ baseOf vers = some b ∧
      (match ps with
       | [] => out = b
       | p :: _ => md5 out = p.md5After ∧ out.length = p.sizeAfter) ∧
      ∀ v ∈ vers, ∀ p, v = .patch p → ∃ q, p = some q ∧ q ∈ ps := by
  obtain ⟨ps, b, h1, h2, h3⟩ := Chain.readPatched_verified md5 vers out h
  exact ⟨ps, b, h1, h2, h3, Chain.patchesOf_mem vers ps h1⟩

/-- a patch version that cannot be read or parsed makes the read an error — never the base, never lower patches only -/
theorem unreadable_patch_is_error (md5 : Bytes → Bytes) (vers : List Ver) (h : Ver.patch none ∈ vers) :
    ∃ e, readPatched md5 vers = .error e := by
  cases hr : readPatched md5 vers with
  | error e => exact ⟨e, rfl⟩
  | ok out =>
    obtain ⟨ps, _, h1, _, _, hall⟩ := patched_read_verified md5 vers out hr
    obtain ⟨q, hq, _⟩ := hall _ h none rfl
    cases hq

/-! non-vacuity: three archives; a base under a COPY patch (identity digest function, 2-byte file) -/
example : mapGet (rebuildMap [[1, 2], [2, 3], [3, 4]]) 3 = some 1 := by decide
example : listGo [] [[3, 1], [2, 3], [4, 1]].flatten = [3, 1, 2, 4] := by decide
example : (match readPatched (fun b => b) [.patch (some ⟨0, 2, 2, [1, 2], [7, 8], true, [7, 8]⟩), .absent, .plain (some [1, 2])] with
    | .ok o => o == [7, 8] | .error _ => false) = true := by decide

/-! non-vacuity: a history with ties and a re-prioritisation; the winner of a lookup -/
example : ((run [.add 0 0, .add 1 5, .add 2 5, .setPriority 1 5, .add 3 (-1)]).entries.map (·.id)) = [2, 1, 0, 3] := by decide
example : (lookup (fun id _ => id != 2) (run [.add 0 0, .add 1 5, .add 2 5]) 7).map (·.id) = some 1 := by decide

end Wv.C08
