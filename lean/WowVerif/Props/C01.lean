/-
  Props.C01 — "MPQ build→open round-trip returns every file bit-identically".
  Carrier theorems, one per mechanism in the property's anchor list, about Model.Mpq (the MPQ reader/writer
  model that the harness ties to the Rust builder and reader in both directions).  The composition
  "read (open (build files)) = files" over whole archives is NOT proved as one statement (see DESIGN.md): it is
  established per run by the two-way correspondence.  Third-party codecs are a table.
-/
import WowVerif.Lemmas.C01
namespace Wv.C01
open Wv Wv.Mpq

/-- INSERTION PROBING MIRRORS LOOKUP PROBING (builder.rs:add_to_hash_table ↔ tables/hash.rs:find_file) -/
theorem probe_mirror (ht : List (List Nat)) (a b blk : Nat) (seq : List Nat)
    (hwf : ∀ r ∈ ht, r.length = 4) (hseq : ∀ i ∈ seq, i < ht.length) (hnd : seq.Nodup)
    (hblk : blk ≠ 0xFFFFFFFF ∧ blk ≠ 0xFFFFFFFE)
    (hfresh : ∀ i ∈ seq, ∀ n1 n2 l bb, ht[i]? = some [n1, n2, l, bb] → bb ≠ 0xFFFFFFFF → bb ≠ 0xFFFFFFFE → ¬ (n1 = a ∧ n2 = b))
    (hfree : ∃ i ∈ seq, slotFree ht i = true) :
    findIn (insertIn ht [a, b, 0, blk] seq) a b seq = some blk :=
  Mpq.findIn_insertIn ht a b blk seq hwf hseq hnd hblk hfresh hfree

/-- NAME HASHING FOLDS CASE AND SLASHES: every spelling of a name finds the same block and derives the same key -/
theorem spelling_invariant (ht : List (List Nat)) (b : BlockE) (s₁ s₂ : Bytes) (h : s₁.map Model.fold = s₂.map Model.fold) :
    findBlock ht s₁ = findBlock ht s₂ ∧ fileKey codeConv s₁ b = fileKey codeConv s₂ b :=
  ⟨Mpq.findBlock_spelling ht s₁ s₂ h, Mpq.fileKey_spelling b s₁ s₂ h⟩

/-- ENCRYPTION inverts under both tail conventions, for every key and length -/
theorem crypt_roundtrip (c : Conv) (d : Bytes) (k : W32) : decBytes c (encBytes c d k) k = d := Mpq.decBytes_encBytes c d k

/-- SECTOR SPLITTING: the sectors concatenate back to the file and none exceeds the sector size -/
theorem sectors_partition (ssz : Nat) (hs : 0 < ssz) (d : Bytes) :
    (sectorsOf ssz (d.length + 1) d).flatten = d ∧ ∀ s ∈ sectorsOf ssz (d.length + 1) d, s.length ≤ ssz :=
  ⟨Mpq.sectorsOf_flatten ssz hs _ d (by omega), Mpq.sectorsOf_le ssz _ d⟩

/-- STORE-RAW RULE READ BACK FROM SIZES: a raw unit is returned unchanged … -/
theorem unit_raw (c : Conv) (codec : Codec) (plain : Bytes) (flag : Bool) :
    decodeUnit c codec plain plain.length flag = .ok plain := Mpq.decodeUnit_raw c codec plain flag
/-- … and a strictly shorter stored unit is decoded through the codec (when the ratio heuristics admit it) -/
theorem unit_compressed (c : Conv) (codec : Codec) (stored plain : Bytes)
    (hshort : stored.length < plain.length) (hcodec : codec.find? (·.1 == stored) = some (stored, plain))
    (hratio : c.ratioLimits = false ∨ (Wv.Codec.preCheck (stored.length - 1) plain.length ((stored.headD 0).toNat) 0).isOk = true) :
    decodeUnit c codec stored plain.length true = .ok plain := Mpq.decodeUnit_compressed c codec stored plain hshort hcodec hratio

/-- TABLE ENCRYPTION: the stored hash/block table decrypts to the rows that were written -/
theorem table_roundtrip (rows : List (List Nat)) (key : W32) :
    Model.decryptBlock (toWords (encodeTable rows key)).1 key = rows.flatMap fun r => r.map (BitVec.ofNat 32) :=
  Mpq.encodeTable_decode rows key

/-! non-vacuity: a 4-slot table with a collision chain -/
example : findIn (insertIn (insertIn (List.replicate 4 emptyHash) [1, 2, 0, 0] [3, 0, 1, 2]) [5, 6, 0, 1] [3, 0, 1, 2]) 5 6 [3, 0, 1, 2] = some 1 := by decide

end Wv.C01
