/-
  Props.C01 — "MPQ build→open round-trip returns every file bit-identically".
  About Model.Mpq (the MPQ reader/writer model that the harness ties to the Rust builder and reader in both
  directions): the WHOLE-ARCHIVE composition `archive_roundtrip` / `archive_roundtrip_spelling` / `archive_absent`
  (classic hash/block tables, header V1/V2, every layout × encryption mode), and below them the carrier theorems,
  one per mechanism in the property's anchor list.  Third-party codecs are a table.
-/
import WowVerif.Lemmas.C01
import WowVerif.Lemmas.C01Whole
import WowVerif.Lemmas.C01Bet
import WowVerif.Lemmas.C01Het
import WowVerif.Lemmas.C01Header
import WowVerif.Lemmas.C01HeaderFacts
namespace Wv.C01
open Wv Wv.Mpq

/-! ## the whole archive -/

/-- BUILD → OPEN → READ: for every file set with pairwise different name-hash pairs that fits the hash table, every
    layout the writer chooses (single unit / plain sectors / sectors behind an offset table), every encryption mode
    (none / name key / position-adjusted key) and every stored form of every unit that the codec table maps back
    (raw, or strictly shorter and admitted by the ratio heuristics), reading the i-th name from the written archive
    returns the i-th content. Header versions V1 and V2; archive below 4 GiB. -/
theorem archive_roundtrip (c : Conv) (codec : Codec) (version shift hashSize : Nat) (files : List FileSpec)
    (hv : version ≤ 1) (hshift : shift < 2 ^ 16)
    (hd : DistinctPairs (files.map (·.name))) (hle : files.length ≤ hashSize) (hhs : hashSize < 0xFFFFFFFE)
    (hok : ∀ f ∈ files, FileOK c codec (512 * 2 ^ shift) f ∧ f.data.length < 2 ^ 32)
    (hsize : (writeArchive c version shift hashSize files).length < 2 ^ 32)
    (i : Nat) (hi : i < files.length) :
    readFile c codec (writeArchive c version shift hashSize files) files[i].name = .ok files[i].data :=
  Mpq.archive_roundtrip c codec version shift hashSize files hv hshift hd hle hhs hok hsize i hi

/-- a lookup depends on the name only through its case- and slash-folded form (the code's conventions) -/
theorem readFile_spelling (codec : Codec) (arch s₁ s₂ : Bytes) (h : s₁.map Model.fold = s₂.map Model.fold) :
    readFile codeConv codec arch s₁ = readFile codeConv codec arch s₂ := by
  unfold readFile
  split
  · rfl
  · split
    · rw [Mpq.findBlock_spelling _ s₁ s₂ h]
      split
      · rfl
      · split
        · unfold readEntry
          simp only [Mpq.fileKey_spelling _ s₁ s₂ h]
        · rfl
    · rfl

/-- … UNDER EVERY SPELLING of its name that differs only in ASCII case or slash direction -/
theorem archive_roundtrip_spelling (codec : Codec) (version shift hashSize : Nat) (files : List FileSpec)
    (hv : version ≤ 1) (hshift : shift < 2 ^ 16)
    (hd : DistinctPairs (files.map (·.name))) (hle : files.length ≤ hashSize) (hhs : hashSize < 0xFFFFFFFE)
    (hok : ∀ f ∈ files, FileOK codeConv codec (512 * 2 ^ shift) f ∧ f.data.length < 2 ^ 32)
    (hsize : (writeArchive codeConv version shift hashSize files).length < 2 ^ 32)
    (i : Nat) (hi : i < files.length) (s : Bytes) (hs : s.map Model.fold = files[i].name.map Model.fold) :
    readFile codeConv codec (writeArchive codeConv version shift hashSize files) s = .ok files[i].data := by
  rw [readFile_spelling codec _ s files[i].name hs]
  exact Mpq.archive_roundtrip codeConv codec version shift hashSize files hv hshift hd hle hhs hok hsize i hi

/-- NEVER ADDED ⇒ NOT FOUND (never another file's content): a name whose (hash A, hash B) pair differs from that of
    every added name is reported as not found -/
theorem archive_absent (c : Conv) (codec : Codec) (version shift hashSize : Nat) (files : List FileSpec)
    (hv : version ≤ 1) (hshift : shift < 2 ^ 16)
    (hd : DistinctPairs (files.map (·.name))) (hle : files.length ≤ hashSize) (hhs : hashSize < 0xFFFFFFFE)
    (hok : ∀ f ∈ files, f.data.length < 2 ^ 32)
    (hsize : (writeArchive c version shift hashSize files).length < 2 ^ 32)
    (name : Bytes) (hname : ∀ f ∈ files, ¬ (pairA f.name = pairA name ∧ pairB f.name = pairB name)) :
    readFile c codec (writeArchive c version shift hashSize files) name = .error "notfound" :=
  Mpq.archive_absent c codec version shift hashSize files hv hshift hd hle hhs hok hsize name hname

/-! non-vacuity of the whole-archive theorems: a concrete encrypted file "a.txt" in a V1 archive with 4 KiB sectors
    meets every hypothesis, and the kernel evaluates the read under another spelling ("A.TXT") to the content -/
def demoFile : FileSpec := ⟨[97, 46, 116, 120, 116], [1, 2, 3, 4, 5, 6, 7], 1, []⟩
example : (writeArchive codeConv 0 3 4 [demoFile]).length < 2 ^ 32 := by decide +kernel
example : FileOK codeConv [] (512 * 2 ^ 3) demoFile where
  enc := by decide
  single := fun _ => Or.inl rfl
  multi := fun h => absurd (by decide) h
example : (readFile codeConv [] (writeArchive codeConv 0 3 4 [demoFile]) [65, 46, 84, 88, 84]).toOption =
    some [1, 2, 3, 4, 5, 6, 7] := by decide +kernel

/-- INSERTION PROBING MIRRORS LOOKUP PROBING (builder.rs:add_to_hash_table ↔ tables/hash.rs:find_file) -/
theorem probe_mirror (ht : List (List Nat)) (a b blk : Nat) (seq : List Nat)
    (hwf : ∀ r ∈ ht, r.length = 4) (hseq : ∀ i ∈ seq, i < ht.length) (hnd : seq.Nodup)
    (hblk : blk ≠ 0xFFFFFFFF ∧ blk ≠ 0xFFFFFFFE)
    (hfresh : ∀ i ∈ seq, ∀ n1 n2 l bb, ht[i]? = some [n1, n2, l, bb] → bb ≠ 0xFFFFFFFF → bb ≠ 0xFFFFFFFE → ¬ (n1 = a ∧ n2 = b))
    (hfree : ∃ i ∈ seq, slotFree ht i = true) :
    findIn (insertIn ht [a, b, 0, blk] seq) a b seq = some blk :=
  Mpq.findIn_insertIn ht a b blk seq hwf hseq hnd hblk hfresh hfree

/-- NAME HASHING FOLDS CASE AND SLASHES: every spelling of a name finds the same block and derives the same key -/
theorem spelling_invariant (ht : List (List Nat)) (b : BlockE) (s₁ s₂ : Bytes) (h : s₁.map Model.fold = s₂.map Model.fold) :
    findBlock ht s₁ = findBlock ht s₂ ∧ fileKey codeConv s₁ b = fileKey codeConv s₂ b :=
  ⟨Mpq.findBlock_spelling ht s₁ s₂ h, Mpq.fileKey_spelling b s₁ s₂ h⟩

/-- ENCRYPTION inverts under both tail conventions, for every key and length -/
theorem crypt_roundtrip (c : Conv) (d : Bytes) (k : W32) : decBytes c (encBytes c d k) k = d := Mpq.decBytes_encBytes c d k

/-- SECTOR SPLITTING: the sectors concatenate back to the file and none exceeds the sector size -/
theorem sectors_partition (ssz : Nat) (hs : 0 < ssz) (d : Bytes) :
    (sectorsOf ssz (d.length + 1) d).flatten = d ∧ ∀ s ∈ sectorsOf ssz (d.length + 1) d, s.length ≤ ssz :=
  ⟨Mpq.sectorsOf_flatten ssz hs _ d (by omega), Mpq.sectorsOf_le ssz _ d⟩

/-- STORE-RAW RULE READ BACK FROM SIZES: a raw unit is returned unchanged … -/
theorem unit_raw (c : Conv) (codec : Codec) (plain : Bytes) (flag : Bool) :
    decodeUnit c codec plain plain.length flag = .ok plain := Mpq.decodeUnit_raw c codec plain flag
/-- … and a strictly shorter stored unit is decoded through the codec (when the ratio heuristics admit it) -/
theorem unit_compressed (c : Conv) (codec : Codec) (stored plain : Bytes)
    (hshort : stored.length < plain.length) (hcodec : codec.find? (·.1 == stored) = some (stored, plain))
    (hratio : c.ratioLimits = false ∨ (Wv.Codec.preCheck (stored.length - 1) plain.length ((stored.headD 0).toNat) 0).isOk = true) :
    decodeUnit c codec stored plain.length true = .ok plain := Mpq.decodeUnit_compressed c codec stored plain hshort hcodec hratio

/-- TABLE ENCRYPTION: the stored hash/block table decrypts to the rows that were written -/
theorem table_roundtrip (rows : List (List Nat)) (key : W32) :
    Model.decryptBlock (toWords (encodeTable rows key)).1 key = rows.flatMap fun r => r.map (BitVec.ofNat 32) :=
  Mpq.encodeTable_decode rows key

/-! ## the extended block table of V3/V4 archives (Model.C01Bet) -/

/-- EXTENDED BLOCK TABLE READS BACK EXACTLY: with the column widths the builder chooses, every row of the bit-packed
    table (position, size, stored size, flag index of one file) is returned unchanged by the reader — for every number
    of rows and every entry width, in particular past the 64 bits a machine word holds (archives over about 1 MB) -/
theorem bet_roundtrip (rows : List Bet.Row) (nflags : Nat) (hn : nflags ≤ 2 ^ 32)
    (h32 : ∀ r ∈ rows, r.pos < 2 ^ 32 ∧ r.size < 2 ^ 32 ∧ r.csize < 2 ^ 32 ∧ r.flag < nflags)
    (i : Nat) (r : Bet.Row) (hi : rows[i]? = some r) :
    Bet.readRow (Bet.layoutOf rows nflags) (Bet.tableBytes (Bet.layoutOf rows nflags) rows) i = some r :=
  Bet.bet_roundtrip rows nflags hn h32 i r hi

/-- … and for ANY column widths up to 57 bits (a table written by another tool) the reader returns each value cut to
    its column width: columns never bleed into each other or into the next row -/
theorem bet_columns_independent (l : Bet.Lay) (hw : l.wPos ≤ 57 ∧ l.wSize ≤ 57 ∧ l.wCsize ≤ 57 ∧ l.wFlag ≤ 57)
    (rows : List Bet.Row) (i : Nat) (r : Bet.Row) (hi : rows[i]? = some r) :
    Bet.readRow l (Bet.tableBytes l rows) i
      = some { pos := r.pos % 2 ^ l.wPos, size := r.size % 2 ^ l.wSize, csize := r.csize % 2 ^ l.wCsize, flag := r.flag % 2 ^ l.wFlag } :=
  Bet.readRow_any_width l hw rows i r hi

/-! non-vacuity: two rows whose entry is 22+22+22+1 = 67 bits wide; the second row starts in the middle of byte 8 -/
example : (Bet.layoutOf [⟨32, 3000000, 3000000, 0⟩, ⟨3000032, 1500011, 90000, 1⟩] 2).entry = 67 := by decide
example : Bet.readRow (Bet.layoutOf [⟨32, 3000000, 3000000, 0⟩, ⟨3000032, 1500011, 90000, 1⟩] 2)
    (Bet.tableBytes (Bet.layoutOf [⟨32, 3000000, 3000000, 0⟩, ⟨3000032, 1500011, 90000, 1⟩] 2) [⟨32, 3000000, 3000000, 0⟩, ⟨3000032, 1500011, 90000, 1⟩]) 1
    = some ⟨3000032, 1500011, 90000, 1⟩ := by decide +kernel

/-! ## the extended hash table of V3/V4 archives and the lookup through it (Model.C01Het) -/

/-- EXTENDED LOOKUP FINDS EVERY ADDED FILE: after the builder has inserted the files, a lookup of file `k`'s name walks
    to a slot that carries `k`'s index (it is among the candidates), for every table the builder completes -/
theorem het_finds (hashes : List Nat) (t : Het.Tab) (h : Het.build hashes = some t) (k : Nat) (hk : k < hashes.length) :
    k ∈ Het.lookup t hashes.length hashes[k] := Het.build_finds hashes t h k hk

/-- … AND RESOLVES TO THAT FILE: with pairwise different 64-bit name hashes, the first candidate confirmed against the
    block-entry table's name-hash array is `k` itself, whatever else shares its 8-bit table byte -/
theorem het_resolves_own (hashes : List Nat) (t : Het.Tab) (h : Het.build hashes = some t)
    (hd : hashes.Pairwise (· ≠ ·)) (k : Nat) (hk : k < hashes.length) :
    Het.resolve hashes hashes[k] (Het.lookup t hashes.length hashes[k]) = some k := Het.resolve_own hashes t h hd k hk

/-- A NAME THAT WAS NEVER ADDED resolves to nothing through the extended tables, on any table: no candidate's 64-bit
    hash equals the name's -/
theorem het_absent (hashes : List Nat) (t : Het.Tab) (full : Nat) (hn : full ∉ hashes) (m : Nat) :
    Het.resolve hashes full (Het.lookup t m full) = none := Het.resolve_absent hashes t full hn m

/-- THE BUILDER ALWAYS COMPLETES THE TABLE (so `het_finds` and `het_resolves_own` speak about every file set): twice the
    file count rounded up to a power of two always leaves a free slot -/
theorem het_build_total (hashes : List Nat) : ∃ t, Het.build hashes = some t := Het.build_some hashes

/-- the byte stored for a name is never the free-slot marker (the hypothesis the proof of `het_finds` forced: with the
    marker 0xFF the code used before repair D63 this is false for one name in 128) -/
theorem het_name_byte_never_free (full : Nat) : Het.nameHash1 full ≠ Het.FREE := Het.nameHash1_ne_free full

/-! ### the archive header, every version (Model.C01Header = header.rs:read_with_limits + security.rs + builder.rs:write_header) -/

/-- HEADER WRITE → READ, V1–V4: every header whose fields fit their widths and pass the reader's security checks is read
    back exactly from the bytes the writer emits, whatever follows it in the file -/
theorem header_roundtrip (h : Hdr.Hdr) (hw : Hdr.WF h) (rest : Bytes) : Hdr.parse (Hdr.write h ++ rest) = .ok h :=
  Hdr.parse_write h hw rest

/-- HEADER READ → WRITE: whatever the reader accepts is a well-formed header (it passed every check of
    validate_header_security, its version is known, its size is at least the version's) and the file starts with exactly
    the bytes the writer emits for it — no byte of an accepted header is ignored, and a second write is byte-identical -/
theorem header_accepts_only_wellformed (bs : Bytes) (h : Hdr.Hdr) (hp : Hdr.parse bs = .ok h) :
    Hdr.WF h ∧ ∃ rest, bs = Hdr.write h ++ rest := Hdr.write_parse bs h hp

/-- the header the builder writes (header size = its version's size) occupies exactly the announced number of bytes:
    32 / 44 / 68 / 208, so the file data that follows starts where the header says it ends -/
theorem header_length (h : Hdr.Hdr) (hw : Hdr.WF h) (hs : h.headerSize = Hdr.minSize h.version) :
    (Hdr.write h).length = h.headerSize := Hdr.write_length h hw hs

/-- different well-formed headers are never written as the same bytes -/
theorem header_write_injective (h1 h2 : Hdr.Hdr) (w1 : Hdr.WF h1) (w2 : Hdr.WF h2) (e : Hdr.write h1 = Hdr.write h2) : h1 = h2 := by
  have p1 := Hdr.parse_write h1 w1 []
  have p2 := Hdr.parse_write h2 w2 []
  rw [e, p2] at p1
  simpa using p1.symm

/-- the generic fact behind every fixed-layout record of the formats: fields written one after the other are read back
    one after the other, for every layout (list of widths) and every list of values that fit -/
theorem record_roundtrip (fs : List (Nat × Nat)) (rest : Bytes) (h : Rec.Fits fs) :
    Rec.dec (fs.map (·.1)) (Rec.enc fs ++ rest) = some (fs.map (·.2), rest) := Rec.dec_enc fs rest h

/-! non-vacuity: a V1 and a V4 header that satisfy WF (decided field by field) -/
def hdrV1 : Hdr.Hdr := ⟨32, 1000, 0, 3, 500, 756, 16, 4, []⟩
def hdrV4 : Hdr.Hdr := ⟨208, 5000, 3, 3, 4000, 4256, 16, 4, [0, 0, 0, 5000, 3000, 3500, 256, 64, 0, 300, 200, 16384, 1, 2, 3, 4, 5, 2 ^ 127]⟩
example : Hdr.WF hdrV1 :=
  ⟨(Rec.fitsB_iff _).mp (by decide +kernel), (Rec.fitsB_iff _).mp (by decide +kernel), by decide +kernel, by decide +kernel, by decide +kernel, by decide +kernel⟩
example : Hdr.WF hdrV4 :=
  ⟨(Rec.fitsB_iff _).mp (by decide +kernel), (Rec.fitsB_iff _).mp (by decide +kernel), by decide +kernel, by decide +kernel, by decide +kernel, by decide +kernel⟩
example : (Hdr.write hdrV4).length = 208 := by decide +kernel

/-! non-vacuity: three files, two of them sharing the table byte 0xFF (full hashes ending in 0x7F and 0xFF) -/
example : (Het.build [0x1234567F, 0xABCDEFFF, 0x55550081]).isSome = true := by decide +kernel
example : (Het.build [0x1234567F, 0xABCDEFFF, 0x55550081]).map (fun t => Het.lookup t 3 0xABCDEFFF) = some [0, 1] := by decide +kernel
example : (Het.build [0x1234567F, 0xABCDEFFF, 0x55550081]).map (fun t => Het.resolve [0x1234567F, 0xABCDEFFF, 0x55550081] 0xABCDEFFF (Het.lookup t 3 0xABCDEFFF)) = some (some 1) := by decide +kernel

/-! non-vacuity: a 4-slot table with a collision chain -/
example : findIn (insertIn (insertIn (List.replicate 4 emptyHash) [1, 2, 0, 0] [3, 0, 1, 2]) [5, 6, 0, 1] [3, 0, 1, 2]) 5 6 [3, 0, 1, 2] = some 1 := by decide

end Wv.C01
