/-
  Props.C17 — "DBC tables survive write→parse and all access paths agree".
  Statements about Model.C17Dbc (the WDBC format as wow-cdbc reads/writes it); proofs in Lemmas/C17.lean.
-/
import WowVerif.Lemmas.C17
namespace Wv.C17
open Wv Wv.Dbc

/-- ROUND TRIP. For every schema and every well-typed table (cells typed like the schema's scalar slots, values
    in range, strings NUL-free) whose counts and sizes fit the 32-bit header fields, parsing the written bytes
    succeeds and resolving string references gives back exactly the table. -/
theorem dbc_parse_write (s : Schema) (t : Table) (ht : tableOk s t = true) (hf : Fits s t) :
    ∃ p, parse s (write s t) = .ok p ∧ resolve s p = some t := Dbc.dbc_parse_write s t ht hf

/-- SIZE. written size = header + records × record size + string block -/
theorem dbc_size_formula (s : Schema) (t : Table) (ht : tableOk s t = true) :
    (write s t).length = 20 + t.length * recordSize s + (intern t).block.length := Dbc.dbc_size_formula s t ht

/-- INTERNING. identical strings are stored once; the block holds the empty string and exactly the table's strings -/
theorem strings_stored_once (s : Schema) (t : Table) (ht : tableOk s t = true) :
    ∃ strs : List Bytes, strs.Nodup ∧ (intern t).block = strs.flatMap (· ++ [0]) ∧
      ∀ x, x ∈ strs ↔ (x = [] ∨ x ∈ tableStrings t) := Dbc.strings_stored_once s t ht

/-- ACCESS PATHS. Eager decoding (one cursor running over all records) and seek-based decoding of record `i` at
    byte `i · record_size` (lazy, memory-mapped and parallel readers) return the same record — for every byte
    string, not only for files the writer produced. -/
theorem access_paths_agree (tys : List FT) (n : Nat) (bs : Bytes) (rows : List (List Nat))
    (h : decodeRows tys n bs = some rows) :
    rows.length = n ∧ ∀ i (hi : i < rows.length),
      (decodeRow tys (bs.drop (i * (tys.map FT.size).sum))).map (·.1) = some rows[i] :=
  Dbc.eager_eq_seek tys n bs rows h

/-- the slot sizes of a schema add up to its record size, so `i · Σ sizes` is `i · record_size` -/
theorem flat_sizes_eq_record_size (s : Schema) : ((flatTypes s).map FT.size).sum = recordSize s :=
  Dbc.flatTypes_size s

/-- KEYS (hashed). a lookup returns the index of a record carrying the key; every occurring key is found -/
theorem key_lookup_sound (keys : List Nat) (k i : Nat) (h : keyLookup (keyMap keys) k = some i) :
    keys[i]? = some k := Dbc.key_lookup_sound keys k i h
theorem key_lookup_complete (keys : List Nat) (k : Nat) (h : k ∈ keys) :
    ∃ i, keyLookup (keyMap keys) k = some i := Dbc.key_lookup_complete keys k h

/-- KEYS (sorted). the pairs handed to the binary search are sorted by key and are exactly the table's
    (key, index) pairs -/
theorem sorted_key_map_ok (keys : List Nat) :
    (sortedKeys keys).Pairwise (fun a b => a.1 ≤ b.1) ∧
    (∀ p ∈ sortedKeys keys, keys[p.2]? = some p.1) ∧
    (∀ k ∈ keys, ∃ i, (k, i) ∈ sortedKeys keys) := Dbc.sorted_key_map_ok keys

/-! non-vacuity: a concrete table with an array field, duplicate and empty strings meets the hypotheses -/
def exSchema : Schema := [⟨.u32, none⟩, ⟨.str, some 2⟩, ⟨.u8, none⟩]
def exTable : Table := [[.num 7, .str [97, 98], .str [], .num 255], [.num 7, .str [97, 98], .str [98], .num 0]]
example : tableOk exSchema exTable = true := by decide
example : (write exSchema exTable).length = 20 + 2 * 13 + 6 := by decide
example : (parse exSchema (write exSchema exTable)).toOption.bind (resolve exSchema) = some exTable := by decide

end Wv.C17
