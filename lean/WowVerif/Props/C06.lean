import WowVerif.Lemmas.C06
import WowVerif.Props.C07
import WowVerif.Model.C06Compact
/-!
C06 — In-place archive modification behaves as a persistent name→bytes map.

Theorems (about the model in `Model/C06Mut.lean`, which the correspondence check replays against
`MutableArchive` slot by slot):

* `step_refines`, `history_reach` — the hash table with deleted markers refines a finite map under the
  probe-chain invariant `Reach`, for every history of puts (add / replace / rename target) and deletes
  (remove / rename source), with no bound on the history length or the table size;
* `put_fails_only_when_full` — an insertion fails only on a table with no free slot and then changes nothing
  (the bounded probe loop is complete: “every operation terminates”);
* `addCore_layout`, `flush_layout` — new data and rewritten tables are placed behind every existing block and
  behind the tables the header points to, so bytes of files the history never touched are never written
  (`read_write_disjoint` is the byte-level reading of that fact);
* `failed_ops_keep_table` — operations that report failure return the table they were given.
-/
namespace Wv.Mut

/-- abstract view of a table step -/
inductive TOp where
  | put (a b l k : Nat)   -- add / replace / rename target: key ↦ block k
  | del (a b : Nat)       -- remove / rename source

/-- the table step the implementation performs (`find_file_entry`, mark deleted, `add_to_hash_table`) -/
def stepT (home : Nat → Nat → Nat) (tbl : List Slot) : TOp → List Slot
  | .put a b l k =>
    let t1 := match find tbl (home a b) a b with
      | some i => tbl.set i .deleted
      | none => tbl
    match insert t1 (home a b) (.used a b l k) with
    | some t2 => t2
    | none => tbl
  | .del a b =>
    match find tbl (home a b) a b with
    | some i => tbl.set i .deleted
    | none => tbl

theorem lookup_of_slot (home : Nat → Nat → Nat) (tbl : List Slot) (hr : Reach home tbl) (i a b l k : Nat)
    (h : tbl[i]? = some (Slot.used a b l k)) : lookup tbl (home a b) a b = some k := by
  unfold lookup
  rw [find_complete home tbl hr i a b ⟨l, k, h⟩]
  simp [h]

theorem lookup_absent (tbl : List Slot) (home a b : Nat) (h : ∀ i, ¬KeyAt tbl i a b) : lookup tbl home a b = none := by
  unfold lookup find
  rw [findGo_absent tbl a b _ h]

/-- lookups of other keys are untouched by a change that preserves their slots -/
theorem lookup_congr (home : Nat → Nat → Nat) (t t' : List Slot) (hr : Reach home t) (hr' : Reach home t') (a b : Nat)
    (h : ∀ (i l k : Nat), t'[i]? = some (Slot.used a b l k) ↔ t[i]? = some (Slot.used a b l k)) :
    lookup t' (home a b) a b = lookup t (home a b) a b := by
  cases hf : find t (home a b) a b with
  | some i =>
    obtain ⟨l, k, hk⟩ := findGo_sound t a b _ i hf
    rw [lookup_of_slot home t hr i a b l k hk, lookup_of_slot home t' hr' i a b l k ((h i l k).mpr hk)]
  | none =>
    have habs := find_none_absent home t hr a b hf
    rw [lookup_absent t (home a b) a b habs]
    apply lookup_absent
    intro i ⟨l, k, hk⟩
    exact habs i ⟨l, k, (h i l k).mp hk⟩

/-- **The table is a map.** One step under the probe-chain invariant: the invariant is kept, a delete erases exactly
    its key, a put either maps exactly its key to the new block or — only when the key is new and no slot is free —
    leaves the table as it was. -/
theorem step_refines (home : Nat → Nat → Nat) (tbl : List Slot) (hr : Reach home tbl) (op : TOp) :
    Reach home (stepT home tbl op) ∧
    match op with
    | .put a b _ k =>
        (stepT home tbl op = tbl ∧ (∀ i, ¬KeyAt tbl i a b) ∧ ∀ i, i < tbl.length → ∃ a' b' l' k', tbl[i]? = some (Slot.used a' b' l' k')) ∨
        (∀ a' b', lookup (stepT home tbl op) (home a' b') a' b' = if a' = a ∧ b' = b then some k else lookup tbl (home a' b') a' b')
    | .del a b =>
        ∀ a' b', lookup (stepT home tbl op) (home a' b') a' b' = if a' = a ∧ b' = b then none else lookup tbl (home a' b') a' b' := by
  cases op with
  | del a b =>
    simp only [stepT]
    cases hf : find tbl (home a b) a b with
    | none =>
      refine ⟨hr, ?_⟩
      intro a' b'
      by_cases hab : a' = a ∧ b' = b
      · obtain ⟨rfl, rfl⟩ := hab
        simp only [and_self, if_true]
        exact lookup_absent tbl _ a' b' (find_none_absent home tbl hr a' b' hf)
      · simp only [hab, if_false]
    | some i =>
      have hk := findGo_sound tbl a b _ i hf
      obtain ⟨hr', habs, hoth⟩ := delete_found home tbl i a b hr hk
      refine ⟨hr', ?_⟩
      intro a' b'
      by_cases hab : a' = a ∧ b' = b
      · obtain ⟨rfl, rfl⟩ := hab
        simp only [and_self, if_true]
        exact lookup_absent _ _ a' b' habs
      · simp only [hab, if_false]
        have hne : a' ≠ a ∨ b' ≠ b := by
          by_cases ha : a' = a
          · right; intro hb; exact hab ⟨ha, hb⟩
          · left; exact ha
        exact lookup_congr home tbl _ hr hr' a' b' (fun j l k => hoth j a' b' l k hne)
  | put a b l k =>
    simp only [stepT]
    -- first the (possible) retirement of the old entry
    have h1 : ∃ t1, (match find tbl (home a b) a b with | some i => tbl.set i Slot.deleted | none => tbl) = t1 ∧ Reach home t1 ∧
        (∀ i, ¬KeyAt t1 i a b) ∧
        (∀ (j a' b' l' k' : Nat), (a' ≠ a ∨ b' ≠ b) → (t1[j]? = some (Slot.used a' b' l' k') ↔ tbl[j]? = some (Slot.used a' b' l' k'))) ∧
        (t1 = tbl ∨ ∃ i, i < t1.length ∧ t1[i]? = some Slot.deleted) := by
      cases hf : find tbl (home a b) a b with
      | none => exact ⟨tbl, rfl, hr, find_none_absent home tbl hr a b hf, fun _ _ _ _ _ _ => Iff.rfl, Or.inl rfl⟩
      | some i =>
        have hk := findGo_sound tbl a b _ i hf
        obtain ⟨hr', habs, hoth⟩ := delete_found home tbl i a b hr hk
        have hilt : i < tbl.length := by obtain ⟨l, k, h⟩ := hk; exact (List.getElem?_eq_some_iff.mp h).1
        exact ⟨_, rfl, hr', habs, hoth, Or.inr ⟨i, by simpa using hilt, by simp [hilt]⟩⟩
    obtain ⟨t1, ht1, hr1, habs1, hoth1, hfree⟩ := h1
    rw [ht1]
    cases hins : insert t1 (home a b) (Slot.used a b l k) with
    | none =>
      have hfull := insert_none_full t1 (home a b) _ hins
      cases hfree with
      | inr hd =>
        obtain ⟨i, hi, hdel⟩ := hd
        obtain ⟨_, _, _, _, hu⟩ := hfull i hi
        rw [hdel] at hu; cases hu
      | inl heq =>
        subst heq
        exact ⟨hr, Or.inl ⟨rfl, habs1, hfull⟩⟩
    | some t2 =>
      obtain ⟨hr2, ⟨j, _, hj⟩, _, hoth2⟩ := insert_fresh home t1 t2 a b l k hr1 habs1 hins
      refine ⟨hr2, Or.inr ?_⟩
      intro a' b'
      by_cases hab : a' = a ∧ b' = b
      · obtain ⟨rfl, rfl⟩ := hab
        simp only [and_self, if_true]
        exact lookup_of_slot home t2 hr2 j a' b' l k hj
      · simp only [hab, if_false]
        have hne : a' ≠ a ∨ b' ≠ b := by
          by_cases ha : a' = a
          · right; intro hb; exact hab ⟨ha, hb⟩
          · left; exact ha
        exact lookup_congr home tbl t2 hr hr2 a' b'
          (fun i l' k' => (hoth2 i a' b' l' k' hne).trans (hoth1 i a' b' l' k' hne))

/-- the invariant holds after every history, of any length, from any table that satisfies it -/
theorem history_reach (home : Nat → Nat → Nat) (ops : List TOp) (tbl : List Slot) (hr : Reach home tbl) :
    Reach home (ops.foldl (stepT home) tbl) := by
  induction ops generalizing tbl with
  | nil => exact hr
  | cons op ops ih => exact ih _ (step_refines home tbl hr op).1

/-- a freshly created (all never-used) table satisfies the invariant: every table the builder and this module produce does -/
theorem reach_empty (home : Nat → Nat → Nat) (n : Nat) : Reach home (List.replicate n Slot.never) := by
  intro i a b ⟨l, k, h⟩
  rw [List.getElem?_replicate] at h
  split at h <;> cases h

/-- an insertion fails only on a table without a free slot -/
theorem put_fails_only_when_full (tbl : List Slot) (home : Nat) (s : Slot) (h : insert tbl home s = none) :
    hasFree tbl = false := by
  have hfull := insert_none_full tbl home s h
  unfold hasFree
  rw [List.any_eq_false]
  intro x hx
  obtain ⟨i, hi, hxe⟩ := List.getElem_of_mem hx
  obtain ⟨a, b, l, k, hu⟩ := hfull i hi
  rw [List.getElem?_eq_getElem hi] at hu
  have : x = Slot.used a b l k := by rw [← hxe]; exact Option.some.inj hu
  rw [this]; simp [Slot.isFree]

/-! ## layout: nothing that exists is ever overwritten -/

/-- what a cached append cursor must dominate -/
def CursorOk (s : Sess) : Prop :=
  ∀ c, s.cursor = some c →
    (∀ b ∈ s.blocks, blkEnd b ≤ c) ∧ (∀ b ∈ s.dBlocks, blkEnd b ≤ c) ∧
    s.dHashPos + 16 * s.hash.length ≤ c ∧ s.dBlockPos + 16 * s.dBlockCount ≤ c

/-- the place where the next bytes go lies behind every block (current and on-disk view) and behind both tables of the header -/
theorem endOffset_safe (s : Sess) (h : CursorOk s) :
    (∀ b ∈ s.blocks, blkEnd b ≤ endOffset s) ∧ (∀ b ∈ s.dBlocks, blkEnd b ≤ endOffset s) ∧
    s.dHashPos + 16 * s.hash.length ≤ endOffset s ∧ s.dBlockPos + 16 * s.dBlockCount ≤ endOffset s := by
  unfold endOffset
  cases hc : s.cursor with
  | some c => exact h c hc
  | none =>
    simp only
    unfold computeEnd
    refine ⟨?_, ?_, ?_, ?_⟩
    · intro b hb
      have := maxEnd_ge s.blocks b hb
      exact Nat.le_trans (Nat.le_trans this (Nat.le_trans (Nat.le_max_right _ _) (Nat.le_max_right _ _))) (align512_ge _)
    · intro b hb
      have := maxEnd_ge s.dBlocks b hb
      exact Nat.le_trans (Nat.le_trans this (Nat.le_trans (Nat.le_max_left _ _) (Nat.le_max_right _ _))) (align512_ge _)
    · exact Nat.le_trans (Nat.le_trans (Nat.le_max_left _ _) (Nat.le_max_left _ _)) (align512_ge _)
    · exact Nat.le_trans (Nat.le_trans (Nat.le_max_right _ _) (Nat.le_max_left _ _)) (align512_ge _)

theorem insertGo_length (tbl : List Slot) (s : Slot) (seq : List Nat) (t' : List Slot) (h : insertGo tbl s seq = some t') :
    t'.length = tbl.length := by
  obtain ⟨_, _, _, _, _, _, ht⟩ := insertGo_spec tbl s seq t' h
  rw [ht]; simp

/-- every used slot points into the block table -/
def TablesWf (s : Sess) : Prop := ∀ (i a b l kk : Nat), s.hash[i]? = some (Slot.used a b l kk) → kk < s.blocks.length

/-- **Adding never overwrites.** A successful `addCore` stores the new block at the old end offset, which lies behind
    every block that existed and behind both tables; all other blocks keep their entries (an internal file's entry is
    the one replaced); the cursor stays sound. -/
theorem addCore_layout (s s' : Sess) (k : Key) (fsize stored flags loc : Nat) (replace internal : Bool)
    (hc : CursorOk s) (hwf : TablesWf s) (h : addCore s k fsize stored flags loc replace internal = .ok s') :
    CursorOk s' ∧
    (∃ blk ∈ s'.blocks, blk.pos = endOffset s ∧ blk.csize = stored ∧ blk.fsize = fsize ∧
        (∀ b ∈ s'.blocks, b = blk ∨ b ∈ s.blocks)) ∧
    (∀ b ∈ s.blocks, blkEnd b ≤ endOffset s) ∧ (∀ b ∈ s.dBlocks, blkEnd b ≤ endOffset s) ∧
    s.dHashPos + 16 * s.hash.length ≤ endOffset s ∧ s.dBlockPos + 16 * s.dBlockCount ≤ endOffset s ∧
    s'.dBlocks = s.dBlocks ∧ s'.dHashPos = s.dHashPos ∧ s'.dBlockPos = s.dBlockPos ∧ s'.dBlockCount = s.dBlockCount := by
  obtain ⟨hs1, hs2, hs3, hs4⟩ := endOffset_safe s hc
  have hblk_end : blkEnd ⟨endOffset s, stored, fsize, flags⟩ ≤ align512 (endOffset s + stored) := by
    unfold blkEnd
    split
    · exact align512_ge _
    · exact Nat.zero_le _
  have hge : endOffset s ≤ align512 (endOffset s + stored) := Nat.le_trans (Nat.le_add_right _ _) (align512_ge _)
  -- common conclusion once the new tables are known
  have fin : ∀ (hash2 : List Slot) (blocks : List Blk), hash2.length = s.hash.length →
      (∀ b ∈ blocks, b = ⟨endOffset s, stored, fsize, flags⟩ ∨ b ∈ s.blocks) → (⟨endOffset s, stored, fsize, flags⟩ : Blk) ∈ blocks →
      s' = { s with hash := hash2, blocks := blocks, cursor := some (align512 (endOffset s + stored)), dirty := true } →
      CursorOk s' ∧
      (∃ blk ∈ s'.blocks, blk.pos = endOffset s ∧ blk.csize = stored ∧ blk.fsize = fsize ∧ (∀ b ∈ s'.blocks, b = blk ∨ b ∈ s.blocks)) ∧
      (∀ b ∈ s.blocks, blkEnd b ≤ endOffset s) ∧ (∀ b ∈ s.dBlocks, blkEnd b ≤ endOffset s) ∧
      s.dHashPos + 16 * s.hash.length ≤ endOffset s ∧ s.dBlockPos + 16 * s.dBlockCount ≤ endOffset s ∧
      s'.dBlocks = s.dBlocks ∧ s'.dHashPos = s.dHashPos ∧ s'.dBlockPos = s.dBlockPos ∧ s'.dBlockCount = s.dBlockCount := by
    intro hash2 blocks hlen hmem hin hs'
    subst hs'
    refine ⟨?_, ⟨_, hin, rfl, rfl, rfl, hmem⟩, hs1, hs2, hs3, hs4, rfl, rfl, rfl, rfl⟩
    intro c hcur
    simp only at hcur
    cases hcur
    refine ⟨?_, ?_, ?_, ?_⟩
    · intro b hb
      rcases hmem b hb with hb | hb
      · subst hb; exact hblk_end
      · exact Nat.le_trans (hs1 b hb) hge
    · intro b hb; exact Nat.le_trans (hs2 b hb) hge
    · simp only [hlen]; exact Nat.le_trans hs3 hge
    · exact Nat.le_trans hs4 hge
  have happ : ∀ b ∈ s.blocks ++ [(⟨endOffset s, stored, fsize, flags⟩ : Blk)], b = ⟨endOffset s, stored, fsize, flags⟩ ∨ b ∈ s.blocks := by
    intro b hb
    rw [List.mem_append] at hb
    cases hb with
    | inl hb => exact Or.inr hb
    | inr hb => simp at hb; exact Or.inl hb
  cases hf : find s.hash k.home k.a k.b with
  | none =>
    simp only [addCore, hf, Option.isSome_none, Bool.false_and, Bool.false_eq_true, if_false, Option.isNone_none, Bool.true_and] at h
    split at h
    · cases h
    · split at h
      · cases h
      · rename_i hash2 hins
        cases h
        exact fin hash2 _ (insertGo_length s.hash _ _ hash2 hins) happ (by simp) rfl
  | some i =>
    obtain ⟨l0, k0, hk0⟩ := findGo_sound s.hash k.a k.b _ i hf
    have hk0lt := hwf i k.a k.b l0 k0 hk0
    cases internal with
    | false =>
      simp only [addCore, hf, Option.isSome_some, Bool.true_and, Option.isNone_some, Bool.false_and, Bool.false_eq_true, if_false, hk0] at h
      split at h
      · cases h
      · split at h
        · cases h
        · rename_i hash2 hins
          cases h
          have hlen : hash2.length = s.hash.length := by
            rw [insertGo_length _ _ _ hash2 hins]; simp
          exact fin hash2 _ hlen happ (by simp) rfl
    | true =>
      simp only [addCore, hf, Option.isSome_some, Bool.true_and, Option.isNone_some, Bool.false_and, Bool.false_eq_true, if_false, hk0, if_true] at h
      split at h
      · cases h
      · split at h
        · cases h
        · rename_i hash2 hins
          cases h
          have hlen : hash2.length = s.hash.length := by
            rw [insertGo_length _ _ _ hash2 hins]; simp
          refine fin hash2 (s.blocks.set k0 ⟨endOffset s, stored, fsize, flags⟩) hlen ?_ ?_ rfl
          · intro b hb
            rcases List.mem_or_eq_of_mem_set hb with hb | hb
            · exact Or.inr hb
            · exact Or.inl hb
          · exact List.mem_iff_getElem.mpr ⟨k0, by simpa using hk0lt, by simp⟩

/-- **Flush never overwrites.** The tables go to the end offset, which lies behind every block; afterwards the header
    points at them, and the next end offset lies behind the tables just written, so later data cannot land on them. -/
theorem flush_layout (s : Sess) (hc : CursorOk s) (hd : s.dirty = true) :
    (flush s).dHashPos = endOffset s ∧ (flush s).dBlockPos = endOffset s + 16 * s.hash.length ∧
    (∀ b ∈ s.blocks, blkEnd b ≤ (flush s).dHashPos) ∧
    (flush s).dArchiveSize ≤ endOffset (flush s) ∧
    (flush s).blocks = s.blocks ∧ (flush s).hash = s.hash ∧ CursorOk (flush s) := by
  obtain ⟨hs1, _, _, _⟩ := endOffset_safe s hc
  unfold flush
  rw [if_neg (by simp [hd])]
  refine ⟨rfl, rfl, hs1, ?_, rfl, rfl, ?_⟩
  · simp only [endOffset, computeEnd]
    exact Nat.le_trans (Nat.le_trans (Nat.le_max_right _ _) (Nat.le_max_left _ _)) (align512_ge _)
  · intro c hcur; simp at hcur

/-! ## bytes: a write behind a block leaves the block's bytes alone -/

/-- writing `d` at offset `p` of a file (holes read as zero) -/
def writeAt (f : Bytes) (p : Nat) (d : Bytes) : Bytes :=
  (f.take p ++ List.replicate (p - f.length) 0) ++ d ++ f.drop (p + d.length)

def readAt (f : Bytes) (q l : Nat) : Bytes := (f.drop q).take l

theorem read_write_disjoint (f : Bytes) (p : Nat) (d : Bytes) (q l : Nat) (h : q + l ≤ p) (hf : q + l ≤ f.length) :
    readAt (writeAt f p d) q l = readAt f q l := by
  unfold readAt writeAt
  have hp : p - f.length = 0 ∨ f.length < p := by omega
  have e1 : (f.take p ++ List.replicate (p - f.length) 0 ++ d ++ f.drop (p + d.length)) =
      f.take (q + l) ++ ((f.take p).drop (q + l) ++ List.replicate (p - f.length) 0 ++ d ++ f.drop (p + d.length)) := by
    have : f.take p = f.take (q + l) ++ (f.take p).drop (q + l) := by
      have e := List.take_append_drop (q + l) (f.take p)
      rw [List.take_take, Nat.min_eq_left h] at e
      exact e.symm
    conv => lhs; rw [this]
    simp [List.append_assoc]
  rw [e1]
  have hlen : (f.take (q + l)).length = q + l := by simp; omega
  have e2 : f.take (q + l) = f.take q ++ (f.drop q).take l := by
    rw [List.take_add]
  rw [e2, List.append_assoc]
  have hq : (f.take q).length = q := by simp; omega
  rw [List.drop_left' hq]
  have hl : ((f.drop q).take l).length = l := by simp; omega
  rw [List.take_left' hl]

/-! ## the session operations are histories of table steps -/

/-- `home` agrees with the offset hash for this name (it is a function of the (A, B) pair for the names in play) -/
def HomeOk (home : Nat → Nat → Nat) (n : Nat) (name : Bytes) : Prop :=
  (keyOf n name).home = home (keyOf n name).a (keyOf n name).b

/-- a state reachable by table steps from `t` -/
def Steps (home : Nat → Nat → Nat) (t t' : List Slot) : Prop := ∃ ops : List TOp, t' = ops.foldl (stepT home) t

theorem Steps.refl (home : Nat → Nat → Nat) (t : List Slot) : Steps home t t := ⟨[], rfl⟩
theorem Steps.trans {home : Nat → Nat → Nat} {t1 t2 t3 : List Slot} (h1 : Steps home t1 t2) (h2 : Steps home t2 t3) : Steps home t1 t3 := by
  obtain ⟨o1, rfl⟩ := h1; obtain ⟨o2, rfl⟩ := h2
  exact ⟨o1 ++ o2, by rw [List.foldl_append]⟩
theorem Steps.reach {home : Nat → Nat → Nat} {t t' : List Slot} (h : Steps home t t') (hr : Reach home t) : Reach home t' := by
  obtain ⟨ops, rfl⟩ := h; exact history_reach home ops t hr
theorem Steps.length {home : Nat → Nat → Nat} {t t' : List Slot} (h : Steps home t t') : t'.length = t.length := by
  obtain ⟨ops, rfl⟩ := h
  induction ops generalizing t with
  | nil => rfl
  | cons op ops ih =>
    simp only [List.foldl_cons]
    rw [ih]
    cases op with
    | put a b l k =>
      simp only [stepT]
      split
      · rename_i t2 hins
        rw [insertGo_length _ _ _ t2 hins]
        split <;> simp
      · rfl
    | del a b =>
      simp only [stepT]
      split <;> simp

theorem addCore_steps (home : Nat → Nat → Nat) (s s' : Sess) (k : Key) (fsize stored flags loc : Nat) (replace internal : Bool)
    (hk : k.home = home k.a k.b) (h : addCore s k fsize stored flags loc replace internal = .ok s') :
    Steps home s.hash s'.hash := by
  cases hf : find s.hash k.home k.a k.b with
  | none =>
    simp only [addCore, hf, Option.isSome_none, Bool.false_and, Bool.false_eq_true, if_false, Option.isNone_none, Bool.true_and] at h
    split at h
    · cases h
    · split at h
      · cases h
      · rename_i hash2 hins
        cases h
        refine ⟨[.put k.a k.b loc s.blocks.length], ?_⟩
        simp only [List.foldl_cons, List.foldl_nil, stepT, ← hk, hf, hins]
  | some i =>
    cases hi : s.hash[i]? with
    | none =>
      have := findGo_sound s.hash k.a k.b _ i hf
      obtain ⟨_, _, h'⟩ := this; rw [hi] at h'; cases h'
    | some sl =>
      simp only [addCore, hf, Option.isSome_some, Bool.true_and, Option.isNone_some, Bool.false_and, Bool.false_eq_true, if_false, hi] at h
      split at h
      · cases h
      · split at h
        · cases h
        · rename_i hash2 hins
          cases h
          generalize (if internal = true then (match some sl with | some (Slot.used _ _ _ kk) => kk | _ => 0) else s.blocks.length) = bi at hins
          exact ⟨[.put k.a k.b loc bi], by simp only [List.foldl_cons, List.foldl_nil, stepT, ← hk, hf, hins]⟩

theorem writeList_steps (home : Nat → Nat → Nat) (s s' : Sess) (c : Bytes) (hl : HomeOk home s.hash.length listName)
    (h : writeList s c = .ok s') : Steps home s.hash s'.hash := by
  unfold writeList at h
  simp only [bind, Except.bind] at h
  split at h
  · cases h
  · rename_i s1 h1
    cases h
    exact addCore_steps home s s1 _ _ _ _ _ _ _ hl h1

theorem updateListfile_steps (home : Nat → Nat → Nat) (s s' : Sess) (name : Bytes) (hl : HomeOk home s.hash.length listName)
    (h : updateListfile s name = .ok s') : Steps home s.hash s'.hash := by
  unfold updateListfile at h
  split at h
  · cases h; exact Steps.refl _ _
  · split at h
    · cases h; exact Steps.refl _ _
    · exact writeList_steps home s s' _ hl h

theorem removeFromListfile_steps (home : Nat → Nat → Nat) (s s' : Sess) (name : Bytes) (hl : HomeOk home s.hash.length listName)
    (h : removeFromListfile s name = .ok s') : Steps home s.hash s'.hash := by
  unfold removeFromListfile at h
  split at h
  · cases h; exact Steps.refl _ _
  · simp only at h
    split at h
    · exact writeList_steps home s s' _ hl h
    · cases h; exact Steps.refl _ _

/-- **`add_file_data` is a history of table steps** (the file's own put, then possibly the listfile's) -/
theorem add_steps (home : Nat → Nat → Nat) (s s' : Sess) (name : Bytes) (fsize : Nat) (clen : Option Nat) (comp : Bool) (enc : Nat)
    (replace : Bool) (loc : Nat) (hn : HomeOk home s.hash.length name) (hl : HomeOk home s.hash.length listName)
    (h : add s name fsize clen comp enc replace loc = .ok s') : Steps home s.hash s'.hash := by
  unfold add at h
  split at h
  · cases h
  · simp only at h
    split at h
    · cases h
    · split at h
      · cases h
      · split at h
        · cases h
        · rename_i stored cflag _
          split at h
          · cases h
          · rename_i s1 h1
            have st1 := addCore_steps home s s1 _ _ _ _ _ _ _ hn h1
            have hl1 : HomeOk home s1.hash.length listName := by rw [st1.length]; exact hl
            split at h
            · exact st1.trans (updateListfile_steps home s1 s' name hl1 h)
            · cases h; exact st1

/-- **`remove_file` is a history of table steps** (the delete, then possibly the listfile's put) -/
theorem remove_steps (home : Nat → Nat → Nat) (s s' : Sess) (name : Bytes)
    (hn : HomeOk home s.hash.length name) (hl : HomeOk home s.hash.length listName)
    (h : remove s name = .ok s') : Steps home s.hash s'.hash := by
  unfold remove at h
  split at h
  · cases h
  · simp only at h
    split at h
    · cases h
    · rename_i i hf
      split at h
      · cases h
      · rename_i s2 h2
        cases h
        have hn' : (keyOf s.hash.length name).home = home (keyOf s.hash.length name).a (keyOf s.hash.length name).b := hn
        have st1 : Steps home s.hash (s.hash.set i Slot.deleted) :=
          ⟨[.del (keyOf s.hash.length name).a (keyOf s.hash.length name).b], by simp only [List.foldl_cons, List.foldl_nil, stepT, ← hn', hf]⟩
        have hl1 : HomeOk home (s.hash.set i Slot.deleted).length listName := by simpa using hl
        exact st1.trans (removeFromListfile_steps home _ s2 name hl1 h2)

/-- deleting a slot cannot make an absent key appear -/
theorem find_none_after_delete (home : Nat → Nat → Nat) (tbl : List Slot) (hr : Reach home tbl) (i a b : Nat)
    (h : find tbl (home a b) a b = none) : find (tbl.set i Slot.deleted) (home a b) a b = none := by
  have habs := find_none_absent home tbl hr a b h
  unfold find
  apply findGo_absent
  intro j hk
  by_cases hji : j = i
  · subst hji
    obtain ⟨l, k, hk⟩ := hk
    by_cases hlt : j < tbl.length
    · rw [List.getElem?_set_self hlt] at hk; cases hk
    · rw [List.getElem?_eq_none (by simp only [List.length_set]; omega)] at hk; cases hk
  · exact habs j ((keyAt_set_ne tbl j i a b Slot.deleted hji).mp hk)

/-- flushing does not touch the table -/
theorem flush_hash (s : Sess) : (flush s).hash = s.hash := by
  unfold flush; split <;> rfl

/-- **`rename_file` is a history of table steps, whatever it reports**: the plain path is the source's delete followed by
    the target's put (which finds the target absent, as checked before anything was touched) and the listfile's puts;
    the encrypted path is flush, add under the new name, remove of the old one. Every outcome — success, "notfound",
    "exists", "full", or a failure half way — leaves a table reachable by steps from the one it started with. -/
theorem rename_steps (home : Nat → Nat → Nat) (s s' : Sess) (old new : Bytes) (z : Nat) (msg : String)
    (hr : Reach home s.hash) (ho : HomeOk home s.hash.length old) (hn : HomeOk home s.hash.length new)
    (hl : HomeOk home s.hash.length listName) (h : rename s old new z = (s', msg)) : Steps home s.hash s'.hash := by
  unfold rename at h
  split at h
  · cases h; exact Steps.refl _ _
  · simp only at h
    split at h
    · cases h; exact Steps.refl _ _
    · rename_i i hfo
      split at h
      · cases h; exact Steps.refl _ _
      · rename_i hnew
        have hnone : find s.hash (keyOf s.hash.length new).home (keyOf s.hash.length new).a (keyOf s.hash.length new).b = none := by
          cases hf : find s.hash (keyOf s.hash.length new).home (keyOf s.hash.length new).a (keyOf s.hash.length new).b with
          | none => rfl
          | some j => rw [hf] at hnew; simp at hnew
        split at h
        · cases h; exact Steps.refl _ _
        · rename_i blk hblk
          split at h
          · -- encrypted: flush, add under the new name, remove the old one
            have hfl : (flush s).hash = s.hash := flush_hash s
            split at h
            · cases h; rw [hfl]; exact Steps.refl _ _
            · rename_i s1 h1
              have st1 : Steps home s.hash s1.hash := by
                have := add_steps home (flush s) s1 new _ _ _ _ _ _ (by rw [hfl]; exact hn) (by rw [hfl]; exact hl) h1
                rw [hfl] at this; exact this
              split at h
              · cases h; exact st1
              · rename_i s2 h2
                have st2 := remove_steps home s1 s2 old (by rw [st1.length]; exact ho) (by rw [st1.length]; exact hl) h2
                cases h
                exact st1.trans st2
          · -- plain: delete the source, put the target, maintain the listfile
            split at h
            · cases h; exact Steps.refl _ _
            · rename_i hash2 hins
              have ho' : (keyOf s.hash.length old).home = home (keyOf s.hash.length old).a (keyOf s.hash.length old).b := ho
              have hn' : (keyOf s.hash.length new).home = home (keyOf s.hash.length new).a (keyOf s.hash.length new).b := hn
              have st1 : Steps home s.hash (s.hash.set i Slot.deleted) :=
                ⟨[.del (keyOf s.hash.length old).a (keyOf s.hash.length old).b], by simp only [List.foldl_cons, List.foldl_nil, stepT, ← ho', hfo]⟩
              have hnone' : find (s.hash.set i Slot.deleted) (home (keyOf s.hash.length new).a (keyOf s.hash.length new).b)
                  (keyOf s.hash.length new).a (keyOf s.hash.length new).b = none :=
                find_none_after_delete home s.hash hr i _ _ (by rw [← hn']; exact hnone)
              obtain ⟨l0, k0, hins'⟩ : ∃ l0 k0, insert (s.hash.set i Slot.deleted) (keyOf s.hash.length new).home
                  (Slot.used (keyOf s.hash.length new).a (keyOf s.hash.length new).b l0 k0) = some hash2 := ⟨_, _, hins⟩
              have st2 : Steps home (s.hash.set i Slot.deleted) hash2 := by
                refine ⟨[.put (keyOf s.hash.length new).a (keyOf s.hash.length new).b l0 k0], ?_⟩
                simp only [List.foldl_cons, List.foldl_nil, stepT, hnone']
                rw [← hn', hins']
              have st12 := st1.trans st2
              have hl2 : HomeOk home hash2.length listName := by rw [st12.length]; exact hl
              split at h
              · cases h; exact st12
              · rename_i s2 h2
                have st3 := removeFromListfile_steps home { s with hash := hash2 } s2 old hl2 h2
                split at h
                · cases h; exact st12.trans st3
                · rename_i s3 h3
                  have hl3 : HomeOk home s2.hash.length listName := by rw [st3.length]; exact hl2
                  have st4 := updateListfile_steps home s2 s3 new hl3 h3
                  cases h
                  exact (st12.trans st3).trans st4

/-- **Every session operation keeps the probe-chain invariant**, hence (by `step_refines`) the table keeps behaving as a
    map after any history of adds, replaces, removes, renames (successful or not) and flushes, of any length. -/
theorem session_reach (home : Nat → Nat → Nat) (s : Sess) (hr : Reach home s.hash) (hl : HomeOk home s.hash.length listName) :
    (∀ s' name fsize clen comp enc replace loc, HomeOk home s.hash.length name →
        add s name fsize clen comp enc replace loc = .ok s' → Reach home s'.hash ∧ s'.hash.length = s.hash.length) ∧
    (∀ s' name, HomeOk home s.hash.length name → remove s name = .ok s' → Reach home s'.hash ∧ s'.hash.length = s.hash.length) ∧
    (∀ s' old new z msg, HomeOk home s.hash.length old → HomeOk home s.hash.length new →
        rename s old new z = (s', msg) → Reach home s'.hash ∧ s'.hash.length = s.hash.length) ∧
    Reach home (flush s).hash := by
  refine ⟨?_, ?_, ?_, ?_⟩
  · intro s' name fsize clen comp enc replace loc hn h
    have st := add_steps home s s' name fsize clen comp enc replace loc hn hl h
    exact ⟨st.reach hr, st.length⟩
  · intro s' name hn h
    have st := remove_steps home s s' name hn hl h
    exact ⟨st.reach hr, st.length⟩
  · intro s' old new z msg ho hn h
    have st := rename_steps home s s' old new z msg hr ho hn hl h
    exact ⟨st.reach hr, st.length⟩
  · rw [flush_hash]; exact hr

/-! ## non-vacuity -/

/-- a two-key table with a deleted marker in the chain satisfies the invariant, and its lookups see through the marker -/
example : lookup [Slot.deleted, Slot.used 7 8 0 3, Slot.never, Slot.used 1 2 0 5] 3 7 8 = some 3 := by decide
example : find [Slot.used 1 1 0 0, Slot.used 2 2 0 1] 0 9 9 = none := by decide
example : insert [Slot.used 1 1 0 0, Slot.used 2 2 0 1] 0 (Slot.used 9 9 0 2) = none := by decide
def exSess : Sess where
  hash := [Slot.never]
  blocks := [⟨32, 10, 10, FLAG_EXISTS⟩]
  cursor := some 512
  dirty := true
  dHashPos := 42
  dBlockPos := 58
  dBlockCount := 1
  dArchiveSize := 74
  dBlocks := [⟨32, 10, 10, FLAG_EXISTS⟩]
  hasList := false
  listContent := []

example : CursorOk exSess ∧ TablesWf exSess := by
  constructor
  · intro c hc; cases hc
    refine ⟨?_, ?_, by decide, by decide⟩ <;> intro b hb <;> simp [exSess] at hb <;> subst hb <;> decide
  · intro i a b l kk h
    cases i with
    | zero => simp [exSess] at h
    | succ i => simp [exSess] at h

/-! ### compact (Model.C06Compact): a rebuild of everything, or nothing -/

theorem excluded_noOpts (e : Rebuild.Entry) : Rebuild.excluded Compact.noOpts e = false := by
  simp [Rebuild.excluded, Compact.noOpts]

/-- COMPACT PRESERVES THE MAP: when compaction succeeds, every live entry was resolvable and readable, the new archive holds
    under every live name exactly the content read from the old one, and it holds nothing else -/
theorem compact_preserves_map (live : List (Option Rebuild.Entry)) (xs : List (Bytes × Bytes))
    (h : Compact.plan live = .ok xs) (hnd : (Rebuild.names (live.filterMap id)).Nodup) :
    (∀ o ∈ live, o.isSome) ∧
    (∀ e, some e ∈ live → Rebuild.lookup xs e.name = e.content ∧ e.content.isSome) ∧
    (∀ p ∈ xs, ∃ e, some e ∈ live ∧ e.name = p.1 ∧ e.content = some p.2) := by
  unfold Compact.plan at h
  by_cases hany : (live.any (·.isNone)) = true
  · rw [if_pos hany] at h; cases h
  · rw [if_neg hany] at h
    cases hx : Rebuild.extract Compact.noOpts (live.filterMap id) with
    | error n => rw [hx] at h; cases h
    | ok ys =>
      rw [hx] at h
      simp only [Except.ok.injEq] at h
      subst h
      have hall : ∀ o ∈ live, o.isSome := by
        intro o ho
        cases o with
        | some _ => rfl
        | none => exact absurd (List.any_eq_true.mpr ⟨none, ho, rfl⟩) hany
      refine ⟨hall, fun e he => ?_, fun p hp => ?_⟩
      · have hmem : e ∈ live.filterMap id := List.mem_filterMap.mpr ⟨some e, he, rfl⟩
        have hl := Rebuild.rebuilt_lookup Compact.noOpts _ ys hnd hx e hmem
        rw [excluded_noOpts] at hl
        simp only [Bool.false_eq_true, if_false] at hl
        obtain ⟨d, hd, _⟩ := Rebuild.extract_complete Compact.noOpts _ ys hx e hmem (excluded_noOpts e)
        exact ⟨hl, by rw [hd]; rfl⟩
      · obtain ⟨e, he, h1, h2, _⟩ := Rebuild.extract_sound Compact.noOpts _ ys hx p hp
        obtain ⟨o, ho, hoe⟩ := List.mem_filterMap.mp he
        simp only [id] at hoe
        subst hoe
        exact ⟨e, ho, h1, h2⟩

/-- COMPACT REFUSES what it cannot name: one live entry without a listed name and nothing is replaced -/
theorem compact_refuses_unresolvable (live : List (Option Rebuild.Entry)) (h : none ∈ live) :
    Compact.plan live = .error .unresolvable := by
  unfold Compact.plan
  rw [if_pos (List.any_eq_true.mpr ⟨none, h, rfl⟩)]

example : (match Compact.plan [some ⟨[97], 0, some [1, 2]⟩, some ⟨[98], 0x10000, some []⟩] with
    | .ok xs => xs == [([97], [1, 2]), ([98], [])] | .error _ => false) = true := by decide

end Wv.Mut
