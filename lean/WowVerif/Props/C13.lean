import WowVerif.Model.C13M2
import WowVerif.Lemmas.C13Anim
import WowVerif.Lemmas.C13Skin
/-!
C13 — M2: relocation of preserved key-frame data keeps every track's data and every aliasing.

`relocate_reads`: for every list of preserved blobs in which equal original offsets carry equal bytes (aliasing is
genuine), every blob's original offset is mapped, and at the mapped offset the written data section holds exactly that
blob — whether the blob was written by this track or shared with an earlier one. `relocate_alias`: blobs with equal
original offsets get equal new offsets (shared data stays shared). `emit_bounded`: nothing is written twice: the data
section is no longer than the sum of the blob lengths. No bound on the number of tracks or blob sizes.
Content equality of whole models across write→parse→write and conversion is decided by the oracle (it needs the real
parser); the scheme proved here is the one `M2Model::write` uses for all ten animated sections.
-/
namespace Wv.M2
open Wv

def Consistent (all : List (Nat × Bytes)) : Prop := ∀ o b b', (o, b) ∈ all → (o, b') ∈ all → b = b'

/-- every mapped offset reads its blob in `bytes` -/
def Good (all : List (Nat × Bytes)) (m : List (Nat × Nat)) (bytes : Bytes) : Prop :=
  ∀ o n, (o, n) ∈ m → ∀ b, (o, b) ∈ all → ∃ rest, bytes.drop n = b ++ rest

theorem drop_append_of (xs ys b rest : Bytes) (n : Nat) (h : xs.drop n = b ++ rest) :
    ∃ rest', (xs ++ ys).drop n = b ++ rest' := by
  refine ⟨rest ++ ys.drop (n - xs.length), ?_⟩
  rw [List.drop_append, h, List.append_assoc]

theorem seen_iff (m : List (Nat × Nat)) (o : Nat) : (m.find? (·.1 == o)).isSome = (m.map (·.1)).contains o := by
  induction m with
  | nil => rfl
  | cons p r ih =>
    simp only [List.find?_cons, List.map_cons, List.contains_cons]
    by_cases h : p.1 = o
    · simp [h]
    · have h' : (p.1 == o) = false := by simpa using h
      have h'' : (o == p.1) = false := by simpa using (fun e => h e.symm)
      simp [h', h'', ih]

theorem assign_go (all : List (Nat × Bytes)) (hc : Consistent all) (pfx0 : Bytes) (blobs : List (Nat × Bytes))
    (hsub : ∀ p ∈ blobs, p ∈ all) (m : List (Nat × Nat)) (acc : Bytes) (hg : Good all m (pfx0 ++ acc)) :
    Good all (assign (pfx0.length + acc.length) m blobs) (pfx0 ++ acc ++ emit (m.map (·.1)) blobs) ∧
    (∀ q ∈ m, q ∈ assign (pfx0.length + acc.length) m blobs) ∧
    (∀ p ∈ blobs, ∃ n, (p.1, n) ∈ assign (pfx0.length + acc.length) m blobs) := by
  induction blobs generalizing m acc with
  | nil =>
    simp only [assign, emit, List.append_nil]
    exact ⟨hg, fun q hq => hq, fun p hp => by cases hp⟩
  | cons p rest ih =>
    obtain ⟨o, b⟩ := p
    have hsub' : ∀ q ∈ rest, q ∈ all := fun q hq => hsub q (by simp [hq])
    by_cases hs : (m.find? (·.1 == o)).isSome = true
    · have hs2 : (m.map (·.1)).contains o = true := by rw [← seen_iff]; exact hs
      simp only [assign, hs, if_true, emit, hs2]
      obtain ⟨h1, h2, h3⟩ := ih hsub' m acc hg
      refine ⟨h1, h2, ?_⟩
      intro q hq
      simp only [List.mem_cons] at hq
      cases hq with
      | inl hq =>
        subst hq
        obtain ⟨t, ht⟩ := Option.isSome_iff_exists.mp hs
        have hm := List.mem_of_find?_eq_some ht
        have hk := List.find?_some ht
        simp only [beq_iff_eq] at hk
        exact ⟨t.2, h2 _ (by rw [← hk]; exact hm)⟩
      | inr hq => exact h3 q hq
    · have hs' : (m.find? (·.1 == o)).isSome = false := Bool.eq_false_iff.mpr hs
      have hs2 : (m.map (·.1)).contains o = false := by rw [← seen_iff]; exact hs'
      simp only [assign, hs', Bool.false_eq_true, if_false, emit, hs2]
      -- the state after appending blob b at the current position
      have hg' : Good all (m ++ [(o, pfx0.length + acc.length)]) (pfx0 ++ (acc ++ b)) := by
        intro o' n hmem b' hb'
        rw [List.mem_append] at hmem
        cases hmem with
        | inl hmem =>
          obtain ⟨r, hr⟩ := hg o' n hmem b' hb'
          have := drop_append_of (pfx0 ++ acc) b b' r n hr
          simpa [List.append_assoc] using this
        | inr hmem =>
          simp only [List.mem_singleton, Prod.mk.injEq] at hmem
          obtain ⟨rfl, rfl⟩ := hmem
          have hbb : b' = b := hc o' b' b hb' (hsub (o', b) (by simp))
          subst hbb
          refine ⟨[], ?_⟩
          rw [← List.append_assoc, List.drop_left' (by simp), List.append_nil]
      have hlen : pfx0.length + (acc ++ b).length = pfx0.length + acc.length + b.length := by simp; omega
      obtain ⟨h1, h2, h3⟩ := ih hsub' (m ++ [(o, pfx0.length + acc.length)]) (acc ++ b) hg'
      rw [hlen] at h1 h2 h3
      have hkeys : (m ++ [(o, pfx0.length + acc.length)]).map (·.1) = m.map (·.1) ++ [o] := by simp
      rw [hkeys] at h1
      refine ⟨by simpa [List.append_assoc] using h1, fun q hq => h2 q (by simp [hq]), ?_⟩
      intro q hq
      simp only [List.mem_cons] at hq
      cases hq with
      | inl hq => subst hq; exact ⟨pfx0.length + acc.length, h2 (o, pfx0.length + acc.length) (by simp)⟩
      | inr hq => exact h3 q hq

theorem lookupNew_mem (m : List (Nat × Nat)) (o n : Nat) (h : lookupNew m o = some n) : (o, n) ∈ m := by
  unfold lookupNew at h
  cases hf : m.find? (·.1 == o) with
  | none => simp [hf] at h
  | some t =>
    simp only [hf, Option.map_some, Option.some.injEq] at h
    have hm := List.mem_of_find?_eq_some hf
    have hk := List.find?_some hf
    simp only [beq_iff_eq] at hk
    cases t with
    | mk a c => simp only at hk h; subst hk; subst h; exact hm

theorem lookupNew_of_key (m : List (Nat × Nat)) (o n : Nat) (h : (o, n) ∈ m) : ∃ n', lookupNew m o = some n' := by
  unfold lookupNew
  cases hf : m.find? (·.1 == o) with
  | some t => exact ⟨t.2, rfl⟩
  | none =>
    have := List.find?_eq_none.mp hf (o, n) h
    simp at this

/-- **Relocation keeps every blob readable at its new offset.** `pfx` is everything written before the key-frame data
    (header, earlier sections, the track records themselves); `start = pfx.length` is where the data begins. -/
theorem relocate_reads (blobs : List (Nat × Bytes)) (hc : Consistent blobs) (pfx : Bytes) :
    ∀ p ∈ blobs, ∃ n, lookupNew (assign pfx.length [] blobs) p.1 = some n ∧
      ∃ rest, (pfx ++ emit [] blobs).drop n = p.2 ++ rest := by
  intro p hp
  have hg0 : Good blobs [] (pfx ++ []) := by intro o n h; cases h
  obtain ⟨h1, _, h3⟩ := assign_go blobs hc pfx blobs (fun q hq => hq) [] [] hg0
  simp only [List.length_nil, Nat.add_zero, List.map_nil, List.append_nil] at h1 h3
  obtain ⟨n0, hn0⟩ := h3 p hp
  obtain ⟨n, hn⟩ := lookupNew_of_key _ p.1 n0 hn0
  refine ⟨n, hn, ?_⟩
  exact h1 p.1 n (lookupNew_mem _ _ _ hn) p.2 (by cases p; exact hp)

/-- **Aliasing is preserved**: tracks that referred to the same original offset refer to the same new offset -/
theorem relocate_alias (start : Nat) (blobs : List (Nat × Bytes)) (p q : Nat × Bytes) (h : p.1 = q.1) :
    lookupNew (assign start [] blobs) p.1 = lookupNew (assign start [] blobs) q.1 := by rw [h]

/-- **Nothing is written twice**: the data section is at most as long as all blobs together -/
theorem emit_bounded (seen : List Nat) (blobs : List (Nat × Bytes)) :
    (emit seen blobs).length ≤ (blobs.map (·.2.length)).sum := by
  induction blobs generalizing seen with
  | nil => simp [emit]
  | cons p rest ih =>
    obtain ⟨o, b⟩ := p
    simp only [emit, List.map_cons, List.sum_cons]
    split
    · have := ih seen; omega
    · have := ih (seen ++ [o]); simp only [List.length_append]; omega

/-! ## non-vacuity: two tracks sharing a time line, each with its own values -/
example : relocated 100 [(0x1000, [1, 2]), (0x1100, [3, 4, 5]), (0x1000, [1, 2]), (0x1200, [6])] = [some 100, some 102, some 100, some 105] := by decide
example : emit [] [(0x1000, [1, 2]), (0x1100, [3, 4, 5]), (0x1000, [1, 2]), (0x1200, [6])] = [1, 2, 3, 4, 5, 6] := by decide

/-! ## animation files (Model.C13Anim: the modern .anim container at the level of 32-bit words) -/

/-- AN ANIMATION SECTION SURVIVES WRITE → PARSE wherever it lies in the file: with the size the writer records in the
    entry table (header plus one offset per bone) the reader returns the section — a bone without tracks as the empty
    bone — and stops exactly at the section's end -/
theorem anim_section_roundtrip (pos : Nat) (s : Anim.Section) (h : ∀ b ∈ s.bones, Anim.BoneOk b) (rest : List Nat) :
    Anim.parseSection (Anim.entrySize s) (Anim.writeSection pos s ++ rest) = some (s.norm, rest) :=
  Anim.section_roundtrip pos s h rest

/-- A WHOLE ANIMATION FILE SURVIVES WRITE → PARSE: header words, every section found through its entry (id, offset, size),
    for any number of sections, bones and keys (each track with as many values as time stamps) -/
theorem anim_file_roundtrip (f : Anim.File) (h : ∀ s ∈ f.sections, ∀ b ∈ s.bones, Anim.BoneOk b) :
    Anim.parseFile (Anim.writeFile f) = some f.norm := Anim.file_roundtrip f h

/-! non-vacuity: two bones, one without tracks (its id is not stored), one with a translation and an empty rotation track -/
example : Anim.parseFile (Anim.writeFile { version := 1, unknown := 0, sections := [{ id := 4, start := 0, stop := 100, bones :=
    [{ id := 7, t := none, r := none, s := none }, { id := 2, t := some { ts := [0, 50], vals := [1, 2, 3, 4, 5, 6] }, r := some { ts := [], vals := [] }, s := none }] }] })
  = some { version := 1, unknown := 0, sections := [{ id := 4, start := 0, stop := 100, bones :=
    [{ id := 0, t := none, r := none, s := none }, { id := 2, t := some { ts := [0, 50], vals := [1, 2, 3, 4, 5, 6] }, r := some { ts := [], vals := [] }, s := none }] }] } := by decide +kernel

/-! ### skin files: the five data sections (Model.C13Skin = SkinG::write's offset bookkeeping) -/

/-- SKIN SECTION OFFSETS: for any element counts, the (non-empty) sections named by the recorded offsets follow the header
    one after the other without gap or overlap up to the end of the file, whose size is header + all section bytes; one
    offset per section; an empty section is recorded with offset 0 -/
theorem skin_sections_tile (hdr nIdx nTri nBone nSub nBatch : Nat) :
    Water.Tiles hdr (Skin.regions (Skin.sectionBytes nIdx nTri nBone nSub nBatch) (Skin.lay hdr (Skin.sectionBytes nIdx nTri nBone nSub nBatch)).1)
      (Skin.lay hdr (Skin.sectionBytes nIdx nTri nBone nSub nBatch)).2 ∧
    (Skin.lay hdr (Skin.sectionBytes nIdx nTri nBone nSub nBatch)).1.length = 5 ∧
    (Skin.lay hdr (Skin.sectionBytes nIdx nTri nBone nSub nBatch)).2 = hdr + 2 * nIdx + 2 * nTri + nBone + 48 * nSub + 24 * nBatch := by
  refine ⟨(Skin.lay_tiles _ hdr).1, by rw [(Skin.lay_tiles _ hdr).2]; rfl, ?_⟩
  rw [Skin.lay_end]; simp [Skin.sectionBytes]; omega

/-- a skin section is recorded with offset 0 exactly when it is empty (the header is never empty): a reader that treats
    offset 0 as "absent" and the writer agree on every file -/
theorem skin_offset_zero_iff_empty (hdr nIdx nTri nBone nSub nBatch : Nat) (hh : 0 < hdr) (i : Nat) :
    (Skin.lay hdr (Skin.sectionBytes nIdx nTri nBone nSub nBatch)).1[i]? = some 0 ↔
      (Skin.sectionBytes nIdx nTri nBone nSub nBatch)[i]? = some 0 := Skin.lay_zero_iff _ hdr hh i

example : Skin.lay 60 (Skin.sectionBytes 3 9 12 0 2) = ([60, 66, 84, 0, 96], 144) := by decide

end Wv.M2
