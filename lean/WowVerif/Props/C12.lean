/-
  Props.C12 — "Writing an archive is all-or-nothing at the destination path".
  Stated over ANY operation trace of the safe shape (what the strace tie checks the implementation's real
  system-call trace against), for every crash point k and every initial file system.
  Assumption named in the model: `rename` replaces the destination atomically (it is one step of `apply`).
-/
import WowVerif.Model.C12Fs
namespace Wv.C12
open Wv.Fs

theorem apply_untouched (fs : Fs) (op : FsOp) (d : Path) (h : touches d op = false) : apply fs op d = fs d := by
  cases op with
  | create p =>
    simp only [touches, beq_eq_false_iff_ne, ne_eq] at h
    have : ¬ d = p := fun e => h e.symm
    simp [apply, this]
  | write p tok =>
    simp only [touches, beq_eq_false_iff_ne, ne_eq] at h
    have : ¬ d = p := fun e => h e.symm
    simp [apply, this]
  | rename s t =>
    simp only [touches, Bool.or_eq_false_iff, beq_eq_false_iff_ne, ne_eq] at h
    have h1 : ¬ d = s := fun e => h.1 e.symm
    have h2 : ¬ d = t := fun e => h.2 e.symm
    simp [apply, h1, h2]
  | unlink p =>
    simp only [touches, beq_eq_false_iff_ne, ne_eq] at h
    have : ¬ d = p := fun e => h e.symm
    simp [apply, this]
  | read p => rfl

theorem run_untouched (ops : List FsOp) (fs : Fs) (d : Path) (h : ops.all (fun o => !touches d o) = true) :
    run ops fs d = fs d := by
  induction ops generalizing fs with
  | nil => rfl
  | cons op ops ih =>
    simp only [List.all_cons, Bool.and_eq_true, Bool.not_eq_true'] at h
    simp only [run, List.foldl_cons]
    have := ih (apply fs op) (by simpa using h.2)
    simp only [run] at this
    rw [this, apply_untouched fs op d h.1]

/-- CRASH INVARIANT: for a trace of the safe shape, after ANY prefix (the process dying at any system call) the
    destination holds either exactly what it held before, or exactly what the temp file held at the moment of the
    rename — never a mixture, never a partial file. -/
theorem crash_all_or_nothing (dest : Path) (ops : List FsOp) (h : safeShape dest ops = true) (fs0 : Fs) (k : Nat) :
    run (ops.take k) fs0 dest = fs0 dest ∨
    ∃ pre s rest, ops = pre ++ .rename s dest :: rest ∧ run (ops.take k) fs0 dest = run pre fs0 s := by
  induction ops generalizing fs0 k with
  | nil => left; simp [run]
  | cons op rest ih =>
    cases k with
    | zero => left; simp [run]
    | succ k =>
      simp only [List.take_succ_cons, run, List.foldl_cons]
      -- is `op` the rename onto dest?
      by_cases hop : ∃ s, op = .rename s dest
      · obtain ⟨s, rfl⟩ := hop
        simp only [safeShape, beq_self_eq_true, if_true, Bool.and_eq_true, bne_iff_ne, ne_eq] at h
        right
        refine ⟨[], s, rest, rfl, ?_⟩
        have hr := run_untouched (rest.take k) (apply fs0 (.rename s dest)) dest
          (by
            have := h.2
            rw [List.all_eq_true] at this ⊢
            intro o ho; exact this o (List.mem_of_mem_take ho))
        simp only [run] at hr
        rw [hr]; simp [apply, run]
      · -- `op` does not touch dest; recurse with the updated file system
        have hnt : touches dest op = false ∧ safeShape dest rest = true := by
          cases op with
          | rename s t =>
            have ht : (t == dest) = false := by
              cases hh : (t == dest) with
              | false => rfl
              | true => exact absurd ⟨s, by rw [beq_iff_eq.mp hh]⟩ hop
            simp only [safeShape, ht, Bool.false_eq_true, if_false, Bool.and_eq_true, Bool.not_eq_true'] at h
            exact ⟨by simp [touches, ht, h.1], h.2⟩
          | create p => simpa [safeShape] using h
          | write p tok => simpa [safeShape] using h
          | unlink p => simpa [safeShape] using h
          | read p => simpa [safeShape] using h
        have hstep := apply_untouched fs0 op dest hnt.1
        rcases ih hnt.2 (apply fs0 op) k with hk | ⟨pre, s, rest', hsplit, hk⟩
        · left; simp only [run] at hk; rw [hk, hstep]
        · right
          refine ⟨op :: pre, s, rest', by rw [hsplit]; rfl, ?_⟩
          simp only [run, List.foldl_cons] at hk ⊢
          exact hk

/-- ERROR PATH: a build that fails before its rename (the trace then has no rename onto dest, and cleanup only
    unlinks the temp file) leaves the destination exactly as it was, whatever else it did -/
theorem error_leaves_dest (dest : Path) (ops : List FsOp) (h : ops.all (fun o => !touches dest o) = true) (fs0 : Fs) :
    run ops fs0 dest = fs0 dest := run_untouched ops fs0 dest h

/-- COMPLETE: when the whole trace ran, the destination holds exactly what the temp file held at the rename -/
theorem complete_is_temp (dest : Path) (pre rest : List FsOp) (s : Path) (fs0 : Fs)
    (hrest : rest.all (fun o => !touches dest o) = true) :
    run (pre ++ .rename s dest :: rest) fs0 dest = run pre fs0 s := by
  have := run_untouched rest (apply (run pre fs0) (.rename s dest)) dest hrest
  simp only [run, List.foldl_append, List.foldl_cons] at this ⊢
  rw [this]; simp [apply]

/-! non-vacuity: the builder's trace shape (create temp 7, three writes, rename 7 → 1, unlink attempt) -/
example : safeShape 1 [.create 7, .write 7 0, .read 7, .write 7 1, .write 7 2, .rename 7 1, .unlink 7] = true := by decide
example : safeShape 1 [.create 7, .write 1 0, .rename 7 1] = false := by decide

end Wv.C12
