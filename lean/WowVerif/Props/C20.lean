/-
  Props.C20 — "The command-line tool's exit status and outputs tell the truth" (decision logic).
  The model is deliberately tiny: the proof obligation is that for EVERY outcome the exit status is a function of
  the failure facts in the right direction; the tie (running the real binary) is where the weight is.
-/
import WowVerif.Model.C20Cli
namespace Wv.C20
open Wv.Cli

/-- EXIT 0 ⇒ COMPLETE: a zero exit without error-skipping means the input opened, nothing fatal happened and every
    requested item was produced -/
theorem exit0_means_complete (o : Outcome) (h : exitStatus (.extract false) o = 0) :
    o.opened = true ∧ o.fatal = false ∧ o.failed = 0 ∧ produced o = o.items := by
  simp only [exitStatus, Bool.not_false, Bool.true_and] at h
  by_cases hof : (!o.opened || o.fatal) = true
  · simp [hof] at h
  · simp only [hof, Bool.false_eq_true, if_false] at h
    simp only [Bool.or_eq_true, Bool.not_eq_true', not_or, Bool.not_eq_false] at hof
    have hf : o.failed = 0 := by
      by_cases hz : o.failed > 0
      · simp [hz] at h
      · omega
    exact ⟨hof.1, by simpa using hof.2, hf, by simp [produced, hf]⟩

/-- FAILURE ⇒ NON-ZERO, every row of the sub-command table: an input that does not open, a fatal I/O error, a
    failed validation, or a failed extraction without error-skipping -/
theorem failure_means_nonzero (c : Cmd) (o : Outcome)
    (h : o.opened = false ∨ o.fatal = true ∨ (c = .validate ∧ o.failed > 0) ∨ (c = .extract false ∧ o.failed > 0)) :
    exitStatus c o ≠ 0 := by
  unfold exitStatus
  rcases h with h | h | ⟨hc, hf⟩ | ⟨hc, hf⟩
  · simp [h]
  · simp [h]
  · subst hc; split <;> simp_all
  · subst hc; split <;> simp_all

/-- with error-skipping, failed items do not fail the call, and the other items are still produced -/
theorem skip_isolates (o : Outcome) (h1 : o.opened = true) (h2 : o.fatal = false) :
    exitStatus (.extract true) o = 0 ∧ produced o = o.items - o.failed := by
  simp [exitStatus, h1, h2, produced]

/-! non-vacuity -/
example : exitStatus .validate ⟨true, 5, 1, false⟩ = 1 := by decide
example : exitStatus (.extract false) ⟨true, 5, 0, false⟩ = 0 := by decide

end Wv.C20
