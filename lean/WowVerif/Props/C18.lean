/-
  Props.C18 — "WDT and WDL map files survive write→parse; tile↔world coordinates invert".
-/
import WowVerif.Lemmas.C18
import WowVerif.Model.C18Coord
import WowVerif.Model.C18Records
import WowVerif.Lemmas.Record
namespace Wv.C18
open Wv Wv.Iff

/-! ### coordinates (binary32, round-to-nearest-even, computed exactly by Lib.SoftF32) -/

/-- one axis: converting a tile index to a world coordinate and back returns the index, for all 64 indices -/
theorem axis_roundtrip : ∀ t, t < 64 → (Coord.axisToWorld t).bind Coord.axisToTile = some t := by decide +kernel

/-- FULL STATEMENT: world_to_tile (tile_to_world (x, y)) = (x, y) for all 64×64 tiles -/
theorem tile_world_tile (x y : Nat) (hx : x < 64) (hy : y < 64) :
    (Coord.tileToWorld x y).bind (fun w => Coord.worldToTile w.1 w.2) = some (x, y) := by
  have ax := axis_roundtrip x hx
  have ay := axis_roundtrip y hy
  unfold Coord.tileToWorld Coord.worldToTile
  cases hwy : Coord.axisToWorld y with
  | none => simp [hwy] at ay
  | some wy =>
    cases hwx : Coord.axisToWorld x with
    | none => simp [hwx] at ax
    | some wx =>
      simp only [hwx, hwy, Option.bind_some] at ax ay
      simp [ax, ay]

/-- the constants the model computes are the f32 constants of the code (bit patterns) -/
example : Coord.mapSize = 0x44055555 ∧ Coord.mapOffset = 0x46855555 := by decide +kernel

/-! ### chunk framing (shared with C14 / C15) -/

/-- an independent chunk walker recovers exactly what was serialised -/
theorem walk_serialize (cs : List Chunk) (h : ∀ c ∈ cs, WF c) : walkAll (serialize cs) = .done cs :=
  Iff.walk_serialize cs h
/-- framing tiles the file exactly -/
theorem serialize_length (cs : List Chunk) (h : ∀ c ∈ cs, WF c) :
    (serialize cs).length = (cs.map fun c => 8 + c.data.length).sum := Iff.serialize_length cs h

/-! ### WDT -/

/-- parse (write w) returns w (with the version re-detected from chunk presence and flags), for every
    well-formed map definition and every reader hint -/
theorem wdt_read_write (hint : Nat) (w : Wdt.Wdt) (h : Wdt.WellFormed w) :
    Wdt.read hint (Wdt.write w) = .ok (Wdt.readBack hint w) := Wdt.wdt_read_write hint w h

/-- a second write of the parsed value is byte-identical: the re-detected version emits the same chunk set -/
theorem wdt_second_write (hint : Nat) (w : Wdt.Wdt) (h : Wdt.WellFormed w) :
    Wdt.write (Wdt.readBack hint w) = Wdt.write w := Wdt.wdt_second_write hint w h

/-- the global-WMO name chunk content survives: NUL-terminated concatenation splits back into the names -/
theorem mwmo_names_roundtrip (ns : List Bytes) (h : ∀ n ∈ ns, Wdt.nameOk n = true) :
    Wdt.splitNames (Wdt.mwmoPayload ns) [] = ns := Wdt.splitNames_payload ns h

/-! ### WDL -/

/-- every MAOF entry the writer records for a present tile is the file position of that tile's MARE header -/
theorem wdl_maof_points_at_mare (hdr : List Chunk) (tiles : List Wdl.Tile)
    (hh : ∀ c ∈ hdr, WF c) (ht : ∀ t ∈ tiles, Wdl.TileOk t) :
    ∀ p ∈ Wdl.offsets (Wdl.firstOffset hdr) tiles, ∃ t ∈ tiles, t.idx = p.1 ∧
      ∃ rest, (Wdl.write hdr tiles).drop p.2 = encode ⟨Wdl.mMARE, t.mare⟩ ++ rest :=
  Wdl.wdl_maof_points_at_mare hdr tiles hh ht

/-! non-vacuity: a WotLK terrain map with an empty name chunk is well-formed (any 64·64·8-byte MAIN payload,
    e.g. `List.replicate 32768 0`, whose length is 32768 by `List.length_replicate`) -/
example (main : Bytes) (hm : main.length = 32768) :
    Wdt.WellFormed { ver := 2, mphd := natLE 4 0x0E ++ List.replicate 28 0, main := main,
                     maid := none, mwmo := some [], modf := none } := by
  refine ⟨by show (natLE 4 0x0E ++ List.replicate 28 0).length = 32; decide,
    by show Wdt.flagsOf (natLE 4 0x0E ++ List.replicate 28 0) < 65536; decide, hm, by simp, ?_, by simp⟩
  intro ns h
  simp only [Option.some.injEq] at h
  subst h
  exact ⟨by show Wdt.shouldWriteMwmo 2 (Wdt.wmoOnly (natLE 4 0x0E ++ List.replicate 28 0)) = true; decide,
    by simp, by decide⟩

/-! ### fixed-layout payloads (MPHD, MAIN entries, MODF entries) -/

/-- FIELD CODECS: for each of the three fixed layouts, any values that fit their fields are read back exactly from the bytes
    written for them, and the written record has the chunk's record size (32 / 8 / 64 bytes). The harness feeds the object's
    field values and the writer's payload bytes through the same `Rec.enc` (ops `rec`), so "the payload is this layout" is
    checked on every written file. -/
theorem wdt_payload_records_roundtrip (ws : List Nat) (hws : ws = WdtRec.mphdW ∨ ws = WdtRec.mainEntryW ∨ ws = WdtRec.modfW)
    (vs : List Nat) (hl : vs.length = ws.length) (hf : Rec.Fits (ws.zip vs)) (rest : Bytes) :
    Rec.dec ws (Rec.enc (ws.zip vs) ++ rest) = some (vs, rest) ∧
    (Rec.enc (ws.zip vs)).length = (if ws = WdtRec.mphdW then 32 else if ws = WdtRec.mainEntryW then 8 else 64) := by
  have m1 : (ws.zip vs).map (·.1) = ws := by rw [List.map_fst_zip]; omega
  have m2 : (ws.zip vs).map (·.2) = vs := by rw [List.map_snd_zip]; omega
  have h := Rec.dec_enc (ws.zip vs) rest hf
  rw [m1, m2] at h
  refine ⟨h, ?_⟩
  rw [Rec.enc_length, m1]
  rcases hws with rfl | rfl | rfl <;> decide

example : Rec.enc (WdtRec.mainEntryW.zip [1, 0x1234]) = [1, 0, 0, 0, 0x34, 0x12, 0, 0] := by decide

end Wv.C18
