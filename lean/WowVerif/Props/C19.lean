/-
  Props.C19 — "StormLib-style C API is memory-safe and agrees with the Rust API on any history" (handle logic).
  The model is the three handle tables and the per-call bookkeeping; raw pointer writes, thread interleavings and
  lock acquisition are outside it (observed by the harness: canaries, watchdog, lock-order scan).
-/
import WowVerif.Lemmas.C19
import WowVerif.Lemmas.C19Buf
import WowVerif.Lemmas.Bytes
import WowVerif.Lemmas.C19Close
import WowVerif.Gen.Locks
namespace Wv.C19
open Wv.Ffi

/-- INVARIANT after EVERY call sequence with ARBITRARY handle values (null, stale, closed, forged): ids below the
    counter, positions within the file, and every file / search handle belongs to a live archive -/
theorem inv_run (cs : List Call) : FInv (run cs) := Ffi.inv_run cs

/-- read length = min(requested, remaining): never more than the caller asked for -/
theorem read_within (s : St) (h want k : Nat) (s' : St) (e : readFile s h want = (s', .count k)) :
    k ≤ want ∧ ∃ f, lookupF s.files h = some f ∧ k ≤ f.len - f.pos := Ffi.read_within s h want k s' e

/-- positions stay inside the file whatever is seeked (both ends, negative, huge) -/
theorem pos_le_len (cs : List Call) : ∀ p ∈ (run cs).files, p.2.pos ≤ p.2.len :=
  fun p hp => ((Ffi.inv_run cs).file_ok p hp).2.2.1

/-- invalid handles are errors and change nothing -/
theorem invalid_file_handle_noop (s : St) (h : Nat) (hn : lookupF s.files h = none) (want : Nat) (off : Int) (m : Nat) :
    readFile s h want = (s, .invalidHandle) ∧ seek s h off m = (s, .invalidHandle) ∧
    fileSize s h = (s, .invalidHandle) ∧ closeFile s h = (s, .invalidHandle) :=
  Ffi.invalid_file_handle_noop s h hn want off m
theorem invalid_find_handle_noop (s : St) (h : Nat) (hn : lookupG s.finds h = none) :
    findNext s h = (s, .invalidHandle) ∧ findClose s h = (s, .invalidHandle) := Ffi.invalid_find_handle_noop s h hn

/-- closing an archive invalidates exactly its own file and search handles -/
theorem close_invalidates_exactly_own (s : St) (h : Nat) (h0 : h ≠ 0) :
    (closeArchive s h).1.files = s.files.filter (fun p => p.2.arch != h) ∧
    (closeArchive s h).1.finds = s.finds.filter (fun p => p.2.arch != h) := Ffi.close_invalidates_exactly_own s h h0

/-- no dangling handles: after any history, every file and search handle refers to an archive that is still open -/
theorem no_dangling (cs : List Call) :
    (∀ p ∈ (run cs).files, p.2.arch ∈ (run cs).archives) ∧ (∀ p ∈ (run cs).finds, p.2.arch ∈ (run cs).archives) :=
  ⟨fun p hp => ((Ffi.inv_run cs).file_ok p hp).2.2.2, fun p hp => ((Ffi.inv_run cs).find_ok p hp).2.2⟩

/-- ids are never reused -/
theorem fresh_handle (cs : List Call) :
    (run cs).next ∉ (run cs).archives ∧ (∀ p ∈ (run cs).files, p.1 ≠ (run cs).next) ∧
    (∀ p ∈ (run cs).finds, p.1 ≠ (run cs).next) := Ffi.fresh_handle _ (Ffi.inv_run cs)

/-! ### caller buffers (Model.C19Buf): nothing is written outside them -/

/-- SFileGetArchiveName: whatever is written fits the caller's `buffer_size`, is the path with its terminator — and the call
    fails (writing nothing) exactly when the buffer is empty, the path holds a NUL, or path + terminator do not fit -/
theorem archive_name_within_buffer (path : Wv.Bytes) (cap : Nat) :
    (∀ w, Wv.Buf.archiveName path cap = some w → w.length ≤ cap ∧ w = path ++ [0] ∧ 0 ∉ path) ∧
    (Wv.Buf.archiveName path cap = none ↔ cap = 0 ∨ 0 ∈ path ∨ cap < path.length + 1) :=
  ⟨fun w h => Wv.Buf.archiveName_fits path cap w h, Wv.Buf.archiveName_none_iff path cap⟩

/-- SFileGetFileName: at most MAX_PATH = 260 bytes are written for a name of ANY length, the last one a terminator -/
theorem file_name_within_max_path (name w : Wv.Bytes) (h : Wv.Buf.fileName name = some w) :
    w.length ≤ 260 ∧ w.getLast? = some 0 ∧ w.dropLast = name.take 259 := Wv.Buf.fileName_fits name w h

/-- SFILE_FIND_DATA: cFileName is filled with exactly 260 bytes ending in a terminator, and szPlainName points inside it,
    for a name of any length; behind the offset computed for the whole name there is no path separator -/
theorem find_data_within_array (name : Wv.Bytes) :
    (Wv.Buf.findData name).1.length = 260 ∧ (Wv.Buf.findData name).2 ≤ 259 ∧ (Wv.Buf.findData name).1[259]? = some 0 ∧
      92 ∉ name.drop (Wv.Buf.plainStart name) :=
  ⟨(Wv.Buf.findData_inside name).1, (Wv.Buf.findData_inside name).2.1, (Wv.Buf.findData_inside name).2.2.1,
   Wv.Buf.plainStart_no_sep name⟩

/-- SFileGetFileInfo: a value of `need` bytes is written only into a buffer of at least `need` bytes, and then exactly
    `need` bytes are written -/
theorem info_within_buffer (need value cap : Nat) :
    (∀ w, Wv.Buf.info need value cap = some w → w.length = need ∧ need ≤ cap) ∧
    (Wv.Buf.info need value cap = none ↔ cap < need) := by
  unfold Wv.Buf.info
  constructor
  · intro w h
    by_cases hc : cap ≥ need
    · rw [if_pos hc] at h; simp only [Option.some.injEq] at h; subst h
      exact ⟨Wv.natLE_length need value, hc⟩
    · rw [if_neg hc] at h; cases h
  · by_cases hc : cap ≥ need
    · simp [hc]
    · simp [hc]; omega

example : Wv.Buf.archiveName [97, 98] 3 = some [97, 98, 0] ∧ Wv.Buf.archiveName [97, 98] 2 = none := by decide
example : Wv.Buf.plainStart [97, 92, 98, 92, 99, 100] = 4 := by decide

/-! ### closing an archive while other threads open files and searches on it (Model.C19Close) -/

/-- EVERY SCHEDULE: whatever the interleaving of SFileCloseArchive's three lock-protected sections with any number of
    SFileOpenFileEx calls and SFileFindFirstFile calls (each three sections) on the same archive, once the close has
    finished no file handle on the archive exists, and every search handle still stored belongs to a search that has not
    yet executed its final look-up (which will drop it). In particular, when no search is in flight, NOTHING outlives the
    archive: "closing an archive invalidates exactly its own file and search handles", for any number of threads. -/
theorem close_leaves_nothing (sched : List Wv.Close.Act) (hc : (Wv.Close.run true true sched).closePc = 3) :
    (Wv.Close.run true true sched).arch = false ∧ (Wv.Close.run true true sched).files = 0 ∧
    (∀ t ∈ (Wv.Close.run true true sched).finds, (Wv.Close.run true true sched).pc t = 2) ∧
    ((∀ t, (Wv.Close.run true true sched).pc t ≠ 2) → (Wv.Close.run true true sched).finds = []) := by
  have inv := Wv.Close.inv_run sched
  refine ⟨inv.gone (by omega), inv.nofiles (by omega), inv.pending (by omega), fun hno => ?_⟩
  cases hf : (Wv.Close.run true true sched).finds with
  | nil => rfl
  | cons t rest => exact absurd (inv.pending (by omega) t (by rw [hf]; simp)) (hno t)

/-- the order used before repair D70 (purge the handles, THEN remove the archive) is not safe: a schedule of four steps
    leaves a file handle behind (kernel-evaluated witness; the same schedule was observed on the real code) -/
theorem old_close_order_leaves_file_handle :
    (Wv.Close.run false true [.close, .openFile, .close, .close]).closePc = 3 ∧
    (Wv.Close.run false true [.close, .openFile, .close, .close]).files = 1 := by decide

/-- … and without the final look-up of SFileFindFirstFile a search handle survives even with the archive removed first -/
theorem search_without_recheck_leaves_handle :
    (Wv.Close.run true false [.find 7, .close, .close, .close, .find 7, .find 7]).closePc = 3 ∧
    (Wv.Close.run true false [.find 7, .close, .close, .close, .find 7, .find 7]).finds = [7] ∧
    (Wv.Close.run true false [.find 7, .close, .close, .close, .find 7, .find 7]).pc 7 = 3 := by decide

/-! non-vacuity: a schedule in which the close finishes with opens and a search interleaved -/
example : (Wv.Close.run true true [.openFile, .find 1, .close, .openFile, .find 1, .close, .close, .find 1]).closePc = 3 ∧
    (Wv.Close.run true true [.openFile, .find 1, .close, .openFile, .find 1, .close, .close, .find 1]).finds = [] := by decide

/-- THE SOURCE HAS THE SHAPE THE CLOSE MODEL ASSUMES (facts re-extracted from ffi/storm-ffi/src/lib.rs on every run):
    SFileCloseArchive empties the archive table first, then the file handles, then the search handles; SFileFindFirstFile
    looks the archive up again after storing its handle; SFileOpenFileEx keeps the archive table locked until its handle is
    stored (so it is one atomic step of the model) -/
theorem close_protocol_as_modelled :
    Gen.closeSections = [1, 2, 3] ∧ Gen.findRechecks = true ∧ Gen.openFileAtomic = true := by decide

/-- LOCK ORDER: the acquisition graph extracted from the C API's current source (regenerated every run) has no
    cycle — checked as "edges respect a strict ranking of the four global mutexes" -/
theorem lock_graph_acyclic : Gen.lockEdgesAcyclic = true := by decide

end Wv.C19
