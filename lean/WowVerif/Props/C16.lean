import WowVerif.Model.C16Blp
import WowVerif.Lemmas.C16Header
import WowVerif.Lemmas.C16HeaderNormal
/-!
C16 — BLP encode→parse is exact; lossless encodings preserve pixels.

Theorems about the header arithmetic, the level layout and the alpha packing (all sizes, no bound on dimensions other
than the 16-level cap the format itself has):
* `chain_get`, `chain_length`, `chain_last` — the generated mip chain has `mipCount + 1` levels, level `i` is
  `(max (w / 2^i) 1, max (h / 2^i) 1)` = `mipSize`, and the last level is 1x1;
* `layout_sizes`, `layout_inside`, `layout_disjoint` — the offsets/sizes the locator receives tile the region behind the
  header without overlap and stay inside it;
* `unpack1_pack1`, `unpack4_pack4`, `pack1_length`, `pack4_length` — alpha packing at 1 and 4 bits followed by the
  decoder's unpacking yields the source alpha quantised to the declared depth, for every pixel count (also when it is
  not a multiple of 8 resp. 2).
-/
namespace Wv.Blp
open Wv

/-! ## mip chain -/

theorem log2_halve (w : Nat) : Nat.log2 (max (w / 2) 1) = Nat.log2 w - 1 := by
  by_cases h : 2 ≤ w
  · have h2 : 1 ≤ w / 2 := by omega
    rw [Nat.max_eq_left h2, Nat.log2_def w, if_pos h]; omega
  · have : w / 2 = 0 := by omega
    rw [this, Nat.log2_def w, if_neg h]
    decide

theorem log2_small (w : Nat) (h : w ≤ 1) : Nat.log2 w = 0 := by
  rw [Nat.log2_def]; simp; omega

theorem chainGo_length (fuel w h : Nat) (hf : max (Nat.log2 w) (Nat.log2 h) ≤ fuel) :
    (chainGo fuel w h).length = max (Nat.log2 w) (Nat.log2 h) + 1 := by
  induction fuel generalizing w h with
  | zero =>
    have : max (Nat.log2 w) (Nat.log2 h) = 0 := by omega
    simp [chainGo, this]
  | succ f ih =>
    unfold chainGo
    split
    · rename_i hc
      rw [log2_small w hc.1, log2_small h hc.2]; rfl
    · rename_i hc
      have hw := log2_halve w
      have hh := log2_halve h
      have hpos : 1 ≤ max (Nat.log2 w) (Nat.log2 h) := by
        by_cases h2 : 2 ≤ w
        · have : 1 ≤ Nat.log2 w := by rw [Nat.log2_def, if_pos h2]; omega
          omega
        · have h3 : 2 ≤ h := by omega
          have : 1 ≤ Nat.log2 h := by rw [Nat.log2_def, if_pos h3]; omega
          omega
      rw [List.length_cons, ih _ _ (by rw [hw, hh]; omega), hw, hh]
      omega

theorem halve_pow (w i : Nat) (hw : 1 ≤ w) : max (max (w / 2) 1 / 2 ^ i) 1 = max (w / 2 ^ (i + 1)) 1 := by
  by_cases h : 2 ≤ w
  · have h2 : 1 ≤ w / 2 := by omega
    rw [Nat.max_eq_left h2, Nat.div_div_eq_div_mul, Nat.pow_succ, Nat.mul_comm]
  · have h1 : w = 1 := by omega
    subst h1
    have p1 : 1 ≤ 2 ^ i := Nat.one_le_two_pow
    have p2 : 2 ≤ 2 ^ (i + 1) := by rw [Nat.pow_succ]; omega
    have e2 : 1 / 2 ^ (i + 1) = 0 := Nat.div_eq_of_lt (by omega)
    rw [e2]
    have : (max (1 / 2) 1) = 1 := by decide
    rw [this]
    have : 1 / 2 ^ i ≤ 1 := Nat.div_le_self _ _
    omega

theorem chainGo_get (fuel w h i : Nat) (hw : 1 ≤ w) (hh : 1 ≤ h) (hi : i < (chainGo fuel w h).length) :
    (chainGo fuel w h)[i]? = some (max (w / 2 ^ i) 1, max (h / 2 ^ i) 1) := by
  induction fuel generalizing w h i with
  | zero =>
    simp [chainGo] at hi ⊢
    subst hi
    simp; omega
  | succ f ih =>
    unfold chainGo at hi ⊢
    split at hi
    · rename_i hc
      rw [if_pos hc]
      simp at hi; subst hi
      simp; omega
    · rename_i hc
      rw [if_neg hc]
      cases i with
      | zero => simp; omega
      | succ i =>
        simp only [List.getElem?_cons_succ]
        rw [ih _ _ i (by omega) (by omega) (by simpa using hi)]
        rw [halve_pow w i hw, halve_pow h i hh]

/-- **The chain is the header's `mipmap_size` table** -/
theorem chain_get (w h i : Nat) (hw : 1 ≤ w) (hh : 1 ≤ h) (hi : i < (chain w h true).length) :
    (chain w h true)[i]? = some (mipSize w h i) := by
  unfold chain at hi ⊢
  simp only [if_true] at hi ⊢
  rw [chainGo_get 15 w h i hw hh hi]
  unfold mipSize
  cases i with
  | zero => simp; omega
  | succ i => simp [Nat.shiftRight_eq_div_pow]

/-- **One level per halving of the larger side** (dimensions below 65536, the format's limit) -/
theorem chain_length (w h : Nat) (hw : w < 65536) (hh : h < 65536) :
    (chain w h true).length = mipCount w h true + 1 := by
  unfold chain mipCount
  simp only [if_true]
  apply chainGo_length
  have bound : ∀ x, x < 65536 → Nat.log2 x ≤ 15 := by
    intro x hx
    by_cases h0 : x = 0
    · subst h0; decide
    · have := (Nat.log2_lt h0 (k := 16)).mpr (by simpa using hx)
      omega
  have := bound w hw; have := bound h hh
  omega

/-- **The chain ends at 1x1** -/
theorem chain_last (w h : Nat) (hw : 1 ≤ w) (hh : 1 ≤ h) (hw' : w < 65536) (hh' : h < 65536) :
    (chain w h true)[mipCount w h true]? = some (1, 1) := by
  have hl := chain_length w h hw' hh'
  rw [chain_get w h _ hw hh (by omega)]
  have hc : mipCount w h true = max (Nat.log2 w) (Nat.log2 h) := by simp [mipCount]
  rw [hc]
  have lw : w < 2 ^ (Nat.log2 w + 1) := Nat.lt_log2_self
  have lh : h < 2 ^ (Nat.log2 h + 1) := Nat.lt_log2_self
  generalize max (Nat.log2 w) (Nat.log2 h) = L at *
  have hLw : Nat.log2 w ≤ L ∧ Nat.log2 h ≤ L := by
    rw [← hc]; simp [mipCount]; omega
  have hwL : w < 2 ^ (L + 1) := Nat.lt_of_lt_of_le lw (Nat.pow_le_pow_right (by decide) (by omega))
  have hhL : h < 2 ^ (L + 1) := Nat.lt_of_lt_of_le lh (Nat.pow_le_pow_right (by decide) (by omega))
  have dw : w / 2 ^ L ≤ 1 := by
    have : w / 2 ^ L < 2 := by rw [Nat.div_lt_iff_lt_mul (Nat.two_pow_pos L)]; rw [Nat.pow_succ] at hwL; omega
    omega
  have dh : h / 2 ^ L ≤ 1 := by
    have : h / 2 ^ L < 2 := by rw [Nat.div_lt_iff_lt_mul (Nat.two_pow_pos L)]; rw [Nat.pow_succ] at hhL; omega
    omega
  have e1 : max (w / 2 ^ L) 1 = 1 := by omega
  have e2 : max (h / 2 ^ L) 1 = 1 := by omega
  unfold mipSize
  by_cases h0 : L = 0
  · subst h0
    simp at dw dh
    have : w = 1 := by omega
    have : h = 1 := by omega
    simp [*]
  · rw [if_neg h0, Nat.shiftRight_eq_div_pow, Nat.shiftRight_eq_div_pow, e1, e2]

/-! ## level layout -/

theorem layout_sizes (start : Nat) (ss : List Nat) : (layout start ss).map (·.2) = ss := by
  induction ss generalizing start with
  | nil => rfl
  | cons s rest ih => simp [layout, ih]

theorem layout_inside (start : Nat) (ss : List Nat) : ∀ p ∈ layout start ss, start ≤ p.1 ∧ p.1 + p.2 ≤ start + ss.sum := by
  induction ss generalizing start with
  | nil => intro p hp; cases hp
  | cons s rest ih =>
    intro p hp
    simp only [layout, List.mem_cons] at hp
    cases hp with
    | inl hp => subst hp; simp only [List.sum_cons]; omega
    | inr hp =>
      have := ih (start + s) p hp
      simp only [List.sum_cons]; omega

/-- **No two levels overlap**: every level ends where (or before) any later one begins -/
theorem layout_disjoint (start : Nat) (ss : List Nat) : (layout start ss).Pairwise fun p q => p.1 + p.2 ≤ q.1 := by
  induction ss generalizing start with
  | nil => exact List.Pairwise.nil
  | cons s rest ih =>
    simp only [layout]
    refine List.Pairwise.cons ?_ (ih (start + s))
    intro q hq
    exact (layout_inside (start + s) rest q hq).1

/-! ## alpha packing -/

theorem chunksOf_get {α : Type} (k f : Nat) (l : List α) (i : Nat) (d : α) (hk : 0 < k) (hf : l.length ≤ f) (hi : i < l.length) :
    ((chunksOf k f l).getD (i / k) []).getD (i % k) d = l.getD i d := by
  induction f generalizing l i with
  | zero => omega
  | succ f ih =>
    have hne : l ≠ [] := by intro h; subst h; simp at hi
    unfold chunksOf
    rw [if_neg hne]
    by_cases hik : i < k
    · rw [Nat.div_eq_of_lt hik, Nat.mod_eq_of_lt hik]
      simp only [List.getD_cons_zero]
      simp [List.getD_eq_getElem?_getD, List.getElem?_take_of_lt hik]
    · have hge : k ≤ i := by omega
      have hd : i / k = (i - k) / k + 1 := by
        rw [Nat.div_eq i k, if_pos ⟨hk, hge⟩]
      have hm : i % k = (i - k) % k := Nat.mod_eq_sub_mod hge
      rw [hd, hm]
      simp only [List.getD_cons_succ]
      rw [ih (l.drop k) (i - k) (by simp; omega) (by simp; omega)]
      simp [List.getD_eq_getElem?_getD, List.getElem?_drop]
      congr 2; omega

theorem chunksOf_length {α : Type} (k f : Nat) (l : List α) (hk : 0 < k) (hf : l.length ≤ f) :
    (chunksOf k f l).length = (l.length + k - 1) / k := by
  induction f generalizing l with
  | zero =>
    have : l = [] := List.eq_nil_of_length_eq_zero (by omega)
    subst this
    simp [chunksOf]
    exact (Nat.div_eq_of_lt (by omega)).symm
  | succ f ih =>
    unfold chunksOf
    split
    · rename_i h; subst h; simp
      exact (Nat.div_eq_of_lt (by omega)).symm
    · rename_i hne
      have hpos : 0 < l.length := List.length_pos_iff.mpr hne
      rw [List.length_cons, ih (l.drop k) (by simp; omega)]
      simp only [List.length_drop]
      by_cases hlk : l.length ≤ k
      · have e1 : l.length - k = 0 := by omega
        rw [e1]
        have : (0 + k - 1) / k = 0 := Nat.div_eq_of_lt (by omega)
        rw [this]
        have : (l.length + k - 1) / k = 1 := by
          rw [Nat.div_eq_iff hk]; omega
        omega
      · have : l.length + k - 1 = (l.length - k + k - 1) + k := by omega
        rw [this, Nat.add_div_right _ hk]

theorem byteOfBits_bit (bs : List Bool) (j : Nat) : byteOfBits bs / 2 ^ j % 2 = if bs.getD j false then 1 else 0 := by
  induction bs generalizing j with
  | nil => simp [byteOfBits]
  | cons b r ih =>
    cases j with
    | zero =>
      simp only [byteOfBits, Nat.pow_zero, Nat.div_one, List.getD_cons_zero]
      cases b <;> simp <;> omega
    | succ j =>
      simp only [byteOfBits, List.getD_cons_succ]
      rw [← ih j, Nat.pow_succ, Nat.mul_comm (2 ^ j) 2, ← Nat.div_div_eq_div_mul]
      congr 2
      cases b <;> simp <;> omega

/-- **1-bit alpha round trip**: pixel `i` decodes to 255 exactly when its source alpha is non-zero -/
theorem unpack1_pack1 (as : List UInt8) (i : Nat) (hi : i < as.length) :
    unpack1 (pack1 as) i = if (as.getD i 0).toNat > 0 then 255 else 0 := by
  unfold unpack1 pack1
  have hlen : i / 8 < (chunksOf 8 as.length (as.map fun a => decide (a.toNat > 0))).length := by
    rw [chunksOf_length 8 _ _ (by decide) (by simp)]
    simp only [List.length_map]
    rw [Nat.div_lt_iff_lt_mul (by decide)]
    have := Nat.div_add_mod (as.length + 8 - 1) 8
    omega
  rw [List.getD_eq_getElem?_getD, List.getElem?_map, List.getElem?_eq_getElem hlen]
  simp only [Option.map_some, Option.getD_some, byteOfBits_bit]
  have := chunksOf_get 8 as.length (as.map fun a => decide (a.toNat > 0)) i false (by decide) (by simp) (by simpa using hi)
  rw [List.getD_eq_getElem?_getD (l := chunksOf 8 as.length _), List.getElem?_eq_getElem hlen] at this
  simp only [Option.getD_some] at this
  rw [this]
  simp only [List.getD_eq_getElem?_getD, List.getElem?_map, List.getElem?_eq_getElem hi, Option.map_some, Option.getD_some]
  by_cases h : (as[i]).toNat > 0 <;> simp [h]

theorem pack1_length (as : List UInt8) : (pack1 as).length = (as.length + 7) / 8 := by
  unfold pack1
  rw [List.length_map, chunksOf_length 8 _ _ (by decide) (by simp)]
  simp

theorem quant4_lt (a : UInt8) : quant4 a < 16 := by
  unfold quant4
  have := a.toNat_lt
  omega

theorem nibblesVal_get (ns : List Nat) (hl : ns.length ≤ 2) (hn : ∀ n ∈ ns, n < 16) :
    nibblesVal ns % 16 = ns.getD 0 0 ∧ nibblesVal ns / 16 = ns.getD 1 0 := by
  match ns, hl, hn with
  | [], _, _ => simp [nibblesVal]
  | [a], _, hn =>
    have := hn a (by simp)
    simp [nibblesVal]; omega
  | [a, b], _, hn =>
    have := hn a (by simp); have := hn b (by simp)
    simp [nibblesVal]; omega

theorem chunksOf_mem_length {α : Type} (k f : Nat) (l : List α) : ∀ c ∈ chunksOf k f l, c.length ≤ k ∧ ∀ x ∈ c, x ∈ l := by
  induction f generalizing l with
  | zero => intro c hc; simp [chunksOf] at hc
  | succ f ih =>
    intro c hc
    unfold chunksOf at hc
    split at hc
    · cases hc
    · simp only [List.mem_cons] at hc
      cases hc with
      | inl hc => subst hc; exact ⟨by simp; omega, fun x hx => List.mem_of_mem_take hx⟩
      | inr hc =>
        obtain ⟨h1, h2⟩ := ih (l.drop k) c hc
        exact ⟨h1, fun x hx => List.mem_of_mem_drop (h2 x hx)⟩

/-- **4-bit alpha round trip**: pixel `i` decodes to its source alpha quantised to 16 levels and expanded `n*17` -/
theorem unpack4_pack4 (as : List UInt8) (i : Nat) (hi : i < as.length) :
    unpack4 (pack4 as) i = quant4 (as.getD i 0) * 16 + quant4 (as.getD i 0) := by
  unfold unpack4 pack4
  have hlen : i / 2 < (chunksOf 2 as.length (as.map quant4)).length := by
    rw [chunksOf_length 2 _ _ (by decide) (by simp)]
    simp only [List.length_map]
    rw [Nat.div_lt_iff_lt_mul (by decide)]
    have := Nat.div_add_mod (as.length + 2 - 1) 2
    omega
  rw [List.getD_eq_getElem?_getD, List.getElem?_map, List.getElem?_eq_getElem hlen]
  simp only [Option.map_some, Option.getD_some]
  have hmem := chunksOf_mem_length 2 as.length (as.map quant4) _ (List.getElem_mem hlen)
  have hnib : ∀ n ∈ (chunksOf 2 as.length (as.map quant4))[i / 2], n < 16 := by
    intro n hn
    have := hmem.2 n hn
    rw [List.mem_map] at this
    obtain ⟨a, _, rfl⟩ := this
    exact quant4_lt a
  obtain ⟨g0, g1⟩ := nibblesVal_get _ hmem.1 hnib
  have hg := chunksOf_get 2 as.length (as.map quant4) i 0 (by decide) (by simp) (by simpa using hi)
  rw [List.getD_eq_getElem?_getD (l := chunksOf 2 as.length _), List.getElem?_eq_getElem hlen] at hg
  simp only [Option.getD_some] at hg
  have hsrc : (as.map quant4).getD i 0 = quant4 (as.getD i 0) := by
    simp [List.getD_eq_getElem?_getD, List.getElem?_map, List.getElem?_eq_getElem hi]
  rw [hsrc] at hg
  have hm : i % 2 = 0 ∨ i % 2 = 1 := by omega
  cases hm with
  | inl hm => rw [hm] at hg; simp only [hm, if_true]; rw [g0, hg]
  | inr hm => rw [hm] at hg; simp only [hm]; rw [if_neg (by decide), g1, hg]

theorem pack4_length (as : List UInt8) : (pack4 as).length = (as.length + 1) / 2 := by
  unfold pack4
  rw [List.length_map, chunksOf_length 2 _ _ (by decide) (by simp)]
  simp

/-! ## the header (Model.C16Header = parser/header.rs:parse_header + encode/mod.rs:encode_header) -/

/-- HEADER ENCODE → PARSE IS EXACT for BLP0, BLP1 and BLP2: every normal header (known content tag, standard alpha depth,
    known compression / alpha type, dimensions within the format's limit, a 16+16 locator exactly when the version has one)
    is written, and the parser reads back exactly that header from the written bytes, whatever follows them -/
theorem header_roundtrip (h : BlpH.Hdr) (hn : BlpH.Normal h) (rest : Bytes) :
    ∃ bs, BlpH.write h = .ok bs ∧ BlpH.parse (bs ++ rest) = .ok h := BlpH.parse_write h hn rest

/-- the written header is as long as the reader assumes when it looks for the content behind it (BlpHeader::size):
    28 / 156 / 148 bytes -/
theorem header_size (h : BlpH.Hdr) (hn : BlpH.Normal h) (bs : Bytes) (hw : BlpH.write h = .ok bs) :
    bs.length = BlpH.size h.version := BlpH.write_size h hn bs hw

/-- different normal headers are never written as the same bytes (the encoding loses nothing) -/
theorem header_write_injective (h1 h2 : BlpH.Hdr) (n1 : BlpH.Normal h1) (n2 : BlpH.Normal h2) (bs : Bytes)
    (w1 : BlpH.write h1 = .ok bs) (w2 : BlpH.write h2 = .ok bs) : h1 = h2 := by
  obtain ⟨b1, e1, p1⟩ := BlpH.parse_write h1 n1 []
  obtain ⟨b2, e2, p2⟩ := BlpH.parse_write h2 n2 []
  rw [w1] at e1; rw [w2] at e2
  simp only [Except.ok.injEq] at e1 e2
  subst e1; subst e2
  rw [p1] at p2
  simpa using p2

/-- THE PARSER RETURNS NORMAL FORMS ONLY: whatever parse_header accepts has a known version and content tag, a locator
    exactly when the version has one, known compression / alpha type (BLP2) or an alpha depth that re-normalises to itself
    (BLP0/1) — an unknown tag or depth in the file never survives into the structure that is encoded again -/
theorem header_parse_normal (bs : Bytes) (h : BlpH.Hdr) (hp : BlpH.parse bs = .ok h) : BlpH.Shape h := BlpH.parse_shape bs h hp

/-! ## non-vacuity -/
example : chain 8 2 true = [(8, 2), (4, 1), (2, 1), (1, 1)] := by decide
example : chain 5 3 true = [(5, 3), (2, 1), (1, 1)] ∧ mipCount 5 3 true = 2 := by decide
example : layout 148 [16, 8, 4] = [(148, 16), (164, 8), (172, 4)] := by decide
example : pack1 [0, 1, 0, 255, 0, 0, 0, 0, 9] = [10, 1] := by decide
example : pack4 [0, 255, 128] = [240, 8] := by decide
example : BlpH.Normal ⟨2, 1, .blp2 2 8 7 1, 256, 64, List.replicate 32 7⟩ :=
  ⟨by decide, by decide, by decide, Or.inr ⟨by decide, by decide, by decide⟩, by decide⟩
example : BlpH.Normal ⟨0, 0, .old 8 5 1, 300, 1, []⟩ := ⟨by decide, by decide, by decide, Or.inl ⟨rfl, rfl⟩, by decide⟩

end Wv.Blp
