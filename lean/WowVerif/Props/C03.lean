/-
  Props.C03 — "Lossless MPQ codecs invert exactly, never expand, and accept their own output".
  Third-party codecs (zlib, bzip2, LZMA, PKWare, implode, Huffman) are parameters; what is proved is the
  front end that wraps them and the decompressor's acceptance arithmetic.
-/
import WowVerif.Model.C03Codec
import WowVerif.Lemmas.C03Adpcm
import WowVerif.Lemmas.C03
import WowVerif.Lemmas.C03Sparse
namespace Wv.C03
open Wv Wv.Codec

/-- STORE-RAW RULE: the stored form is never longer than the input — for every codec output whatsoever -/
theorem frame_never_expands (m : UInt8) (d enc : Bytes) : (frame m d enc).length ≤ d.length := by
  unfold frame; split
  · exact Nat.le_refl _
  · simp only [List.length_cons]; omega

/-- the reader recovers the raw-vs-compressed decision from sizes alone, and gets the data back whenever the
    codec itself inverts on this input -/
theorem unframe_frame (dec : UInt8 → Bytes → Nat → Option Bytes) (m : UInt8) (d enc : Bytes)
    (hrt : dec m enc d.length = some d) : unframe dec (frame m d enc) d.length = some d := by
  unfold frame unframe
  by_cases h : 1 + enc.length ≥ d.length
  · simp [h]
  · have hl : (m :: enc).length < d.length := by simp only [List.length_cons]; omega
    rw [if_neg h, if_pos hl]; exact hrt

/-- a framed unit starts with its method byte and is strictly shorter than the input -/
theorem frame_framed (m : UInt8) (d enc : Bytes) (h : 1 + enc.length < d.length) :
    frame m d enc = m :: enc := by
  unfold frame; rw [if_neg (by omega)]

/-- bounds of the adaptive ratio limit -/
theorem adaptive_bounds (clen method : Nat) : 50 ≤ adaptiveLimit clen method ∧ adaptiveLimit clen method ≤ 50000 := by
  have : ∀ x, 50 ≤ clampRatio x ∧ clampRatio x ≤ 50000 := by
    intro x; unfold clampRatio; split <;> (try split) <;> omega
  exact this _

/-- CLOSED FORM of the acceptance arithmetic for an honest payload (its real length is the declared one) -/
theorem preCheck_ok_iff (clen dlen m s : Nat) :
    preCheck clen dlen m s = .ok () ↔
      (clen ≠ 0 ∧ ¬ (s + dlen > maxSession) ∧ ¬ (dlen > maxDecompressed) ∧
       ¬ (dlen > 0 ∧ dlen / clen > maxRatioBase) ∧ ¬ (dlen > 0 ∧ dlen / clen > adaptiveLimit clen m) ∧
       ¬ (clen < 100 ∧ dlen > 10 * 1024 * 1024) ∧
       ¬ (m > 0x80 ∧ dlen > 0 ∧ dlen / clen > adaptiveLimit clen m / 2)) := by
  unfold preCheck
  by_cases h1 : clen = 0
  · simp [h1]
  by_cases h2 : s + dlen > maxSession
  · simp [h1, h2]
  by_cases h3 : dlen > maxDecompressed
  · simp [h1, h2, h3]
  by_cases h4 : dlen > 0 ∧ dlen / clen > maxRatioBase
  · simp [h1, h2, h3, h4]
  by_cases h5 : dlen > 0 ∧ dlen / clen > adaptiveLimit clen m
  · simp [h1, h2, h3, h4, h5]
  by_cases h6 : clen < 100 ∧ dlen > 10 * 1024 * 1024
  · simp [h1, h2, h3, h4, h5, h6]
  by_cases h7 : m > 0x80 ∧ dlen > 0 ∧ dlen / clen > adaptiveLimit clen m / 2
  · simp [h1, h2, h3, h4, h5, h6, h7]
  simp [h1, h2, h3, h4, h5, h6, h7]

theorem postCheck_exact (dlen : Nat) (h : dlen ≤ maxDecompressed) : postCheck dlen dlen = .ok () := by
  unfold postCheck
  rw [if_neg (by simp only [Nat.min_def]; split <;> omega)]
  split
  · rfl
  · rw [if_neg (by omega)]

/-- CLOSED FORM of the acceptance arithmetic for an honest payload (its real length is the declared one) -/
theorem accepts_closed_form (clen dlen m : Nat) :
    accepts clen dlen m = true ↔
      (clen ≠ 0 ∧ dlen ≤ maxSession ∧ dlen ≤ maxDecompressed ∧
       (dlen = 0 ∨ (dlen / clen ≤ maxRatioBase ∧ dlen / clen ≤ adaptiveLimit clen m ∧
                    (m ≤ 0x80 ∨ dlen / clen ≤ adaptiveLimit clen m / 2))) ∧
       ¬ (clen < 100 ∧ dlen > 10 * 1024 * 1024)) := by
  have key : accepts clen dlen m = true ↔ (preCheck clen dlen m 0 = .ok () ∧ postCheck dlen dlen = .ok ()) := by
    unfold accepts
    cases h1 : preCheck clen dlen m 0 <;> cases h2 : postCheck dlen dlen <;> simp [Except.isOk, Except.toBool]
  rw [key, preCheck_ok_iff]
  constructor
  · intro ⟨⟨a, b, c, d, e, f, g⟩, _⟩
    refine ⟨a, by omega, by omega, ?_, f⟩
    by_cases hd : dlen = 0
    · exact Or.inl hd
    · refine Or.inr ⟨by omega, by omega, ?_⟩
      by_cases hm : m ≤ 0x80
      · exact Or.inl hm
      · exact Or.inr (by omega)
  · intro ⟨a, b, c, d, e⟩
    refine ⟨⟨a, by omega, by omega, ?_, ?_, e, ?_⟩, postCheck_exact dlen c⟩
    · rcases d with d | d <;> omega
    · rcases d with d | d <;> omega
    · rcases d with d | ⟨_, _, d | d⟩ <;> omega

/-- PARTIAL (the full statement "everything the compressor emits is accepted" is false, see below): the
    compressor's own output of `clen` bytes for an input of `dlen` bytes is accepted whenever its ratio stays
    within the two ratio limits, for every selector the compressor supports (all ≤ 0x80 or ADPCM-stereo combos). -/
theorem accepts_own_output_partial (clen dlen m : Nat) (hc : 0 < clen) (hlen : clen ≤ dlen)
    (hd : dlen ≤ 2 ^ 21) (hm : m ≤ 0x80)
    (hratio : dlen / clen ≤ maxRatioBase ∧ dlen / clen ≤ adaptiveLimit clen m) :
    accepts clen dlen m = true := by
  rw [accepts_closed_form]
  have h21 : (2:Nat) ^ 21 = 2097152 := by decide
  refine ⟨by omega, by simp only [maxSession]; omega, by simp only [maxDecompressed]; omega,
    Or.inr ⟨hratio.1, hratio.2, Or.inl hm⟩, by omega⟩

/-- WITNESS that the full statement fails on the model: 65 536 constant bytes compress (bzip2) to 43 bytes and
    1 MiB constant bytes (zlib) to 1040 bytes — both honest payloads are rejected by the flat 1000:1 limit.
    The same inputs are replayed on the implementation on every run (known finding D2). -/
theorem accepts_own_output_fails_witness :
    accepts 43 65536 0x10 = false ∧ accepts 1040 1048576 0x02 = false := by decide

/-- non-vacuity of the partial theorem: an ordinary compressible sector -/
example : accepts 700 4096 0x02 = true := by decide

/-- SPARSE DECODER (in-tree codec, sparse.rs): correct on every well-formed token stream -/
theorem sparse_decode_tokens (toks : List Tok) (h : ∀ t ∈ toks, t.ok) (hne : toks ≠ []) (expected : Nat)
    (hl : (toks.flatMap Tok.out).length ≤ expected) (h32 : (toks.flatMap Tok.out).length < 2 ^ 32) :
    sparseDecompress
      (UInt8.ofNat ((toks.flatMap Tok.out).length / 16777216) :: UInt8.ofNat ((toks.flatMap Tok.out).length / 65536 % 256) ::
       UInt8.ofNat ((toks.flatMap Tok.out).length / 256 % 256) :: UInt8.ofNat ((toks.flatMap Tok.out).length % 256) ::
       toks.flatMap Tok.enc) expected = some (toks.flatMap Tok.out) :=
  Codec.sparse_decode_tokens toks h hne expected hl h32

/-- SPARSE CODEC INVERTS EXACTLY (in-tree compressor and decoder, sparse.rs): for every non-empty input below 4 GiB
    the decoder returns the compressor's input, whatever size bound ≥ its length the reader passes.
    `sparseCompress` is the model of `sparse::compress` (scan, StormLib's 0x81 quirk, zero-run splitting, tail
    flush), compared byte for byte with the implementation on every run. -/
theorem sparse_roundtrip (d : Bytes) (hne : d ≠ []) (h32 : d.length < 2 ^ 32) (expected : Nat)
    (he : d.length ≤ expected) : sparseDecompress (sparseCompress d) expected = some d :=
  Codec.sparse_roundtrip d hne h32 expected he

/-- SPARSE DECODER IS BOUNDED BY THE CALLER: whatever the stream declares, a returned buffer is never longer than the
    size the caller passed -/
theorem sparse_output_bounded (data : Bytes) (expected : Nat) (out : Bytes)
    (h : sparseDecompress data expected = some out) : out.length ≤ expected :=
  Codec.sparse_output_bounded data expected out h

/-- the excluded input: the bare codec does not invert the empty input (4 header bytes < the decoder's minimum of 5) … -/
theorem sparse_empty_bare : ∀ n, sparseDecompress (sparseCompress []) n = none := Codec.sparse_empty.2

/-- … which the front end never stores framed: through `compress`/the reader EVERY input below 4 GiB comes back,
    the empty one included -/
theorem sparse_stored_roundtrip (dec : UInt8 → Bytes → Nat → Option Bytes) (m : UInt8)
    (hdec : ∀ e n, dec m e n = sparseDecompress e n) (d : Bytes) (h32 : d.length < 2 ^ 32) :
    unframe dec (frame m d (sparseCompress d)) d.length = some d := by
  unfold frame unframe
  by_cases h : 1 + (sparseCompress d).length ≥ d.length
  · simp [h]
  · have hl : (m :: sparseCompress d).length < d.length := by simp only [List.length_cons]; omega
    rw [if_neg h, if_pos hl]
    have hne : d ≠ [] := by
      intro e; subst e; simp at h
    simp only [hdec]
    exact Codec.sparse_roundtrip d hne h32 d.length (Nat.le_refl _)

/-- non-vacuity: a concrete input with a 3-zero run, an isolated zero and a zero tail -/
example : sparseCompress [7, 0, 0, 0, 9, 0, 8, 0, 0] = [0, 0, 0, 9, 0x80, 7, 0, 0x82, 9, 0, 8, 0x7F] := by decide
example : sparseDecompress (sparseCompress [7, 0, 0, 0, 9, 0, 8, 0, 0]) 9 = some [7, 0, 0, 0, 9, 0, 8, 0, 0] := by decide

/-- which selectors the compressor supports at all (LZMA, single methods with a compressor, ADPCM + ≤ 1 method) -/
theorem selector_examples :
    selectorSupported 0x02 = true ∧ selectorSupported 0x12 = true ∧ selectorSupported 0x42 = true ∧
    selectorSupported 0x01 = false ∧ selectorSupported 0x04 = false ∧ selectorSupported 0x0A = false := by decide

/-! ## the lossy selectors: in-tree IMA ADPCM, mono and stereo (Model.C03Adpcm) -/

/-- ADPCM PRESERVES LENGTH AND ACCEPTS ITS OWN OUTPUT: for every buffer the encoder accepts (mono or stereo, every
    level), the decoder accepts the encoder's stream and returns exactly as many bytes as went in -/
theorem adpcm_length (n level : Nat) (hn : n = 1 ∨ n = 2) (hlv : level ≤ 32) (x enc : Bytes) (hx : x ≠ [])
    (h : Adpcm.encode n level x = some enc) : ∃ out, Adpcm.decode n enc x.length = some out ∧ out.length = x.length :=
  Adpcm.decode_encode_length n level hn hlv x enc hx h

/-- … AND WHAT COMES BACK, SAMPLE FOR SAMPLE: the initial samples unchanged, then sample `k` through the coder pair of
    channel `k mod n` (`roundLoop`): step-size markers never shift a sample to the other channel -/
theorem adpcm_functional (n level : Nat) (hn : n = 1 ∨ n = 2) (hlv : level ≤ 32) (x enc : Bytes) (hx : x ≠ [])
    (h : Adpcm.encode n level x = some enc) :
    Adpcm.decode n enc x.length = some (((Adpcm.samplesOf x).take n).flatMap Adpcm.sampleBytes ++
      (Adpcm.roundLoop level (if level = 0 then 0 else level - 1) (((Adpcm.samplesOf x).take n).map Adpcm.initCh)
        (((Adpcm.samplesOf x).take n).map Adpcm.initCh) n ((Adpcm.samplesOf x).drop n)).flatMap Adpcm.sampleBytes) :=
  Adpcm.decode_encode n level hn hlv x enc hx h

/-- CHANNEL INTERLEAVING IS PRESERVED: the stereo codec on an interleaved signal returns the interleaving of what the
    mono codec returns for each channel alone — no channel's content influences the other's -/
theorem adpcm_stereo_is_two_monos (level sh : Nat) (e0 e1 d0 d1 : Adpcm.Ch) (k : Nat) (hk : k % 2 = 0) (l r : List Int)
    (hlen : l.length = r.length) :
    Adpcm.roundLoop level sh [e0, e1] [d0, d1] k (Adpcm.interleave l r)
      = Adpcm.interleave (Adpcm.roundLoop level sh [e0] [d0] 0 l) (Adpcm.roundLoop level sh [e1] [d1] 0 r) :=
  Adpcm.stereo_is_two_monos level sh e0 e1 d0 d1 k hk l r hlen

/-! non-vacuity: a stereo buffer with a click in the left channel (step-up markers in the stream) -/
example : (Adpcm.encode 2 5 [0, 0, 0xE8, 3, 0x30, 0x75, 0xE8, 3, 0, 0, 0xE8, 3]).map (·.length) = some 15 := by decide +kernel
example : ((Adpcm.encode 2 5 [0, 0, 0xE8, 3, 0x30, 0x75, 0xE8, 3, 0, 0, 0xE8, 3]).bind fun e => Adpcm.decode 2 e 12).map (·.length) = some 12 := by decide +kernel

end Wv.C03
