import WowVerif.Model.C05Total
import WowVerif.Lemmas.C01HeaderFacts
/-!
C05 — Parsers are total.

What a theorem can carry here is the logic of the loops and of the allocation rule; that the Rust parsers neither
panic nor abort on hostile bytes is decided by the supervised mutation run (it is a statement about the compiled code).
* `findHeader_terminates` — the MPQ header search returns within `len/512 + 1` probes on every input;
  `scan_at_sound` — an offset it reports carries the header signature and lies inside the input;
* `discover_bounded` — chunk discovery returns at most `len/8` chunks whose headers and payloads together are no
  longer than the input (so everything allocated per discovered chunk is bounded by the input size);
* `boundedCapacity_le`, `readVec_le` — the allocation rule: a declared count reserves at most 64K elements, a read buffer
  never exceeds what is left of the stream.
-/
namespace Wv.Total
open Wv Wv.Iff

theorem scan_fuel_enough (bs : Bytes) (f off : Nat) (h : bs.length ≤ off + 512 * f) : scan bs f off ≠ .outOfFuel := by
  induction f generalizing off with
  | zero =>
    unfold scan
    rw [if_pos (by omega)]
    intro h; cases h
  | succ f ih =>
    have hn : bs.length ≤ off + 512 + 512 * f := by omega
    unfold scan
    split
    · intro h; cases h
    · simp only
      split
      · exact ih (off + 512) hn
      · split
        · intro h; cases h
        · split
          · split
            · split
              · split
                · intro h; cases h
                · split
                  · intro h; cases h
                  · exact ih (off + 512) hn
              · exact ih (off + 512) hn
            · intro h; cases h
          · exact ih (off + 512) hn

/-- **The header search terminates on every input** -/
theorem findHeader_terminates (bs : Bytes) : findHeader bs ≠ .outOfFuel := by
  unfold findHeader
  apply scan_fuel_enough
  have := Nat.div_add_mod bs.length 512
  have := Nat.mod_lt bs.length (by decide : 0 < 512)
  omega

theorem u32At_lt (bs : Bytes) (off v : Nat) (h : u32At bs off = some v) : off < bs.length := by
  unfold u32At at h
  by_cases hl : off < bs.length
  · exact hl
  · have : bs.drop off = [] := List.drop_eq_nil_of_le (by omega)
    rw [this] at h; cases h

/-- an offset the search reports carries the MPQ header signature -/
theorem scan_at_sound (bs : Bytes) (f off o : Nat) (h : scan bs f off = .at o) : u32At bs o = some MPQ_HDR := by
  induction f generalizing off with
  | zero =>
    unfold scan at h
    split at h <;> cases h
  | succ f ih =>
    unfold scan at h
    split at h
    · cases h
    · simp only at h
      split at h
      · exact ih _ h
      · rename_i sig hs
        split at h
        · rename_i he; cases h; rw [hs, he]
        · split at h
          · split at h
            · split at h
              · split at h
                · cases h
                · rename_i s2 hs2
                  split at h
                  · rename_i he; cases h; rw [hs2, he]
                  · exact ih _ h
              · exact ih _ h
            · cases h
          · exact ih _ h

/-! ## chunk discovery -/

def total (cs : List Chunk) : Nat := (cs.map fun c => 8 + c.data.length).sum

theorem total_reverse (cs : List Chunk) : total cs.reverse = total cs := by
  unfold total
  rw [List.map_reverse, List.sum_reverse]

def resTotal : Walk → Nat
  | .done cs => total cs
  | .short cs _ _ _ => total cs

theorem walk_total (f : Nat) (bs : Bytes) (acc : List Chunk) : resTotal (walk f bs acc) ≤ total acc + bs.length := by
  fun_induction walk f bs acc with
  | case1 _ acc => simp [resTotal, total_reverse]
  | case2 f acc m0 m1 m2 m3 s0 s1 s2 s3 rest size payload hlen ih =>
    have ht : total ({ magic := [m0, m1, m2, m3], data := payload } :: acc) = 8 + payload.length + total acc := by
      simp [total]
    have hd : (rest.drop size).length + payload.length = rest.length := by
      simp only [payload, List.length_drop, List.length_take]; omega
    simp only [List.length_cons]
    omega
  | case3 f acc m0 m1 m2 m3 s0 s1 s2 s3 rest size payload hlen =>
    simp only [resTotal, total_reverse, List.length_cons]; omega
  | case4 f bs acc _ => simp [resTotal, total_reverse]

theorem total_ge_count (cs : List Chunk) : 8 * cs.length ≤ total cs := by
  induction cs with
  | nil => simp [total]
  | cons c r ih => simp only [total, List.map_cons, List.sum_cons, List.length_cons] at *; omega

/-- **Discovery is bounded by the input**: at most `len/8` chunks, and headers plus payloads fit into the input -/
theorem discover_bounded (bs : Bytes) (cs : List (Bytes × Nat)) (h : discover bs = some cs) :
    cs.length ≤ bs.length / 8 ∧ (cs.map fun c => 8 + c.2).sum ≤ bs.length := by
  unfold discover at h
  split at h
  · cases h
  · have hw := walk_total (bs.length / 8 + 1) bs []
    have key : ∀ ws : List Chunk, total ws ≤ bs.length →
        (ws.map fun c => (c.magic, c.data.length)).length ≤ bs.length / 8 ∧
        ((ws.map fun c => (c.magic, c.data.length)).map fun c => 8 + c.2).sum ≤ bs.length := by
      intro ws hws
      have hc := total_ge_count ws
      refine ⟨by simp only [List.length_map]; omega, ?_⟩
      simpa [total, List.map_map, Function.comp_def] using hws
    unfold walkAll at h
    split at h
    · rename_i ws hres
      rw [hres] at hw
      cases h
      exact key ws (by simpa [resTotal, total] using hw)
    · rename_i ws _ _ _ hres
      rw [hres] at hw
      cases h
      exact key ws (by simpa [resTotal, total] using hw)

/-! ## allocation rule -/
theorem boundedCapacity_le (count : Nat) : boundedCapacity count ≤ 65536 ∧ boundedCapacity count ≤ count := by
  unfold boundedCapacity; omega

theorem readVec_le (avail len n : Nat) (h : readVec avail len = some n) : n ≤ avail ∧ n = len := by
  unfold readVec at h
  split at h
  · cases h; exact ⟨by assumption, rfl⟩
  · cases h

/-! ## non-vacuity -/
example : findHeader ([0x4D, 0x50, 0x51, 0x1A] ++ List.replicate 28 0) = .at 0 := by decide
example : findHeader (List.replicate 40 7) = .notFound := by decide
example : discover ([0x52, 0x45, 0x56, 0x4D, 4, 0, 0, 0, 18, 0, 0, 0, 0x58, 0x58, 0x58, 0x58, 255, 255, 255, 255]) = some [([0x52, 0x45, 0x56, 0x4D], 4)] := by decide

/-! ### what an accepted archive header bounds (Model.C01Header, tied to MpqHeader::read in C01's run) -/

/-- WHATEVER THE FILE SAYS, a header the reader accepts announces tables of at most a million 16-byte entries each and a sector
    shift of at most 20: the allocations that follow (hash table, block table, sector buffers) are bounded by constants -/
theorem mpq_accepted_header_bounds (bs : Bytes) (h : Hdr.Hdr) (hp : Hdr.parse bs = .ok h) :
    16 * h.hashSize ≤ 16000000 ∧ 16 * h.blockSize ≤ 16000000 ∧ h.shift ≤ 20 := Hdr.accepted_tables_bounded bs h hp

/-- … and the tables lie inside the announced archive size plus the reader's 64 KiB tolerance -/
theorem mpq_accepted_tables_inside (bs : Bytes) (h : Hdr.Hdr) (hp : Hdr.parse bs = .ok h) :
    h.hashPos < h.archiveSize ∧ h.hashPos + 16 * h.hashSize ≤ h.archiveSize + 65536 ∧
    h.blockPos + 16 * h.blockSize ≤ h.archiveSize + 65536 := by
  have f := Hdr.validate_facts h (Hdr.write_parse bs h hp).1.valid
  exact ⟨f.2.2.2.2.2.1, f.2.2.2.2.2.2.2.2.2.1, f.2.2.2.2.2.2.2.2.2.2⟩

end Wv.Total
