/-
  Props.C02 — "Archives interoperate with an independent implementation of the MPQ format".
  The independent implementation is Model.Mpq under `publishedConv` (layout, probing, key derivation and cipher as
  published, constants from Spec — none regenerated) with CPython's zlib/bz2 as its codecs (tools/drivers.py).
  What is proved: the code's constants equal the published ones; the two convention sets coincide exactly on the
  region characterised below; outside it they provably differ (witnesses = the listed known findings).
-/
import WowVerif.Lemmas.C01
import WowVerif.Lemmas.C01Whole
namespace Wv.C02
open Wv Wv.Mpq

/-- CONSTANTS compiled into the crate equal the published values: block flags, header sizes (32/44/68/208), method
    bytes, and the two fixed table keys -/
theorem constants_eq :
    Gen.mpqFlags = [0x100, 0x200, 0x10000, 0x20000, 0x100000, 0x1000000, 0x2000000, 0x4000000, 0x80000000] ∧
    Gen.mpqHeaderSizes = [32, 44, 68, 208] ∧
    Gen.mpqMethods = [0x01, 0x02, 0x04, 0x08, 0x10, 0x20, 0x40, 0x80, 0x12] ∧
    Gen.mpqTableKeys = [0xC3AF3770, 0xEC83B3A3] := by decide

/-- the model's table keys (hash of "(hash table)" / "(block table)" with the file-key hash type, over the regenerated
    crypt table) are the published keys -/
theorem table_keys_eq : tableKeyHash = 0xC3AF3770#32 ∧ tableKeyBlock = 0xEC83B3A3#32 := by decide +kernel

/-- crypt table and folding equal the reference (from C04): the hash and cipher the reference uses are the code's -/
theorem crypto_eq_reference : Gen.cryptTable = Spec.cryptTable ∧ Gen.asciiToUpper = Spec.upperTable :=
  ⟨Lemmas04.crypt_table_eq, Lemmas04.upper_table_eq⟩

/-- KEY DERIVATION agrees with the published rule exactly for names without a path separator -/
theorem file_key_agrees (name : Bytes) (b : BlockE) (h : plainName name = name) :
    fileKey codeConv name b = fileKey publishedConv name b := by
  unfold fileKey codeConv publishedConv
  simp [h]

/-- CIPHER agrees with the published rule exactly for buffers of whole dwords -/
theorem enc_agrees (d : Bytes) (k : W32) (h : (toWords d).2 = []) :
    encBytes codeConv d k = encBytes publishedConv d k := by
  unfold encBytes codeConv publishedConv
  simp only [if_true, Bool.false_eq_true, if_false]
  unfold Model.encryptBytes cryptBytesPlainTail
  generalize hw : toWords d = wt at h
  obtain ⟨ws, t⟩ := wt
  simp only at h; subst h
  by_cases h0 : (d.isEmpty || k == 0) = true
  · simp only [h0, if_true]
    have hspec := Lemmas04.toWords_spec d
    rw [hw] at hspec
    simp only [List.append_nil] at hspec
    cases hd : d.isEmpty
    · have hk : k = 0#32 := by simpa [hd] using h0
      simp [hk, Model.encryptBlock]; exact hspec.1
    · have : d = [] := List.isEmpty_iff.mp hd
      subst this
      simp [toWords] at hw
      subst hw
      simp [ofWords, Model.encryptBlock, Model.encGo]
  · simp only [h0, Bool.false_eq_true, if_false, List.isEmpty_nil, if_true, List.append_nil]

/-- PARTIAL cross statement: inside the region (no path separator in the name; every encrypted buffer a whole number
    of dwords) the code's conventions and the published ones are the same functions, so every carrier theorem of C01
    transfers to the reference; outside it they differ — see the two witnesses. -/
theorem interop_region (name : Bytes) (b : BlockE) (d : Bytes) (k : W32)
    (hn : plainName name = name) (hd : (toWords d).2 = []) :
    fileKey codeConv name b = fileKey publishedConv name b ∧ encBytes codeConv d k = encBytes publishedConv d k ∧
    decBytes publishedConv (encBytes codeConv d k) k = d :=
  ⟨file_key_agrees name b hn, enc_agrees d k hd, by rw [enc_agrees d k hd]; exact decBytes_encBytes publishedConv d k⟩

/-- WITNESS 1 (known finding): for a name with a directory the code derives the file key from the full path, the
    published format from the plain name — "Dir\f" -/
theorem key_differs_witness :
    fileKey codeConv [68, 105, 114, 92, 102] ⟨0, 0, 0, 0⟩ ≠ fileKey publishedConv [68, 105, 114, 92, 102] ⟨0, 0, 0, 0⟩ := by
  decide +kernel

/-- WITNESS 2 (known finding): the code encrypts the 1–3 bytes after the last whole dword, the published cipher leaves
    them as they are — 5 bytes under key 1 -/
theorem tail_differs_witness : encBytes codeConv [1, 2, 3, 4, 5] 1#32 ≠ encBytes publishedConv [1, 2, 3, 4, 5] 1#32 := by
  decide +kernel

/-! ## whole archives across the two implementations (unencrypted files) -/

/-- an unencrypted file is laid out the same way under every convention (the conventions only concern keys and the
    cipher's tail) -/
theorem layoutFile_conv_irrelevant (c1 c2 : Conv) (ssz : Nat) (f : FileSpec) (pos : Nat) (henc : f.enc = 0) :
    layoutFile c1 ssz f pos = layoutFile c2 ssz f pos := by
  unfold layoutFile
  simp only [henc, show ¬ (0 ≥ 1) by omega, if_false, show ¬ ((0:Nat) = 2) by omega]

theorem writeArchive_conv_irrelevant (c1 c2 : Conv) (version shift hashSize : Nat) (files : List FileSpec)
    (henc : ∀ f ∈ files, f.enc = 0) :
    writeArchive c1 version shift hashSize files = writeArchive c2 version shift hashSize files := by
  have place : ∀ (fs : List FileSpec) (pos : Nat), (∀ f ∈ fs, f.enc = 0) →
      writeArchiveCore.place c1 (512 * 2 ^ shift) fs pos = writeArchiveCore.place c2 (512 * 2 ^ shift) fs pos := by
    intro fs
    induction fs with
    | nil => intro _ _; rfl
    | cons f fs ih =>
      intro pos h
      simp only [writeArchiveCore.place]
      rw [layoutFile_conv_irrelevant c1 c2 _ f pos (h f (by simp)), ih _ (fun g hg => h g (by simp [hg]))]
  unfold writeArchive writeArchiveCore
  simp only [place _ _ henc]

/-- INTEROPERATION, BOTH DIRECTIONS, for archives of unencrypted files: what the code's writer lays out is read back
    bit-identically by the independent reader (published conventions), and what the independent writer lays out is read
    back by the code's reader — every layout, every stored form of every unit the codec table maps back; header V1/V2.
    (For encrypted files the two differ exactly as `key_differs_witness` / `tail_differs_witness` show: findings D11a/b.) -/
theorem interop_unencrypted (codec : Codec) (version shift hashSize : Nat) (files : List FileSpec)
    (hv : version ≤ 1) (hshift : shift < 2 ^ 16) (henc : ∀ f ∈ files, f.enc = 0)
    (hd : DistinctPairs (files.map (·.name))) (hle : files.length ≤ hashSize) (hhs : hashSize < 0xFFFFFFFE)
    (hokP : ∀ f ∈ files, FileOK publishedConv codec (512 * 2 ^ shift) f ∧ f.data.length < 2 ^ 32)
    (hokC : ∀ f ∈ files, FileOK codeConv codec (512 * 2 ^ shift) f ∧ f.data.length < 2 ^ 32)
    (hsize : (writeArchive codeConv version shift hashSize files).length < 2 ^ 32)
    (i : Nat) (hi : i < files.length) :
    readFile publishedConv codec (writeArchive codeConv version shift hashSize files) files[i].name = .ok files[i].data ∧
    readFile codeConv codec (writeArchive publishedConv version shift hashSize files) files[i].name = .ok files[i].data := by
  have e := writeArchive_conv_irrelevant codeConv publishedConv version shift hashSize files henc
  constructor
  · rw [e]
    exact Mpq.archive_roundtrip publishedConv codec version shift hashSize files hv hshift hd hle hhs hokP (by rw [← e]; exact hsize) i hi
  · rw [← e]
    exact Mpq.archive_roundtrip codeConv codec version shift hashSize files hv hshift hd hle hhs hokC hsize i hi

/-- EVERY BLOCK ENTRY ANNOUNCES AN EXTENT INSIDE THE FILE AREA: the position and stored size the writer records for each
    file (the first two fields of its block-table row) lie inside the bytes the writer lays down for the files — no entry
    points before the header's end or past the last file (what a strict reader checks before it reads) -/
theorem block_extents_inside (c : Conv) (ssz : Nat) (files : List FileSpec) (pos : Nat) :
    ∀ e ∈ writeArchiveCore.place c ssz files pos,
      pos ≤ e.2.1 ∧ e.2.1 + e.2.2.1 ≤ pos + ((writeArchiveCore.place c ssz files pos).flatMap (·.1)).length ∧ e.2.2.2.2 < 2 ^ 32 :=
  fun e he => ⟨(Mpq.place_rows c ssz files pos e he).1, (Mpq.place_rows c ssz files pos e he).2.1, (Mpq.place_rows c ssz files pos e he).2.2.2⟩

end Wv.C02
