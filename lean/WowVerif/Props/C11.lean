/-
  Props.C11 — "Extraction never writes outside the chosen output directory" (lexical model).
  Every path the extractor writes is  <out>/c₁/…/cₙ  with n ≥ 1 and every cᵢ a safe component
  (non-empty, not "." or "..", no separator): such a path cannot leave <out> lexically.
  Not modelled: symlinks inside <out>, case-insensitive or non-Unix file systems.
-/
import WowVerif.Model.C11Path
namespace Wv.C11
open Wv Wv.PathM

theorem splitSlash_noslash (p cur : Bytes) (hc : (47 : UInt8) ∉ cur) :
    ∀ s ∈ splitSlash p cur, (47 : UInt8) ∉ s := by
  induction p generalizing cur with
  | nil => intro s hs; simp only [splitSlash, List.mem_singleton] at hs; subst hs; simpa using hc
  | cons b bs ih =>
    intro s hs
    simp only [splitSlash] at hs
    split at hs
    · simp only [List.mem_cons] at hs
      rcases hs with hs | hs
      · subst hs; simpa using hc
      · exact ih [] (by simp) s hs
    · rename_i hb
      exact ih (b :: cur) (by simp only [List.mem_cons, not_or]; exact ⟨fun h => hb h.symm, hc⟩) s hs

/-- every normal component `components` yields is safe -/
theorem components_normal_safe (p s : Bytes) (h : Comp.normal s ∈ components p) : SafeComp s := by
  unfold components at h
  have key : ∀ (l : List (Bytes × Nat)) (isAbs : Bool), (∀ x ∈ l, (47 : UInt8) ∉ x.1) →
      Comp.normal s ∈ (l.filterMap fun (s, i) =>
        if s = [] then none
        else if s = [46] then (if i = 0 ∧ !isAbs then some Comp.cur else none)
        else if s = [46, 46] then some Comp.parent
        else some (Comp.normal s)) → SafeComp s := by
    intro l isAbs hl hm
    simp only [List.mem_filterMap] at hm
    obtain ⟨⟨x, i⟩, hx, he⟩ := hm
    simp only at he
    split at he
    · simp at he
    · rename_i h1
      split at he
      · split at he <;> simp at he
      · rename_i h2
        split at he
        · simp at he
        · rename_i h3
          simp only [Option.some.injEq, Comp.normal.injEq] at he
          subst he
          exact ⟨h1, h2, h3, hl _ hx⟩
  have hpieces : ∀ x ∈ (splitSlash p []).zipIdx, (47 : UInt8) ∉ x.1 := by
    intro x hx
    have : x.1 ∈ splitSlash p [] := by
      obtain ⟨a, i⟩ := x
      exact (List.mem_zipIdx_iff_getElem?.mp hx) |> fun h => List.mem_of_getElem? h
    exact splitSlash_noslash p [] (by simp) _ this
  simp only at h
  split at h
  · simp only [List.mem_cons, reduceCtorEq, false_or] at h
    exact key _ _ hpieces h
  · exact key _ _ hpieces h

/-- CONTAINMENT, full statement, for every entry name (bytes of any kind: "..", "/", "\", drive letters, empty
    and long components, UTF-8), with or without path preservation: if anything is written for the entry, it is
    written at <out>/c₁/…/cₙ with n ≥ 1 and every cᵢ safe. -/
theorem contained (preserve : Bool) (name : Bytes) (rel : List Bytes)
    (h : extractRel preserve name = some rel) : rel ≠ [] ∧ ∀ c ∈ rel, SafeComp c := by
  unfold extractRel at h
  simp only at h
  split at h
  · -- preserve: containedRel
    unfold containedRel at h
    simp only at h
    split at h
    · simp at h
    · split at h
      · simp at h
      · rename_i hne
        simp only [Option.some.injEq] at h
        subst h
        refine ⟨by intro he; simp [he] at hne, ?_⟩
        intro c hc
        simp only [List.mem_filterMap] at hc
        obtain ⟨comp, hcomp, he⟩ := hc
        cases comp with
        | normal s => simp only [Option.some.injEq] at he; subst he; exact components_normal_safe _ _ hcomp
        | root => simp at he
        | cur => simp at he
        | parent => simp at he
  · -- flattened: the file name only
    unfold fileName at h
    split at h
    · rename_i s hl
      simp only [Option.map_some, Option.some.injEq] at h
      subst h
      refine ⟨by simp, ?_⟩
      intro c hc
      simp only [List.mem_singleton] at hc
      subst hc
      exact components_normal_safe _ _ (List.mem_of_getLast? hl)
    · simp at h

/-- names that try to escape are refused in preserve mode (nothing is written) -/
example : extractRel true [46, 46, 92, 120] = none := by decide                     -- "..\x"
example : extractRel true [92, 116, 109, 112, 92, 120] = none := by decide          -- "\tmp\x"
example : extractRel true [97, 92, 46, 46, 47, 46, 46, 92, 120] = none := by decide  -- "a\../..\x"
/-- and ordinary names are placed below the output directory -/
example : extractRel true [97, 92, 98, 46, 116] = some [[97], [98, 46, 116]] := by decide   -- "a\b.t" → a/b.t
example : extractRel false [46, 46, 92, 46, 46, 92, 120] = some [[120]] := by decide       -- "..\..\x" flattened → x

end Wv.C11
