/-
  Props.C09 — "Parallel extraction is observationally identical to sequential reading".
  Named assumptions (not proved here): A1 every task is a pure function of (archive bytes, name) — private handle,
  no shared mutable state in the library (source-scanned every run); A2 rayon's indexed collect places the result
  of task i in slot i. Under A1/A2 the theorems quantify over EVERY schedule, thread count and batch size.
-/
import WowVerif.Model.C09Par
namespace Wv.C09
open Wv.Par

theorem chunks_flatten {α} (k : Nat) (hk : 0 < k) (f : Nat) (l : List α) (hf : l.length ≤ f) :
    (chunks k f l).flatten = l := by
  induction f generalizing l with
  | zero =>
    have : l = [] := List.length_eq_zero_iff.mp (by omega)
    simp [chunks, this]
  | succ f ih =>
    simp only [chunks]
    split
    · rename_i h; simp [List.isEmpty_iff.mp h]
    · rename_i h
      have hl : 0 < l.length := by
        cases l with
        | nil => simp at h
        | cons _ _ => simp
      simp only [List.flatten_cons]
      rw [ih (l.drop k) (by simp only [List.length_drop]; omega)]
      exact List.take_append_drop k l

/-- chunk-then-flatten is the identity for every positive batch size -/
theorem flatten_chunks {α} (k : Nat) (hk : 0 < k) (l : List α) : (chunksOf k l).flatten = l :=
  chunks_flatten k hk l.length l (Nat.le_refl _)

/-- BATCHED = UNBATCHED = sequential map, for every batch size k > 0 (thread count does not occur) -/
theorem batched_eq_sequential {ν ρ} (read : ν → ρ) (k : Nat) (hk : 0 < k) (names : List ν) :
    extractBatched read k names = names.map fun n => (n, read n) := by
  unfold extractBatched
  rw [List.flatMap_def, ← List.map_flatten, flatten_chunks k hk]

/-- one result per requested name, in request order, each the sequential read of that name -/
theorem skip_slots {ν ρ} (read : ν → ρ) (names : List ν) (i : Nat) (h : i < names.length) :
    (extractSkip read names)[i]? = some (names[i], read names[i]) := by
  simp [extractSkip, h]

/-- a failing name affects only its own slot: changing the outcome of one name leaves every other slot unchanged -/
theorem skip_isolates {ν ρ} [DecidableEq ν] (read read' : ν → ρ) (names : List ν) (bad : ν)
    (hsame : ∀ n, n ≠ bad → read n = read' n) (i : Nat) (h : i < names.length) (hi : names[i] ≠ bad) :
    (extractSkip read names)[i]? = (extractSkip read' names)[i]? := by
  simp [extractSkip, h, hsame _ hi]

/-- without error-skipping the call succeeds iff every request succeeds, and then returns every result in order -/
theorem strict_ok_iff {ν δ ε} (read : ν → Except ε δ) (names : List ν) :
    (extractStrict read names).isSome ↔ ∀ n ∈ names, (read n).isOk := by
  induction names with
  | nil => simp [extractStrict]
  | cons n ns ih =>
    simp only [extractStrict, List.mem_cons, forall_eq_or_imp]
    cases hr : read n with
    | error e => simp [Except.isOk, Except.toBool]
    | ok d =>
      cases he : extractStrict read ns with
      | none => simp [Except.isOk, Except.toBool, he] at ih ⊢; exact ih
      | some r => simp [Except.isOk, Except.toBool, he] at ih ⊢; exact ih

/-- and when it succeeds it is exactly the sequential results in request order -/
theorem strict_ok_eq {ν δ ε} (read : ν → Except ε δ) (names : List ν) (r : List (ν × δ))
    (h : extractStrict read names = some r) : r.map (·.1) = names ∧ ∀ p ∈ r, read p.1 = .ok p.2 := by
  induction names generalizing r with
  | nil => simp [extractStrict] at h; subst h; simp
  | cons n ns ih =>
    simp only [extractStrict] at h
    cases hr : read n with
    | error e => simp [hr] at h
    | ok d =>
      cases he : extractStrict read ns with
      | none => simp [hr, he] at h
      | some r' =>
        simp [hr, he] at h; subst h
        obtain ⟨h1, h2⟩ := ih r' he
        refine ⟨by simp [h1], ?_⟩
        intro p hp
        simp only [List.mem_cons] at hp
        rcases hp with hp | hp
        · subst hp; exact hr
        · exact h2 p hp

theorem collect_fold {β} (g : Nat → β) (i : Nat) (sched : List Nat) (init : Nat → Option β)
    (h : i ∈ sched ∨ init i = some (g i)) :
    sched.foldl (fun slots i => fun j => if j = i then some (g i) else slots j) init i = some (g i) := by
  induction sched generalizing init with
  | nil => simpa using h
  | cons s ss ih =>
    simp only [List.foldl_cons]
    apply ih
    by_cases hs : i = s
    · right; simp [hs]
    · rcases h with h | h
      · simp only [List.mem_cons] at h
        rcases h with h | h
        · exact absurd h hs
        · exact Or.inl h
      · right; simp [hs, h]

/-- SCHEDULE INDEPENDENCE: whatever order the tasks complete in (any list that mentions every index — repeats and
    any interleaving allowed), slot i holds the result of task i -/
theorem schedule_independent {β} (g : Nat → β) (sched : List Nat) (i : Nat) (hi : i ∈ sched) :
    collect g sched i = some (g i) := collect_fold g i sched _ (Or.inl hi)

/-- two schedules covering the same requests produce the same slots: results never depend on scheduling -/
theorem schedules_agree {β} (g : Nat → β) (s₁ s₂ : List Nat) (n : Nat)
    (h₁ : ∀ i < n, i ∈ s₁) (h₂ : ∀ i < n, i ∈ s₂) :
    ∀ i < n, collect g s₁ i = collect g s₂ i := by
  intro i hi
  rw [schedule_independent g s₁ i (h₁ i hi), schedule_independent g s₂ i (h₂ i hi)]

/-- the effective batch size stays positive -/
theorem effective_batch_pos (n b t : Nat) (hb : 0 < b) : 0 < effectiveBatch n b t := by
  unfold effectiveBatch; split <;> omega

/-! non-vacuity -/
example : chunksOf 3 [1,2,3,4,5,6,7] = [[1,2,3],[4,5,6],[7]] := by decide
example : collect (fun i => i * 10) [2, 0, 1, 0] 1 = some 10 := by decide

end Wv.C09
