/-
  Base.Bytes — byte strings, little-endian codecs, hex I/O.  Import-free (links into `wvmodel`).
-/
namespace Wv

abbrev Bytes := List UInt8

/-- 32-bit word; all `u32` arithmetic of the Rust code is `wrapping_*`, i.e. `BitVec 32` arithmetic. -/
abbrev W32 := BitVec 32
abbrev W64 := BitVec 64

def b2w (b : UInt8) : W32 := BitVec.ofNat 32 b.toNat
def b2w64 (b : UInt8) : W64 := BitVec.ofNat 64 b.toNat

/-- `u32::from_le_bytes([b0,b1,b2,b3])` -/
def le32 (b0 b1 b2 b3 : UInt8) : W32 :=
  BitVec.ofNat 32 (b0.toNat + 256 * b1.toNat + 65536 * b2.toNat + 16777216 * b3.toNat)

/-- `u32::to_le_bytes` -/
def w32le (w : W32) : Bytes :=
  [UInt8.ofNat (w.toNat % 256), UInt8.ofNat (w.toNat / 256 % 256),
   UInt8.ofNat (w.toNat / 65536 % 256), UInt8.ofNat (w.toNat / 16777216 % 256)]

def natLE : Nat → Nat → Bytes
  | 0, _ => []
  | n+1, v => UInt8.ofNat (v % 256) :: natLE n (v / 256)

def leNat : Bytes → Nat
  | [] => 0
  | b :: bs => b.toNat + 256 * leNat bs

/-- read a little-endian unsigned of `n` bytes at offset `off`; `none` when out of bounds -/
def readLE (bs : Bytes) (off n : Nat) : Option Nat :=
  if off + n ≤ bs.length then some (leNat ((bs.drop off).take n)) else none

def slice (bs : Bytes) (off n : Nat) : Option Bytes :=
  if off + n ≤ bs.length then some ((bs.drop off).take n) else none

/-- pack bytes into LE dwords: full dwords, and the 0–3 remaining tail bytes -/
def toWords : Bytes → List W32 × Bytes
  | b0 :: b1 :: b2 :: b3 :: rest =>
      let (ws, t) := toWords rest
      (le32 b0 b1 b2 b3 :: ws, t)
  | t => ([], t)

def ofWords : List W32 → Bytes
  | [] => []
  | w :: ws => w32le w ++ ofWords ws

/-! hex -/
def hexDigit (n : Nat) : Char :=
  if n < 10 then Char.ofNat (48 + n) else Char.ofNat (87 + n)

def hexOfBytes (bs : Bytes) : String :=
  String.ofList (bs.flatMap fun b => [hexDigit (b.toNat / 16), hexDigit (b.toNat % 16)])

def hexVal (c : Char) : Option Nat :=
  let n := c.toNat
  if 48 ≤ n ∧ n ≤ 57 then some (n - 48)
  else if 97 ≤ n ∧ n ≤ 102 then some (n - 87)
  else if 65 ≤ n ∧ n ≤ 70 then some (n - 55)
  else none

def bytesOfHexChars : List Char → Option Bytes
  | [] => some []
  | h :: l :: rest => do
      let a ← hexVal h
      let b ← hexVal l
      let r ← bytesOfHexChars rest
      pure (UInt8.ofNat (a * 16 + b) :: r)
  | _ => none

/-- `-` denotes the empty byte string on the wire -/
def bytesOfHex (s : String) : Option Bytes :=
  if s == "-" then some [] else bytesOfHexChars s.toList

def hexOrDash (bs : Bytes) : String := if bs.isEmpty then "-" else hexOfBytes bs

def hex32 (w : W32) : String :=
  String.ofList ((List.range 8).map fun i => hexDigit (w.toNat / 16 ^ (7 - i) % 16))

def hex64 (w : W64) : String :=
  String.ofList ((List.range 16).map fun i => hexDigit (w.toNat / 16 ^ (15 - i) % 16))

end Wv
