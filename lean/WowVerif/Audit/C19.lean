import WowVerif.Props.C19
#print axioms Wv.C19.inv_run
#print axioms Wv.C19.read_within
#print axioms Wv.C19.pos_le_len
#print axioms Wv.C19.invalid_file_handle_noop
#print axioms Wv.C19.invalid_find_handle_noop
#print axioms Wv.C19.close_invalidates_exactly_own
#print axioms Wv.C19.no_dangling
#print axioms Wv.C19.fresh_handle
#print axioms Wv.C19.lock_graph_acyclic
#print axioms Wv.C19.archive_name_within_buffer
#print axioms Wv.C19.file_name_within_max_path
#print axioms Wv.C19.find_data_within_array
#print axioms Wv.C19.close_leaves_nothing
#print axioms Wv.C19.old_close_order_leaves_file_handle
#print axioms Wv.C19.search_without_recheck_leaves_handle
#print axioms Wv.C19.close_protocol_as_modelled
#print axioms Wv.C19.info_within_buffer
