import WowVerif.Props.C13
#print axioms Wv.M2.relocate_reads
#print axioms Wv.M2.relocate_alias
#print axioms Wv.M2.emit_bounded
#print axioms Wv.M2.anim_section_roundtrip
#print axioms Wv.M2.anim_file_roundtrip
#print axioms Wv.M2.skin_sections_tile
#print axioms Wv.M2.skin_offset_zero_iff_empty
