import WowVerif.Props.C06
#print axioms Wv.Mut.step_refines
#print axioms Wv.Mut.history_reach
#print axioms Wv.Mut.reach_empty
#print axioms Wv.Mut.put_fails_only_when_full
#print axioms Wv.Mut.addCore_layout
#print axioms Wv.Mut.flush_layout
#print axioms Wv.Mut.read_write_disjoint
#print axioms Wv.Mut.add_steps
#print axioms Wv.Mut.remove_steps
#print axioms Wv.Mut.session_reach
#print axioms Wv.Mut.rename_steps
#print axioms Wv.Mut.find_none_after_delete
#print axioms Wv.Mut.compact_preserves_map
#print axioms Wv.Mut.compact_refuses_unresolvable
