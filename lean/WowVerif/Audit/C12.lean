import WowVerif.Props.C12
#print axioms Wv.C12.crash_all_or_nothing
#print axioms Wv.C12.error_leaves_dest
#print axioms Wv.C12.complete_is_temp
#print axioms Wv.C12.run_untouched
