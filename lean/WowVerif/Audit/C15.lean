import WowVerif.Props.C15
#print axioms Wv.Wmo.count_of_size
#print axioms Wv.Wmo.stringAt_nameOffsets
#print axioms Wv.Wmo.readList_encoded
#print axioms Wv.Wmo.decodeVis_encode
