import WowVerif.Props.C15
#print axioms Wv.Wmo.count_of_size
#print axioms Wv.Wmo.stringAt_nameOffsets
#print axioms Wv.Wmo.readList_encoded
#print axioms Wv.Wmo.decodeVis_encode
#print axioms Wv.Wmo.groupFlags_via_later
#print axioms Wv.Wmo.groupFlags_idempotent
#print axioms Wv.Wmo.groupFlags_adds_nothing
