import WowVerif.Props.C17
#print axioms Wv.C17.dbc_parse_write
#print axioms Wv.C17.dbc_size_formula
#print axioms Wv.C17.strings_stored_once
#print axioms Wv.C17.access_paths_agree
#print axioms Wv.C17.flat_sizes_eq_record_size
#print axioms Wv.C17.key_lookup_sound
#print axioms Wv.C17.key_lookup_complete
#print axioms Wv.C17.sorted_key_map_ok
