import WowVerif.Props.C20
#print axioms Wv.C20.exit0_means_complete
#print axioms Wv.C20.failure_means_nonzero
#print axioms Wv.C20.skip_isolates
