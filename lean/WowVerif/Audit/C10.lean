import WowVerif.Props.C10
#print axioms Wv.Integ.adler32_detects_single_byte
#print axioms Wv.Integ.crc32_detects_single_byte
#print axioms Wv.Integ.readSectors_sound
#print axioms Wv.Integ.readSectors_intact
#print axioms Wv.Integ.readSectors_detects
#print axioms Wv.Integ.verifyFile_sound
#print axioms Wv.Integ.verifyFile_detects_single_byte
#print axioms Wv.Integ.intact_verifies
#print axioms Wv.Integ.maskSig_covers
