import WowVerif.Props.C08
#print axioms Wv.C08.chain_sorted
#print axioms Wv.C08.read_is_best
#print axioms Wv.C08.notfound_iff
#print axioms Wv.C08.parallel_sorted
#print axioms Wv.C08.patch_result_verified
#print axioms Wv.C08.rle_length
#print axioms Wv.C08.rle_output_bounded
#print axioms Wv.C08.bsd0_output_bounded
#print axioms Wv.C08.filemap_is_first_match
#print axioms Wv.C08.listing_is_union
#print axioms Wv.C08.patched_read_verified
#print axioms Wv.C08.unreadable_patch_is_error
#print axioms Wv.C08.listed_iff_found
#print axioms Wv.C08.plain_read_is_winners_content
