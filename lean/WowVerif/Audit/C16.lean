import WowVerif.Props.C16
#print axioms Wv.Blp.chain_get
#print axioms Wv.Blp.chain_length
#print axioms Wv.Blp.chain_last
#print axioms Wv.Blp.layout_sizes
#print axioms Wv.Blp.layout_inside
#print axioms Wv.Blp.layout_disjoint
#print axioms Wv.Blp.unpack1_pack1
#print axioms Wv.Blp.pack1_length
#print axioms Wv.Blp.unpack4_pack4
#print axioms Wv.Blp.pack4_length
#print axioms Wv.Blp.header_roundtrip
#print axioms Wv.Blp.header_size
#print axioms Wv.Blp.header_parse_normal
#print axioms Wv.Blp.header_write_injective
