import WowVerif.Props.C05
#print axioms Wv.Total.scan_fuel_enough
#print axioms Wv.Total.findHeader_terminates
#print axioms Wv.Total.scan_at_sound
#print axioms Wv.Total.walk_total
#print axioms Wv.Total.discover_bounded
#print axioms Wv.Total.boundedCapacity_le
#print axioms Wv.Total.readVec_le
#print axioms Wv.Total.mpq_accepted_header_bounds
#print axioms Wv.Total.mpq_accepted_tables_inside
