import WowVerif.Props.C14
#print axioms Wv.Adt.framing_tiles
#print axioms Wv.Adt.pos_points_at_chunk
#print axioms Wv.Adt.mhdr_entry_points_at_named
#print axioms Wv.Adt.mcin_entry_points_at_mcnk
#print axioms Wv.Adt.mcin_length
#print axioms Wv.Adt.mcnk_offset_points_at_named
#print axioms Wv.Adt.water_offsets_tile
#print axioms Wv.Adt.water_entry_fields
#print axioms Wv.Adt.water_size_is_content
