import WowVerif.Props.C07
#print axioms Wv.Rebuild.extract_names
#print axioms Wv.Rebuild.extract_sound
#print axioms Wv.Rebuild.extract_complete
#print axioms Wv.Rebuild.extract_error
#print axioms Wv.Rebuild.counts_truthful
#print axioms Wv.Rebuild.rebuilt_lookup
#print axioms Wv.Rebuild.compare_clean
