import WowVerif.Props.C11
#print axioms Wv.C11.splitSlash_noslash
#print axioms Wv.C11.components_normal_safe
#print axioms Wv.C11.contained
