import WowVerif.Props.C04
#print axioms Wv.C04.crypt_table_eq
#print axioms Wv.C04.fold_tables_eq
#print axioms Wv.C04.hash_types_eq
#print axioms Wv.C04.hash_eq_reference
#print axioms Wv.C04.hash_fold_invariant
#print axioms Wv.C04.hash_spelling
#print axioms Wv.C04.decrypt_encrypt_block
#print axioms Wv.C04.encrypt_decrypt_block
#print axioms Wv.C04.encrypt_block_eq_reference
#print axioms Wv.C04.decrypt_encrypt_bytes
#print axioms Wv.C04.hashlittle2_eq_lookup3
#print axioms Wv.C04.het_hash_fold_invariant
#print axioms Wv.C04.het_hash_spelling
#print axioms Wv.C04.het_hash_is_lookup3
#print axioms Wv.C04.joaat_fold_invariant
