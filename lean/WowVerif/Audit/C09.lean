import WowVerif.Props.C09
#print axioms Wv.C09.flatten_chunks
#print axioms Wv.C09.batched_eq_sequential
#print axioms Wv.C09.skip_slots
#print axioms Wv.C09.skip_isolates
#print axioms Wv.C09.strict_ok_iff
#print axioms Wv.C09.strict_ok_eq
#print axioms Wv.C09.schedule_independent
#print axioms Wv.C09.schedules_agree
#print axioms Wv.C09.effective_batch_pos
