import WowVerif.Props.C02
#print axioms Wv.C02.constants_eq
#print axioms Wv.C02.table_keys_eq
#print axioms Wv.C02.crypto_eq_reference
#print axioms Wv.C02.file_key_agrees
#print axioms Wv.C02.enc_agrees
#print axioms Wv.C02.interop_region
#print axioms Wv.C02.key_differs_witness
#print axioms Wv.C02.tail_differs_witness
#print axioms Wv.C02.writeArchive_conv_irrelevant
#print axioms Wv.C02.interop_unencrypted
#print axioms Wv.C02.block_extents_inside
