import WowVerif.Props.C01
#print axioms Wv.C01.probe_mirror
#print axioms Wv.C01.spelling_invariant
#print axioms Wv.C01.crypt_roundtrip
#print axioms Wv.C01.sectors_partition
#print axioms Wv.C01.unit_raw
#print axioms Wv.C01.unit_compressed
#print axioms Wv.C01.table_roundtrip
#print axioms Wv.C01.archive_roundtrip
#print axioms Wv.C01.readFile_spelling
#print axioms Wv.C01.archive_roundtrip_spelling
#print axioms Wv.C01.archive_absent
#print axioms Wv.C01.bet_roundtrip
#print axioms Wv.C01.bet_columns_independent
#print axioms Wv.C01.het_finds
#print axioms Wv.C01.het_resolves_own
#print axioms Wv.C01.het_absent
#print axioms Wv.C01.het_name_byte_never_free
