import WowVerif.Props.C18
#print axioms Wv.C18.axis_roundtrip
#print axioms Wv.C18.tile_world_tile
#print axioms Wv.C18.walk_serialize
#print axioms Wv.C18.serialize_length
#print axioms Wv.C18.wdt_read_write
#print axioms Wv.C18.wdt_second_write
#print axioms Wv.C18.mwmo_names_roundtrip
#print axioms Wv.C18.wdl_maof_points_at_mare
#print axioms Wv.C18.wdt_payload_records_roundtrip
