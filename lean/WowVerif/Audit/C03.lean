import WowVerif.Props.C03
#print axioms Wv.C03.frame_never_expands
#print axioms Wv.C03.unframe_frame
#print axioms Wv.C03.frame_framed
#print axioms Wv.C03.adaptive_bounds
#print axioms Wv.C03.preCheck_ok_iff
#print axioms Wv.C03.postCheck_exact
#print axioms Wv.C03.accepts_closed_form
#print axioms Wv.C03.accepts_own_output_partial
#print axioms Wv.C03.accepts_own_output_fails_witness
#print axioms Wv.C03.sparse_decode_tokens
#print axioms Wv.C03.selector_examples
#print axioms Wv.C03.sparse_roundtrip
#print axioms Wv.C03.sparse_empty_bare
#print axioms Wv.C03.sparse_stored_roundtrip
#print axioms Wv.C03.sparse_output_bounded
