/-
  Spec.Md5 — RFC 1321 MD5 over byte lists (reference implementation used by the executable models; the
  theorems treat digests abstractly). Import-free.
-/
import WowVerif.Base.Bytes
namespace Wv.Md5
open Wv

def S : Array Nat := #[7,12,17,22,7,12,17,22,7,12,17,22,7,12,17,22, 5,9,14,20,5,9,14,20,5,9,14,20,5,9,14,20,
  4,11,16,23,4,11,16,23,4,11,16,23,4,11,16,23, 6,10,15,21,6,10,15,21,6,10,15,21,6,10,15,21]

def K : Array Nat := #[
  0xd76aa478,0xe8c7b756,0x242070db,0xc1bdceee,0xf57c0faf,0x4787c62a,0xa8304613,0xfd469501,
  0x698098d8,0x8b44f7af,0xffff5bb1,0x895cd7be,0x6b901122,0xfd987193,0xa679438e,0x49b40821,
  0xf61e2562,0xc040b340,0x265e5a51,0xe9b6c7aa,0xd62f105d,0x02441453,0xd8a1e681,0xe7d3fbc8,
  0x21e1cde6,0xc33707d6,0xf4d50d87,0x455a14ed,0xa9e3e905,0xfcefa3f8,0x676f02d9,0x8d2a4c8a,
  0xfffa3942,0x8771f681,0x6d9d6122,0xfde5380c,0xa4beea44,0x4bdecfa9,0xf6bb4b60,0xbebfbc70,
  0x289b7ec6,0xeaa127fa,0xd4ef3085,0x04881d05,0xd9d4d039,0xe6db99e5,0x1fa27cf8,0xc4ac5665,
  0xf4292244,0x432aff97,0xab9423a7,0xfc93a039,0x655b59c3,0x8f0ccc92,0xffeff47d,0x85845dd1,
  0x6fa87e4f,0xfe2ce6e0,0xa3014314,0x4e0811a1,0xf7537e82,0xbd3af235,0x2ad7d2bb,0xeb86d391]

def pad (msg : Bytes) : Bytes :=
  let l := msg.length
  let z := (119 - l % 64) % 64          -- zeros so that l + 1 + z ≡ 56 (mod 64)
  msg ++ [0x80] ++ List.replicate z 0 ++ natLE 8 (l * 8)

def wordsOf : Bytes → List W32
  | b0 :: b1 :: b2 :: b3 :: rest => le32 b0 b1 b2 b3 :: wordsOf rest
  | _ => []

structure St where
  a : W32
  b : W32
  c : W32
  d : W32

def round (m : Array W32) (st : St) (i : Nat) : St :=
  let (f, g) :=
    if i < 16 then ((st.b &&& st.c) ||| (~~~st.b &&& st.d), i)
    else if i < 32 then ((st.d &&& st.b) ||| (~~~st.d &&& st.c), (5 * i + 1) % 16)
    else if i < 48 then (st.b ^^^ st.c ^^^ st.d, (3 * i + 5) % 16)
    else (st.c ^^^ (st.b ||| ~~~st.d), (7 * i) % 16)
  let f' := f + st.a + BitVec.ofNat 32 (K.getD i 0) + m.getD g 0
  { a := st.d, d := st.c, c := st.b, b := st.b + f'.rotateLeft (S.getD i 0) }

def chunk (st : St) (ws : List W32) : St :=
  let m := ws.toArray
  let r := (List.range 64).foldl (round m) st
  { a := st.a + r.a, b := st.b + r.b, c := st.c + r.c, d := st.d + r.d }

def chunks : Nat → List W32 → St → St
  | 0, _, st => st
  | f+1, ws, st => if ws.length < 16 then st else chunks f (ws.drop 16) (chunk st (ws.take 16))

def md5 (msg : Bytes) : Bytes :=
  let ws := wordsOf (pad msg)
  let st := chunks (ws.length / 16 + 1) ws ⟨0x67452301#32, 0xefcdab89#32, 0x98badcfe#32, 0x10325476#32⟩
  w32le st.a ++ w32le st.b ++ w32le st.c ++ w32le st.d

end Wv.Md5
