/-
  Spec.Crypt — the MPQ hashing / encryption algorithms written from the published format
  (docs/src/formats/archives/mpq.md, StormLib's documented algorithms, lookup3.c), independent of /repo's code.
  Nothing here is regenerated from the code.
-/
import WowVerif.Base.Bytes
namespace Wv.Spec
open Wv

/-- one step of the table generator: `seed = (seed * 125 + 3) % 0x2AAAAB` -/
def nextSeed (s : Nat) : Nat := (s * 125 + 3) % 0x2AAAAB

/-- the generator runs `for i1 in 0..256 { for i2 in 0..5 { table[i1 + 0x100*i2] = next two seeds } }`;
    `genSeq n s` is the list of values in that generation order (index k = 5*i1 + i2) -/
def genSeq : Nat → Nat → List Nat
  | 0, _ => []
  | n+1, s =>
      let s1 := nextSeed s
      let s2 := nextSeed s1
      ((s1 % 0x10000) * 0x10000 + (s2 % 0x10000)) :: genSeq n s2

/-- every fifth element, starting with the first -/
def every5 : List Nat → List Nat
  | a :: _ :: _ :: _ :: _ :: rest => a :: every5 rest
  | a :: _ => [a]
  | [] => []

/-- table order from generation order: slot `i1 + 256*i2` holds generation value `5*i1 + i2`, i.e. the table is
    the five "columns" i2 = 0..4 of the generation sequence, one after the other -/
def permute (v : List Nat) : List Nat :=
  every5 v ++ every5 (v.drop 1) ++ every5 (v.drop 2) ++ every5 (v.drop 3) ++ every5 (v.drop 4)

/-- reference 1280-entry crypt table (seed 0x00100001) -/
def cryptTable : List Nat := permute (genSeq 1280 0x00100001)

/-- reference ASCII upper-casing (arithmetic) -/
def upperNat (n : Nat) : Nat := if 97 ≤ n ∧ n ≤ 122 then n - 32 else n
def lowerNat (n : Nat) : Nat := if 65 ≤ n ∧ n ≤ 90 then n + 32 else n
def upperTable : List Nat := (List.range 256).map upperNat
def lowerTable : List Nat := (List.range 256).map lowerNat

/-- reference name folding: `/` → `\`, then ASCII upper-case -/
def foldNat (n : Nat) : Nat := upperNat (if n = 47 then 92 else n)
def foldLowerNat (n : Nat) : Nat := lowerNat (if n = 47 then 92 else n)
def foldByte (b : UInt8) : UInt8 := UInt8.ofNat (foldNat b.toNat)
def foldLowerByte (b : UInt8) : UInt8 := UInt8.ofNat (foldLowerNat b.toNat)

def tbl (i : Nat) : W32 := BitVec.ofNat 32 (cryptTable.getD i 0)

/-- reference MPQ string hash. `ty` ∈ {0, 0x100, 0x200, 0x300, 0x400}. -/
def hashStep (ty : Nat) (s : W32 × W32) (b : UInt8) : W32 × W32 :=
  let ch := foldByte b
  let s1 := tbl (ty + ch.toNat) ^^^ (s.1 + s.2)
  let s2 := b2w ch + s1 + s.2 + (s.2 <<< 5) + 3
  (s1, s2)

def hashString (ty : Nat) (name : Bytes) : W32 :=
  (name.foldl (hashStep ty) (0x7FED7FED#32, 0xEEEEEEEE#32)).1

/-- key schedule of the stream cipher -/
def nextKey (key : W32) : W32 := ((~~~key <<< 0x15) + 0x11111111#32) ||| (key >>> 0x0B)
def seedAfter (seed plain : W32) : W32 := plain + seed + (seed <<< 5) + 3

/-- reference block encryption over dwords (no special case for key 0 in the published algorithm) -/
def encGo (key seed : W32) : List W32 → List W32
  | [] => []
  | p :: ps =>
      let seed' := seed + tbl (0x400 + (key.toNat % 256))
      (p ^^^ (key + seed')) :: encGo (nextKey key) (seedAfter seed' p) ps

def decGo (key seed : W32) : List W32 → List W32
  | [] => []
  | c :: cs =>
      let seed' := seed + tbl (0x400 + (key.toNat % 256))
      let p := c ^^^ (key + seed')
      p :: decGo (nextKey key) (seedAfter seed' p) cs

/-! lookup3 `hashlittle2`, byte-at-a-time form (the portable path of lookup3.c) -/

def rot (x : W32) (k : Nat) : W32 := x.rotateLeft k

def mix (a b c : W32) : W32 × W32 × W32 :=
  let a := a - c; let a := a ^^^ rot c 4;  let c := c + b
  let b := b - a; let b := b ^^^ rot a 6;  let a := a + c
  let c := c - b; let c := c ^^^ rot b 8;  let b := b + a
  let a := a - c; let a := a ^^^ rot c 16; let c := c + b
  let b := b - a; let b := b ^^^ rot a 19; let a := a + c
  let c := c - b; let c := c ^^^ rot b 4;  let b := b + a
  (a, b, c)

def final (a b c : W32) : W32 × W32 × W32 :=
  let c := c ^^^ b; let c := c - rot b 14
  let a := a ^^^ c; let a := a - rot c 11
  let b := b ^^^ a; let b := b - rot a 25
  let c := c ^^^ b; let c := c - rot b 16
  let a := a ^^^ c; let a := a - rot c 4
  let b := b ^^^ a; let b := b - rot a 14
  let c := c ^^^ b; let c := c - rot b 24
  (a, b, c)

/-- the dword made of bytes `k[4j..4j+4)`, absent bytes counting as zero
    (lookup3's `case n:` fall-through adds exactly the present bytes, shifted) -/
def padWord (k : Bytes) (j : Nat) : W32 :=
  le32 (k.getD (4*j) 0) (k.getD (4*j+1) 0) (k.getD (4*j+2) 0) (k.getD (4*j+3) 0)

/-- main loop: consume 12-byte blocks while more than 12 bytes remain (fuel = length) -/
def hl2Loop : Nat → Bytes → W32 → W32 → W32 → (Bytes × W32 × W32 × W32)
  | 0, k, a, b, c => (k, a, b, c)
  | f+1, k, a, b, c =>
      if k.length > 12 then
        let (a, b, c) := mix (a + padWord k 0) (b + padWord k 1) (c + padWord k 2)
        hl2Loop f (k.drop 12) a b c
      else (k, a, b, c)

/-- `hashlittle2(key, &pc, &pb)` → (pc', pb') -/
def hashlittle2 (key : Bytes) (pc pb : W32) : W32 × W32 :=
  let a0 := 0xdeadbeef#32 + BitVec.ofNat 32 key.length + pc
  let (k, a, b, c) := hl2Loop key.length key a0 a0 (a0 + pb)
  if k.isEmpty then (c, b)
  else
    let (_, b, c) := final (a + padWord k 0) (b + padWord k 1) (c + padWord k 2)
    (c, b)

end Wv.Spec
