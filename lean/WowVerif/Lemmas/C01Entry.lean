/- C01, whole archive, part 3: what the writer lays out for one file is what the reader's entry decoder returns -/
import WowVerif.Lemmas.C01Layout
set_option linter.unusedSimpArgs false
namespace Wv.Mpq
open Wv

/-! ### encryption keeps lengths -/

theorem decGo_length (key seed : W32) (d : List W32) : (Model.decGo key seed d).length = d.length := by
  induction d generalizing key seed with
  | nil => rfl
  | cons p ps ih => simp only [Model.decGo, List.length_cons, ih]

theorem decryptBlock_length (d : List W32) (key : W32) : (Model.decryptBlock d key).length = d.length := by
  unfold Model.decryptBlock; split
  · rfl
  · exact decGo_length _ _ _

theorem toWords_tail_length (d : Bytes) : (toWords d).2.length = d.length % 4 ∧ 4 * (toWords d).1.length + (toWords d).2.length = d.length := by
  have h := Lemmas04.toWords_spec d
  have hl := congrArg List.length h.1
  simp only [List.length_append, Lemmas04.ofWords_length] at hl
  omega

theorem encryptBytes_length (d : Bytes) (k : W32) : (Model.encryptBytes d k).length = d.length := by
  unfold Model.encryptBytes
  split
  · rfl
  · have h := toWords_tail_length d
    generalize toWords d = p at *
    obtain ⟨ws, t⟩ := p
    simp only at h ⊢
    split
    · rename_i ht
      have : t = [] := by simpa using ht
      subst this
      simp only [Lemmas04.ofWords_length, Lemmas04.encryptBlock_length, List.length_nil] at *
      omega
    · simp only [List.length_append, Lemmas04.ofWords_length, Lemmas04.encryptBlock_length, List.length_take,
        Lemmas04.w32le_length]
      omega

theorem plainTail_length (e : Bool) (d : Bytes) (k : W32) : (cryptBytesPlainTail e d k).length = d.length := by
  unfold cryptBytesPlainTail
  have h := toWords_tail_length d
  generalize toWords d = p at *
  obtain ⟨ws, t⟩ := p
  simp only at h ⊢
  cases e <;> simp only [List.length_append, Lemmas04.ofWords_length, Lemmas04.encryptBlock_length, if_true,
    Bool.false_eq_true, if_false] <;> first | omega | (rw [decryptBlock_length]; omega)

theorem encBytes_length (c : Conv) (d : Bytes) (k : W32) : (encBytes c d k).length = d.length := by
  unfold encBytes
  split
  · exact encryptBytes_length d k
  · exact plainTail_length true d k

/-! ### the flag word the writer emits, as the reader tests it -/

def encFlagsOf (e : Nat) : Nat := (if e ≥ 1 then FLAG_ENCRYPTED else 0) + (if e = 2 then FLAG_FIX_KEY else 0)

theorem flags_single (e : Nat) (he : e ≤ 2) (p : Prop) [Decidable p] :
    let fl := FLAG_EXISTS + FLAG_SINGLE_UNIT + encFlagsOf e + (if p then FLAG_COMPRESS else 0)
    hasFlag fl FLAG_EXISTS = true ∧ hasFlag fl FLAG_ENCRYPTED = decide (e ≥ 1) ∧ hasFlag fl FLAG_FIX_KEY = decide (e = 2) ∧
    hasFlag fl FLAG_SINGLE_UNIT = true ∧ hasFlag fl FLAG_COMPRESS = decide p ∧ hasFlag fl FLAG_IMPLODE = false := by
  have : e = 0 ∨ e = 1 ∨ e = 2 := by omega
  by_cases hp : p <;> simp only [hp, if_true, if_false, decide_true, decide_false] <;>
    rcases this with rfl | rfl | rfl <;> decide

theorem flags_plain (e : Nat) (he : e ≤ 2) :
    let fl := FLAG_EXISTS + encFlagsOf e
    hasFlag fl FLAG_EXISTS = true ∧ hasFlag fl FLAG_ENCRYPTED = decide (e ≥ 1) ∧ hasFlag fl FLAG_FIX_KEY = decide (e = 2) ∧
    hasFlag fl FLAG_SINGLE_UNIT = false ∧ hasFlag fl FLAG_COMPRESS = false ∧ hasFlag fl FLAG_IMPLODE = false := by
  have : e = 0 ∨ e = 1 ∨ e = 2 := by omega
  rcases this with rfl | rfl | rfl <;> decide

theorem flags_comp (e : Nat) (he : e ≤ 2) :
    let fl := FLAG_EXISTS + FLAG_COMPRESS + encFlagsOf e
    hasFlag fl FLAG_EXISTS = true ∧ hasFlag fl FLAG_ENCRYPTED = decide (e ≥ 1) ∧ hasFlag fl FLAG_FIX_KEY = decide (e = 2) ∧
    hasFlag fl FLAG_SINGLE_UNIT = false ∧ hasFlag fl FLAG_COMPRESS = true ∧ hasFlag fl FLAG_IMPLODE = false := by
  have : e = 0 ∨ e = 1 ∨ e = 2 := by omega
  rcases this with rfl | rfl | rfl <;> decide

/-! ### units -/

/-- a stored unit the reader can turn back into `plain`: the plain bytes themselves, or a strictly shorter codec
    output that the codec table maps back and the ratio heuristics admit -/
def UnitOK (c : Conv) (codec : Codec) (stored plain : Bytes) : Prop :=
  stored = plain ∨ (stored.length < plain.length ∧ codec.find? (·.1 == stored) = some (stored, plain) ∧
    (c.ratioLimits = false ∨
      (Wv.Codec.preCheck (stored.length - 1) plain.length ((stored.headD 0).toNat) 0).isOk = true))

theorem decodeUnit_unitOK (c : Conv) (codec : Codec) (stored plain : Bytes) (flag : Bool)
    (h : UnitOK c codec stored plain) (hflag : flag = true ∨ stored = plain) :
    decodeUnit c codec stored plain.length flag = .ok plain := by
  rcases h with rfl | ⟨hlen, hfind, hratio⟩
  · exact decodeUnit_raw c codec stored flag
  · rcases hflag with rfl | rfl
    · exact decodeUnit_compressed c codec stored plain hlen hfind hratio
    · omega

/-! ### what the reader needs to see of the archive: the file's body at its position -/

def FetchesBody (fetch : Nat → Nat → Option Bytes) (pos : Nat) (body : Bytes) : Prop :=
  ∀ off n, off + n ≤ body.length → fetch (pos + off) n = some ((body.drop off).take n)

theorem FetchesBody.whole {fetch pos body} (h : FetchesBody fetch pos body) : fetch pos body.length = some body := by
  have := h 0 body.length (by omega)
  simpa using this

/-- the key the writer used is the key the reader derives from the entry -/
theorem fileKey_writer (c : Conv) (name : Bytes) (pos csize fsize flags e : Nat)
    (hfix : hasFlag flags FLAG_FIX_KEY = decide (e = 2)) :
    fileKey c name ⟨pos, csize, fsize, flags⟩ =
      (if e = 2 then (hashS 0x300 (if c.keyFullName then name else plainName name) + BitVec.ofNat 32 pos) ^^^ BitVec.ofNat 32 fsize
       else hashS 0x300 (if c.keyFullName then name else plainName name)) := by
  unfold fileKey
  simp only [hfix]
  by_cases h : e = 2 <;> simp [h]

/-! ### single-unit files -/

theorem readEntry_single (c : Conv) (codec : Codec) (fetch : Nat → Nat → Option Bytes) (ssz : Nat) (f : FileSpec) (pos : Nat)
    (he : f.enc ≤ 2) (hsmall : f.data.length ≤ ssz) (hu : UnitOK c codec (f.units.headD f.data) f.data)
    (hfetch : FetchesBody fetch pos (layoutFile c ssz f pos).1) :
    readEntry c codec fetch ssz f.name pos (layoutFile c ssz f pos).1.length f.data.length (layoutFile c ssz f pos).2
      = .ok f.data := by
  have hbody := hfetch.whole
  revert hbody hfetch
  unfold layoutFile
  rw [if_pos hsmall]
  simp only
  generalize hst : f.units.headD f.data = stored at *
  intro hfetch hbody
  obtain ⟨f1, f2, f3, f4, f5, f6⟩ := flags_single f.enc he (stored.length < f.data.length)
  simp only [encFlagsOf] at f1 f2 f3 f4 f5 f6
  unfold readEntry
  simp only [f1, f2, f3, f4, f5, f6, Bool.not_true, Bool.false_eq_true, if_false, if_true, Bool.or_false, hbody]
  rw [fileKey_writer c f.name pos _ f.data.length _ f.enc f3]
  by_cases henc : f.enc ≥ 1
  · simp only [henc, decide_true, if_true, decBytes_encBytes]
    exact decodeUnit_unitOK c codec stored f.data _ hu (by
      by_cases hl : stored.length < f.data.length
      · left; simp [hl]
      · right; rcases hu with h | ⟨h, _⟩
        · exact h
        · omega)
  · simp only [henc, decide_false, Bool.false_eq_true, if_false]
    exact decodeUnit_unitOK c codec stored f.data _ hu (by
      by_cases hl : stored.length < f.data.length
      · left; simp [hl]
      · right; rcases hu with h | ⟨h, _⟩
        · exact h
        · omega)

/-! ### multi-sector files stored plain (optionally encrypted sector by sector) -/

def encSecs (c : Conv) (key : W32) (secs : List Bytes) (i : Nat) : Bytes :=
  (secs.zipIdx i).flatMap fun (s, j) => encBytes c s (key + BitVec.ofNat 32 j)

theorem encSecs_cons (c : Conv) (key : W32) (x : Bytes) (xs : List Bytes) (i : Nat) :
    encSecs c key (x :: xs) i = encBytes c x (key + BitVec.ofNat 32 i) ++ encSecs c key xs (i + 1) := by
  simp [encSecs, List.zipIdx_cons]

theorem encSecs_length (c : Conv) (key : W32) (secs : List Bytes) (i : Nat) :
    (encSecs c key secs i).length = secs.flatten.length := by
  induction secs generalizing i with
  | nil => simp [encSecs]
  | cons x xs ih => rw [encSecs_cons]; simp [encBytes_length, ih]

theorem sectorsOf_nil (ssz f : Nat) : sectorsOf ssz f [] = [] := by
  cases f <;> simp [sectorsOf]

theorem secs_encSecs (c : Conv) (key : W32) (ssz : Nat) (hs : 0 < ssz) (fs : Nat) (d : Bytes) (i F : Nat)
    (hfs : d.length ≤ fs) (hF : d.length < F) :
    readEntry.secs c ssz key F (encSecs c key (sectorsOf ssz fs d) i) i = d := by
  induction fs generalizing d i F with
  | zero =>
    have : d = [] := List.eq_nil_of_length_eq_zero (by omega)
    subst this
    cases F <;> simp [sectorsOf, encSecs, readEntry.secs]
  | succ fs ih =>
    by_cases hd : d = []
    · subst hd
      cases F <;> simp [sectorsOf, encSecs, readEntry.secs]
    · have hpos : 0 < d.length := List.length_pos_iff.mpr hd
      have hde : d.isEmpty = false := by simpa using hd
      obtain ⟨F', rfl⟩ : ∃ F', F = F' + 1 := ⟨F - 1, by omega⟩
      simp only [sectorsOf, hde, Bool.false_eq_true, if_false, encSecs_cons]
      have hEl : (encBytes c (d.take ssz) (key + BitVec.ofNat 32 i)).length = min ssz d.length := by
        rw [encBytes_length]; simp
      have hne : (encBytes c (d.take ssz) (key + BitVec.ofNat 32 i) ++ encSecs c key (sectorsOf ssz fs (d.drop ssz)) (i + 1)).isEmpty = false := by
        rw [List.isEmpty_eq_false_iff_exists_mem]
        cases hE : encBytes c (d.take ssz) (key + BitVec.ofNat 32 i) with
        | nil => rw [hE] at hEl; simp at hEl; omega
        | cons a as => exact ⟨a, by simp⟩
      rw [readEntry.secs]
      simp only [hne, Bool.false_eq_true, if_false]
      by_cases hlen : ssz ≤ d.length
      · have hE : (encBytes c (d.take ssz) (key + BitVec.ofNat 32 i)).length = ssz := by rw [hEl]; omega
        rw [List.take_left' hE, List.drop_left' hE, decBytes_encBytes]
        rw [ih (d.drop ssz) (i + 1) F' (by simp only [List.length_drop]; omega) (by simp only [List.length_drop]; omega)]
        exact List.take_append_drop ssz d
      · have hdrop : d.drop ssz = [] := List.drop_eq_nil_of_le (by omega)
        have htake : d.take ssz = d := List.take_of_length_le (by omega)
        rw [hdrop, sectorsOf_nil, htake]
        have hE : (encBytes c d (key + BitVec.ofNat 32 i)).length ≤ ssz := by rw [encBytes_length]; omega
        simp only [encSecs, List.zipIdx_nil, List.flatMap_nil, List.append_nil]
        rw [List.take_of_length_le hE, List.drop_eq_nil_of_le hE, decBytes_encBytes]
        cases F' <;> simp [readEntry.secs]

def anyCompOf (ssz : Nat) (f : FileSpec) : Bool :=
  ((sectorsOf ssz (f.data.length + 1) f.data).zip f.units).any fun (p, s) => s.length < p.length

def writerKey (c : Conv) (f : FileSpec) (pos : Nat) : W32 :=
  if f.enc = 2 then (hashS 0x300 (if c.keyFullName then f.name else plainName f.name) + BitVec.ofNat 32 pos) ^^^
      BitVec.ofNat 32 f.data.length
  else hashS 0x300 (if c.keyFullName then f.name else plainName f.name)

theorem layoutFile_plain (c : Conv) (ssz : Nat) (f : FileSpec) (pos : Nat) (hbig : ¬ f.data.length ≤ ssz)
    (hnc : anyCompOf ssz f = false) :
    layoutFile c ssz f pos =
      (if f.enc ≥ 1 then encSecs c (writerKey c f pos) (sectorsOf ssz (f.data.length + 1) f.data) 0 else f.data,
       FLAG_EXISTS + encFlagsOf f.enc) := by
  unfold layoutFile
  rw [if_neg hbig]
  unfold anyCompOf at hnc
  simp only [hnc, Bool.not_false, if_true]
  rfl

theorem readEntry_plain (c : Conv) (codec : Codec) (fetch : Nat → Nat → Option Bytes) (ssz : Nat) (hs : 0 < ssz)
    (f : FileSpec) (pos : Nat) (he : f.enc ≤ 2) (hbig : ¬ f.data.length ≤ ssz) (hnc : anyCompOf ssz f = false)
    (hfetch : FetchesBody fetch pos (layoutFile c ssz f pos).1) :
    readEntry c codec fetch ssz f.name pos (layoutFile c ssz f pos).1.length f.data.length (layoutFile c ssz f pos).2
      = .ok f.data := by
  have hbody := hfetch.whole
  rw [layoutFile_plain c ssz f pos hbig hnc] at hbody ⊢
  simp only at hbody ⊢
  obtain ⟨f1, f2, f3, f4, f5, f6⟩ := flags_plain f.enc he
  have hflat := sectorsOf_flatten ssz hs (f.data.length + 1) f.data (by omega)
  have hlen2 := encSecs_length c (writerKey c f pos) (sectorsOf ssz (f.data.length + 1) f.data) 0
  rw [hflat] at hlen2
  have hblen : (if f.enc ≥ 1 then encSecs c (writerKey c f pos) (sectorsOf ssz (f.data.length + 1) f.data) 0
      else f.data).length = f.data.length := by
    split
    · exact hlen2
    · rfl
  rw [hblen] at hbody ⊢
  unfold readEntry
  simp only [f1, f2, f3, f4, f5, f6, Bool.not_true, Bool.false_eq_true, if_false, if_true, Bool.or_false, hbody]
  rw [fileKey_writer c f.name pos _ f.data.length _ f.enc f3]
  by_cases henc : f.enc ≥ 1
  · simp only [henc, decide_true, if_true, Bool.not_true, Bool.false_eq_true, if_false]
    congr 1
    exact secs_encSecs c _ ssz hs (f.data.length + 1) f.data 0 _ (by omega) (by omega)
  · simp only [henc, decide_false, Bool.not_false, if_true, Bool.false_eq_true, if_false]

end Wv.Mpq
