/- C01, whole archive, part 4: multi-sector files with an offset table -/
import WowVerif.Lemmas.C01Entry
set_option linter.unusedSimpArgs false
namespace Wv.Mpq
open Wv

/-! ### sectors -/

theorem sectorsOf_length (ssz : Nat) (hs : 0 < ssz) (fs : Nat) (d : Bytes) (hfs : d.length ≤ fs) :
    (sectorsOf ssz fs d).length = (d.length + ssz - 1) / ssz := by
  induction fs generalizing d with
  | zero =>
    have : d = [] := List.eq_nil_of_length_eq_zero (by omega)
    subst this
    simp only [sectorsOf, List.length_nil, Nat.zero_add]
    exact (Nat.div_eq_of_lt (by omega)).symm
  | succ fs ih =>
    by_cases hd : d = []
    · subst hd
      simp only [sectorsOf, List.isEmpty_nil, if_true, List.length_nil, Nat.zero_add]
      exact (Nat.div_eq_of_lt (by omega)).symm
    · have hpos : 0 < d.length := List.length_pos_iff.mpr hd
      have hde : d.isEmpty = false := by simpa using hd
      simp only [sectorsOf, hde, Bool.false_eq_true, if_false, List.length_cons]
      rw [ih (d.drop ssz) (by simp only [List.length_drop]; omega)]
      simp only [List.length_drop]
      rw [show d.length + ssz - 1 = (d.length - 1) + ssz by omega, Nat.add_div_right _ hs]
      congr 1
      by_cases hl : ssz ≤ d.length
      · rw [show d.length - ssz + ssz - 1 = d.length - 1 by omega]
      · rw [Nat.div_eq_of_lt (by omega), Nat.div_eq_of_lt (by omega)]

theorem sectorsOf_getElem (ssz : Nat) (hs : 0 < ssz) (fs : Nat) (d : Bytes) (hfs : d.length ≤ fs) (i : Nat)
    (hi : i < (sectorsOf ssz fs d).length) : (sectorsOf ssz fs d)[i] = (d.drop (i * ssz)).take ssz := by
  induction fs generalizing d i with
  | zero => simp [sectorsOf] at hi
  | succ fs ih =>
    by_cases hd : d = []
    · subst hd; simp [sectorsOf] at hi
    · have hpos : 0 < d.length := List.length_pos_iff.mpr hd
      have hde : d.isEmpty = false := by simpa using hd
      simp only [sectorsOf, hde, Bool.false_eq_true, if_false] at hi ⊢
      cases i with
      | zero => simp
      | succ i =>
        simp only [List.getElem_cons_succ]
        rw [ih (d.drop ssz) (by simp only [List.length_drop]; omega) i (by simpa using hi)]
        rw [List.drop_drop, show ssz + i * ssz = (i + 1) * ssz by rw [Nat.add_mul]; omega]

/-! ### the offset table -/

theorem offs_length (units : List Bytes) (cur : Nat) : (layoutFile.offs units cur).length = units.length + 1 := by
  induction units generalizing cur with
  | nil => simp [layoutFile.offs]
  | cons u us ih => simp [layoutFile.offs, ih]

theorem offs_zero (units : List Bytes) (cur : Nat) : (layoutFile.offs units cur)[0]'(by rw [offs_length]; omega) = cur := by
  cases units <;> simp [layoutFile.offs]

theorem offs_succ (units : List Bytes) (cur j : Nat) (hj : j < units.length) :
    (layoutFile.offs units cur)[j + 1]'(by rw [offs_length]; omega) =
      (layoutFile.offs units cur)[j]'(by rw [offs_length]; omega) + units[j].length := by
  induction units generalizing cur j with
  | nil => simp at hj
  | cons u us ih =>
    cases j with
    | zero =>
      simp only [layoutFile.offs, List.getElem_cons_succ, List.getElem_cons_zero]
      exact offs_zero us _
    | succ j =>
      simp only [layoutFile.offs, List.getElem_cons_succ]
      exact ih (cur + u.length) j (by simpa using hj)

theorem offs_mono (units : List Bytes) (cur j : Nat) (hj : j < (layoutFile.offs units cur).length) :
    cur ≤ (layoutFile.offs units cur)[j] := by
  induction units generalizing cur j with
  | nil => simp [layoutFile.offs] at hj ⊢
  | cons u us ih =>
    cases j with
    | zero => simp [layoutFile.offs]
    | succ j =>
      simp only [layoutFile.offs, List.getElem_cons_succ]
      have := ih (cur + u.length) j (by simpa [layoutFile.offs] using hj)
      omega

theorem offs_last (units : List Bytes) (cur : Nat) :
    (layoutFile.offs units cur)[units.length]'(by rw [offs_length]; omega) = cur + (units.map List.length).sum := by
  induction units generalizing cur with
  | nil => simp [layoutFile.offs]
  | cons u us ih =>
    simp only [layoutFile.offs, List.length_cons, List.getElem_cons_succ, List.map_cons, List.sum_cons]
    rw [ih]; omega

theorem u32At_flatMap_natLE (l : List Nat) (j : Nat) (hj : j < l.length) (hlt : ∀ x ∈ l, x < 2 ^ 32) :
    u32At (l.flatMap (natLE 4)) (4 * j) = l[j] := by
  induction l generalizing j with
  | nil => simp at hj
  | cons x xs ih =>
    cases j with
    | zero =>
      simp only [List.flatMap_cons, Nat.mul_zero, List.getElem_cons_zero]
      exact u32At_here x _ (hlt x (by simp))
    | succ j =>
      simp only [List.flatMap_cons, List.getElem_cons_succ]
      rw [u32At_skip _ _ _ (by rw [natLE_length]; omega), natLE_length,
        show 4 * (j + 1) - 4 = 4 * j by omega]
      exact ih j (by simpa using hj) (fun y hy => hlt y (by simp [hy]))

theorem flatMap_natLE_length (l : List Nat) : (l.flatMap (natLE 4)).length = 4 * l.length := by
  induction l with
  | nil => rfl
  | cons x xs ih => simp [natLE_length, ih]; omega

/-! ### the reader's sector loop -/

theorem sectors_ok (c : Conv) (codec : Codec) (fetch : Nat → Nat → Option Bytes) (ssz pos fsize : Nat) (enc : Bool)
    (key : W32) (offs : List Nat) (P : Nat → Bytes) (k i : Nat)
    (H : ∀ j, i ≤ j → j < i + k → offs.getD j 0 ≤ offs.getD (j + 1) 0 ∧
      ∃ raw, fetch (pos + offs.getD j 0) (offs.getD (j + 1) 0 - offs.getD j 0) = some raw ∧
        decodeUnit c codec (if enc then decBytes c raw (key + BitVec.ofNat 32 j) else raw) (min ssz (fsize - j * ssz)) true
          = .ok (P j)) :
    readEntry.sectors c codec fetch ssz pos fsize enc key offs k i = .ok ((List.range' i k).flatMap P) := by
  induction k generalizing i with
  | zero => simp [readEntry.sectors]
  | succ k ih =>
    obtain ⟨hle, raw, hraw, hdec⟩ := H i (Nat.le_refl _) (by omega)
    have hrest := ih (i + 1) (fun j h1 h2 => H j (by omega) (by omega))
    rw [readEntry.sectors]
    simp only [show ¬ (offs.getD (i + 1) 0 < offs.getD i 0) by omega, if_false, hraw, hdec, hrest]
    simp [List.range'_succ]

/-! ### the sectors the writer stores behind the table -/

def encUnit (c : Conv) (enc : Bool) (key : W32) (u : Bytes) (j : Nat) : Bytes :=
  if enc then encBytes c u (key + BitVec.ofNat 32 j) else u

def unitSecs (c : Conv) (enc : Bool) (key : W32) (units : List Bytes) (i : Nat) : Bytes :=
  (units.zipIdx i).flatMap fun (s, j) => encUnit c enc key s j

theorem encUnit_length (c : Conv) (enc : Bool) (key : W32) (u : Bytes) (j : Nat) : (encUnit c enc key u j).length = u.length := by
  unfold encUnit; split
  · exact encBytes_length _ _ _
  · rfl

theorem unitSecs_cons (c : Conv) (enc : Bool) (key : W32) (u : Bytes) (us : List Bytes) (i : Nat) :
    unitSecs c enc key (u :: us) i = encUnit c enc key u i ++ unitSecs c enc key us (i + 1) := by
  simp [unitSecs, List.zipIdx_cons]

/-- the j-th stored sector sits at the j-th table offset (relative to the start of the sector area) -/
theorem unitSecs_split (c : Conv) (enc : Bool) (key : W32) (units : List Bytes) (i0 cur j : Nat) (hj : j < units.length) :
    ∃ A B, unitSecs c enc key units i0 = A ++ (encUnit c enc key units[j] (i0 + j) ++ B) ∧
      cur + A.length = (layoutFile.offs units cur)[j]'(by rw [offs_length]; omega) := by
  induction units generalizing i0 cur j with
  | nil => simp at hj
  | cons u us ih =>
    cases j with
    | zero =>
      refine ⟨[], unitSecs c enc key us (i0 + 1), by simp [unitSecs_cons], ?_⟩
      simp [layoutFile.offs]
    | succ j =>
      obtain ⟨A, B, h1, h2⟩ := ih (i0 + 1) (cur + u.length) j (by simpa using hj)
      refine ⟨encUnit c enc key u i0 ++ A, B, ?_, ?_⟩
      · rw [unitSecs_cons, h1]
        simp only [List.getElem_cons_succ, List.append_assoc]
        rw [show i0 + 1 + j = i0 + (j + 1) by omega]
      · simp only [layoutFile.offs, List.getElem_cons_succ, List.length_append, encUnit_length]
        omega

theorem unitSecs_length (c : Conv) (enc : Bool) (key : W32) (units : List Bytes) (i : Nat) :
    (unitSecs c enc key units i).length = (units.map List.length).sum := by
  induction units generalizing i with
  | nil => simp [unitSecs]
  | cons u us ih => rw [unitSecs_cons]; simp [encUnit_length, ih]

theorem offs_le_last (units : List Bytes) (cur j : Nat) (hj : j < (layoutFile.offs units cur).length) :
    (layoutFile.offs units cur)[j] ≤ cur + (units.map List.length).sum := by
  induction units generalizing cur j with
  | nil => simp [layoutFile.offs] at hj ⊢
  | cons u us ih =>
    cases j with
    | zero => simp [layoutFile.offs]
    | succ j =>
      simp only [layoutFile.offs, List.getElem_cons_succ, List.map_cons, List.sum_cons]
      have := ih (cur + u.length) j (by simpa [layoutFile.offs] using hj)
      omega

theorem flatMap_getD_range' (rest pfx : List Bytes) :
    (List.range' pfx.length rest.length).flatMap (fun j => (pfx ++ rest).getD j []) = rest.flatten := by
  induction rest generalizing pfx with
  | nil => simp
  | cons x xs ih =>
    simp only [List.length_cons, List.range'_succ, List.flatMap_cons, List.flatten_cons]
    have h1 : (pfx ++ x :: xs).getD pfx.length [] = x := by simp [List.getD_eq_getElem?_getD]
    rw [h1]
    have := ih (pfx ++ [x])
    simp only [List.length_append, List.length_cons, List.length_nil, Nat.zero_add, List.append_assoc,
      List.cons_append, List.nil_append] at this
    rw [this]

theorem layoutFile_comp (c : Conv) (ssz : Nat) (f : FileSpec) (pos : Nat) (hbig : ¬ f.data.length ≤ ssz)
    (hac : anyCompOf ssz f = true) :
    layoutFile c ssz f pos =
      ((if f.enc ≥ 1 then
          encBytes c ((layoutFile.offs f.units (((sectorsOf ssz (f.data.length + 1) f.data).length + 1) * 4)).flatMap (natLE 4))
            (writerKey c f pos - 1)
        else (layoutFile.offs f.units (((sectorsOf ssz (f.data.length + 1) f.data).length + 1) * 4)).flatMap (natLE 4))
        ++ unitSecs c (decide (f.enc ≥ 1)) (writerKey c f pos) f.units 0,
       FLAG_EXISTS + FLAG_COMPRESS + encFlagsOf f.enc) := by
  unfold layoutFile
  rw [if_neg hbig]
  unfold anyCompOf at hac
  simp only [hac, Bool.not_true, Bool.false_eq_true, if_false]
  simp only [unitSecs, encUnit, decide_eq_true_eq]
  rfl

theorem readEntry_comp (c : Conv) (codec : Codec) (fetch : Nat → Nat → Option Bytes) (ssz : Nat) (hs : 0 < ssz)
    (f : FileSpec) (pos : Nat) (he : f.enc ≤ 2) (hbig : ¬ f.data.length ≤ ssz) (hac : anyCompOf ssz f = true)
    (hul : f.units.length = (sectorsOf ssz (f.data.length + 1) f.data).length)
    (hunits : ∀ j (h1 : j < f.units.length) (h2 : j < (sectorsOf ssz (f.data.length + 1) f.data).length),
      UnitOK c codec f.units[j] (sectorsOf ssz (f.data.length + 1) f.data)[j])
    (hsz : (layoutFile c ssz f pos).1.length < 2 ^ 32)
    (hfetch : FetchesBody fetch pos (layoutFile c ssz f pos).1) :
    readEntry c codec fetch ssz f.name pos (layoutFile c ssz f pos).1.length f.data.length (layoutFile c ssz f pos).2
      = .ok f.data := by
  rw [layoutFile_comp c ssz f pos hbig hac] at hsz hfetch ⊢
  simp only at hsz hfetch ⊢
  generalize hps : sectorsOf ssz (f.data.length + 1) f.data = plainSecs at *
  generalize hK : writerKey c f pos = K at *
  generalize hO : layoutFile.offs f.units ((plainSecs.length + 1) * 4) = O at *
  have hOlen : O.length = f.units.length + 1 := by rw [← hO, offs_length]
  have hn : (f.data.length + ssz - 1) / ssz = plainSecs.length := by
    rw [← hps, sectorsOf_length ssz hs _ _ (by omega)]
  have htlen : (O.flatMap (natLE 4)).length = (plainSecs.length + 1) * 4 := by
    rw [flatMap_natLE_length, hOlen, hul]; omega
  generalize hT : (if f.enc ≥ 1 then encBytes c (O.flatMap (natLE 4)) (K - 1) else O.flatMap (natLE 4)) = T at *
  have hTlen : T.length = (plainSecs.length + 1) * 4 := by
    rw [← hT]; split
    · rw [encBytes_length, htlen]
    · exact htlen
  have hblen : (T ++ unitSecs c (decide (f.enc ≥ 1)) K f.units 0).length =
      (plainSecs.length + 1) * 4 + (f.units.map List.length).sum := by
    rw [List.length_append, hTlen, unitSecs_length]
  obtain ⟨f1, f2, f3, f4, f5, f6⟩ := flags_comp f.enc he
  -- the table
  have hfT : fetch pos ((plainSecs.length + 1) * 4) = some T := by
    have := hfetch 0 ((plainSecs.length + 1) * 4) (by rw [hblen]; omega)
    simpa [List.take_left' hTlen] using this
  have hdecT : (if decide (f.enc ≥ 1) = true then decBytes c T (K - 1) else T) = O.flatMap (natLE 4) := by
    rw [← hT]
    by_cases henc : f.enc ≥ 1
    · simp only [henc, decide_true, if_true, decBytes_encBytes]
    · simp only [henc, decide_false, Bool.false_eq_true, if_false]
  have hObound : ∀ x ∈ O, x < 2 ^ 32 := by
    intro x hx
    obtain ⟨j, hj, rfl⟩ := List.getElem_of_mem hx
    have := offs_le_last f.units ((plainSecs.length + 1) * 4) j (by rw [hO]; exact hj)
    simp only [hO] at this
    rw [hblen] at hsz
    omega
  have hoffs : (List.range (plainSecs.length + 1)).map (fun i => u32At (O.flatMap (natLE 4)) (4 * i)) = O := by
    apply List.ext_getElem
    · simp [hOlen, hul]
    · intro i h1 h2
      simp only [List.getElem_map, List.getElem_range]
      exact u32At_flatMap_natLE O i h2 hObound
  unfold readEntry
  simp only [f1, f2, f3, f4, f5, f6, Bool.not_true, Bool.false_eq_true, if_false, if_true, Bool.or_false, Bool.true_or,
    hn, hfT]
  rw [fileKey_writer c f.name pos _ f.data.length _ f.enc f3]
  have hwk : (if f.enc = 2 then (hashS 0x300 (if c.keyFullName then f.name else plainName f.name) + BitVec.ofNat 32 pos) ^^^
      BitVec.ofNat 32 f.data.length else hashS 0x300 (if c.keyFullName then f.name else plainName f.name)) = K := by
    rw [← hK]; rfl
  rw [hwk, hdecT, hoffs]
  rw [sectors_ok c codec fetch ssz pos f.data.length (decide (f.enc ≥ 1)) K O (fun j => plainSecs.getD j []) plainSecs.length 0]
  · have := flatMap_getD_range' plainSecs []
    simp only [List.length_nil, List.nil_append] at this
    rw [this, ← hps, sectorsOf_flatten ssz hs _ _ (by omega)]
  · intro j _ hj
    have hj' : j < plainSecs.length := by omega
    have hju : j < f.units.length := by omega
    have hOj : O.getD j 0 = O[j]'(by omega) := by simp [List.getD_eq_getElem?_getD, List.getElem?_eq_getElem (show j < O.length by omega)]
    have hOj1 : O.getD (j + 1) 0 = O[j + 1]'(by omega) := by simp [List.getD_eq_getElem?_getD, List.getElem?_eq_getElem (show j + 1 < O.length by omega)]
    have hsucc : O[j + 1]'(by omega) = O[j]'(by omega) + f.units[j].length := by
      have := offs_succ f.units ((plainSecs.length + 1) * 4) j hju
      simp only [hO] at this
      exact this
    rw [hOj, hOj1, hsucc]
    refine ⟨by omega, encUnit c (decide (f.enc ≥ 1)) K f.units[j] j, ?_, ?_⟩
    · obtain ⟨A, B, hsplit, hA⟩ := unitSecs_split c (decide (f.enc ≥ 1)) K f.units 0 ((plainSecs.length + 1) * 4) j hju
      simp only [hO, Nat.zero_add] at hA hsplit
      have hlast := offs_le_last f.units ((plainSecs.length + 1) * 4) (j + 1) (by rw [hO]; omega)
      simp only [hO] at hlast
      have := hfetch (O[j]'(by omega)) f.units[j].length (by rw [hblen]; omega)
      rw [show O[j]'(by omega) + f.units[j].length - O[j]'(by omega) = f.units[j].length by omega, this]
      congr 1
      rw [hsplit, ← List.append_assoc T A, List.drop_left' (by rw [List.length_append, hTlen]; exact hA),
        List.take_left' (encUnit_length _ _ _ _ _)]
    · have hU := hunits j hju hj'
      have hplen : (plainSecs[j]'hj').length = min ssz (f.data.length - j * ssz) := by
        have := sectorsOf_getElem ssz hs (f.data.length + 1) f.data (by omega) j (by rw [hps]; exact hj')
        simp only [hps] at this
        rw [this]; simp
      have hPj : plainSecs.getD j [] = plainSecs[j]'hj' := by
        simp [List.getD_eq_getElem?_getD, List.getElem?_eq_getElem hj']
      simp only [hPj, ← hplen]
      have hdec : (if decide (f.enc ≥ 1) = true then decBytes c (encUnit c (decide (f.enc ≥ 1)) K f.units[j] j) (K + BitVec.ofNat 32 j)
          else encUnit c (decide (f.enc ≥ 1)) K f.units[j] j) = f.units[j] := by
        unfold encUnit
        by_cases henc : f.enc ≥ 1
        · simp only [henc, decide_true, if_true, decBytes_encBytes]
        · simp only [henc, decide_false, Bool.false_eq_true, if_false]
      rw [hdec]
      exact decodeUnit_unitOK c codec _ _ true hU (Or.inl rfl)

end Wv.Mpq
