/- lemmas for Model.C13Anim: sections and whole files survive write -> parse -/
import WowVerif.Model.C13Anim
namespace Wv.Anim

theorem readTrack_words (k : Nat) (tr : Option Track) (h : TrackOk k tr) (rest : List Nat) :
    readTrack k tr.isSome (trackWords tr ++ rest) = some (tr, rest) := by
  cases tr with
  | none => simp [readTrack, trackWords]
  | some tr =>
    simp only [TrackOk] at h
    simp only [readTrack, Option.isSome_some, Bool.not_true, Bool.false_eq_true, if_false, trackWords, List.cons_append,
      List.append_assoc, List.length_append]
    rw [if_neg (by omega)]
    have e1 : List.take tr.ts.length (tr.ts ++ (tr.vals ++ rest)) = tr.ts := List.take_left' rfl
    have e2 : List.take (k * tr.ts.length) (List.drop tr.ts.length (tr.ts ++ (tr.vals ++ rest))) = tr.vals := by
      rw [List.drop_left' rfl, ← h, List.take_left' rfl]
    have e3 : List.drop (tr.ts.length + k * tr.ts.length) (tr.ts ++ (tr.vals ++ rest)) = rest := by
      rw [show tr.ts.length + k * tr.ts.length = (tr.ts ++ tr.vals).length by simp [h], ← List.append_assoc, List.drop_left' rfl]
    rw [e1, e2, e3]

theorem flags_bits (b : Bone) :
    (b.flags % 2 == 1) = b.t.isSome ∧ (b.flags / 2 % 2 == 1) = b.r.isSome ∧ (b.flags / 4 % 2 == 1) = b.s.isSome := by
  unfold Bone.flags
  cases b.t <;> cases b.r <;> cases b.s <;> simp

theorem readBone_words (b : Bone) (h : BoneOk b) (rest : List Nat) : readBone (boneWords b ++ rest) = some (b, rest) := by
  obtain ⟨f1, f2, f3⟩ := flags_bits b
  simp only [boneWords, List.cons_append, List.nil_append, List.append_assoc, readBone, f1, f2, f3]
  rw [readTrack_words 3 b.t h.1]
  simp only [Option.bind_eq_bind, Option.bind_some]
  rw [readTrack_words 4 b.r h.2.1]
  simp only [Option.bind_some]
  rw [readTrack_words 3 b.s h.2.2]
  simp [pure]

theorem layout_offsets_length (pos : Nat) (bs : List Bone) : (layout pos bs).1.length = bs.length := by
  induction bs generalizing pos with
  | nil => rfl
  | cons b bs ih => simp only [layout]; split <;> simp [ih]

theorem readBones_layout (pos : Nat) (hpos : 0 < pos) (bs : List Bone) (h : ∀ b ∈ bs, BoneOk b) (rest : List Nat) :
    readBones (layout pos bs).1 ((layout pos bs).2 ++ rest) = some (bs.map Bone.norm, rest) := by
  induction bs generalizing pos with
  | nil => rfl
  | cons b bs ih =>
    have hb := h b (by simp)
    have ht := fun c hc => h c (List.mem_cons_of_mem _ hc)
    simp only [layout]
    split
    · rename_i hd
      simp only [readBones, hpos, if_true, List.append_assoc]
      rw [readBone_words b hb]
      simp only [Option.bind_eq_bind, Option.bind_some]
      rw [ih (pos + 4 * (boneWords b).length) (by omega) ht]
      simp [pure, Bone.norm, hd]
    · rename_i hd
      simp only [readBones, Nat.lt_irrefl, if_false]
      rw [ih pos hpos ht]
      simp [pure, Bone.norm, hd]

/-- A SECTION SURVIVES WRITE → PARSE: with the size the writer records, the reader returns the section (a bone without
    tracks comes back as the empty bone) and stops exactly at the section's end, wherever in the file the section lies -/
theorem section_roundtrip (pos : Nat) (s : Section) (h : ∀ b ∈ s.bones, BoneOk b) (rest : List Nat) :
    parseSection (entrySize s) (writeSection pos s ++ rest) = some (s.norm, rest) := by
  simp only [writeSection, List.cons_append, List.nil_append, List.append_assoc, parseSection, entrySize]
  simp only [ne_eq, not_true_eq_false, if_false, show ¬ (16 + 4 * s.bones.length < 16) by omega,
    show (16 + 4 * s.bones.length - 16) / 4 = s.bones.length by omega]
  have hl := layout_offsets_length (pos + 16 + 4 * s.bones.length) s.bones
  rw [if_neg (by simp [hl])]
  rw [List.take_left' hl, List.drop_left' hl, readBones_layout _ (by omega) s.bones h rest]
  simp [pure, Section.norm]

end Wv.Anim

namespace Wv.Anim

theorem placeSections_entries_length (pos : Nat) (ss : List Section) : (placeSections pos ss).1.length = ss.length := by
  induction ss generalizing pos with
  | nil => rfl
  | cons s ss ih => simp [placeSections, ih]

theorem readEntries_flat (es : List (Nat × Nat × Nat)) (rest : List Nat) :
    readEntries es.length (es.flatMap (fun e => [e.1, e.2.1, e.2.2]) ++ rest) = some es := by
  induction es with
  | nil => rfl
  | cons e es ih => simp [readEntries, List.flatMap_cons, ih]

/-- every section is found where its entry says, whatever precedes it in the file -/
theorem readSections_placed (pre : List Nat) (ss : List Section) (h : ∀ s ∈ ss, ∀ b ∈ s.bones, BoneOk b) (tail : List Nat) :
    readSections (pre ++ (placeSections (4 * pre.length) ss).2 ++ tail) (placeSections (4 * pre.length) ss).1
      = some (ss.map Section.norm) := by
  induction ss generalizing pre with
  | nil => rfl
  | cons s ss ih =>
    simp only [placeSections, readSections]
    rw [if_neg (by omega)]
    have hd : (4 * pre.length) / 4 = pre.length := by omega
    rw [hd, List.append_assoc, List.drop_left' rfl, List.append_assoc,
      section_roundtrip (4 * pre.length) s (h s (by simp))]
    simp only [Option.bind_eq_bind, Option.bind_some]
    have := ih (pre ++ writeSection (4 * pre.length) s) (fun t ht => h t (List.mem_cons_of_mem _ ht))
    simp only [List.length_append, Nat.mul_add, List.append_assoc] at this
    (try simp only [List.append_assoc])
    rw [this]
    simp [pure]

/-- AN ANIMATION FILE SURVIVES WRITE → PARSE: every section comes back (bones without tracks as empty bones), with the
    version and the unknown header word, for any number of sections and bones -/
theorem file_roundtrip (f : File) (h : ∀ s ∈ f.sections, ∀ b ∈ s.bones, BoneOk b) : parseFile (writeFile f) = some f.norm := by
  have hl := placeSections_entries_length (20 + 12 * f.sections.length) f.sections
  have hflat : ∀ es : List (Nat × Nat × Nat), (es.flatMap (fun e => [e.1, e.2.1, e.2.2])).length = 3 * es.length := by
    intro es; induction es with
    | nil => rfl
    | cons e es ih => simp [List.flatMap_cons, ih]; omega
  have hsec := readSections_placed ([MAOF, f.version, f.sections.length, f.unknown, 20]
      ++ (placeSections (20 + 12 * f.sections.length) f.sections).1.flatMap (fun e => [e.1, e.2.1, e.2.2])) f.sections h []
  have hpre : 4 * ([MAOF, f.version, f.sections.length, f.unknown, 20]
      ++ (placeSections (20 + 12 * f.sections.length) f.sections).1.flatMap (fun e => [e.1, e.2.1, e.2.2])).length
      = 20 + 12 * f.sections.length := by
    simp only [List.length_append, List.length_cons, List.length_nil, hflat, hl]; omega
  rw [hpre] at hsec
  have hent := readEntries_flat (placeSections (20 + 12 * f.sections.length) f.sections).1 (placeSections (20 + 12 * f.sections.length) f.sections).2
  rw [hl] at hent
  simp only [writeFile]
  generalize placeSections (20 + 12 * f.sections.length) f.sections = P at *
  simp only [List.cons_append, List.nil_append, parseFile]
  simp only [ne_eq, not_true_eq_false, if_false, show ¬ (20 % 4 ≠ 0) by decide, show 20 / 4 = 5 by decide]
  simp only [List.drop_succ_cons, List.drop_zero]
  rw [hent]
  simp only [Option.bind_eq_bind, Option.bind_some]
  simp only [List.cons_append, List.nil_append, List.append_nil, List.append_assoc] at hsec
  rw [hsec]
  simp [pure, File.norm]

end Wv.Anim
