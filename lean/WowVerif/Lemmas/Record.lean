/- lemmas about Lib.Record: write→read and read→write for every layout -/
import WowVerif.Lib.Record
import WowVerif.Lemmas.Bytes
namespace Wv.Rec
open Wv

theorem leNat_lt (bs : Bytes) : leNat bs < 256 ^ bs.length := by
  induction bs with
  | nil => simp [leNat]
  | cons b bs ih =>
    simp only [leNat, List.length_cons, Nat.pow_succ]
    have := UInt8.toNat_lt b
    omega

theorem natLE_leNat (bs : Bytes) : natLE bs.length (leNat bs) = bs := by
  induction bs with
  | nil => rfl
  | cons b bs ih =>
    simp only [List.length_cons, natLE, leNat]
    have hb := UInt8.toNat_lt b
    have h1 : (b.toNat + 256 * leNat bs) % 256 = b.toNat := by omega
    have h2 : (b.toNat + 256 * leNat bs) / 256 = leNat bs := by omega
    rw [h1, h2, ih]
    simp

theorem enc_length (fs : List (Nat × Nat)) : (enc fs).length = total (fs.map (·.1)) := by
  induction fs with
  | nil => rfl
  | cons f fs ih => obtain ⟨w, v⟩ := f; simp [enc, total, natLE_length, ih]

/-- WRITE → READ: the reader returns exactly the values written, and the rest of the input untouched -/
theorem dec_enc (fs : List (Nat × Nat)) (rest : Bytes) (h : Fits fs) :
    dec (fs.map (·.1)) (enc fs ++ rest) = some (fs.map (·.2), rest) := by
  induction fs with
  | nil => rfl
  | cons f fs ih =>
    obtain ⟨w, v⟩ := f
    have hv : v < 256 ^ w := h (w, v) (by simp)
    have hfs : Fits fs := fun g hg => h g (by simp [hg])
    simp only [List.map_cons, enc, dec, List.append_assoc]
    have hl : (natLE w v).length = w := natLE_length w v
    have hnot : ¬ (natLE w v ++ (enc fs ++ rest)).length < w := by simp [hl]
    rw [if_neg hnot]
    have hd : (natLE w v ++ (enc fs ++ rest)).drop w = enc fs ++ rest := List.drop_left' hl
    have ht : (natLE w v ++ (enc fs ++ rest)).take w = natLE w v := List.take_left' hl
    rw [hd, ih hfs, ht, leNat_natLE w v hv]

/-- the reader fails exactly when the input is shorter than the record -/
theorem dec_isSome_iff (ws : List Nat) (bs : Bytes) : (dec ws bs).isSome ↔ total ws ≤ bs.length := by
  induction ws generalizing bs with
  | nil => simp [dec, total]
  | cons w ws ih =>
    simp only [dec, total]
    by_cases hw : bs.length < w
    · simp [hw]; omega
    · rw [if_neg hw]
      have := ih (bs.drop w)
      have hlen : (bs.drop w).length = bs.length - w := List.length_drop
      cases hd : dec ws (bs.drop w) with
      | none => rw [hd, hlen] at this; simp at this ⊢; omega
      | some p => rw [hd, hlen] at this; simp at this ⊢; omega

/-- READ → WRITE: writing back what was read reproduces the bytes read (so a second write is byte-identical) -/
theorem enc_dec (ws : List Nat) (bs : Bytes) (vs : List Nat) (rest : Bytes) (h : dec ws bs = some (vs, rest)) :
    enc (ws.zip vs) ++ rest = bs ∧ vs.length = ws.length := by
  induction ws generalizing bs vs with
  | nil => simp [dec] at h; obtain ⟨rfl, rfl⟩ := h; simp [enc]
  | cons w ws ih =>
    simp only [dec] at h
    by_cases hw : bs.length < w
    · simp [hw] at h
    · rw [if_neg hw] at h
      cases hd : dec ws (bs.drop w) with
      | none => rw [hd] at h; simp at h
      | some p =>
        obtain ⟨vs', rest'⟩ := p
        rw [hd] at h; simp at h
        obtain ⟨rfl, rfl⟩ := h
        obtain ⟨h1, h2⟩ := ih (bs.drop w) vs' hd
        refine ⟨?_, by simp [h2]⟩
        simp only [List.zip_cons_cons, enc, List.append_assoc]
        rw [h1]
        have hlen : (bs.take w).length = w := by simp; omega
        have := natLE_leNat (bs.take w)
        rw [hlen] at this
        rw [this, List.take_append_drop]

/-- every value read fits its field -/
theorem dec_fits (ws : List Nat) (bs : Bytes) (vs : List Nat) (rest : Bytes) (h : dec ws bs = some (vs, rest)) :
    Fits (ws.zip vs) := by
  induction ws generalizing bs vs with
  | nil => intro f hf; simp at hf
  | cons w ws ih =>
    simp only [dec] at h
    by_cases hw : bs.length < w
    · simp [hw] at h
    · rw [if_neg hw] at h
      cases hd : dec ws (bs.drop w) with
      | none => rw [hd] at h; simp at h
      | some p =>
        obtain ⟨vs', rest'⟩ := p
        rw [hd] at h; simp at h
        obtain ⟨rfl, rfl⟩ := h
        intro f hf
        simp only [List.zip_cons_cons, List.mem_cons] at hf
        rcases hf with rfl | hf
        · have := leNat_lt (bs.take w)
          have hlen : (bs.take w).length = w := by simp; omega
          rw [hlen] at this; exact this
        · exact ih (bs.drop w) vs' hd f hf

theorem fitsB_iff (fs : List (Nat × Nat)) : fitsB fs = true ↔ Fits fs := by
  simp [fitsB, Fits]

/-- two records of the same layout that fit are equal iff their bytes are (field boundaries cannot shift) -/
theorem enc_inj (ws vs vs' : List Nat) (hl : vs.length = ws.length) (hl' : vs'.length = ws.length)
    (hf : Fits (ws.zip vs)) (hf' : Fits (ws.zip vs')) (h : enc (ws.zip vs) = enc (ws.zip vs')) : vs = vs' := by
  have e1 := dec_enc (ws.zip vs) [] hf
  have e2 := dec_enc (ws.zip vs') [] hf'
  have m1 : (ws.zip vs).map (·.1) = ws := by
    rw [List.map_fst_zip]; omega
  have m1' : (ws.zip vs').map (·.1) = ws := by
    rw [List.map_fst_zip]; omega
  have m2 : (ws.zip vs).map (·.2) = vs := by
    rw [List.map_snd_zip]; omega
  have m2' : (ws.zip vs').map (·.2) = vs' := by
    rw [List.map_snd_zip]; omega
  rw [m1, m2] at e1; rw [m1', m2'] at e2
  rw [h] at e1; rw [e1] at e2
  simpa using e2

end Wv.Rec
