/- whatever parse_header returns is a normalised header (so parsing what was written for it returns it again) -/
import WowVerif.Lemmas.C16Header
namespace Wv.BlpH
open Wv

theorem versionOf_le (m v : Nat) (h : versionOf m = some v) : v ≤ 2 := by
  unfold versionOf at h
  split at h
  · cases h; omega
  · split at h
    · cases h; omega
    · split at h
      · cases h; omega
      · cases h

theorem normContent_le (c : Nat) : normContent c ≤ 1 := by
  unfold normContent; split <;> omega

theorem normAlpha_idem (c r : Nat) : normAlpha c (normAlpha c r) = normAlpha c r := by
  unfold normAlpha
  by_cases h1 : c = 0 ∧ (r ≠ 0 ∧ r ≠ 8)
  · simp [h1]
  · by_cases h2 : c = 1 ∧ (r ≠ 0 ∧ r ≠ 1 ∧ r ≠ 4 ∧ r ≠ 8)
    · simp [h1, h2]
    · simp only [h1, h2, if_false]

theorem parseLocator_shape (v : Nat) (bs : Bytes) (l : List Nat) (h : parseLocator v bs = .ok l) :
    (v = 0 ∧ l = []) ∨ (v ≥ 1 ∧ l.length = 32) := by
  unfold parseLocator at h
  by_cases hv : v ≥ 1
  · rw [if_pos hv] at h
    cases hd : Rec.dec locW bs with
    | none => rw [hd] at h; cases h
    | some p =>
      rw [hd] at h
      simp only [Except.ok.injEq] at h
      subst h
      obtain ⟨vs, rest⟩ := p
      have := (Rec.enc_dec locW bs vs rest hd).2
      exact Or.inr ⟨hv, by simpa [locW] using this⟩
  · rw [if_neg hv] at h
    simp only [Except.ok.injEq] at h
    exact Or.inl ⟨by omega, h.symm⟩

/-- the shape every accepted header has -/
def Shape (h : Hdr) : Prop :=
  h.version ≤ 2 ∧ h.content ≤ 1 ∧
  ((h.version = 0 ∧ h.locator = []) ∨ (h.version ≥ 1 ∧ h.locator.length = 32)) ∧
  match h.flags with
  | .old ab _ _ => h.version ≤ 1 ∧ normAlpha h.content ab = ab
  | .blp2 comp _ at_ _ => h.version = 2 ∧ comp ≤ 3 ∧ okAlphaType at_ = true

theorem parseOld_shape (v c : Nat) (r : Bytes) (h : Hdr) (hv : v ≤ 1) (hc : c ≤ 1) (hp : parseOld v c r = .ok h) : Shape h := by
  unfold parseOld at hp
  cases hd : Rec.dec [4, 4, 4, 4, 4] r with
  | none => rw [hd] at hp; cases hp
  | some p2 =>
    rw [hd] at hp
    simp only at hp
    cases hl : parseLocator v p2.2 with
    | error e => rw [hl] at hp; cases hp
    | ok l =>
      rw [hl] at hp
      simp only [Except.ok.injEq] at hp
      subst hp
      exact ⟨by simp only; omega, hc, parseLocator_shape v _ l hl, hv, normAlpha_idem _ _⟩

theorem parseV2_shape (c : Nat) (r : Bytes) (h : Hdr) (hc : c ≤ 1) (hp : parseV2 c r = .ok h) : Shape h := by
  unfold parseV2 at hp
  cases h1 : Rec.dec [1] r with
  | none => rw [h1] at hp; cases hp
  | some p2 =>
    rw [h1] at hp
    simp only at hp
    by_cases hcomp : nth p2.1 0 > 3
    · simp only [hcomp, if_true] at hp; cases hp
    · simp only [hcomp, if_false] at hp
      cases h2 : Rec.dec [1, 1] p2.2 with
      | none => rw [h2] at hp; cases hp
      | some p3 =>
        rw [h2] at hp
        simp only at hp
        by_cases hat : ¬ okAlphaType (nth p3.1 1) = true
        · simp only [hat, not_false_eq_true, if_true] at hp; cases hp
        · simp only [hat, if_false] at hp
          cases h3 : Rec.dec [1, 4, 4] p3.2 with
          | none => rw [h3] at hp; cases hp
          | some p4 =>
            rw [h3] at hp
            simp only at hp
            cases hl : parseLocator 2 p4.2 with
            | error e => rw [hl] at hp; cases hp
            | ok l =>
              rw [hl] at hp
              simp only [Except.ok.injEq] at hp
              subst hp
              exact ⟨by simp, hc, parseLocator_shape 2 _ l hl, rfl, by omega, by simpa using hat⟩

/-- PARSE RETURNS NORMAL FORMS ONLY: known version, known content tag, a locator exactly when the version has one, and flags
    that re-normalise to themselves (so an unknown tag or alpha depth in the file never survives into the structure) -/
theorem parse_shape (bs : Bytes) (h : Hdr) (hp : parse bs = .ok h) : Shape h := by
  unfold parse at hp
  cases h0 : Rec.dec [4] bs with
  | none => rw [h0] at hp; cases hp
  | some p0 =>
    rw [h0] at hp
    simp only at hp
    cases hv : versionOf (nth p0.1 0) with
    | none => rw [hv] at hp; cases hp
    | some v =>
      rw [hv] at hp
      simp only at hp
      have hv2 := versionOf_le _ v hv
      cases h1 : Rec.dec [4] p0.2 with
      | none => rw [h1] at hp; cases hp
      | some p1 =>
        rw [h1] at hp
        simp only at hp
        by_cases h2 : v = 2
        · rw [if_pos h2] at hp
          exact parseV2_shape _ _ h (normContent_le _) hp
        · rw [if_neg h2] at hp
          exact parseOld_shape v _ _ h (by omega) (normContent_le _) hp

end Wv.BlpH
