/- proofs for C08 (patch chain ordering, lookup, patch application) -/
import WowVerif.Model.C08Chain
set_option linter.unusedSimpArgs false
namespace Wv.Chain
open Wv


/-- `a` is consulted before `b`: strictly higher priority, or equal priority and inserted earlier -/
def Before (a b : Entry) : Prop := a.prio > b.prio ∨ (a.prio = b.prio ∧ a.stamp < b.stamp)

structure CInv (c : Chain) : Prop where
  sorted : c.entries.Pairwise Before
  fresh : ∀ e ∈ c.entries, e.stamp < c.next

theorem mem_insertSorted (e x : Entry) (l : List Entry) : x ∈ insertSorted e l ↔ x = e ∨ x ∈ l := by
  induction l with
  | nil => simp [insertSorted]
  | cons y ys ih =>
    simp only [insertSorted]; split
    · simp
    · simp only [List.mem_cons, ih]; constructor <;> (intro h; rcases h with h | h | h <;> simp [h])

theorem insertSorted_pairwise (e : Entry) (l : List Entry) (h : l.Pairwise Before)
    (hf : ∀ x ∈ l, x.stamp < e.stamp) : (insertSorted e l).Pairwise Before := by
  induction l with
  | nil => simp [insertSorted]
  | cons y ys ih =>
    simp only [insertSorted]
    rw [List.pairwise_cons] at h
    split
    · rename_i hlt
      refine List.Pairwise.cons ?_ (List.Pairwise.cons h.1 h.2)
      intro z hz
      simp only [List.mem_cons] at hz
      rcases hz with hz | hz
      · subst hz; exact Or.inl hlt
      · have := h.1 z hz
        rcases this with t | t
        · exact Or.inl (by omega)
        · exact Or.inl (by omega)
    · rename_i hge
      refine List.Pairwise.cons ?_ (ih h.2 (fun x hx => hf x (by simp [hx])))
      intro z hz
      rw [mem_insertSorted] at hz
      rcases hz with hz | hz
      · subst hz
        have := hf y (by simp)
        by_cases heq : y.prio = z.prio
        · exact Or.inr ⟨heq, this⟩
        · exact Or.inl (by omega)
      · exact h.1 z hz

theorem removeFirst_sublist (id : Nat) (l : List Entry) : (removeFirst id l).Sublist l := by
  induction l with
  | nil => simp [removeFirst]
  | cons y ys ih =>
    simp only [removeFirst]; split
    · exact List.sublist_cons_self y ys
    · exact List.Sublist.cons_cons y ih

theorem inv_add (c : Chain) (id : Nat) (p : Int) (h : CInv c) : CInv (c.add id p) := by
  refine ⟨insertSorted_pairwise _ _ h.sorted (fun x hx => h.fresh x hx), ?_⟩
  intro e he
  simp only [Chain.add, mem_insertSorted] at he
  rcases he with he | he
  · subst he; simp [Chain.add]
  · have := h.fresh e he; simp only [Chain.add]; omega

theorem inv_remove (c : Chain) (id : Nat) (h : CInv c) : CInv (c.remove id) :=
  ⟨h.sorted.sublist (removeFirst_sublist id c.entries),
   fun e he => h.fresh e ((removeFirst_sublist id c.entries).subset he)⟩

theorem inv_setPriority (c c' : Chain) (id : Nat) (p : Int) (h : CInv c) (hs : c.setPriority id p = some c') : CInv c' := by
  unfold Chain.setPriority at hs
  split at hs
  · simp only [Option.some.injEq] at hs
    subst hs
    have hr := inv_remove c id h
    refine ⟨insertSorted_pairwise _ _ hr.sorted (fun x hx => hr.fresh x hx), ?_⟩
    intro e he
    simp only [mem_insertSorted] at he
    rcases he with he | he
    · subst he; simp
    · have := hr.fresh e he; simp only [Chain.remove] at this; simp only; omega
  · simp at hs

theorem inv_step (c : Chain) (op : Op) (h : CInv c) : CInv (step c op) := by
  cases op with
  | add id p => exact inv_add c id p h
  | remove id => exact inv_remove c id h
  | setPriority id p =>
    simp only [step]
    cases hs : c.setPriority id p with
    | none => simpa using h
    | some c' => simpa using inv_setPriority c c' id p h hs
  | clear => exact ⟨by simp [step, Chain.clear], by simp [step, Chain.clear]⟩

/-- the chain is ordered after every history of add / remove / set-priority / clear -/
theorem chain_sorted (ops : List Op) : CInv (run ops) := by
  have : ∀ (c : Chain), CInv c → CInv (ops.foldl step c) := by
    induction ops with
    | nil => intro c h; exact h
    | cons op ops ih => intro c h; exact ih _ (inv_step c op h)
  exact this {} ⟨by simp, by simp⟩

/-- a read returns the version held by the highest-priority archive containing the name, earliest added among ties -/
theorem read_is_best (has : Nat → Nat → Bool) (c : Chain) (h : CInv c) (name : Nat) (e : Entry)
    (hl : lookup has c name = some e) :
    e ∈ c.entries ∧ has e.id name = true ∧ ∀ e' ∈ c.entries, has e'.id name = true → e' = e ∨ Before e e' := by
  unfold lookup at hl
  refine ⟨List.mem_of_find?_eq_some hl, by simpa using List.find?_some hl, ?_⟩
  intro e' he' hh
  obtain ⟨as, bs, hsplit, hnone⟩ := List.find?_eq_some_iff_append.mp hl |>.2
  rw [hsplit] at he'
  have hs := h.sorted
  rw [hsplit] at hs
  simp only [List.mem_append, List.mem_cons] at he'
  rcases he' with he' | he' | he'
  · exact absurd hh (by simpa using hnone e' he')
  · exact Or.inl he'
  · have := (List.pairwise_append.mp hs).2.1
    rw [List.pairwise_cons] at this
    exact Or.inr (this.1 e' he')

theorem lookup_none_iff (has : Nat → Nat → Bool) (c : Chain) (name : Nat) :
    lookup has c name = none ↔ ∀ e ∈ c.entries, has e.id name = false := by
  simp [lookup, List.find?_eq_none]

/-! ### patches -/

/-- whatever `apply_patch` returns has been verified against both declared digests — never unverified bytes -/
theorem applyPatch_verified (md5 : Bytes → Bytes) (p : Patch) (base out : Bytes)
    (h : applyPatch md5 p base = .ok out) : md5 base = p.md5Before ∧ md5 out = p.md5After := by
  unfold applyPatch at h
  split at h
  · simp at h
  · rename_i hb
    split at h
    · simp at h
    · rename_i o ho
      split at h
      · simp at h
      · rename_i ha
        simp only [Except.ok.injEq] at h
        subst h
        exact ⟨by simpa using hb, by simpa using ha⟩

theorem applyCopy_size (p : Patch) (base out : Bytes) (h : applyCopy p base = some out) :
    out = p.data ∧ out.length = p.sizeAfter ∧ base.length = p.sizeBefore := by
  unfold applyCopy at h
  split at h
  · simp at h
  · split at h
    · simp at h
    · simp only [Option.some.injEq] at h
      subst h
      rename_i h1 h2
      exact ⟨rfl, by simpa using h2, by simpa using h1⟩

/-- the RLE decoder always yields exactly the declared number of bytes -/
theorem rle_length (c : Bytes) (size : Nat) (skip : Bool) (out : Bytes) (h : rleDecompress c size skip = some out) :
    out.length = size := by
  unfold rleDecompress at h
  split at h
  · simp at h
  · simp only at h
    split at h <;> simp at h <;> (obtain ⟨_, rfl⟩ := h; simp)

theorem addBytes_length (seg base : Bytes) : (addBytes seg base).length = seg.length := by
  unfold addBytes
  simp only [List.length_append, List.length_zipWith, List.length_drop]
  omega

theorem bsdStep_inv (base dataBlk extraBlk : Bytes) (newSize : Nat) (st st' : Bs) (add mov raw : Nat)
    (hi : st.out.length = st.newOff) (h : bsdStep base dataBlk extraBlk newSize st add mov raw = some st') :
    st'.out.length = st'.newOff ∧ st'.newOff ≤ newSize := by
  unfold bsdStep at h
  split at h
  · simp at h
  split at h
  · simp at h
  simp only at h
  split at h
  · simp at h
  split at h
  · simp at h
  simp only [Option.some.injEq] at h
  subst h
  rename_i h1 h2 h3 h4
  simp only [List.length_append, addBytes_length, List.length_take, List.length_drop, hi]
  constructor <;> omega

theorem bsdLoop_inv (base ctrl dataBlk extraBlk : Bytes) (newSize n i : Nat) (st st' : Bs)
    (hi : st.out.length = st.newOff) (h : bsdLoop base ctrl dataBlk extraBlk newSize n i st = some st') :
    st'.out.length = st'.newOff := by
  induction n generalizing i st with
  | zero => simp only [bsdLoop, Option.some.injEq] at h; subst h; exact hi
  | succ n ih =>
    simp only [bsdLoop] at h
    split at h
    · simp at h
    · rename_i s hs
      exact ih _ _ (bsdStep_inv _ _ _ _ _ _ _ _ _ hi hs).1 h

/-- a BSD0 patch that applies produces exactly the declared number of bytes (every control triple is bound-checked,
    so no index leaves its block) -/
theorem applyBsd0_size (p : Patch) (base out : Bytes) (h : applyBsd0 p base = some out) :
    out.length = p.sizeAfter ∧ base.length = p.sizeBefore := by
  unfold applyBsd0 at h
  split at h
  · simp at h
  rename_i hb
  split at h
  · simp at h
  rename_i d hd
  split at h
  · simp at h
  split at h
  · simp at h
  simp only at h
  split at h
  · simp at h
  rename_i hns
  split at h
  · simp at h
  split at h
  · simp at h
  split at h
  · simp at h
  rename_i st hst
  split at h
  · simp at h
  rename_i hfin
  simp only [Option.some.injEq] at h
  subst h
  have := bsdLoop_inv _ _ _ _ _ _ _ _ _ rfl hst
  refine ⟨?_, by simpa using hb⟩
  have e1 : st.newOff = u64At d 24 := by simpa using hfin
  have e2 : u64At d 24 = p.sizeAfter := by simpa using hns
  omega

/-- PATCH RESULT: an accepted patch result matches the declared digests and the declared size -/
theorem applyPatch_size (md5 : Bytes → Bytes) (p : Patch) (base out : Bytes)
    (h : applyPatch md5 p base = .ok out) : out.length = p.sizeAfter ∧ base.length = p.sizeBefore := by
  unfold applyPatch at h
  split at h
  · simp at h
  split at h
  · simp at h
  rename_i o ho
  split at h
  · simp at h
  simp only [Except.ok.injEq] at h
  subst h
  split at ho
  · have := applyCopy_size p base o ho; exact ⟨this.2.1, this.2.2⟩
  · exact applyBsd0_size p base o ho

/-- parallel construction: the list is ordered by non-increasing priority -/
theorem fromParallel_sorted (l : List (Nat × Int)) :
    (fromParallel l).entries.Pairwise (fun a b => a.prio ≥ b.prio) := by
  have := List.pairwise_mergeSort (le := fun (a b : Entry) => decide (a.prio ≥ b.prio))
    (by intro a b c; simp; omega) (by intro a b; simp; omega)
    (l.zipIdx.map fun ((id, p), i) => (⟨id, p, i⟩ : Entry))
  simpa [fromParallel] using this

/-- what the RLE stage of a patch can produce is bounded by its input: at most 128 bytes per input byte -/
theorem rle_output_bounded (c : Bytes) (size : Nat) (skip : Bool) (out : Bytes)
    (h : rleDecompress c size skip = some out) : out.length ≤ 128 * c.length := by
  have hl := rle_length c size skip out h
  unfold rleDecompress at h
  split at h
  · simp at h
  · simp only at h
    split at h <;> simp at h <;> (obtain ⟨hb, _⟩ := h; omega)

/-- a BSD0 patch cannot make the decoder produce (or allocate) more than 128 bytes per byte of patch data, whatever
    its header declares -/
theorem bsd0_output_bounded (p : Patch) (base out : Bytes) (h : applyBsd0 p base = some out) :
    out.length ≤ 128 * p.data.length := by
  have hs := (applyBsd0_size p base out h).1
  unfold applyBsd0 at h
  split at h
  · simp at h
  split at h
  · simp at h
  rename_i d hd
  have hdl := rle_output_bounded p.data p.dataSize true d hd
  split at h
  · simp at h
  split at h
  · simp at h
  simp only at h
  split at h
  · simp at h
  rename_i hns
  split at h
  · simp at h
  rename_i hfit
  split at h
  · simp at h
  rename_i hbound
  simp only [List.length_take, List.length_drop] at hbound
  have e2 : u64At d 24 = p.sizeAfter := by simpa using hns
  omega

end Wv.Chain
