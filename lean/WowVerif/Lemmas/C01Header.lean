/- lemmas about Model.C01Header: the header writer and reader are inverse on every version's layout -/
import WowVerif.Model.C01Header
import WowVerif.Lemmas.Record
namespace Wv.Hdr
open Wv

theorem validate_ext (h : Hdr) (e : List Nat) : validate { h with ext := e } = validate h := rfl

theorem zip_fst {ws vs : List Nat} (h : vs.length = ws.length) : (ws.zip vs).map (·.1) = ws := by
  rw [List.map_fst_zip]; omega

theorem zip_snd {ws vs : List Nat} (h : vs.length = ws.length) : (ws.zip vs).map (·.2) = vs := by
  rw [List.map_snd_zip]; omega

theorem base_len (h : Hdr) : (baseVals h).length = baseW.length := rfl

theorem base_enc_length (h : Hdr) : (Rec.enc (baseW.zip (baseVals h))).length = 32 := by
  rw [Rec.enc_length, zip_fst (base_len h)]; rfl

theorem take4_write (h : Hdr) (R : Bytes) (_hf : Rec.Fits (baseW.zip (baseVals h))) :
    leNat ((Rec.enc (baseW.zip (baseVals h)) ++ R).take 4) = sig := by
  have hs : sig < 256 ^ 4 := by decide
  simp only [baseW, baseVals, List.zip_cons_cons, Rec.enc, List.append_assoc]
  have hl : (natLE 4 sig).length = 4 := natLE_length 4 sig
  rw [List.take_left' hl]
  exact leNat_natLE 4 sig hs

/-- WRITE → READ, every version, whatever follows the header in the file -/
theorem parse_write (h : Hdr) (hw : WF h) (rest : Bytes) : parse (write h ++ rest) = .ok h := by
  obtain ⟨hs, as, v, sh, hp, bp, hsz, bsz, ext⟩ := h
  unfold parse write
  have hlen := base_enc_length ⟨hs, as, v, sh, hp, bp, hsz, bsz, ext⟩
  rw [List.append_assoc]
  have h4 : ¬ (Rec.enc (baseW.zip (baseVals ⟨hs, as, v, sh, hp, bp, hsz, bsz, ext⟩)) ++
      (Rec.enc ((extW v hs).zip ext) ++ rest)).length < 4 := by
    simp only [List.length_append, hlen]; omega
  rw [if_neg h4]
  rw [take4_write _ _ hw.fitsBase]
  simp only [ne_eq, not_true_eq_false, if_false]
  have hd := Rec.dec_enc (baseW.zip (baseVals ⟨hs, as, v, sh, hp, bp, hsz, bsz, ext⟩))
    (Rec.enc ((extW v hs).zip ext) ++ rest) hw.fitsBase
  rw [zip_fst (base_len _), zip_snd (base_len _)] at hd
  rw [hd]
  simp only [baseVals, parseFields]
  have hv : ¬ v > 3 := by have := hw.ver; simp at this; omega
  rw [if_neg hv]
  have hval : validate ⟨hs, as, v, sh, hp, bp, hsz, bsz, []⟩ = true := hw.valid
  rw [hval]
  simp only [Bool.true_eq_false, if_false]
  have hsz' : ¬ hs < minSize v := by have := hw.size; simp at this; omega
  rw [if_neg hsz']
  have he := Rec.dec_enc ((extW v hs).zip ext) rest hw.fitsExt
  have hel : ext.length = (extW v hs).length := hw.extLen
  rw [zip_fst hel, zip_snd hel] at he
  rw [he]

theorem parseFields_ok (vals : List Nat) (rest : Bytes) (h : Hdr) (hp : parseFields vals rest = .ok h) :
    ∃ x rest2, vals = x :: (baseVals h).tail ∧ vals.length = 9 ∧ h.version ≤ 3 ∧ validate h = true ∧
      minSize h.version ≤ h.headerSize ∧ Rec.dec (extW h.version h.headerSize) rest = some (h.ext, rest2) := by
  unfold parseFields at hp
  split at hp
  · rename_i x hs as v sh hpos bp hsz bsz
    by_cases hv : v > 3
    · simp only [if_pos hv] at hp; cases hp
    · simp only [if_neg hv] at hp
      by_cases hval : validate ⟨hs, as, v, sh, hpos, bp, hsz, bsz, []⟩ = false
      · rw [if_pos hval] at hp; cases hp
      · rw [if_neg hval] at hp
        by_cases hsz' : hs < minSize v
        · rw [if_pos hsz'] at hp; cases hp
        · rw [if_neg hsz'] at hp
          cases hd : Rec.dec (extW v hs) rest with
          | none => rw [hd] at hp; cases hp
          | some p =>
            obtain ⟨ext, rest2⟩ := p
            rw [hd] at hp
            simp only [Except.ok.injEq] at hp
            subst hp
            refine ⟨x, rest2, rfl, rfl, by simp only; omega, ?_, by simp only; omega, hd⟩
            simp only [Bool.not_eq_false] at hval
            exact hval
  · cases hp

/-- READ → WRITE: an accepted header is a well-formed one, and writing it again reproduces the bytes it was read
    from (so a second write is byte-identical, and everything accepted passed every security check) -/
theorem write_parse (bs : Bytes) (h : Hdr) (hp : parse bs = .ok h) : WF h ∧ ∃ rest, bs = write h ++ rest := by
  unfold parse at hp
  by_cases h4 : bs.length < 4
  · rw [if_pos h4] at hp; cases hp
  · rw [if_neg h4] at hp
    by_cases hsig : leNat (bs.take 4) ≠ sig
    · rw [if_pos hsig] at hp; cases hp
    · rw [if_neg hsig] at hp
      cases hdec : Rec.dec baseW bs with
      | none => rw [hdec] at hp; cases hp
      | some p =>
        obtain ⟨vals, rest⟩ := p
        rw [hdec] at hp
        simp only at hp
        obtain ⟨x, rest2, hvals, _, hver, hval, hsize, hdec2⟩ := parseFields_ok vals rest h hp
        have hb := Rec.enc_dec _ _ _ _ hdec
        have hbf := Rec.dec_fits _ _ _ _ hdec
        have he := Rec.enc_dec _ _ _ _ hdec2
        have hef := Rec.dec_fits _ _ _ _ hdec2
        subst hvals
        -- the first field read is the signature
        have hx : x = sig := by
          have h1 := hb.1
          have hsig : leNat (bs.take 4) = sig := Decidable.not_not.mp hsig
          rw [← h1] at hsig
          simp only [baseW, baseVals, List.tail_cons, List.zip_cons_cons, Rec.enc, List.append_assoc] at hsig
          have hl : (natLE 4 x).length = 4 := natLE_length 4 x
          rw [List.take_left' hl] at hsig
          have hxf : x < 256 ^ 4 := hbf (4, x) (by simp [baseW, baseVals])
          rw [leNat_natLE 4 x hxf] at hsig
          exact hsig
        subst hx
        have hbv : (sig :: (baseVals h).tail) = baseVals h := rfl
        rw [hbv] at hb hbf
        refine ⟨⟨hbf, hef, he.2, hver, hval, hsize⟩, rest2, ?_⟩
        simp only [write]
        rw [List.append_assoc, he.1]
        exact hb.1.symm

end Wv.Hdr
