/- proofs for C01 (MPQ model: probing, spelling invariance, encryption conventions, sectors, units, tables) -/
import WowVerif.Model.Mpq
import WowVerif.Lemmas.C04
import WowVerif.Props.C04
set_option linter.unusedSimpArgs false
namespace Wv.Mpq
open Wv


/-! ### probing: insertion mirrors lookup -/

def Live (ht : List (List Nat)) (i : Nat) : Prop := ∃ n1 n2 l b, ht[i]? = some [n1, n2, l, b] ∧ b ≠ 0xFFFFFFFF ∧ b ≠ 0xFFFFFFFE

theorem slotFree_false_live (ht : List (List Nat)) (i : Nat) (hwf : ∀ r ∈ ht, r.length = 4) (hi : i < ht.length)
    (h : slotFree ht i = false) : Live ht i := by
  unfold slotFree at h
  have hr := hwf ht[i] (List.getElem_mem hi)
  rw [List.getElem?_eq_getElem hi] at h
  match hrow : ht[i], hr with
  | [n1, n2, l, b], _ =>
    rw [hrow] at h
    simp only [Bool.or_eq_false_iff, decide_eq_false_iff_not] at h
    exact ⟨n1, n2, l, b, by rw [List.getElem?_eq_getElem hi, hrow], h.1, h.2⟩

/-- INSERTION MIRRORS LOOKUP. For any duplicate-free probe order `seq` inside the table: if the name's hash pair is
    not yet present on a live slot and some slot of `seq` is free, then after inserting along `seq`, looking up along
    the same `seq` finds the inserted block index. -/
theorem findIn_insertIn (ht : List (List Nat)) (a b blk : Nat) (seq : List Nat)
    (hwf : ∀ r ∈ ht, r.length = 4) (hseq : ∀ i ∈ seq, i < ht.length) (hnd : seq.Nodup)
    (hblk : blk ≠ 0xFFFFFFFF ∧ blk ≠ 0xFFFFFFFE)
    (hfresh : ∀ i ∈ seq, ∀ n1 n2 l bb, ht[i]? = some [n1, n2, l, bb] → bb ≠ 0xFFFFFFFF → bb ≠ 0xFFFFFFFE → ¬ (n1 = a ∧ n2 = b))
    (hfree : ∃ i ∈ seq, slotFree ht i = true) :
    findIn (insertIn ht [a, b, 0, blk] seq) a b seq = some blk := by
  induction seq with
  | nil => obtain ⟨i, hi, _⟩ := hfree; simp at hi
  | cons i rest ih =>
    have hi : i < ht.length := hseq i (by simp)
    rw [List.nodup_cons] at hnd
    by_cases hf : slotFree ht i = true
    · -- placed right here
      simp only [insertIn, hf, if_true, findIn]
      rw [List.getElem?_set_self hi]
      simp [hblk.1, hblk.2]
    · -- occupied: both walk on; slot i is untouched by the later `set`
      have hf' : slotFree ht i = false := by simpa using hf
      obtain ⟨n1, n2, l, bb, hrow, h1, h2⟩ := slotFree_false_live ht i hwf hi hf'
      have hrest : ∃ j ∈ rest, slotFree ht j = true := by
        obtain ⟨j, hj, hjf⟩ := hfree
        simp only [List.mem_cons] at hj
        rcases hj with hj | hj
        · subst hj; rw [hjf] at hf'; simp at hf'
        · exact ⟨j, hj, hjf⟩
      have key : ∀ (r : List Nat), (∀ j ∈ r, j ≠ i) → (insertIn ht [a, b, 0, blk] r)[i]? = ht[i]? := by
        intro r hr
        induction r with
        | nil => rfl
        | cons j js ihr =>
          simp only [insertIn]
          split
          · rw [List.getElem?_set_ne (by exact hr j (by simp))]
          · exact ihr (fun x hx => hr x (by simp [hx]))
      have hsame := key rest (fun j hj hji => hnd.1 (hji ▸ hj))
      simp only [insertIn, hf', Bool.false_eq_true, if_false, findIn]
      rw [hsame, hrow]
      have hnm := hfresh i (by simp) n1 n2 l bb hrow h1 h2
      simp only [h1, if_false, h2, ne_eq, not_false_eq_true, true_and, hnm]
      exact ih (fun j hj => hseq j (by simp [hj])) hnd.2
        (fun j hj => hfresh j (by simp [hj])) hrest

/-! ### spelling invariance of lookups and keys -/

theorem findBlock_spelling (ht : List (List Nat)) (s₁ s₂ : Bytes) (h : s₁.map Model.fold = s₂.map Model.fold) :
    findBlock ht s₁ = findBlock ht s₂ := by
  unfold findBlock hashS
  rw [C04.hash_spelling 0x100 s₁ s₂ h, C04.hash_spelling 0x200 s₁ s₂ h, C04.hash_spelling 0 s₁ s₂ h]

theorem fileKey_spelling (b : BlockE) (s₁ s₂ : Bytes) (h : s₁.map Model.fold = s₂.map Model.fold) :
    fileKey codeConv s₁ b = fileKey codeConv s₂ b := by
  unfold fileKey hashS codeConv
  simp only [if_true]
  rw [C04.hash_spelling 0x300 s₁ s₂ h]

/-! ### encryption conventions invert -/

theorem plainTail_roundtrip (d : Bytes) (k : W32) : cryptBytesPlainTail false (cryptBytesPlainTail true d k) k = d := by
  unfold cryptBytesPlainTail
  have hs := Lemmas04.toWords_spec d
  generalize hw : toWords d = wt at hs
  obtain ⟨ws, t⟩ := wt
  simp only at hs ⊢
  simp only [if_true]
  rw [Lemmas04.toWords_ofWords_append _ _ hs.2]
  simp only [Bool.false_eq_true, if_false, Lemmas04.decrypt_encrypt_block]
  exact hs.1.symm

/-- both tail conventions: decrypting what was encrypted gives the data back, for every key and length -/
theorem decBytes_encBytes (c : Conv) (d : Bytes) (k : W32) : decBytes c (encBytes c d k) k = d := by
  unfold decBytes encBytes
  cases c.encTail
  · simp only [Bool.false_eq_true, if_false]; exact plainTail_roundtrip d k
  · simp only [if_true]; exact C04.decrypt_encrypt_bytes k d

/-! ### sectors -/

theorem sectorsOf_flatten (ssz : Nat) (hs : 0 < ssz) (f : Nat) (d : Bytes) (hf : d.length ≤ f) :
    (sectorsOf ssz f d).flatten = d := by
  induction f generalizing d with
  | zero => have : d = [] := List.length_eq_zero_iff.mp (by omega); simp [sectorsOf, this]
  | succ f ih =>
    simp only [sectorsOf]
    split
    · rename_i h; simp [List.isEmpty_iff.mp h]
    · rename_i h
      have hl : 0 < d.length := by cases d <;> simp_all
      simp only [List.flatten_cons]
      rw [ih (d.drop ssz) (by simp only [List.length_drop]; omega)]
      exact List.take_append_drop ssz d

theorem sectorsOf_le (ssz f : Nat) (d : Bytes) : ∀ s ∈ sectorsOf ssz f d, s.length ≤ ssz := by
  induction f generalizing d with
  | zero => simp [sectorsOf]
  | succ f ih =>
    simp only [sectorsOf]
    split
    · simp
    · intro s hs
      simp only [List.mem_cons] at hs
      rcases hs with hs | hs
      · subst hs; simp [List.length_take]; omega
      · exact ih _ s hs

/-! ### the raw-vs-compressed decision is recovered from sizes alone -/

/-- a unit stored raw (not shorter than its plain form) is returned as it is -/
theorem decodeUnit_raw (c : Conv) (codec : Codec) (plain : Bytes) (flag : Bool) :
    decodeUnit c codec plain plain.length flag = .ok plain := by
  unfold decodeUnit
  simp

/-- a unit stored compressed (strictly shorter) decodes through the codec to its plain form, provided the codec knows
    it and the ratio heuristics admit it -/
theorem decodeUnit_compressed (c : Conv) (codec : Codec) (stored plain : Bytes)
    (hshort : stored.length < plain.length)
    (hcodec : codec.find? (·.1 == stored) = some (stored, plain))
    (hratio : c.ratioLimits = false ∨ (Wv.Codec.preCheck (stored.length - 1) plain.length ((stored.headD 0).toNat) 0).isOk = true) :
    decodeUnit c codec stored plain.length true = .ok plain := by
  unfold decodeUnit
  simp only [true_and, hshort, if_true, hcodec]
  rcases hratio with h | h
  · simp [h]
  · have h' : (Codec.preCheck (stored.length - 1) plain.length ((stored.head?).getD 0).toNat 0).isOk = true := by
      simpa [List.headD_eq_head?_getD] using h
    simp [h']

/-! ### tables -/

theorem encodeTable_decode (rows : List (List Nat)) (key : W32) :
    Model.decryptBlock (toWords (encodeTable rows key)).1 key = rows.flatMap fun r => r.map (BitVec.ofNat 32) := by
  unfold encodeTable
  have := Lemmas04.toWords_ofWords_append (Model.encryptBlock (rows.flatMap fun r => r.map (BitVec.ofNat 32)) key) [] (by simp)
  rw [List.append_nil] at this
  rw [this]
  exact Lemmas04.decrypt_encrypt_block _ _

end Wv.Mpq
