/- what an accepted MPQ header guarantees (consequences of validate_header_security as modelled in Model.C01Header) -/
import WowVerif.Lemmas.C01Header
namespace Wv.Hdr
open Wv

theorem validate_facts (h : Hdr) (hv : validate h = true) :
    32 ≤ h.headerSize ∧ h.headerSize ≤ 1024 ∧ 0 < h.archiveSize ∧ h.archiveSize ≤ maxArchive ∧ h.shift ≤ maxShift ∧
    h.hashPos < h.archiveSize ∧ h.hashSize ≤ maxHash ∧ h.blockSize ≤ maxBlock ∧ 0 < h.hashSize ∧
    h.hashPos + 16 * h.hashSize ≤ h.archiveSize + 65536 ∧ h.blockPos + 16 * h.blockSize ≤ h.archiveSize + 65536 := by
  unfold validate at hv
  by_cases c1 : h.headerSize < 32 ∨ h.headerSize > 1024
  · simp [c1] at hv
  simp only [c1, if_false] at hv
  by_cases c2 : h.archiveSize = 0 ∨ h.archiveSize > maxArchive
  · simp [c2] at hv
  simp only [c2, if_false] at hv
  by_cases c3 : h.version > 4
  · simp [c3] at hv
  simp only [c3, if_false] at hv
  by_cases c4 : h.shift > maxShift
  · simp [c4] at hv
  simp only [c4, if_false] at hv
  by_cases c5 : h.hashPos ≥ h.archiveSize
  · simp [c5] at hv
  simp only [c5, if_false] at hv
  by_cases c6 : ¬ (h.blockSize = 0 ∧ h.blockPos = h.archiveSize) ∧ h.blockPos > h.archiveSize
  · simp [c6] at hv
  simp only [c6, if_false] at hv
  by_cases c7 : h.hashSize > maxHash
  · simp [c7] at hv
  simp only [c7, if_false] at hv
  by_cases c8 : h.blockSize > maxBlock
  · simp [c8] at hv
  simp only [c8, if_false] at hv
  by_cases c9 : h.hashSize * 16 ≥ 4294967296
  · simp [c9] at hv
  simp only [c9, if_false] at hv
  by_cases c10 : h.blockSize * 16 ≥ 4294967296
  · simp [c10] at hv
  simp only [c10, if_false] at hv
  by_cases c11 : h.hashPos + h.hashSize * 16 ≥ 4294967296
  · simp [c11] at hv
  simp only [c11, if_false] at hv
  by_cases c12 : h.hashPos + h.hashSize * 16 > satAdd32 h.archiveSize 65536
  · simp [c12] at hv
  simp only [c12, if_false] at hv
  by_cases c13 : h.blockPos + h.blockSize * 16 ≥ 4294967296
  · simp [c13] at hv
  simp only [c13, if_false] at hv
  by_cases c14 : h.blockPos + h.blockSize * 16 > satAdd32 h.archiveSize 65536
  · simp [c14] at hv
  simp only [c14, if_false] at hv
  by_cases c15 : h.hashSize = 0 ∨ h.hashSize &&& (h.hashSize - 1) ≠ 0
  · simp [c15] at hv
  have m : satAdd32 h.archiveSize 65536 ≤ h.archiveSize + 65536 := Nat.min_le_left _ _
  simp only [not_or, Nat.not_lt, Nat.not_le, ge_iff_le, gt_iff_lt] at c1 c2 c4 c5 c7 c8 c12 c14 c15
  refine ⟨c1.1, c1.2, by omega, c2.2, c4, c5, c7, c8, by omega, by omega, by omega⟩

/-- the tables an accepted header announces hold at most a million 16-byte entries each: what the reader goes on to
    allocate for them is bounded whatever the file says -/
theorem accepted_tables_bounded (bs : Bytes) (h : Hdr) (hp : parse bs = .ok h) :
    16 * h.hashSize ≤ 16000000 ∧ 16 * h.blockSize ≤ 16000000 ∧ h.shift ≤ 20 := by
  have hw := (write_parse bs h hp).1
  have f := validate_facts h hw.valid
  simp only [maxHash, maxBlock, maxShift] at f
  omega

end Wv.Hdr

namespace Wv.Hdr
open Wv

/-- a header written with its version's own size (what the builder does) occupies exactly that many bytes -/
theorem write_length (h : Hdr) (hw : WF h) (hs : h.headerSize = minSize h.version) : (write h).length = h.headerSize := by
  unfold write
  rw [List.length_append, base_enc_length, Rec.enc_length, zip_fst hw.extLen, hs]
  have hv := hw.ver
  have : h.version = 0 ∨ h.version = 1 ∨ h.version = 2 ∨ h.version = 3 := by omega
  rcases this with h0 | h0 | h0 | h0 <;> rw [h0] <;> decide

end Wv.Hdr
