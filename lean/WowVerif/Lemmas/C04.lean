/- helper lemmas for C04 -/
import WowVerif.Model.C04Crypto
import WowVerif.Spec.Crypt
set_option linter.unusedSimpArgs false
namespace Wv.Lemmas04
open Wv Wv.Model

theorem crypt_table_eq : Gen.cryptTable = Spec.cryptTable := by decide +kernel
theorem upper_table_eq : Gen.asciiToUpper = Spec.upperTable := by decide +kernel
theorem lower_table_eq : Gen.asciiToLower = Spec.lowerTable := by decide +kernel

theorem tbl_eq (i : Nat) : Model.tbl i = Spec.tbl i := by
  unfold Model.tbl Spec.tbl Model.cryptArr
  rw [crypt_table_eq]; simp

theorem upperN_eq (n : Nat) (h : n < 256) : Model.upperN n = Spec.upperNat n := by
  unfold Model.upperN Model.upperArr
  rw [upper_table_eq]; simp [Spec.upperTable, h]

theorem lowerN_eq (n : Nat) (h : n < 256) : Model.lowerN n = Spec.lowerNat n := by
  unfold Model.lowerN Model.lowerArr
  rw [lower_table_eq]; simp [Spec.lowerTable, h]

theorem slashN_lt (n : Nat) (h : n < 256) : Model.slashN n < 256 := by
  unfold Model.slashN; split <;> omega

theorem foldN_eq (n : Nat) (h : n < 256) : Model.foldN n = Spec.foldNat n := by
  unfold Model.foldN
  rw [upperN_eq _ (slashN_lt n h)]; rfl

theorem foldLowerN_eq (n : Nat) (h : n < 256) : Model.foldLowerN n = Spec.foldLowerNat n := by
  unfold Model.foldLowerN
  rw [lowerN_eq _ (slashN_lt n h)]; rfl

theorem spec_foldNat_lt : ∀ n, n < 256 → Spec.foldNat n < 256 := by decide +kernel
theorem spec_foldLowerNat_lt : ∀ n, n < 256 → Spec.foldLowerNat n < 256 := by decide +kernel
theorem spec_foldNat_idem : ∀ n, n < 256 → Spec.foldNat (Spec.foldNat n) = Spec.foldNat n := by decide +kernel
theorem spec_foldLowerNat_idem : ∀ n, n < 256 → Spec.foldLowerNat (Spec.foldLowerNat n) = Spec.foldLowerNat n := by
  decide +kernel
theorem spec_foldLower_fold : ∀ n, n < 256 → Spec.foldLowerNat (Spec.foldNat n) = Spec.foldLowerNat n := by
  decide +kernel
theorem spec_fold_foldLower : ∀ n, n < 256 → Spec.foldNat (Spec.foldLowerNat n) = Spec.foldNat n := by
  decide +kernel

theorem fold_eq_spec (b : UInt8) : Model.fold b = Spec.foldByte b := by
  unfold Model.fold Spec.foldByte
  rw [foldN_eq _ b.toNat_lt]

theorem foldLower_eq_spec (b : UInt8) : Model.foldLower b = Spec.foldLowerByte b := by
  unfold Model.foldLower Spec.foldLowerByte
  rw [foldLowerN_eq _ b.toNat_lt]

theorem toNat_ofNat_lt (m : Nat) (h : m < 256) : (UInt8.ofNat m).toNat = m := by
  simp [UInt8.toNat_ofNat']; omega

theorem fold_idem (b : UInt8) : Model.fold (Model.fold b) = Model.fold b := by
  simp only [fold_eq_spec]
  unfold Spec.foldByte
  rw [toNat_ofNat_lt _ (spec_foldNat_lt _ b.toNat_lt), spec_foldNat_idem _ b.toNat_lt]

theorem foldLower_idem (b : UInt8) : Model.foldLower (Model.foldLower b) = Model.foldLower b := by
  simp only [foldLower_eq_spec]
  unfold Spec.foldLowerByte
  rw [toNat_ofNat_lt _ (spec_foldLowerNat_lt _ b.toNat_lt), spec_foldLowerNat_idem _ b.toNat_lt]

theorem foldLower_fold (b : UInt8) : Model.foldLower (Model.fold b) = Model.foldLower b := by
  simp only [foldLower_eq_spec, fold_eq_spec]
  unfold Spec.foldLowerByte Spec.foldByte
  rw [toNat_ofNat_lt _ (spec_foldNat_lt _ b.toNat_lt), spec_foldLower_fold _ b.toNat_lt]

theorem fold_foldLower (b : UInt8) : Model.fold (Model.foldLower b) = Model.fold b := by
  simp only [foldLower_eq_spec, fold_eq_spec]
  unfold Spec.foldLowerByte Spec.foldByte
  rw [toNat_ofNat_lt _ (spec_foldLowerNat_lt _ b.toNat_lt), spec_fold_foldLower _ b.toNat_lt]



/-! ### string hash -/
theorem hashStep_eq (ty : Nat) (h : ty + 255 < 4294967296) (st : W32 × W32) (b : UInt8) :
    Model.hashStep ty st b = Spec.hashStep ty st b := by
  unfold Model.hashStep Spec.hashStep
  have hb := (Spec.foldByte b).toNat_lt
  simp only [fold_eq_spec, tbl_eq]
  rw [Nat.mod_eq_of_lt (by omega)]

theorem foldl_hashStep_eq (ty : Nat) (h : ty + 255 < 4294967296) (s : Bytes) (st : W32 × W32) :
    s.foldl (Model.hashStep ty) st = s.foldl (Spec.hashStep ty) st := by
  induction s generalizing st with
  | nil => simp only [List.foldl_nil]
  | cons b bs ih => simp only [List.foldl_cons, hashStep_eq ty h]; exact ih _

theorem hashStep_fold (ty : Nat) (st : W32 × W32) (b : UInt8) :
    Model.hashStep ty st (fold b) = Model.hashStep ty st b := by
  unfold Model.hashStep; simp only [fold_idem]

theorem encGo_decGo (key seed : W32) (d : List W32) : encGo key seed (decGo key seed d) = d := by
  induction d generalizing key seed with
  | nil => rfl
  | cons p ps ih =>
    simp only [encGo, decGo]
    rw [BitVec.xor_assoc, BitVec.xor_self, BitVec.xor_zero, ih]


/-! ### words and bytes -/
theorem le32_toNat (a b c d : UInt8) :
    (le32 a b c d).toNat = a.toNat + 256 * b.toNat + 65536 * c.toNat + 16777216 * d.toNat := by
  have := a.toNat_lt; have := b.toNat_lt; have := c.toNat_lt; have := d.toNat_lt
  simp only [le32, BitVec.toNat_ofNat]; omega

theorem u8_eq_of_toNat {a b : UInt8} (h : a.toNat = b.toNat) : a = b := UInt8.toNat_inj.mp h

theorem w32le_le32 (a b c d : UInt8) : w32le (le32 a b c d) = [a, b, c, d] := by
  have := a.toNat_lt; have := b.toNat_lt; have := c.toNat_lt; have := d.toNat_lt
  simp only [w32le, le32_toNat]
  congr 1
  · apply u8_eq_of_toNat; simp only [UInt8.toNat_ofNat']; omega
  congr 1
  · apply u8_eq_of_toNat; simp only [UInt8.toNat_ofNat']; omega
  congr 1
  · apply u8_eq_of_toNat; simp only [UInt8.toNat_ofNat']; omega
  congr 1
  · apply u8_eq_of_toNat; simp only [UInt8.toNat_ofNat']; omega

theorem le32_w32le (w : W32) :
    le32 (UInt8.ofNat (w.toNat % 256)) (UInt8.ofNat (w.toNat / 256 % 256))
      (UInt8.ofNat (w.toNat / 65536 % 256)) (UInt8.ofNat (w.toNat / 16777216 % 256)) = w := by
  apply BitVec.eq_of_toNat_eq
  have := w.isLt
  rw [le32_toNat]; simp only [UInt8.toNat_ofNat']; omega

theorem w32le_length (w : W32) : (w32le w).length = 4 := rfl

theorem ofWords_length (ws : List W32) : (ofWords ws).length = 4 * ws.length := by
  induction ws with
  | nil => rfl
  | cons w ws ih => simp only [ofWords, List.length_append, w32le_length, ih, List.length_cons]; omega

theorem toWords_ofWords_append (ws : List W32) (t : Bytes) (h : t.length < 4) :
    toWords (ofWords ws ++ t) = (ws, t) := by
  induction ws with
  | nil =>
    simp only [ofWords, List.nil_append]
    match t, h with
    | [], _ => rfl
    | [_], _ => rfl
    | [_, _], _ => rfl
    | [_, _, _], _ => rfl
    | _ :: _ :: _ :: _ :: _, h => simp at h; omega
  | cons w ws ih =>
    simp only [ofWords, w32le, List.cons_append, List.nil_append, toWords, ih, le32_w32le]

theorem toWords_spec (d : Bytes) : d = ofWords (toWords d).1 ++ (toWords d).2 ∧ (toWords d).2.length < 4 := by
  fun_induction toWords d with
  | case1 b0 b1 b2 b3 rest ws t heq ih =>
    simp only [heq] at ih
    simp only [ofWords, w32le_le32, List.cons_append, List.nil_append]
    exact ⟨by rw [← ih.1], ih.2⟩
  | case2 t h =>
    simp only [ofWords, List.nil_append, true_and]
    match t, h with
    | [], _ => simp
    | [_], _ => simp
    | [_, _], _ => simp
    | [_, _, _], _ => simp
    | a :: b :: c :: d :: r, h => exact absurd rfl (h a b c d r)

/-- byte `i` (i = 0..3) of `le32 … ^^^ m` is byte `i` of the operand xor byte `i` of `m` -/
theorem xorByte (x m k : Nat) : (x ^^^ m) / 2 ^ k % 2 ^ 8 = (x / 2 ^ k % 2 ^ 8) ^^^ (m / 2 ^ k % 2 ^ 8) := by
  rw [Nat.xor_div_two_pow, Nat.xor_mod_two_pow]

theorem w32le_xor (x m : W32) :
    w32le (x ^^^ m) = List.zipWith (· ^^^ ·) (w32le x) (w32le m) := by
  have h0 := xorByte x.toNat m.toNat 0
  have h1 := xorByte x.toNat m.toNat 8
  have h2 := xorByte x.toNat m.toNat 16
  have h3 := xorByte x.toNat m.toNat 24
  simp only [Nat.reducePow, Nat.div_one] at h0 h1 h2 h3
  simp only [w32le, BitVec.toNat_xor, List.zipWith_cons_cons, List.zipWith_nil_right]
  congr 1
  · apply u8_eq_of_toNat; simp only [UInt8.toNat_xor, UInt8.toNat_ofNat', Nat.mod_mod]; exact h0
  congr 1
  · apply u8_eq_of_toNat; simp only [UInt8.toNat_xor, UInt8.toNat_ofNat', Nat.mod_mod]; exact h1
  congr 1
  · apply u8_eq_of_toNat; simp only [UInt8.toNat_xor, UInt8.toNat_ofNat', Nat.mod_mod]; exact h2
  congr 1
  · apply u8_eq_of_toNat; simp only [UInt8.toNat_xor, UInt8.toNat_ofNat', Nat.mod_mod]; exact h3

theorem u8_xor_cancel (a m : UInt8) : a ^^^ m ^^^ m = a := by
  rw [UInt8.xor_assoc, UInt8.xor_self, UInt8.xor_zero]

theorem tail_roundtrip (t : Bytes) (m : W32) (h : t.length < 4) :
    (w32le (padTail ((w32le (padTail t ^^^ m)).take t.length) ^^^ m)).take t.length = t := by
  obtain ⟨m0, m1, m2, m3, hm⟩ : ∃ m0 m1 m2 m3, w32le m = [m0, m1, m2, m3] := ⟨_, _, _, _, rfl⟩
  match t, h with
  | [], _ => rfl
  | [a], _ =>
    simp [padTail, w32le_xor, w32le_le32, hm, u8_xor_cancel]
  | [a, b], _ =>
    simp [padTail, w32le_xor, w32le_le32, hm, u8_xor_cancel]
  | [a, b, c], _ =>
    simp [padTail, w32le_xor, w32le_le32, hm, u8_xor_cancel]
  | _ :: _ :: _ :: _ :: _, h => simp at h; omega

theorem decGo_encGo (key seed : W32) (d : List W32) : decGo key seed (encGo key seed d) = d := by
  induction d generalizing key seed with
  | nil => rfl
  | cons p ps ih =>
    simp only [encGo, decGo]
    rw [BitVec.xor_assoc, BitVec.xor_self, BitVec.xor_zero, ih]

theorem encGo_length (key seed : W32) (d : List W32) : (encGo key seed d).length = d.length := by
  induction d generalizing key seed with
  | nil => rfl
  | cons p ps ih => simp only [encGo, List.length_cons, ih]

theorem encryptBlock_length (d : List W32) (key : W32) : (encryptBlock d key).length = d.length := by
  unfold encryptBlock; split
  · rfl
  · exact encGo_length _ _ _

theorem decrypt_encrypt_block (key : W32) (d : List W32) :
    decryptBlock (encryptBlock d key) key = d := by
  unfold decryptBlock encryptBlock
  split <;> simp_all [decGo_encGo]

/-- the tail dword: both sides xor with the same mask (or both leave it alone when the tail key is 0) -/
theorem tail_mask (k' : W32) : ∃ m : W32, (∀ p, (encryptBlock [p] k').headD 0 = p ^^^ m) ∧ (∀ v, decryptDword v k' = v ^^^ m) := by
  by_cases hk : k' = 0#32
  · exact ⟨0, by intro p; simp [encryptBlock, hk], by intro v; simp [decryptDword, hk]⟩
  · exact ⟨k' + (0xEEEEEEEE#32 + tbl (0x400 + (k'.toNat % 256))),
      by intro p; simp [encryptBlock, hk, encGo], by intro v; simp [decryptDword, hk]⟩


/-! ### lookup3 -/
theorem b2w_eq (x : UInt8) : b2w x = le32 x 0 0 0 := by
  simp [b2w, le32]

theorem le32_split3 (x y z : UInt8) : le32 x y z 0 = le32 x y 0 0 + (b2w z <<< 16) := by
  apply BitVec.eq_of_toNat_eq
  have := x.toNat_lt; have := y.toNat_lt; have := z.toNat_lt
  simp only [BitVec.toNat_add, BitVec.toNat_shiftLeft, le32_toNat, b2w, BitVec.toNat_ofNat,
    Nat.shiftLeft_eq, UInt8.toNat_zero]
  omega

theorem tail3 (a : W32) (x y z : UInt8) : (a + (b2w z <<< 16)) + le32 x y 0 0 = a + le32 x y z 0 := by
  rw [le32_split3 x y z, BitVec.add_assoc, BitVec.add_comm (b2w z <<< 16)]

theorem tail3' (a : W32) (x y z : UInt8) : a + le32 z 0 0 0 <<< 16 + le32 x y 0 0 = a + le32 x y z 0 := by
  rw [← b2w_eq]; exact tail3 a x y z

@[simp] theorem le32_zero : le32 0 0 0 0 = 0#32 := by decide

theorem w4_eq (k : Bytes) : w4 k 0 = Spec.padWord k 0 ∧ w4 k 4 = Spec.padWord k 1 ∧ w4 k 8 = Spec.padWord k 2 :=
  ⟨rfl, rfl, rfl⟩

theorem mix_eq (a b c : W32) : Model.mix a b c = Spec.mix a b c := rfl
theorem final_eq (a b c : W32) : Model.final a b c = Spec.final a b c := rfl

theorem hl2Loop_eq (f : Nat) (k : Bytes) (a b c : W32) :
    Model.hl2Loop f k a b c = Spec.hl2Loop f k a b c := by
  induction f generalizing k a b c with
  | zero => rfl
  | succ f ih =>
    simp only [Model.hl2Loop, Spec.hl2Loop, (w4_eq k).1, (w4_eq k).2.1, (w4_eq k).2.2, mix_eq, ih]

theorem hl2Loop_len (f : Nat) (k : Bytes) (a b c : W32) (h : k.length ≤ 12 * f + 12) :
    (Spec.hl2Loop f k a b c).1.length ≤ 12 := by
  induction f generalizing k a b c with
  | zero => simpa [Spec.hl2Loop] using h
  | succ f ih =>
    simp only [Spec.hl2Loop]
    split
    · apply ih; simp only [List.length_drop]; omega
    · simp only; omega

theorem tailAdd_eq (k : Bytes) (a b c : W32) (h : k.length ≤ 12) (hne : k ≠ []) :
    tailAdd k a b c = (a + Spec.padWord k 0, b + Spec.padWord k 1, c + Spec.padWord k 2) := by
  match k, h, hne with
  | [k0], _, _ => simp [tailAdd, Spec.padWord, g, w4, b2w_eq]
  | [k0,k1], _, _ => simp [tailAdd, Spec.padWord, g, w4, b2w_eq]
  | [k0,k1,k2], _, _ => simp [tailAdd, Spec.padWord, g, w4, b2w_eq, tail3']
  | [k0,k1,k2,k3], _, _ => simp [tailAdd, Spec.padWord, g, w4, b2w_eq]
  | [k0,k1,k2,k3,k4], _, _ => simp [tailAdd, Spec.padWord, g, w4, b2w_eq]
  | [k0,k1,k2,k3,k4,k5], _, _ => simp [tailAdd, Spec.padWord, g, w4, b2w_eq]
  | [k0,k1,k2,k3,k4,k5,k6], _, _ => simp [tailAdd, Spec.padWord, g, w4, b2w_eq, tail3']
  | [k0,k1,k2,k3,k4,k5,k6,k7], _, _ => simp [tailAdd, Spec.padWord, g, w4, b2w_eq]
  | [k0,k1,k2,k3,k4,k5,k6,k7,k8], _, _ => simp [tailAdd, Spec.padWord, g, w4, b2w_eq]
  | [k0,k1,k2,k3,k4,k5,k6,k7,k8,k9], _, _ => simp [tailAdd, Spec.padWord, g, w4, b2w_eq]
  | [k0,k1,k2,k3,k4,k5,k6,k7,k8,k9,k10], _, _ => simp [tailAdd, Spec.padWord, g, w4, b2w_eq, tail3']
  | [k0,k1,k2,k3,k4,k5,k6,k7,k8,k9,k10,k11], _, _ => simp [tailAdd, Spec.padWord, g, w4, b2w_eq]
  | _::_::_::_::_::_::_::_::_::_::_::_::_::_, h, _ => simp at h


end Wv.Lemmas04
