/- lemmas for Model.C01Bet: a table written column by column reads back column by column, for every width -/
import WowVerif.Model.C01Bet
import WowVerif.Lemmas.Bytes
namespace Wv.Bet
open Wv

/-- cutting a number to `a` bits does not change a window that lies below bit `a` -/
theorem window_mod (x a s c : Nat) (h : s + c ≤ a) : ((x % 2 ^ a) / 2 ^ s) % 2 ^ c = (x / 2 ^ s) % 2 ^ c := by
  apply Nat.eq_of_testBit_eq
  intro i
  simp only [Nat.testBit_mod_two_pow, ← Nat.shiftRight_eq_div_pow, Nat.testBit_shiftRight]
  by_cases hi : i < c
  · have : s + i < a := by omega
    simp [hi, this]
  · simp [hi]

theorem lo_hi_div (k lo hi : Nat) (h : lo < 2 ^ k) : (lo + 2 ^ k * hi) / 2 ^ k = hi := by
  rw [Nat.add_mul_div_left _ _ (Nat.two_pow_pos k), Nat.div_eq_of_lt h, Nat.zero_add]

theorem lo_hi_mod (k lo hi : Nat) (h : lo < 2 ^ k) : (lo + 2 ^ k * hi) % 2 ^ k = lo := by
  rw [Nat.add_mul_mod_self_left, Nat.mod_eq_of_lt h]

theorem lo_hi_lt (k j lo hi : Nat) (h : lo < 2 ^ k) (h2 : hi < 2 ^ j) : lo + 2 ^ k * hi < 2 ^ (k + j) := by
  rw [Nat.pow_add]
  have : 2 ^ k * hi + 2 ^ k ≤ 2 ^ k * 2 ^ j := by
    rw [← Nat.mul_succ]; exact Nat.mul_le_mul_left _ h2
  omega

/-- a row in nested form -/
theorem rowNat_nested (l : Lay) (r : Row) :
    rowNat l r = r.pos % 2 ^ l.wPos + 2 ^ l.wPos * (r.size % 2 ^ l.wSize + 2 ^ l.wSize * (r.csize % 2 ^ l.wCsize + 2 ^ l.wCsize * (r.flag % 2 ^ l.wFlag))) := by
  simp only [rowNat, Lay.iSize, Lay.iCsize, Lay.iFlag, Nat.pow_add, Nat.mul_add, Nat.mul_assoc, Nat.add_assoc]

theorem rowNat_lt (l : Lay) (r : Row) : rowNat l r < 2 ^ l.entry := by
  rw [rowNat_nested]
  have h1 := Nat.mod_lt r.pos (Nat.two_pow_pos l.wPos)
  have h2 := Nat.mod_lt r.size (Nat.two_pow_pos l.wSize)
  have h3 := Nat.mod_lt r.csize (Nat.two_pow_pos l.wCsize)
  have h4 := Nat.mod_lt r.flag (Nat.two_pow_pos l.wFlag)
  have a := lo_hi_lt _ _ _ _ h3 h4
  have b := lo_hi_lt _ _ _ _ h2 a
  have c := lo_hi_lt _ _ _ _ h1 b
  have : l.entry = l.wPos + (l.wSize + (l.wCsize + l.wFlag)) := by simp [Lay.entry]; omega
  rw [this]; exact c

theorem rowNat_pos (l : Lay) (r : Row) : (rowNat l r / 2 ^ 0) % 2 ^ l.wPos = r.pos % 2 ^ l.wPos := by
  rw [rowNat_nested, Nat.pow_zero, Nat.div_one, lo_hi_mod _ _ _ (Nat.mod_lt _ (Nat.two_pow_pos _))]

theorem rowNat_size (l : Lay) (r : Row) : (rowNat l r / 2 ^ l.iSize) % 2 ^ l.wSize = r.size % 2 ^ l.wSize := by
  rw [rowNat_nested, Lay.iSize, lo_hi_div _ _ _ (Nat.mod_lt _ (Nat.two_pow_pos _)),
    lo_hi_mod _ _ _ (Nat.mod_lt _ (Nat.two_pow_pos _))]

theorem rowNat_csize (l : Lay) (r : Row) : (rowNat l r / 2 ^ l.iCsize) % 2 ^ l.wCsize = r.csize % 2 ^ l.wCsize := by
  rw [rowNat_nested, Lay.iCsize, Nat.pow_add, ← Nat.div_div_eq_div_mul,
    lo_hi_div _ _ _ (Nat.mod_lt _ (Nat.two_pow_pos _)), lo_hi_div _ _ _ (Nat.mod_lt _ (Nat.two_pow_pos _)),
    lo_hi_mod _ _ _ (Nat.mod_lt _ (Nat.two_pow_pos _))]

theorem rowNat_flag (l : Lay) (r : Row) : (rowNat l r / 2 ^ l.iFlag) % 2 ^ l.wFlag = r.flag % 2 ^ l.wFlag := by
  rw [rowNat_nested, Lay.iFlag, Nat.pow_add, Nat.pow_add, ← Nat.div_div_eq_div_mul, ← Nat.div_div_eq_div_mul,
    lo_hi_div _ _ _ (Nat.mod_lt _ (Nat.two_pow_pos _)), lo_hi_div _ _ _ (Nat.mod_lt _ (Nat.two_pow_pos _)),
    lo_hi_div _ _ _ (Nat.mod_lt _ (Nat.two_pow_pos _)), Nat.mod_mod]

/-- row `i` of the table number -/
theorem tableNat_row (l : Lay) (rows : List Row) (i : Nat) (r : Row) (h : rows[i]? = some r) :
    (tableNat l rows / 2 ^ (i * l.entry)) % 2 ^ l.entry = rowNat l r := by
  induction rows generalizing i with
  | nil => simp at h
  | cons r0 rs ih =>
    cases i with
    | zero =>
      simp only [List.getElem?_cons_zero, Option.some.injEq] at h
      subst h
      simp only [tableNat, Nat.zero_mul, Nat.pow_zero, Nat.div_one]
      exact lo_hi_mod _ _ _ (rowNat_lt l r0)
    | succ i =>
      simp only [List.getElem?_cons_succ] at h
      simp only [tableNat]
      rw [Nat.succ_mul, Nat.add_comm (i * l.entry), Nat.pow_add, ← Nat.div_div_eq_div_mul, lo_hi_div _ _ _ (rowNat_lt l r0)]
      exact ih i h

/-- a column of row `i`: any window inside the row -/
theorem tableNat_window (l : Lay) (rows : List Row) (i : Nat) (r : Row) (h : rows[i]? = some r) (idx w : Nat)
    (hw : idx + w ≤ l.entry) :
    (tableNat l rows / 2 ^ (i * l.entry + idx)) % 2 ^ w = (rowNat l r / 2 ^ idx) % 2 ^ w := by
  rw [Nat.pow_add, ← Nat.div_div_eq_div_mul, ← window_mod _ l.entry idx w hw, tableNat_row l rows i r h]

theorem natLE_drop (n v k : Nat) : (natLE n v).drop k = natLE (n - k) (v / 256 ^ k) := by
  induction k generalizing n v with
  | zero => simp
  | succ k ih =>
    cases n with
    | zero => simp [natLE]
    | succ n =>
      simp only [natLE, List.drop_succ_cons, ih, Nat.succ_sub_succ]
      rw [Nat.pow_succ, Nat.mul_comm, Nat.div_div_eq_div_mul]

theorem natLE_take (n v m : Nat) (h : m ≤ n) : (natLE n v).take m = natLE m v := by
  induction m generalizing n v with
  | zero => simp [natLE]
  | succ m ih =>
    cases n with
    | zero => omega
    | succ n => simp only [natLE, List.take_succ_cons, ih n (v / 256) (by omega)]

theorem leNat_natLE_mod (n v : Nat) : leNat (natLE n v) = v % 256 ^ n := by
  induction n generalizing v with
  | zero => simp [natLE, leNat, Nat.mod_one]
  | succ n ih =>
    simp only [natLE, leNat, ih]
    have : (UInt8.ofNat (v % 256)).toNat = v % 256 := by simp [UInt8.toNat_ofNat']
    rw [this, Nat.pow_succ, Nat.mul_comm (256 ^ n) 256, Nat.mod_mul]

theorem pow256 (m : Nat) : 256 ^ m = 2 ^ (8 * m) := by
  rw [show (256 : Nat) = 2 ^ 8 by decide, ← Nat.pow_mul]

/-- READER ON A LITTLE-ENDIAN TABLE: for every window of at most 57 bits that lies inside the table, the 8-byte window
    the reader uses yields exactly those bits of the table number -/
theorem readBits_natLE (n T pos count : Nat) (hc : count ≤ 57) (hin : pos + count ≤ 8 * n) :
    readBits (natLE n T) pos count = some ((T / 2 ^ pos) % 2 ^ count) := by
  unfold readBits
  by_cases h0 : count = 0
  · simp [h0, Nat.mod_one]
  · simp only [h0, if_false, natLE_length]
    have h64 : ¬ count > 64 := by omega
    simp only [h64, if_false]
    have hneed : (pos % 8 + count + 7) / 8 ≤ 8 := by omega
    have hfit : ¬ (pos / 8 + (pos % 8 + count + 7) / 8 > n) := by omega
    simp only [hfit, if_false, Nat.min_eq_left hneed, Option.some.injEq]
    rw [natLE_drop, natLE_take _ _ _ (by omega), leNat_natLE_mod, pow256, pow256,
      window_mod _ _ _ _ (by omega), Nat.div_div_eq_div_mul, ← Nat.pow_add]
    congr 3
    omega

theorem bitsNeeded_spec (v : Nat) : v < 2 ^ bitsNeeded v := by
  unfold bitsNeeded
  split
  · subst_vars; decide
  · exact Nat.lt_log2_self

theorem bitsNeeded_le (v k : Nat) (h : v < 2 ^ k) (hk : 0 < k) : bitsNeeded v ≤ k := by
  unfold bitsNeeded
  split
  · omega
  · rename_i hv
    have : Nat.log2 v < k := (Nat.log2_lt hv).2 h
    omega

theorem le_maxOf (f : Row → Nat) (rows : List Row) (r : Row) (h : r ∈ rows) : f r ≤ maxOf f rows := by
  induction rows with
  | nil => simp at h
  | cons a rs ih =>
    simp only [maxOf, List.foldr_cons]
    rcases List.mem_cons.1 h with rfl | h'
    · exact Nat.le_max_left _ _
    · exact Nat.le_trans (ih h') (Nat.le_max_right _ _)

theorem maxOf_lt (f : Row → Nat) (rows : List Row) (b : Nat) (hb : 0 < b) (h : ∀ r ∈ rows, f r < b) : maxOf f rows < b := by
  induction rows with
  | nil => simpa [maxOf]
  | cons a rs ih =>
    simp only [maxOf, List.foldr_cons]
    have h1 := h a (by simp)
    have h2 := ih (fun r hr => h r (by simp [hr]))
    exact Nat.max_lt.2 ⟨h1, h2⟩

end Wv.Bet

namespace Wv.Bet
open Wv

theorem getElem?_lt {α} (l : List α) (i : Nat) (a : α) (h : l[i]? = some a) : i < l.length := by
  rcases Nat.lt_or_ge i l.length with h' | h'
  · exact h'
  · rw [List.getElem?_eq_none h'] at h; cases h

/-- every column of every row, for ANY widths up to 57 bits: the reader returns the value cut to the column width -/
theorem readRow_any_width (l : Lay) (hw : l.wPos ≤ 57 ∧ l.wSize ≤ 57 ∧ l.wCsize ≤ 57 ∧ l.wFlag ≤ 57)
    (rows : List Row) (i : Nat) (r : Row) (hi : rows[i]? = some r) :
    readRow l (tableBytes l rows) i
      = some { pos := r.pos % 2 ^ l.wPos, size := r.size % 2 ^ l.wSize, csize := r.csize % 2 ^ l.wCsize, flag := r.flag % 2 ^ l.wFlag } := by
  have hlt := getElem?_lt rows i r hi
  have hrow : (i + 1) * l.entry ≤ rows.length * l.entry := Nat.mul_le_mul_right _ hlt
  rw [Nat.succ_mul] at hrow
  have hE : l.entry = l.wPos + l.wSize + l.wCsize + l.wFlag := rfl
  have hbytes : rows.length * l.entry ≤ 8 * ((rows.length * l.entry + 7) / 8) := by omega
  unfold readRow tableBytes
  have e1 := readBits_natLE ((rows.length * l.entry + 7) / 8) (tableNat l rows) (i * l.entry) l.wPos hw.1 (by omega)
  have e2 := readBits_natLE ((rows.length * l.entry + 7) / 8) (tableNat l rows) (i * l.entry + l.iSize) l.wSize hw.2.1
    (by simp only [Lay.iSize]; omega)
  have e3 := readBits_natLE ((rows.length * l.entry + 7) / 8) (tableNat l rows) (i * l.entry + l.iCsize) l.wCsize hw.2.2.1
    (by simp only [Lay.iCsize]; omega)
  have e4 := readBits_natLE ((rows.length * l.entry + 7) / 8) (tableNat l rows) (i * l.entry + l.iFlag) l.wFlag hw.2.2.2
    (by simp only [Lay.iFlag]; omega)
  have w1 := tableNat_window l rows i r hi 0 l.wPos (by omega)
  have w2 := tableNat_window l rows i r hi l.iSize l.wSize (by simp only [Lay.iSize]; omega)
  have w3 := tableNat_window l rows i r hi l.iCsize l.wCsize (by simp only [Lay.iCsize]; omega)
  have w4 := tableNat_window l rows i r hi l.iFlag l.wFlag (by simp only [Lay.iFlag]; omega)
  rw [Nat.add_zero] at w1
  rw [w1, rowNat_pos] at e1
  rw [w2, rowNat_size] at e2
  rw [w3, rowNat_csize] at e3
  rw [w4, rowNat_flag] at e4
  simp only [e1, e2, e3, e4, bind, Option.bind, pure]

/-- with the widths the builder chooses, every row reads back EXACTLY (32-bit columns, as in the block table) -/
theorem bet_roundtrip (rows : List Row) (nflags : Nat) (hn : nflags ≤ 2 ^ 32)
    (h32 : ∀ r ∈ rows, r.pos < 2 ^ 32 ∧ r.size < 2 ^ 32 ∧ r.csize < 2 ^ 32 ∧ r.flag < nflags)
    (i : Nat) (r : Row) (hi : rows[i]? = some r) :
    readRow (layoutOf rows nflags) (tableBytes (layoutOf rows nflags) rows) i = some r := by
  have hmem : r ∈ rows := List.mem_of_getElem? hi
  have hr := h32 r hmem
  have hnf : nflags ≠ 0 := by omega
  have wp : (layoutOf rows nflags).wPos ≤ 32 := bitsNeeded_le _ 32 (maxOf_lt _ rows _ (by decide) (fun r hr => (h32 r hr).1)) (by decide)
  have ws : (layoutOf rows nflags).wSize ≤ 32 := bitsNeeded_le _ 32 (maxOf_lt _ rows _ (by decide) (fun r hr => (h32 r hr).2.1)) (by decide)
  have wc : (layoutOf rows nflags).wCsize ≤ 32 := bitsNeeded_le _ 32 (maxOf_lt _ rows _ (by decide) (fun r hr => (h32 r hr).2.2.1)) (by decide)
  have wf : (layoutOf rows nflags).wFlag ≤ 32 := by
    simp only [layoutOf, hnf, if_false]
    exact bitsNeeded_le _ 32 (by omega) (by decide)
  rw [readRow_any_width _ ⟨by omega, by omega, by omega, by omega⟩ rows i r hi]
  have f1 : r.pos % 2 ^ (layoutOf rows nflags).wPos = r.pos :=
    Nat.mod_eq_of_lt (Nat.lt_of_le_of_lt (le_maxOf (·.pos) rows r hmem) (bitsNeeded_spec _))
  have f2 : r.size % 2 ^ (layoutOf rows nflags).wSize = r.size :=
    Nat.mod_eq_of_lt (Nat.lt_of_le_of_lt (le_maxOf (·.size) rows r hmem) (bitsNeeded_spec _))
  have f3 : r.csize % 2 ^ (layoutOf rows nflags).wCsize = r.csize :=
    Nat.mod_eq_of_lt (Nat.lt_of_le_of_lt (le_maxOf (·.csize) rows r hmem) (bitsNeeded_spec _))
  have f4 : r.flag % 2 ^ (layoutOf rows nflags).wFlag = r.flag := by
    simp only [layoutOf, hnf, if_false]
    exact Nat.mod_eq_of_lt (Nat.lt_of_le_of_lt (by omega : r.flag ≤ nflags - 1) (bitsNeeded_spec _))
  rw [f1, f2, f3, f4]

end Wv.Bet
