/- lemmas about Model.C13Skin -/
import WowVerif.Model.C13Skin
import WowVerif.Lemmas.C14Water
namespace Wv.Skin
open Wv.Water (Tiles)

theorem lay_tiles (sizes : List Nat) (pos : Nat) :
    Tiles pos (regions sizes (lay pos sizes).1) (lay pos sizes).2 ∧ (lay pos sizes).1.length = sizes.length := by
  induction sizes generalizing pos with
  | nil => simp [lay, regions, Tiles]
  | cons n r ih =>
    simp only [lay, regions, List.length_cons]
    by_cases hn : n = 0
    · subst hn; simp only [if_true, List.nil_append, Nat.add_zero]; exact ⟨(ih pos).1, by rw [(ih pos).2]⟩
    · simp only [hn, if_false, List.cons_append, List.nil_append, Tiles]
      exact ⟨⟨trivial, (ih (pos + n)).1⟩, by rw [(ih (pos + n)).2]⟩

theorem lay_end (sizes : List Nat) (pos : Nat) : (lay pos sizes).2 = pos + sizes.sum := by
  induction sizes generalizing pos with
  | nil => simp [lay]
  | cons n r ih => simp only [lay, List.sum_cons]; rw [ih]; omega

end Wv.Skin
