/- lemmas about Model.C13Skin -/
import WowVerif.Model.C13Skin
import WowVerif.Lemmas.C14Water
namespace Wv.Skin
open Wv.Water (Tiles)

theorem lay_tiles (sizes : List Nat) (pos : Nat) :
    Tiles pos (regions sizes (lay pos sizes).1) (lay pos sizes).2 ∧ (lay pos sizes).1.length = sizes.length := by
  induction sizes generalizing pos with
  | nil => simp [lay, regions, Tiles]
  | cons n r ih =>
    simp only [lay, regions, List.length_cons]
    by_cases hn : n = 0
    · subst hn; simp only [if_true, List.nil_append, Nat.add_zero]; exact ⟨(ih pos).1, by rw [(ih pos).2]⟩
    · simp only [hn, if_false, List.cons_append, List.nil_append, Tiles]
      exact ⟨⟨trivial, (ih (pos + n)).1⟩, by rw [(ih (pos + n)).2]⟩

theorem lay_end (sizes : List Nat) (pos : Nat) : (lay pos sizes).2 = pos + sizes.sum := by
  induction sizes generalizing pos with
  | nil => simp [lay]
  | cons n r ih => simp only [lay, List.sum_cons]; rw [ih]; omega

end Wv.Skin

namespace Wv.Skin

/-- with a non-empty header in front, a section is recorded with offset 0 exactly when it is empty -/
theorem lay_zero_iff (sizes : List Nat) (pos : Nat) (hp : 0 < pos) (i : Nat) :
    (lay pos sizes).1[i]? = some 0 ↔ sizes[i]? = some 0 := by
  induction sizes generalizing pos i with
  | nil => simp [lay]
  | cons n r ih =>
    cases i with
    | zero =>
      simp only [lay, List.getElem?_cons_zero, Option.some.injEq]
      by_cases hn : n = 0
      · simp [hn]
      · simp [hn]; omega
    | succ j =>
      simp only [lay, List.getElem?_cons_succ]
      exact ih (pos + n) (by omega) j

end Wv.Skin
