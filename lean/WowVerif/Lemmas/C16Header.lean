/- lemmas about Model.C16Header: encode_header → parse_header is the identity on normal headers; sizes -/
import WowVerif.Model.C16Header
import WowVerif.Lemmas.Record
namespace Wv.BlpH
open Wv

theorem versionOf_magic (v : Nat) (h : v ≤ 2) : versionOf (magicOf v) = some v := by
  have : v = 0 ∨ v = 1 ∨ v = 2 := by omega
  rcases this with rfl | rfl | rfl <;> decide

theorem magic_fits (v : Nat) (h : v ≤ 2) : magicOf v < 256 ^ 4 := by
  have : v = 0 ∨ v = 1 ∨ v = 2 := by omega
  rcases this with rfl | rfl | rfl <;> decide

theorem fits1 {w v : Nat} (h : v < 256 ^ w) : Rec.Fits [(w, v)] := by
  intro f hf; simp at hf; subst hf; exact h

theorem loc_fits (l : List Nat) (h : ∀ x ∈ l, x < 2 ^ 32) : Rec.Fits (locW.zip l) := by
  intro f hf
  have h1 : f.1 ∈ locW := (List.of_mem_zip hf).1
  have h2 : f.2 ∈ l := (List.of_mem_zip hf).2
  have : f.1 = 4 := by simp [locW] at h1; exact h1
  rw [this]; exact h f.2 h2

theorem parseLocator_enc (v : Nat) (l : List Nat) (rest : Bytes)
    (h : (v = 0 ∧ l = []) ∨ (v ≥ 1 ∧ l.length = 32 ∧ ∀ x ∈ l, x < 2 ^ 32)) :
    parseLocator v (Rec.enc (locW.zip l) ++ rest) = .ok l := by
  unfold parseLocator
  rcases h with ⟨rfl, rfl⟩ | ⟨hv, hl, hx⟩
  · simp
  · rw [if_pos hv]
    have hd := Rec.dec_enc (locW.zip l) rest (loc_fits l hx)
    have hlen : l.length = locW.length := by simp [locW, hl]
    have m1 : (locW.zip l).map (·.1) = locW := by rw [List.map_fst_zip]; omega
    have m2 : (locW.zip l).map (·.2) = l := by rw [List.map_snd_zip]; omega
    rw [m1, m2] at hd
    rw [hd]

theorem parseOld_enc (v c ab w ht extra hm : Nat) (l : List Nat) (rest : Bytes)
    (hloc : (v = 0 ∧ l = []) ∨ (v ≥ 1 ∧ l.length = 32 ∧ ∀ x ∈ l, x < 2 ^ 32))
    (hf : Rec.Fits [(4, ab), (4, w), (4, ht), (4, extra), (4, hm)]) (hna : normAlpha c ab = ab) :
    parseOld v c (Rec.enc [(4, ab), (4, w), (4, ht), (4, extra), (4, hm)] ++ (Rec.enc (locW.zip l) ++ rest)) =
      .ok ⟨v, c, .old ab extra hm, w, ht, l⟩ := by
  unfold parseOld
  have s3 := Rec.dec_enc [(4, ab), (4, w), (4, ht), (4, extra), (4, hm)] (Rec.enc (locW.zip l) ++ rest) hf
  simp only [List.map_cons, List.map_nil] at s3
  rw [s3]
  simp only [parseLocator_enc v l rest hloc, nth, hna]

theorem parseV2_enc (c comp ab at_ hm w ht : Nat) (l : List Nat) (rest : Bytes)
    (hloc : ((2 : Nat) = 0 ∧ l = []) ∨ ((2 : Nat) ≥ 1 ∧ l.length = 32 ∧ ∀ x ∈ l, x < 2 ^ 32))
    (hcomp : comp ≤ 3) (hab : ab < 256) (hat : okAlphaType at_ = true) (hhm : hm < 256) (hw : w ≤ 65535) (hh : ht ≤ 65535) :
    parseV2 c (Rec.enc [(1, comp)] ++ (Rec.enc [(1, ab), (1, at_)] ++ (Rec.enc [(1, hm), (4, w), (4, ht)] ++
      (Rec.enc (locW.zip l) ++ rest)))) = .ok ⟨2, c, .blp2 comp ab at_ hm, w, ht, l⟩ := by
  unfold parseV2
  have s3 := Rec.dec_enc [(1, comp)] (Rec.enc [(1, ab), (1, at_)] ++ (Rec.enc [(1, hm), (4, w), (4, ht)] ++
    (Rec.enc (locW.zip l) ++ rest))) (fits1 (by omega))
  simp only [List.map_cons, List.map_nil] at s3
  rw [s3]
  have hc3 : ¬ comp > 3 := by omega
  simp only [nth, hc3, if_false]
  have hatf : at_ < 256 := by
    unfold okAlphaType at hat; simp at hat; omega
  have hf2 : Rec.Fits [(1, ab), (1, at_)] := by
    intro f hf; simp at hf; rcases hf with rfl | rfl <;> simp <;> omega
  have s4 := Rec.dec_enc [(1, ab), (1, at_)] (Rec.enc [(1, hm), (4, w), (4, ht)] ++ (Rec.enc (locW.zip l) ++ rest)) hf2
  simp only [List.map_cons, List.map_nil] at s4
  rw [s4]
  simp only [nth, hat, not_true_eq_false, if_false]
  have hf3 : Rec.Fits [(1, hm), (4, w), (4, ht)] := by
    intro f hf; simp at hf; rcases hf with rfl | rfl | rfl <;> simp <;> omega
  have s5 := Rec.dec_enc [(1, hm), (4, w), (4, ht)] (Rec.enc (locW.zip l) ++ rest) hf3
  simp only [List.map_cons, List.map_nil] at s5
  rw [s5]
  simp only [parseLocator_enc 2 l rest hloc, nth]

theorem parse_head (m v c : Nat) (hm : versionOf m = some v) (hmf : m < 256 ^ 4) (hcont : c ≤ 1) (R : Bytes) :
    parse (Rec.enc [(4, m)] ++ (Rec.enc [(4, c)] ++ R)) = if v = 2 then parseV2 c R else parseOld v c R := by
  unfold parse
  have s1 := Rec.dec_enc [(4, m)] (Rec.enc [(4, c)] ++ R) (fits1 hmf)
  simp only [List.map_cons, List.map_nil] at s1
  rw [s1]
  simp only [nth, hm]
  have hcf : c < 256 ^ 4 := by omega
  have s2 := Rec.dec_enc [(4, c)] R (fits1 hcf)
  simp only [List.map_cons, List.map_nil] at s2
  rw [s2]
  have hc : normContent c = c := by
    unfold normContent; have : c = 0 ∨ c = 1 := by omega
    rcases this with rfl | rfl <;> simp
  simp only [nth, hc]

/-- ENCODE → PARSE on every normal header of every version, whatever follows the header -/
theorem parse_write (h : Hdr) (hn : Normal h) (rest : Bytes) :
    ∃ bs, write h = .ok bs ∧ parse (bs ++ rest) = .ok h := by
  obtain ⟨v, c, fl, w, ht, l⟩ := h
  obtain ⟨hver, hcont, ⟨hw, hh⟩, hloc, hfl⟩ := hn
  simp only at hver hcont hw hh hloc hfl
  have hbig : ¬ (w > 65535 ∨ ht > 65535) := by omega
  have hext : ¬ (l = [] ∧ v > 0) := by
    rintro ⟨rfl, hv⟩
    rcases hloc with ⟨h0, _⟩ | ⟨_, hl, _⟩
    · omega
    · simp at hl
  cases fl with
  | old ab extra hm =>
    obtain ⟨hv1, hna, hab, hex, hhm⟩ := hfl
    unfold write
    simp only [hbig, hext, if_false]
    refine ⟨_, rfl, ?_⟩
    simp only [List.append_assoc]
    rw [parse_head (magicOf v) v c (versionOf_magic v hver) (magic_fits v hver) hcont]
    have hv2 : ¬ v = 2 := by omega
    rw [if_neg hv2]
    apply parseOld_enc v c ab w ht extra hm l rest hloc _ hna
    intro f hf; simp at hf
    rcases hf with rfl | rfl | rfl | rfl | rfl <;> simp <;> omega
  | blp2 comp ab at_ hm =>
    obtain ⟨hv2, hcomp, hab, hat, hhm⟩ := hfl
    subst hv2
    unfold write
    simp only [hbig, hext, if_false]
    refine ⟨_, rfl, ?_⟩
    simp only [List.append_assoc]
    rw [parse_head (magicOf 2) 2 c (versionOf_magic 2 hver) (magic_fits 2 hver) hcont]
    rw [if_pos rfl]
    exact parseV2_enc c comp ab at_ hm w ht l rest hloc hcomp hab hat hhm hw hh

/-- the encoded header has the size the reader skips (BlpHeader::size) -/
theorem write_size (h : Hdr) (hn : Normal h) (bs : Bytes) (hw : write h = .ok bs) : bs.length = size h.version := by
  obtain ⟨v, c, fl, w, ht, l⟩ := h
  obtain ⟨hver, hcont, ⟨hw', hh⟩, hloc, hfl⟩ := hn
  simp only at hver hcont hw' hh hloc hfl
  unfold write at hw
  split at hw
  · cases hw
  · split at hw
    · cases hw
    · simp only [Except.ok.injEq] at hw
      subst hw
      have hl : (Rec.enc (locW.zip l)).length = if v = 0 then 0 else 128 := by
        rw [Rec.enc_length]
        rcases hloc with ⟨rfl, rfl⟩ | ⟨hv, hl, _⟩
        · simp [Rec.total]
        · have m1 : (locW.zip l).map (·.1) = locW := by
            rw [List.map_fst_zip]; simp [locW, hl]
          rw [m1]
          have : ¬ v = 0 := by omega
          simp only [this, if_false]
          decide
      cases fl with
      | old ab extra hm =>
        obtain ⟨hv1, _⟩ := hfl
        simp only [List.length_append, Rec.enc_length, hl, size, List.map_cons, List.map_nil, Rec.total]
        have : v = 0 ∨ v = 1 := by omega
        rcases this with rfl | rfl <;> simp
      | blp2 comp ab at_ hm =>
        obtain ⟨hv2, _⟩ := hfl
        subst hv2
        simp only [List.length_append, Rec.enc_length, hl, size, List.map_cons, List.map_nil, Rec.total]
        simp

end Wv.BlpH
