/- lemmas about Model.C19Buf: nothing is written past the caller's buffer, every string written is terminated inside it -/
import WowVerif.Model.C19Buf
namespace Wv.Buf
open Wv

theorem archiveName_fits (path : Bytes) (cap : Nat) (w : Bytes) (h : archiveName path cap = some w) :
    w.length ≤ cap ∧ w = path ++ [0] ∧ 0 ∉ path := by
  unfold archiveName at h
  split at h
  · cases h
  · split at h
    · cases h
    · rename_i hc
      split at h
      · cases h
      · rename_i hl
        simp only [Option.some.injEq] at h
        subst h
        refine ⟨by simp; omega, rfl, ?_⟩
        intro hm
        apply hc
        simpa using hm

theorem archiveName_none_iff (path : Bytes) (cap : Nat) :
    archiveName path cap = none ↔ cap = 0 ∨ 0 ∈ path ∨ cap < path.length + 1 := by
  unfold archiveName
  by_cases h0 : cap = 0
  · simp [h0]
  · by_cases hc : path.contains 0 = true
    · have : 0 ∈ path := by simpa using hc
      simp [h0, hc, this]
    · have hn : 0 ∉ path := by simpa using hc
      by_cases hl : path.length + 1 > cap
      · simp [h0, hc, hl]
      · simp [h0, hc, hl, hn]

theorem fileName_fits (name w : Bytes) (h : fileName name = some w) :
    w.length ≤ 260 ∧ w.getLast? = some 0 ∧ w.dropLast = name.take 259 := by
  unfold fileName at h
  split at h
  · cases h
  · simp only [Option.some.injEq] at h
    subst h
    refine ⟨?_, by simp, by simp⟩
    simp only [List.length_append, List.length_take, List.length_cons, List.length_nil]
    omega

theorem plainStart_le (name : Bytes) : plainStart name ≤ name.length := by
  induction name with
  | nil => simp [plainStart]
  | cons b rest ih =>
    unfold plainStart
    split
    · simp; omega
    · split <;> simp

/-- nothing after `plainStart` is a backslash -/
theorem plainStart_no_sep (name : Bytes) : 92 ∉ name.drop (plainStart name) := by
  induction name with
  | nil => simp [plainStart]
  | cons b rest ih =>
    unfold plainStart
    by_cases hc : rest.contains 92 = true
    · rw [if_pos hc]
      have : (b :: rest).drop (1 + plainStart rest) = rest.drop (plainStart rest) := by
        rw [Nat.add_comm]; rfl
      rw [this]; exact ih
    · rw [if_neg hc]
      have hr : 92 ∉ rest := by simpa using hc
      by_cases hb : b = 92
      · rw [if_pos hb]; simpa using hr
      · rw [if_neg hb]
        simp only [List.drop_zero, List.mem_cons, not_or]
        exact ⟨fun h => hb h.symm, hr⟩

theorem findData_inside (name : Bytes) :
    (findData name).1.length = 260 ∧ (findData name).2 ≤ 259 ∧ (findData name).1[259]? = some 0 ∧
      (findData name).2 ≤ name.length := by
  unfold findData
  simp only
  refine ⟨?_, by omega, ?_, ?_⟩
  · simp only [List.length_append, List.length_take, List.length_replicate]; omega
  · have hl : (name.take (min name.length 259)).length = min name.length 259 := by
      simp only [List.length_take]; omega
    rw [List.getElem?_append_right (by omega), hl]
    rw [List.getElem?_replicate]
    have : 259 - min name.length 259 < 260 - min name.length 259 := by omega
    simp [this]
  · have := plainStart_le name; omega

end Wv.Buf
