/- C01, whole archive, part 2: where the writer puts things and what the reader finds there -/
import WowVerif.Lemmas.C01Hash
import WowVerif.Lemmas.Bytes
set_option linter.unusedSimpArgs false
namespace Wv.Mpq
open Wv

theorem slice_mid (pre x post : Bytes) (o n : Nat) (ho : pre.length = o) (hn : x.length = n) :
    slice (pre ++ (x ++ post)) o n = some x := by
  subst ho; subst hn
  unfold slice
  rw [if_pos (by simp only [List.length_append]; omega)]
  rw [List.drop_left, List.take_left]

theorem u32At_skip (a rest : Bytes) (o : Nat) (h : a.length ≤ o) : u32At (a ++ rest) o = u32At rest (o - a.length) := by
  unfold u32At
  rw [List.drop_append, List.drop_eq_nil_of_le h, List.nil_append]

theorem u16At_skip (a rest : Bytes) (o : Nat) (h : a.length ≤ o) : u16At (a ++ rest) o = u16At rest (o - a.length) := by
  unfold u16At
  rw [List.drop_append, List.drop_eq_nil_of_le h, List.nil_append]

theorem u32At_here (v : Nat) (post : Bytes) (hv : v < 2 ^ 32) : u32At (natLE 4 v ++ post) 0 = v := by
  unfold u32At
  rw [List.drop_zero, List.take_left' (natLE_length 4 v)]
  exact leNat_natLE 4 v (by simpa using hv)

theorem u16At_here (v : Nat) (post : Bytes) (hv : v < 2 ^ 16) : u16At (natLE 2 v ++ post) 0 = v := by
  unfold u16At
  rw [List.drop_zero, List.take_left' (natLE_length 2 v)]
  exact leNat_natLE 2 v (by simpa using hv)

end Wv.Mpq
