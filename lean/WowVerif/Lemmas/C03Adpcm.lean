/- lemmas for Model.C03Adpcm: the decoder consumes the encoder's stream group by group; length and channel independence -/
import WowVerif.Model.C03Adpcm
namespace Wv.Adpcm
open Wv

theorem sampleBytes_length (s : Int) : (sampleBytes s).length = 2 := rfl

theorem samplesOf_length : ∀ (bs : Bytes), (samplesOf bs).length = bs.length / 2
  | [] => rfl
  | [_] => by simp [samplesOf]
  | lo :: hi :: rest => by
    simp only [samplesOf, List.length_cons, samplesOf_length rest]
    omega

/-! ### what the encoder emits for one sample is a well-formed group -/

theorem encBits_le (f bit M w t d : Nat) (hb : 1 ≤ bit) : (encBits f bit M w t d).1 ≤ 2 * M - bit := by
  induction f generalizing bit w t with
  | zero => simp [encBits]
  | succ f ih =>
    simp only [encBits]
    split
    · rename_i hle
      split
      · have := ih (bit * 2) (w / 2) (t + w) (by omega)
        simp only
        omega
      · have := ih (bit * 2) (w / 2) t (by omega)
        omega
    · simp

/-- a group: any number of step-up markers, then one byte that is not a step-up marker -/
def IsGroup (g : Bytes) : Prop := ∃ k b, g = List.replicate k 0x81 ++ [b] ∧ b ≠ 0x81

theorem ofNat_ne_81 (e : Nat) (h : e ≤ 127) : UInt8.ofNat e ≠ 0x81 := by
  intro hc
  have := congrArg UInt8.toNat hc
  simp [UInt8.toNat_ofNat'] at this
  omega

theorem encOne_group (level : Nat) (c : Ch) (s : Int) : IsGroup (encOne level c s).1 := by
  unfold encOne
  simp only
  split
  · exact ⟨0, 0x80, rfl, by decide⟩
  · refine ⟨_, _, rfl, ?_⟩
    apply ofNat_ne_81
    have hm : min (if (if level = 0 then 0 else level - 1) > 0 then 2 ^ ((if level = 0 then 0 else level - 1) - 1) else 0) 0x20 ≤ 0x20 :=
      Nat.min_le_right _ _
    generalize min (if (if level = 0 then 0 else level - 1) > 0 then 2 ^ ((if level = 0 then 0 else level - 1) - 1) else 0) 0x20 = M at hm
    have hs : (if s - c.pred < 0 then 64 else 0) ≤ 64 := by split <;> omega
    generalize (if s - c.pred < 0 then 64 else 0) = sign at hs
    split
    · have := encBits_le 8 1 M (stepSize (stepUp 12 (s - c.pred).natAbs c.idx).1) 0 (s - c.pred).natAbs (by omega)
      omega
    · simp only; omega

/-! ### the decoder on one group -/

/-- decode one group on one channel: the channel's new state and the sample it yields -/
def decGroup (sh : Nat) (c : Ch) : Bytes → Ch × Option Int
  | [] => (c, none)
  | b :: rest =>
    if b = 0x80 then ({ c with idx := c.idx - 1 }, some c.pred)
    else if b = 0x81 then decGroup sh { c with idx := min (c.idx + 8) 0x58 } rest
    else
      let step := stepSize c.idx
      let pred := decodeSample c.pred b.toNat step (step / 2 ^ sh)
      ({ pred := pred, idx := nextStepIndex c.idx b.toNat }, some pred)

theorem decGroup_some (sh : Nat) (c : Ch) (g : Bytes) (hg : IsGroup g) : ∃ s, (decGroup sh c g).2 = some s := by
  obtain ⟨k, b, rfl, hb⟩ := hg
  induction k generalizing c with
  | zero =>
    simp only [List.replicate_zero, List.nil_append, decGroup, hb, if_false]
    split
    · exact ⟨_, rfl⟩
    · exact ⟨_, rfl⟩
  | succ k ih =>
    simp only [List.replicate_succ, List.cons_append, decGroup]
    simp only [show ((0x81 : UInt8) = 0x80) = False by decide, if_false, if_true]
    exact ih _

theorem back_channel (ci n : Nat) (h : ci < n) : ((ci + 1) % n + n - 1) % n = ci := by
  rcases Nat.lt_or_ge (ci + 1) n with h1 | h1
  · rw [Nat.mod_eq_of_lt h1, show ci + 1 + n - 1 = ci + n by omega, Nat.add_mod_right, Nat.mod_eq_of_lt h]
  · have : ci + 1 = n := by omega
    rw [this, Nat.mod_self, Nat.zero_add, Nat.mod_eq_of_lt (by omega)]; omega

/-- THE DECODER CONSUMES ONE GROUP: it yields exactly one sample, on the next channel, and moves on to that channel -/
theorem decLoop_group (sh outSize : Nat) (chs : List Ch) (ci : Nat) (g rest out : Bytes) (c : Ch)
    (hci : ci < chs.length) (hg : IsGroup g) (hout : out.length < outSize)
    (hc : chs[(ci + 1) % chs.length]? = some c) (s : Int) (hs : (decGroup sh c g).2 = some s) :
    decLoop sh outSize chs ci (g ++ rest) out
      = decLoop sh outSize (chs.set ((ci + 1) % chs.length) (decGroup sh c g).1) ((ci + 1) % chs.length) rest (out ++ sampleBytes s) := by
  obtain ⟨k, b, rfl, hb⟩ := hg
  induction k generalizing chs c with
  | zero =>
    simp only [List.replicate_zero, List.nil_append, List.cons_append, decLoop]
    simp only [show ¬ out.length ≥ outSize by omega, if_false, hc]
    simp only [List.replicate_zero, List.nil_append] at hs
    simp only [decGroup, hb, if_false] at hs ⊢
    by_cases h80 : b = 0x80
    · simp only [h80, if_true, Option.some.injEq] at hs ⊢
      subst hs; rfl
    · simp only [h80, if_false, Option.some.injEq] at hs ⊢
      subst hs; rfl
  | succ k ih =>
    simp only [List.replicate_succ, List.cons_append, decLoop]
    simp only [show ¬ out.length ≥ outSize by omega, if_false, hc]
    simp only [show ((0x81 : UInt8) = 0x80) = False by decide, if_false, if_true]
    have hn : 0 < chs.length := by omega
    have hlt : (ci + 1) % chs.length < chs.length := Nat.mod_lt _ hn
    rw [back_channel ci chs.length hci]
    simp only [decGroup, show ((0x81 : UInt8) = 0x80) = False by decide, if_false, if_true] at hs ⊢
    have := ih (chs.set ((ci + 1) % chs.length) { c with idx := min (c.idx + 8) 0x58 }) { c with idx := min (c.idx + 8) 0x58 }
      (by simpa using hci) (by simp [hlt]) hs
    simp only [List.length_set] at this
    rw [this, List.set_set]

end Wv.Adpcm
namespace Wv.Adpcm
open Wv

/-- one sample through the encoder and the decoder of one channel: new encoder state, new decoder state, decoded sample -/
def roundOne (level sh : Nat) (e d : Ch) (s : Int) : Ch × Ch × Int :=
  let r := decGroup sh d (encOne level e s).1
  ((encOne level e s).2, r.1, r.2.getD 0)

/-- the codec as a whole, sample by sample: sample `k` goes through the coder pair of channel `k % n` -/
def roundLoop (level sh : Nat) : List Ch → List Ch → Nat → List Int → List Int
  | _, _, _, [] => []
  | es, ds, k, s :: rest =>
    match es[k % es.length]?, ds[k % es.length]? with
    | some e, some d =>
      (roundOne level sh e d s).2.2 ::
        roundLoop level sh (es.set (k % es.length) (roundOne level sh e d s).1) (ds.set (k % es.length) (roundOne level sh e d s).2.1) (k + 1) rest
    | _, _ => []

theorem roundLoop_length (level sh : Nat) (es ds : List Ch) (k : Nat) (ss : List Int)
    (hl : ds.length = es.length) (hn : 0 < es.length) : (roundLoop level sh es ds k ss).length = ss.length := by
  induction ss generalizing es ds k with
  | nil => rfl
  | cons s rest ih =>
    have hlt : k % es.length < es.length := Nat.mod_lt _ hn
    obtain ⟨e, he⟩ : ∃ e, es[k % es.length]? = some e := ⟨_, List.getElem?_eq_getElem hlt⟩
    obtain ⟨d, hd⟩ : ∃ d, ds[k % es.length]? = some d := ⟨_, List.getElem?_eq_getElem (by omega)⟩
    simp only [roundLoop, he, hd, List.length_cons]
    rw [ih _ _ _ (by simp [hl]) (by simpa using hn)]

theorem succ_mod_chain (k ci n : Nat) (h : k % n = (ci + 1) % n) : (k + 1) % n = ((ci + 1) % n + 1) % n := by
  rw [← h, Nat.add_mod k 1 n, Nat.add_mod (k % n) 1 n, Nat.mod_mod]

/-- THE DECODER ON THE ENCODER'S STREAM, for every number of remaining samples: group by group it produces exactly the
    samples of `roundLoop` -/
theorem decLoop_encLoop (level sh outSize : Nat) (es ds : List Ch) (ci k : Nat) (ss : List Int) (out : Bytes)
    (hl : ds.length = es.length) (hci : ci < es.length) (hk : k % es.length = (ci + 1) % es.length)
    (hout : out.length + 2 * ss.length = outSize) :
    decLoop sh outSize ds ci (encLoop level es k ss) out = out ++ (roundLoop level sh es ds k ss).flatMap sampleBytes := by
  induction ss generalizing es ds ci k out with
  | nil =>
    simp only [encLoop, roundLoop, List.flatMap_nil, List.append_nil]
    cases ds <;> rfl
  | cons s rest ih =>
    have hn : 0 < es.length := by omega
    have hlt : k % es.length < es.length := Nat.mod_lt _ hn
    obtain ⟨e, he⟩ : ∃ e, es[k % es.length]? = some e := ⟨_, List.getElem?_eq_getElem hlt⟩
    obtain ⟨d, hd⟩ : ∃ d, ds[k % es.length]? = some d := ⟨_, List.getElem?_eq_getElem (by omega)⟩
    simp only [encLoop, roundLoop, he, hd]
    have hg := encOne_group level e s
    have hdc : ds[(ci + 1) % ds.length]? = some d := by rw [hl, ← hk]; exact hd
    obtain ⟨o, ho⟩ := decGroup_some sh d _ hg
    simp only [List.length_cons] at hout
    rw [decLoop_group sh outSize ds ci _ _ out d (by omega) hg (by omega) hdc o ho]
    rw [hl, ← hk]
    have := ih (es.set (k % es.length) (encOne level e s).2)
      (ds.set (k % es.length) (decGroup sh d (encOne level e s).1).1)
      (k % es.length) (k + 1) (out ++ sampleBytes o)
      (by simp [hl]) (by simpa using hlt)
      (by simp only [List.length_set]; rw [succ_mod_chain k ci es.length hk, hk])
      (by simp [sampleBytes_length]; omega)
    rw [this]
    simp only [roundOne, ho, Option.getD_some, List.flatMap_cons, List.append_assoc]

/-! ### samples survive the byte representation -/

theorem toI16_range (lo hi : UInt8) : -32768 ≤ toI16 lo hi ∧ toI16 lo hi ≤ 32767 := by
  unfold toI16
  have h1 := lo.toNat_lt
  have h2 := hi.toNat_lt
  simp only
  split <;> omega

theorem samplesOf_sampleBytes (s : Int) (h : -32768 ≤ s ∧ s ≤ 32767) (rest : Bytes) :
    samplesOf (sampleBytes s ++ rest) = s :: samplesOf rest := by
  simp only [sampleBytes, List.cons_append, List.nil_append, samplesOf, toI16, UInt8.toNat_ofNat']
  congr 1
  have hu : (s % 65536).toNat < 65536 := by omega
  have e : (s % 65536).toNat % 256 % 2 ^ 8 + 256 * ((s % 65536).toNat / 256 % 2 ^ 8) = (s % 65536).toNat := by omega
  rw [e]
  split <;> omega

theorem samplesOf_flatMap (l : List Int) (h : ∀ s ∈ l, -32768 ≤ s ∧ s ≤ 32767) (rest : Bytes) :
    samplesOf (l.flatMap sampleBytes ++ rest) = l ++ samplesOf rest := by
  induction l with
  | nil => rfl
  | cons a t ih =>
    simp only [List.flatMap_cons, List.append_assoc, List.cons_append]
    rw [samplesOf_sampleBytes a (h a (by simp)), ih (fun s hs => h s (by simp [hs]))]

theorem samplesOf_range : ∀ (bs : Bytes), ∀ s ∈ samplesOf bs, -32768 ≤ s ∧ s ≤ 32767
  | [] => by simp [samplesOf]
  | [_] => by simp [samplesOf]
  | lo :: hi :: rest => by
    intro s hs
    simp only [samplesOf, List.mem_cons] at hs
    rcases hs with rfl | hs
    · exact toI16_range lo hi
    · exact samplesOf_range rest s hs

end Wv.Adpcm
namespace Wv.Adpcm
open Wv

def initCh (s : Int) : Ch := { pred := s, idx := 0x2C }

/-- THE CODEC, FUNCTIONALLY: for every input the encoder accepts (mono or stereo, any level up to 32), the decoder accepts
    the encoder's stream and returns the initial samples followed by the per-sample results of `roundLoop` -/
theorem decode_encode (n level : Nat) (hn : n = 1 ∨ n = 2) (hlv : level ≤ 32) (x enc : Bytes) (hx : x ≠ [])
    (h : encode n level x = some enc) :
    decode n enc x.length = some (((samplesOf x).take n).flatMap sampleBytes ++
      (roundLoop level (if level = 0 then 0 else level - 1) (((samplesOf x).take n).map initCh) (((samplesOf x).take n).map initCh) n
        ((samplesOf x).drop n)).flatMap sampleBytes) := by
  unfold encode at h
  have hn0 : ¬ (n = 0 ∨ n > 2) := by omega
  simp only [hn0, if_false] at h
  split at h
  · cases h
  rename_i heven
  (try dsimp only at h)
  have hlen := samplesOf_length x
  split at h
  · rename_i h0
    have : x.length < 2 := by omega
    cases x with
    | nil => exact absurd rfl hx
    | cons a t => cases t with
      | nil => simp at heven
      | cons b t => simp only [List.length_cons] at this; omega
  rename_i hne
  split at h
  · cases h
  rename_i hdiv
  simp only [Option.some.injEq] at h
  subst h
  have hge : n ≤ (samplesOf x).length := by
    rcases Nat.lt_or_ge (samplesOf x).length n with h' | h'
    · exact absurd (Or.inl (Nat.div_eq_of_lt h')) hdiv
    · exact h'
  have hinl : (((samplesOf x).take n).flatMap sampleBytes).length = 2 * n := by
    have : ∀ l : List Int, (l.flatMap sampleBytes).length = 2 * l.length := by
      intro l; induction l with
      | nil => rfl
      | cons a t ih => simp [List.flatMap_cons, sampleBytes_length, ih]; omega
    rw [this, List.length_take, Nat.min_eq_left hge]
  have hsh : (UInt8.ofNat (if level = 0 then 0 else level - 1)).toNat = (if level = 0 then 0 else level - 1) := by
    simp only [UInt8.toNat_ofNat']; split <;> omega
  unfold decode
  simp only [hn0, if_false, List.cons_append, List.nil_append, List.isEmpty_cons, Bool.false_eq_true, false_and,
    List.length_cons, List.length_append, hinl, hsh]
  have h31 : ¬ (if level = 0 then 0 else level - 1) > 31 := by split <;> omega
  rw [if_neg (by omega)]
  simp only [h31, if_false]
  rw [if_neg (by omega)]
  have hrange : ∀ s ∈ (samplesOf x).take n, -32768 ≤ s ∧ s ≤ 32767 := fun s hs => samplesOf_range x s (List.mem_of_mem_take hs)
  have htake : List.take (2 * n) (List.flatMap sampleBytes (List.take n (samplesOf x)) ++ encLoop level (List.map (fun s => ({ pred := s, idx := 0x2C } : Ch)) (List.take n (samplesOf x))) n (List.drop n (samplesOf x)))
      = List.flatMap sampleBytes (List.take n (samplesOf x)) := by
    rw [List.take_append_of_le_length (by omega), List.take_of_length_le (by omega)]
  have hdrop : List.drop (2 * n) (List.flatMap sampleBytes (List.take n (samplesOf x)) ++ encLoop level (List.map (fun s => ({ pred := s, idx := 0x2C } : Ch)) (List.take n (samplesOf x))) n (List.drop n (samplesOf x)))
      = encLoop level (List.map (fun s => ({ pred := s, idx := 0x2C } : Ch)) (List.take n (samplesOf x))) n (List.drop n (samplesOf x)) := by
    rw [List.drop_append_of_le_length (by omega), List.drop_of_length_le (by omega), List.nil_append]
  rw [htake, hdrop]
  have hso : samplesOf (List.flatMap sampleBytes (List.take n (samplesOf x))) = List.take n (samplesOf x) := by
    have := samplesOf_flatMap _ hrange []
    simpa [samplesOf] using this
  rw [hso]
  congr 1
  have hl : (List.map (fun s => ({ pred := s, idx := 0x2C } : Ch)) (List.take n (samplesOf x))).length = n := by
    simp [List.length_take, Nat.min_eq_left hge]
  have := decLoop_encLoop level (if level = 0 then 0 else level - 1) x.length
    (List.map (fun s => ({ pred := s, idx := 0x2C } : Ch)) (List.take n (samplesOf x)))
    (List.map (fun s => ({ pred := s, idx := 0x2C } : Ch)) (List.take n (samplesOf x)))
    (n - 1) n (List.drop n (samplesOf x)) (List.flatMap sampleBytes (List.take n (samplesOf x)))
    rfl (by rw [hl]; omega) (by rw [hl]; rcases hn with rfl | rfl <;> rfl)
    (by rw [hinl, List.length_drop, hlen]; omega)
  exact this

/-- LENGTH IS PRESERVED, and the decoder accepts the encoder's own output -/
theorem decode_encode_length (n level : Nat) (hn : n = 1 ∨ n = 2) (hlv : level ≤ 32) (x enc : Bytes) (hx : x ≠ [])
    (h : encode n level x = some enc) : ∃ out, decode n enc x.length = some out ∧ out.length = x.length := by
  refine ⟨_, decode_encode n level hn hlv x enc hx h, ?_⟩
  have hlen := samplesOf_length x
  have hfl : ∀ l : List Int, (l.flatMap sampleBytes).length = 2 * l.length := by
    intro l; induction l with
    | nil => rfl
    | cons a t ih => simp [List.flatMap_cons, sampleBytes_length, ih]; omega
  unfold encode at h
  have hn0 : ¬ (n = 0 ∨ n > 2) := by omega
  simp only [hn0, if_false] at h
  split at h
  · cases h
  rename_i heven
  (try dsimp only at h)
  split at h
  · rename_i h0
    cases x with
    | nil => exact absurd rfl hx
    | cons a t => cases t with
      | nil => simp at heven
      | cons b t => simp [samplesOf] at h0
  split at h
  · cases h
  rename_i hdiv
  have hge : n ≤ (samplesOf x).length := by
    rcases Nat.lt_or_ge (samplesOf x).length n with h' | h'
    · exact absurd (Or.inl (Nat.div_eq_of_lt h')) hdiv
    · exact h'
  rw [List.length_append, hfl, hfl, roundLoop_length _ _ _ _ _ _ rfl (by simp [List.length_take]; omega),
    List.length_take, List.length_drop, Nat.min_eq_left hge]
  omega

/-! ### stereo is two mono codecs, interleaved -/

def interleave {α} : List α → List α → List α
  | a :: as, b :: bs => a :: b :: interleave as bs
  | as, [] => as
  | [], bs => bs

theorem roundLoop_mono (level sh : Nat) (e d : Ch) (k : Nat) (s : Int) (rest : List Int) :
    roundLoop level sh [e] [d] k (s :: rest)
      = (roundOne level sh e d s).2.2 :: roundLoop level sh [(roundOne level sh e d s).1] [(roundOne level sh e d s).2.1] (k + 1) rest := by
  simp [roundLoop, Nat.mod_one]

/-- CHANNELS DO NOT INFLUENCE EACH OTHER: the stereo codec on an interleaved signal returns the interleaving of what
    the mono codec returns for each channel on its own (from the same coder states), sample for sample -/
theorem stereo_is_two_monos (level sh : Nat) (e0 e1 d0 d1 : Ch) (k : Nat) (hk : k % 2 = 0) (l r : List Int)
    (hlen : l.length = r.length) :
    roundLoop level sh [e0, e1] [d0, d1] k (interleave l r)
      = interleave (roundLoop level sh [e0] [d0] 0 l) (roundLoop level sh [e1] [d1] 0 r) := by
  induction l generalizing r e0 e1 d0 d1 k with
  | nil =>
    cases r with
    | nil => simp [interleave, roundLoop]
    | cons b bs => simp at hlen
  | cons a as ih =>
    cases r with
    | nil => simp at hlen
    | cons b bs =>
      simp only [List.length_cons, Nat.add_right_cancel_iff] at hlen
      have hk1 : (k + 1) % 2 = 1 := by omega
      rw [roundLoop_mono, roundLoop_mono]
      simp only [interleave, roundLoop, List.length_cons, List.length_nil, Nat.zero_add, Nat.reduceAdd, hk, hk1,
        List.getElem?_cons_zero, List.getElem?_cons_succ, List.set_cons_zero, List.set_cons_succ]
      rw [ih _ _ _ _ (k + 1 + 1) (by omega) bs hlen]
      congr 2
      · -- the mono loops do not depend on their position counter
        have hpos : ∀ (e d : Ch) (j j' : Nat) (ss : List Int), roundLoop level sh [e] [d] j ss = roundLoop level sh [e] [d] j' ss := by
          intro e d j j' ss
          induction ss generalizing e d j j' with
          | nil => rfl
          | cons s t ih2 => rw [roundLoop_mono, roundLoop_mono, ih2 _ _ (j + 1) (j' + 1)]
        rw [hpos _ _ (0 + 1) 0, hpos _ _ (0 + 1) 0]

end Wv.Adpcm
