/- helper lemmas and proofs for C18 (WDT chunk-level round trip, WDL offset table) -/
import WowVerif.Model.C18Wdt
import WowVerif.Model.C18Wdl
import WowVerif.Lemmas.Iff
set_option linter.unusedSimpArgs false
namespace Wv.Wdt
open Wv Wv.Iff


theorem splitNames_name (n : Bytes) (rest : Bytes) (cur : Bytes) (hn : n.all (· != 0) = true) :
    splitNames (n ++ 0 :: rest) cur =
      (if (n.reverse ++ cur).isEmpty then splitNames rest [] else (n.reverse ++ cur).reverse :: splitNames rest []) := by
  induction n generalizing cur with
  | nil => simp [splitNames]
  | cons b bs ih =>
    simp only [List.all_cons, Bool.and_eq_true, bne_iff_ne, ne_eq] at hn
    simp only [List.cons_append, splitNames, hn.1, if_false]
    rw [ih (b :: cur) hn.2]
    simp

theorem splitNames_payload (ns : List Bytes) (h : ∀ n ∈ ns, nameOk n = true) :
    splitNames (mwmoPayload ns) [] = ns := by
  induction ns with
  | nil => simp [mwmoPayload, splitNames]
  | cons n ns ih =>
    have hn := h n (by simp)
    simp only [nameOk, Bool.and_eq_true, Bool.not_eq_true', List.isEmpty_eq_false_iff] at hn
    simp only [mwmoPayload, List.flatMap_cons, List.append_assoc, List.singleton_append]
    rw [splitNames_name n _ [] hn.2]
    have hne : (n.reverse ++ []).isEmpty = false := by
      cases n with
      | nil => exact absurd rfl hn.1
      | cons a as => simp
    simp only [hne, Bool.false_eq_true, if_false, List.append_nil, List.reverse_reverse]
    have := ih (fun x hx => h x (by simp [hx]))
    simp only [mwmoPayload] at this
    rw [this]
    have hne2 : (List.reverse n).isEmpty = false := by simpa using hne
    simp [hne2]

theorem natLE4_18 : leNat (natLE 4 18) = 18 := by decide

/-- what the reader returns for a written well-formed file -/
def readBack (hint : Nat) (w : Wdt) : Wdt :=
  { w with ver := detect hint w.mphd w.maid.isSome w.mwmo.isSome w.modf.isSome }

theorem chunks_wf (w : Wdt) (h : WellFormed w) : ∀ c ∈ chunksOf w, WF c := by
  obtain ⟨h1, h2, h3, h4, h5, h6⟩ := h
  intro c hc
  simp only [chunksOf, List.mem_append, List.mem_cons, List.not_mem_nil, or_false] at hc
  rcases hc with ((((hc | hc | hc) | hc) | hc) | hc)
  · subst hc; exact ⟨rfl, by simp [natLE_length]⟩
  · subst hc; exact ⟨rfl, by simp only; omega⟩
  · subst hc; exact ⟨rfl, by simp only; omega⟩
  · cases hm : w.maid with
    | none => simp [hm] at hc
    | some d => simp [hm] at hc; subst hc; exact ⟨rfl, (h4 d hm).2.1⟩
  · cases hm : w.mwmo with
    | none => simp [hm] at hc
    | some ns =>
      simp only [hm] at hc
      split at hc
      · simp at hc; subst hc; exact ⟨rfl, (h5 ns hm).2.2⟩
      · simp at hc
  · cases hm : w.modf with
    | none => simp [hm] at hc
    | some d => simp [hm] at hc; subst hc; exact ⟨rfl, (h6 d hm).2⟩

theorem absorb_mver (a : Acc) : absorb a ⟨mMVER, natLE 4 18⟩ = .ok { a with mver := true } := by
  simp [absorb, natLE_length, natLE4_18]

theorem absorb_mphd (a : Acc) (d : Bytes) (h1 : d.length = 32) (h2 : flagsOf d < 65536) :
    absorb a ⟨mMPHD, d⟩ = .ok { a with mphd := some d } := by
  have : ¬ (flagsOf d ≥ 65536) := by omega
  simp [absorb, mMPHD, mMVER, h1, this]

theorem absorb_main (a : Acc) (d : Bytes) (h1 : d.length = 32768) :
    absorb a ⟨mMAIN, d⟩ = .ok { a with main := some d } := by
  simp [absorb, mMAIN, mMPHD, mMVER, h1]

theorem absorb_maid (a : Acc) (d : Bytes) (h1 : d.length % 16384 = 0) :
    absorb a ⟨mMAID, d⟩ = .ok { a with maid := some d } := by
  simp [absorb, mMAID, mMAIN, mMPHD, mMVER, h1]

theorem absorb_mwmo (a : Acc) (d : Bytes) :
    absorb a ⟨mMWMO, d⟩ = .ok { a with mwmo := some (splitNames d []) } := by
  simp [absorb, mMWMO, mMAID, mMAIN, mMPHD, mMVER]

theorem absorb_modf (a : Acc) (d : Bytes) (h1 : d.length % 64 = 0) :
    absorb a ⟨mMODF, d⟩ = .ok { a with modf := some d } := by
  simp [absorb, mMODF, mMWMO, mMAID, mMAIN, mMPHD, mMVER, h1]

theorem wdt_read_write (hint : Nat) (w : Wdt) (h : WellFormed w) :
    Wdt.read hint (Wdt.write w) = .ok (readBack hint w) := by
  have hwf := chunks_wf w h
  obtain ⟨h1, h2, h3, h4, h5, h6⟩ := h
  unfold Wdt.read Wdt.write
  rw [walk_serialize _ hwf]
  simp only
  obtain ⟨ver, mphd, main, maid, mwmo, modf⟩ := w
  simp only at h1 h2 h3 h4 h5 h6
  cases maid with
  | none =>
    cases mwmo with
    | none =>
      cases modf with
      | none =>
        simp [chunksOf, absorbAll, absorb_mver, absorb_mphd _ _ h1 h2, absorb_main _ _ h3, readBack]
      | some df =>
        simp [chunksOf, absorbAll, absorb_mver, absorb_mphd _ _ h1 h2, absorb_main _ _ h3,
          absorb_modf _ _ (h6 df rfl).1, readBack]
    | some ns =>
      have hs := (h5 ns rfl).1
      have hn := splitNames_payload ns (h5 ns rfl).2.1
      cases modf with
      | none =>
        simp [chunksOf, absorbAll, absorb_mver, absorb_mphd _ _ h1 h2, absorb_main _ _ h3, absorb_mwmo, hs, hn, readBack]
      | some df =>
        simp [chunksOf, absorbAll, absorb_mver, absorb_mphd _ _ h1 h2, absorb_main _ _ h3, absorb_mwmo, hs, hn,
          absorb_modf _ _ (h6 df rfl).1, readBack]
  | some md =>
    have hm := (h4 md rfl).1
    cases mwmo with
    | none =>
      cases modf with
      | none =>
        simp [chunksOf, absorbAll, absorb_mver, absorb_mphd _ _ h1 h2, absorb_main _ _ h3, absorb_maid _ _ hm, readBack]
      | some df =>
        simp [chunksOf, absorbAll, absorb_mver, absorb_mphd _ _ h1 h2, absorb_main _ _ h3, absorb_maid _ _ hm,
          absorb_modf _ _ (h6 df rfl).1, readBack]
    | some ns =>
      have hs := (h5 ns rfl).1
      have hn := splitNames_payload ns (h5 ns rfl).2.1
      cases modf with
      | none =>
        simp [chunksOf, absorbAll, absorb_mver, absorb_mphd _ _ h1 h2, absorb_main _ _ h3, absorb_maid _ _ hm,
          absorb_mwmo, hs, hn, readBack]
      | some df =>
        simp [chunksOf, absorbAll, absorb_mver, absorb_mphd _ _ h1 h2, absorb_main _ _ h3, absorb_maid _ _ hm,
          absorb_mwmo, hs, hn, absorb_modf _ _ (h6 df rfl).1, readBack]

/-- the re-detected version writes the same chunk set: second write is byte-identical -/
theorem wdt_second_write (hint : Nat) (w : Wdt) (h : WellFormed w) :
    Wdt.write (readBack hint w) = Wdt.write w := by
  obtain ⟨h1, h2, h3, h4, h5, h6⟩ := h
  obtain ⟨ver, mphd, main, maid, mwmo, modf⟩ := w
  simp only at h1 h2 h3 h4 h5 h6
  simp only [Wdt.write, readBack, chunksOf]
  cases mwmo with
  | none => rfl
  | some ns =>
    have hs := (h5 ns rfl).1
    cases maid with
    | some md =>
      -- BfA+: MWMO was written, so the map is WMO-only (ver ≥ 7 is not < 3)
      have hv := (h4 md rfl).2.2
      simp only [shouldWriteMwmo, Bool.or_eq_true, decide_eq_true_eq] at hs
      have hw : wmoOnly mphd = true := by cases hs with | inl h => exact h | inr h => omega
      simp [shouldWriteMwmo, hw]
    | none =>
      simp only [Option.isSome_none, Option.isSome_some, detect, Bool.false_eq_true, if_false]
      cases hw : wmoOnly mphd with
      | true => simp [shouldWriteMwmo, hw]
      | false =>
        simp only [shouldWriteMwmo, hw, Bool.false_or, decide_eq_true_eq] at hs
        simp only [Bool.not_false, Bool.not_true, Bool.and_false, Bool.true_and, Bool.false_eq_true, if_false, if_true,
          shouldWriteMwmo, Bool.false_or]
        have : (if flagsOf mphd / 2 % 2 = 1 ∨ flagsOf mphd / 4 % 2 = 1 ∨ flagsOf mphd / 8 % 2 = 1 then 2
            else if flagsOf mphd % 2 = 1 ∨ flagsOf mphd > 1 then 1 else 0) < 3 := by
          split <;> (try split) <;> omega
        simp [this, hs]

end Wv.Wdt
namespace Wv.Wdl
open Wv Wv.Iff


theorem serialize_append (a b : List Chunk) : serialize (a ++ b) = serialize a ++ serialize b := by
  simp [serialize]

theorem mare_lt : mareBytes < 2 ^ 32 ∧ mahoBytes < 2 ^ 32 := by decide

theorem tileChunks_wf (t : Tile) (h : TileOk t) : ∀ c ∈ tileChunks t, WF c := by
  intro c hc
  simp only [tileChunks, List.mem_cons] at hc
  cases hc with
  | inl hc => subst hc; exact ⟨rfl, by simp only; rw [h.1]; exact mare_lt.1⟩
  | inr hc =>
    cases hm : t.maho with
    | none => simp [hm] at hc
    | some hh => simp [hm] at hc; subst hc; exact ⟨rfl, by simp only; rw [h.2 hh hm]; exact mare_lt.2⟩

theorem tileChunks_length (t : Tile) (h : TileOk t) : (serialize (tileChunks t)).length = tileAdvance t := by
  rw [serialize_length _ (tileChunks_wf t h)]
  cases hm : t.maho with
  | none => simp [tileChunks, tileAdvance, hm, h.1]
  | some hh => simp [tileChunks, tileAdvance, hm, h.1, h.2 hh hm] <;> omega

theorem offsets_point (tiles : List Tile) (P : List Chunk) (ht : ∀ t ∈ tiles, TileOk t) :
    ∀ p ∈ offsets (serialize P).length tiles, ∃ t ∈ tiles, t.idx = p.1 ∧
      ∃ rest, (serialize (P ++ tiles.flatMap tileChunks)).drop p.2 = encode ⟨mMARE, t.mare⟩ ++ rest := by
  induction tiles generalizing P with
  | nil => intro p hp; simp [offsets] at hp
  | cons t ts ih =>
    intro p hp
    simp only [offsets, List.mem_cons] at hp
    cases hp with
    | inl hp =>
      subst hp
      refine ⟨t, by simp, rfl, serialize (tileChunks t).tail ++ serialize (ts.flatMap tileChunks), ?_⟩
      simp only [List.flatMap_cons, serialize_append, List.append_assoc]
      rw [List.drop_left' rfl]
      have : tileChunks t = ⟨mMARE, t.mare⟩ :: (tileChunks t).tail := rfl
      rw [this]
      simp [serialize, List.flatMap_cons]
    | inr hp =>
      have hlen : (serialize P).length + tileAdvance t = (serialize (P ++ tileChunks t)).length := by
        rw [serialize_append, List.length_append, tileChunks_length t (ht t (by simp))]
      rw [hlen] at hp
      obtain ⟨t', ht', hidx, rest, hr⟩ := ih (P ++ tileChunks t) (fun x hx => ht x (by simp [hx])) p hp
      refine ⟨t', by simp [ht'], hidx, rest, ?_⟩
      simpa [List.flatMap_cons, List.append_assoc] using hr

theorem maofPayload_length (offs : List (Nat × Nat)) : (maofPayload offs).length = 16384 := by
  unfold maofPayload
  have : ∀ (l : List Nat), (l.flatMap fun i => natLE 4 (((offs.find? (·.1 == i)).map (·.2)).getD 0)).length = 4 * l.length := by
    intro l
    induction l with
    | nil => rfl
    | cons a as ih => simp only [List.flatMap_cons, List.length_append, natLE_length, ih, List.length_cons]; omega
  rw [this]; simp

/-- every offset the writer records for a present tile is the file position of that tile's MARE chunk header -/
theorem wdl_maof_points_at_mare (hdr : List Chunk) (tiles : List Tile)
    (hh : ∀ c ∈ hdr, WF c) (ht : ∀ t ∈ tiles, TileOk t) :
    ∀ p ∈ offsets (firstOffset hdr) tiles, ∃ t ∈ tiles, t.idx = p.1 ∧
      ∃ rest, (Wdl.write hdr tiles).drop p.2 = encode ⟨mMARE, t.mare⟩ ++ rest := by
  generalize hM : maofPayload (offsets (firstOffset hdr) tiles) = M
  have hMl : M.length = 16384 := by rw [← hM]; exact maofPayload_length _
  have hP : (serialize (hdr ++ [⟨mMAOF, M⟩])).length = firstOffset hdr := by
    rw [serialize_append, List.length_append, serialize_length hdr hh]
    have e : (serialize [⟨mMAOF, M⟩]).length = 8 + 16384 := by
      rw [serialize_length _ (by intro c hc; simp at hc; subst hc; exact ⟨rfl, by simp only; omega⟩)]
      simp [hMl]
    rw [e]; unfold firstOffset hdrBytes; exact (Nat.add_assoc _ 8 16384).symm
  intro p hp
  rw [← hP] at hp
  have := offsets_point tiles _ ht p hp
  simpa [Wdl.write, fileChunks, List.append_assoc, hM] using this

end Wv.Wdl
