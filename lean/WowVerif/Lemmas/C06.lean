import WowVerif.Model.C06Mut
/-! Lemmas for C06: open addressing with deleted markers refines a finite map; layout arithmetic. -/
namespace Wv.Mut

/-- slot `i` holds key `(a, b)` -/
def KeyAt (tbl : List Slot) (i a b : Nat) : Prop := ∃ l k, tbl[i]? = some (Slot.used a b l k)

/-- a probe for `(a, b)` walks past slot `j`: a deleted marker or another key -/
def Skip (tbl : List Slot) (a b j : Nat) : Prop :=
  match tbl[j]? with
  | some (Slot.used a' b' _ _) => ¬(a' = a ∧ b' = b)
  | some .deleted => True
  | _ => False

theorem findGo_sound (tbl : List Slot) (a b : Nat) (seq : List Nat) (i : Nat)
    (h : findGo tbl a b seq = some i) : KeyAt tbl i a b := by
  induction seq with
  | nil => simp [findGo] at h
  | cons j rest ih =>
    unfold findGo at h
    split at h
    · rename_i a' b' l k hj
      split at h
      · rename_i hab
        cases h
        obtain ⟨rfl, rfl⟩ := hab
        exact ⟨l, k, hj⟩
      · exact ih h
    · exact ih h
    · cases h
    · cases h

theorem findGo_skip (tbl : List Slot) (a b : Nat) (pre rest : List Nat)
    (h : ∀ j ∈ pre, Skip tbl a b j) : findGo tbl a b (pre ++ rest) = findGo tbl a b rest := by
  induction pre with
  | nil => rfl
  | cons j pre ih =>
    have hj := h j (by simp)
    have ih' := ih (fun x hx => h x (by simp [hx]))
    simp only [List.cons_append]
    conv => lhs; unfold findGo
    unfold Skip at hj
    split at hj
    · rename_i a' b' l k hq
      rw [hq]; simp only
      rw [if_neg hj]; exact ih'
    · rename_i hq
      rw [hq]; exact ih'
    · exact absurd hj (by simp)

theorem findGo_hit (tbl : List Slot) (a b i : Nat) (post : List Nat) (h : KeyAt tbl i a b) :
    findGo tbl a b (i :: post) = some i := by
  obtain ⟨l, k, hk⟩ := h
  unfold findGo
  rw [hk]; simp

theorem findGo_absent (tbl : List Slot) (a b : Nat) (seq : List Nat) (h : ∀ i, ¬KeyAt tbl i a b) :
    findGo tbl a b seq = none := by
  cases hf : findGo tbl a b seq with
  | none => rfl
  | some i => exact absurd (findGo_sound tbl a b seq i hf) (h i)

/-- Probe-chain invariant: every stored key is reached from its home slot without meeting a never-used slot
    or an earlier copy of itself. -/
def Reach (home : Nat → Nat → Nat) (tbl : List Slot) : Prop :=
  ∀ i a b, KeyAt tbl i a b → ∃ pre post, probe tbl.length (home a b) = pre ++ i :: post ∧ ∀ j ∈ pre, Skip tbl a b j

theorem find_complete (home : Nat → Nat → Nat) (tbl : List Slot) (hr : Reach home tbl) (i a b : Nat)
    (h : KeyAt tbl i a b) : find tbl (home a b) a b = some i := by
  obtain ⟨pre, post, hp, hs⟩ := hr i a b h
  unfold find
  rw [hp, findGo_skip tbl a b pre (i :: post) hs]
  exact findGo_hit tbl a b i post h

theorem key_unique (home : Nat → Nat → Nat) (tbl : List Slot) (hr : Reach home tbl) (i j a b : Nat)
    (hi : KeyAt tbl i a b) (hj : KeyAt tbl j a b) : i = j := by
  have h1 := find_complete home tbl hr i a b hi
  have h2 := find_complete home tbl hr j a b hj
  rw [h1] at h2; exact Option.some.inj h2

theorem find_none_absent (home : Nat → Nat → Nat) (tbl : List Slot) (hr : Reach home tbl) (a b : Nat)
    (h : find tbl (home a b) a b = none) : ∀ i, ¬KeyAt tbl i a b := by
  intro i hk
  rw [find_complete home tbl hr i a b hk] at h; cases h

/-! ### lookups through `set` -/

theorem keyAt_set_ne (tbl : List Slot) (i j a b : Nat) (s : Slot) (h : i ≠ j) :
    KeyAt (tbl.set j s) i a b ↔ KeyAt tbl i a b := by
  unfold KeyAt
  rw [List.getElem?_set_ne (Ne.symm h)]

theorem skip_set_ne (tbl : List Slot) (x j a b : Nat) (s : Slot) (h : x ≠ j) :
    Skip (tbl.set j s) a b x ↔ Skip tbl a b x := by
  unfold Skip
  rw [List.getElem?_set_ne (Ne.symm h)]

/-! ### insertion of a fresh key -/

theorem insertGo_spec (tbl : List Slot) (s : Slot) (seq : List Nat) (tbl' : List Slot)
    (h : insertGo tbl s seq = some tbl') :
    ∃ pre j post, seq = pre ++ j :: post ∧ (∀ x ∈ pre, ∃ a b l k, tbl[x]? = some (Slot.used a b l k)) ∧
      (tbl[j]? = some .never ∨ tbl[j]? = some .deleted) ∧ tbl' = tbl.set j s := by
  induction seq with
  | nil => simp [insertGo] at h
  | cons i rest ih =>
    unfold insertGo at h
    split at h
    · rename_i a b l k hq
      obtain ⟨pre, j, post, hs, hp, hj, ht⟩ := ih h
      refine ⟨i :: pre, j, post, by simp [hs], ?_, hj, ht⟩
      intro x hx
      simp only [List.mem_cons] at hx
      cases hx with
      | inl hx => subst hx; exact ⟨a, b, l, k, hq⟩
      | inr hx => exact hp x hx
    · rename_i sl hnu hq
      cases h
      refine ⟨[], i, rest, rfl, by simp, ?_, rfl⟩
      cases sl with
      | never => exact Or.inl hq
      | deleted => exact Or.inr hq
      | used a b l k => exact absurd rfl (hnu a b l k)
    · cases h

theorem insert_fresh (home : Nat → Nat → Nat) (tbl tbl' : List Slot) (a b l k : Nat) (hr : Reach home tbl)
    (habs : ∀ i, ¬KeyAt tbl i a b) (h : insert tbl (home a b) (.used a b l k) = some tbl') :
    Reach home tbl' ∧ (∃ j, KeyAt tbl' j a b ∧ tbl'[j]? = some (Slot.used a b l k)) ∧
      (∀ i a' b', (a' ≠ a ∨ b' ≠ b) → (KeyAt tbl' i a' b' ↔ KeyAt tbl i a' b')) ∧
      (∀ (i a' b' l' k' : Nat), (a' ≠ a ∨ b' ≠ b) → (tbl'[i]? = some (Slot.used a' b' l' k') ↔ tbl[i]? = some (Slot.used a' b' l' k'))) := by
  obtain ⟨pre, j, post, hs, hp, hj, ht⟩ := insertGo_spec tbl _ _ tbl' h
  have hjlt : j < tbl.length := by
    cases hj with
    | inl hj => exact (List.getElem?_eq_some_iff.mp hj).1
    | inr hj => exact (List.getElem?_eq_some_iff.mp hj).1
  have hget : tbl'[j]? = some (Slot.used a b l k) := by rw [ht]; simp [hjlt]
  have hlen : tbl'.length = tbl.length := by rw [ht]; simp
  have hother : ∀ (i a' b' l' k' : Nat), (a' ≠ a ∨ b' ≠ b) → (tbl'[i]? = some (Slot.used a' b' l' k') ↔ tbl[i]? = some (Slot.used a' b' l' k')) := by
    intro i a' b' l' k' hne
    by_cases hij : i = j
    · subst hij
      rw [hget]
      constructor
      · intro he; cases he; cases hne <;> contradiction
      · intro he; cases hj with
        | inl hj => rw [hj] at he; cases he
        | inr hj => rw [hj] at he; cases he
    · rw [ht, List.getElem?_set_ne (Ne.symm hij)]
  have hkey : ∀ i a' b', (a' ≠ a ∨ b' ≠ b) → (KeyAt tbl' i a' b' ↔ KeyAt tbl i a' b') := by
    intro i a' b' hne
    unfold KeyAt
    constructor
    · rintro ⟨l', k', he⟩; exact ⟨l', k', (hother i a' b' l' k' hne).mp he⟩
    · rintro ⟨l', k', he⟩; exact ⟨l', k', (hother i a' b' l' k' hne).mpr he⟩
  refine ⟨?_, ⟨j, ⟨l, k, hget⟩, hget⟩, hkey, hother⟩
  intro i a' b' hk
  by_cases hab : a' = a ∧ b' = b
  · obtain ⟨rfl, rfl⟩ := hab
    -- the only slot holding (a, b) is j
    have hij : i = j := by
      by_cases hij : i = j
      · exact hij
      · exact absurd ((keyAt_set_ne tbl i j a' b' _ hij).mp (ht ▸ hk)) (habs i)
    subst hij
    refine ⟨pre, post, by rw [hlen]; exact hs, ?_⟩
    intro x hx
    obtain ⟨a2, b2, l2, k2, hx2⟩ := hp x hx
    have hxj : x ≠ i := by
      intro he; subst he
      cases hj with
      | inl hj => rw [hj] at hx2; cases hx2
      | inr hj => rw [hj] at hx2; cases hx2
    rw [ht, skip_set_ne tbl x i a' b' _ hxj]
    unfold Skip; rw [hx2]; simp only
    intro hab; obtain ⟨rfl, rfl⟩ := hab
    exact habs x ⟨l2, k2, hx2⟩
  · have hne : a' ≠ a ∨ b' ≠ b := by
      by_cases ha : a' = a
      · right; intro hb; exact hab ⟨ha, hb⟩
      · left; exact ha
    have hk0 : KeyAt tbl i a' b' := (hkey i a' b' hne).mp hk
    obtain ⟨pre', post', hp', hs'⟩ := hr i a' b' hk0
    refine ⟨pre', post', by rw [hlen]; exact hp', ?_⟩
    intro x hx
    by_cases hxj : x = j
    · subst hxj
      unfold Skip; rw [hget]; simp only
      intro he; obtain ⟨rfl, rfl⟩ := he
      exact hab ⟨rfl, rfl⟩
    · rw [ht, skip_set_ne tbl x j a' b' _ hxj]; exact hs' x hx

/-! ### deletion of a found key -/

theorem delete_found (home : Nat → Nat → Nat) (tbl : List Slot) (i a b : Nat) (hr : Reach home tbl)
    (hk : KeyAt tbl i a b) :
    Reach home (tbl.set i .deleted) ∧ (∀ j, ¬KeyAt (tbl.set i .deleted) j a b) ∧
      (∀ (j a' b' l' k' : Nat), (a' ≠ a ∨ b' ≠ b) → ((tbl.set i .deleted)[j]? = some (Slot.used a' b' l' k') ↔ tbl[j]? = some (Slot.used a' b' l' k'))) := by
  have hilt : i < tbl.length := by obtain ⟨l, k, h⟩ := hk; exact (List.getElem?_eq_some_iff.mp h).1
  have hget : (tbl.set i .deleted)[i]? = some .deleted := by simp [hilt]
  have hnot : ∀ j, ¬KeyAt (tbl.set i .deleted) j a b := by
    intro j hj
    by_cases hji : j = i
    · subst hji; obtain ⟨l, k, h⟩ := hj; rw [hget] at h; cases h
    · have := (keyAt_set_ne tbl j i a b _ hji).mp hj
      exact hji (key_unique home tbl hr j i a b this hk)
  refine ⟨?_, hnot, ?_⟩
  · intro j a' b' hj
    have hji : j ≠ i := by
      intro he; subst he; obtain ⟨l, k, h⟩ := hj; rw [hget] at h; cases h
    have hj0 := (keyAt_set_ne tbl j i a' b' _ hji).mp hj
    obtain ⟨pre, post, hp, hs⟩ := hr j a' b' hj0
    refine ⟨pre, post, by simpa using hp, ?_⟩
    intro x hx
    by_cases hxi : x = i
    · subst hxi; unfold Skip; rw [hget]; trivial
    · rw [skip_set_ne tbl x i a' b' _ hxi]; exact hs x hx
  · intro j a' b' l' k' hne
    by_cases hji : j = i
    · subst hji
      rw [hget]
      constructor
      · intro h; cases h
      · intro h
        obtain ⟨l, k, h0⟩ := hk
        rw [h0] at h; cases h; cases hne <;> contradiction
    · rw [List.getElem?_set_ne (Ne.symm hji)]

/-! ### probe order covers the table -/

theorem probe_mem (n start i : Nat) (hi : i < n) : i ∈ probe n start := by
  unfold probe
  rw [List.mem_map]
  have hn : 0 < n := by omega
  have hr : start % n < n := Nat.mod_lt _ hn
  by_cases hc : start % n ≤ i
  · refine ⟨i - start % n, by simp; omega, ?_⟩
    rw [Nat.add_mod, Nat.mod_eq_of_lt (show i - start % n < n by omega)]
    have : start % n + (i - start % n) = i := by omega
    rw [this, Nat.mod_eq_of_lt hi]
  · refine ⟨i + n - start % n, by simp; omega, ?_⟩
    rw [Nat.add_mod, Nat.mod_eq_of_lt (show i + n - start % n < n by omega)]
    have : start % n + (i + n - start % n) = i + n := by omega
    rw [this, Nat.add_mod_right, Nat.mod_eq_of_lt hi]

theorem probe_lt (n start j : Nat) (hn : 0 < n) (hj : j ∈ probe n start) : j < n := by
  unfold probe at hj
  rw [List.mem_map] at hj
  obtain ⟨k, _, rfl⟩ := hj
  exact Nat.mod_lt _ hn

theorem insertGo_none_full (tbl : List Slot) (s : Slot) (seq : List Nat) (hs : ∀ j ∈ seq, j < tbl.length)
    (h : insertGo tbl s seq = none) : ∀ j ∈ seq, ∃ a b l k, tbl[j]? = some (Slot.used a b l k) := by
  induction seq with
  | nil => intro j hj; cases hj
  | cons i rest ih =>
    unfold insertGo at h
    split at h
    · rename_i a b l k hq
      intro j hj
      simp only [List.mem_cons] at hj
      cases hj with
      | inl hj => subst hj; exact ⟨a, b, l, k, hq⟩
      | inr hj => exact ih (fun x hx => hs x (by simp [hx])) h j hj
    · cases h
    · rename_i hq
      have := hs i (by simp)
      rw [List.getElem?_eq_none_iff] at hq
      omega

/-- insertion fails exactly when no slot is free (so the implementation's probe loop, bounded by the table size, is complete) -/
theorem insert_none_full (tbl : List Slot) (home : Nat) (s : Slot) (h : insert tbl home s = none) :
    ∀ i, i < tbl.length → ∃ a b l k, tbl[i]? = some (Slot.used a b l k) := by
  intro i hi
  have hn : 0 < tbl.length := by omega
  exact insertGo_none_full tbl s (probe tbl.length home) (fun j hj => probe_lt _ _ j hn hj) h i (probe_mem _ home i hi)

/-! ### layout arithmetic -/

theorem align512_ge (n : Nat) : n ≤ align512 n := by
  unfold align512; omega

theorem maxEnd_foldl_ge (bs : List Blk) (m : Nat) : m ≤ bs.foldl (fun m b => max m (blkEnd b)) m := by
  induction bs generalizing m with
  | nil => exact Nat.le_refl _
  | cons b bs ih => simp only [List.foldl_cons]; exact Nat.le_trans (Nat.le_max_left _ _) (ih _)

theorem maxEnd_foldl_mem (bs : List Blk) (m : Nat) (b : Blk) (hb : b ∈ bs) :
    blkEnd b ≤ bs.foldl (fun m b => max m (blkEnd b)) m := by
  induction bs generalizing m with
  | nil => cases hb
  | cons c bs ih =>
    simp only [List.foldl_cons]
    simp only [List.mem_cons] at hb
    cases hb with
    | inl hb => subst hb; exact Nat.le_trans (Nat.le_max_right _ _) (maxEnd_foldl_ge bs _)
    | inr hb => exact ih _ hb

theorem maxEnd_ge (bs : List Blk) (b : Blk) (hb : b ∈ bs) : blkEnd b ≤ maxEnd bs := maxEnd_foldl_mem bs 0 b hb

end Wv.Mut
