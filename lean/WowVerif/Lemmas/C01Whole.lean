/- C01, whole archive, part 5: header, tables, and the composition  read (write files) name = data -/
import WowVerif.Lemmas.C01Comp
set_option linter.unusedSimpArgs false
namespace Wv.Mpq
open Wv

/-! ### header fields -/

theorem hdr_fields (m : Bytes) (hm : m.length = 4) (a b v s d e f g : Nat) (rest : Bytes)
    (ha : a < 2 ^ 32) (hb : b < 2 ^ 32) (hv : v < 2 ^ 16) (hs : s < 2 ^ 16) (hd : d < 2 ^ 32) (he : e < 2 ^ 32)
    (hf : f < 2 ^ 32) (hg : g < 2 ^ 32) :
    let bs := m ++ (natLE 4 a ++ (natLE 4 b ++ (natLE 2 v ++ (natLE 2 s ++ (natLE 4 d ++ (natLE 4 e ++ (natLE 4 f ++ (natLE 4 g ++ rest))))))))
    u32At bs 4 = a ∧ u32At bs 8 = b ∧ u16At bs 12 = v ∧ u16At bs 14 = s ∧ u32At bs 16 = d ∧ u32At bs 20 = e ∧
    u32At bs 24 = f ∧ u32At bs 28 = g := by
  intro bs
  have l4 : ∀ x, (natLE 4 x).length = 4 := natLE_length 4
  have l2 : ∀ x, (natLE 2 x).length = 2 := natLE_length 2
  refine ⟨?_, ?_, ?_, ?_, ?_, ?_, ?_, ?_⟩
  · show u32At (m ++ _) 4 = a
    rw [u32At_skip _ _ _ (by omega), hm]; exact u32At_here a _ ha
  · show u32At (m ++ _) 8 = b
    rw [u32At_skip _ _ _ (by omega), hm, u32At_skip _ _ _ (by rw [l4]; omega), l4]; exact u32At_here b _ hb
  · show u16At (m ++ _) 12 = v
    rw [u16At_skip _ _ _ (by omega), hm, u16At_skip _ _ _ (by rw [l4]; omega), l4,
      u16At_skip _ _ _ (by rw [l4]; omega), l4]; exact u16At_here v _ hv
  · show u16At (m ++ _) 14 = s
    rw [u16At_skip _ _ _ (by omega), hm, u16At_skip _ _ _ (by rw [l4]; omega), l4,
      u16At_skip _ _ _ (by rw [l4]; omega), l4, u16At_skip _ _ _ (by rw [l2]; omega), l2]; exact u16At_here s _ hs
  · show u32At (m ++ _) 16 = d
    rw [u32At_skip _ _ _ (by omega), hm, u32At_skip _ _ _ (by rw [l4]; omega), l4,
      u32At_skip _ _ _ (by rw [l4]; omega), l4, u32At_skip _ _ _ (by rw [l2]; omega), l2,
      u32At_skip _ _ _ (by rw [l2]; omega), l2]; exact u32At_here d _ hd
  · show u32At (m ++ _) 20 = e
    rw [u32At_skip _ _ _ (by omega), hm, u32At_skip _ _ _ (by rw [l4]; omega), l4,
      u32At_skip _ _ _ (by rw [l4]; omega), l4, u32At_skip _ _ _ (by rw [l2]; omega), l2,
      u32At_skip _ _ _ (by rw [l2]; omega), l2, u32At_skip _ _ _ (by rw [l4]; omega), l4]; exact u32At_here e _ he
  · show u32At (m ++ _) 24 = f
    rw [u32At_skip _ _ _ (by omega), hm, u32At_skip _ _ _ (by rw [l4]; omega), l4,
      u32At_skip _ _ _ (by rw [l4]; omega), l4, u32At_skip _ _ _ (by rw [l2]; omega), l2,
      u32At_skip _ _ _ (by rw [l2]; omega), l2, u32At_skip _ _ _ (by rw [l4]; omega), l4,
      u32At_skip _ _ _ (by rw [l4]; omega), l4]; exact u32At_here f _ hf
  · show u32At (m ++ _) 28 = g
    rw [u32At_skip _ _ _ (by omega), hm, u32At_skip _ _ _ (by rw [l4]; omega), l4,
      u32At_skip _ _ _ (by rw [l4]; omega), l4, u32At_skip _ _ _ (by rw [l2]; omega), l2,
      u32At_skip _ _ _ (by rw [l2]; omega), l2, u32At_skip _ _ _ (by rw [l4]; omega), l4,
      u32At_skip _ _ _ (by rw [l4]; omega), l4, u32At_skip _ _ _ (by rw [l4]; omega), l4]; exact u32At_here g _ hg

/-! ### where the writer places the file bodies -/

theorem place_length (c : Conv) (ssz : Nat) (files : List FileSpec) (pos : Nat) :
    (writeArchiveCore.place c ssz files pos).length = files.length := by
  induction files generalizing pos with
  | nil => simp [writeArchiveCore.place]
  | cons f fs ih => simp [writeArchiveCore.place, ih]

theorem place_sum (c : Conv) (ssz : Nat) (files : List FileSpec) (pos : Nat) :
    ((writeArchiveCore.place c ssz files pos).map (·.1.length)).sum =
      ((writeArchiveCore.place c ssz files pos).flatMap (·.1)).length := by
  induction files generalizing pos with
  | nil => simp [writeArchiveCore.place]
  | cons f fs ih =>
    simp only [writeArchiveCore.place, List.map_cons, List.sum_cons, List.flatMap_cons, List.length_append, ih]

/-- the i-th placed entry is the i-th file laid out at its own position, and its body sits in the body area at that
    position -/
theorem place_get (c : Conv) (ssz : Nat) (files : List FileSpec) (pos i : Nat) (hi : i < files.length) :
    ∃ posi pre post,
      (writeArchiveCore.place c ssz files pos)[i]? =
        some ((layoutFile c ssz files[i] posi).1, posi, (layoutFile c ssz files[i] posi).1.length,
              files[i].data.length, (layoutFile c ssz files[i] posi).2) ∧
      (writeArchiveCore.place c ssz files pos).flatMap (·.1) = pre ++ ((layoutFile c ssz files[i] posi).1 ++ post) ∧
      pos + pre.length = posi := by
  induction files generalizing pos i with
  | nil => simp at hi
  | cons f fs ih =>
    cases i with
    | zero =>
      refine ⟨pos, [], (writeArchiveCore.place c ssz fs (pos + (layoutFile c ssz f pos).1.length)).flatMap (·.1), ?_, ?_, by simp⟩
      · simp [writeArchiveCore.place]
      · simp [writeArchiveCore.place]
    | succ i =>
      obtain ⟨posi, pre, post, h1, h2, h3⟩ := ih (pos + (layoutFile c ssz f pos).1.length) i (by simpa using hi)
      refine ⟨posi, (layoutFile c ssz f pos).1 ++ pre, post, ?_, ?_, ?_⟩
      · simpa [writeArchiveCore.place] using h1
      · simp only [writeArchiveCore.place, List.flatMap_cons, h2, List.append_assoc]
        simp
      · simp only [List.length_append]; omega

/-! ### tables -/

theorem group_flatMap (rows : List (List Nat)) (hwf : ∀ r ∈ rows, r.length = 4) :
    readTable.group rows.length (rows.flatMap id) = rows := by
  induction rows with
  | nil => simp [readTable.group]
  | cons r rs ih =>
    have hr := hwf r (by simp)
    match r, hr with
    | [a, b, c, d], _ =>
      simp only [List.length_cons, List.flatMap_cons, id, List.cons_append, List.nil_append, readTable.group]
      rw [ih (fun x hx => hwf x (by simp [hx]))]

theorem encodeTable_length (rows : List (List Nat)) (key : W32) (hwf : ∀ r ∈ rows, r.length = 4) :
    (encodeTable rows key).length = rows.length * 16 := by
  unfold encodeTable
  rw [Lemmas04.ofWords_length, Lemmas04.encryptBlock_length]
  have : (rows.flatMap fun r => r.map (BitVec.ofNat 32)).length = 4 * rows.length := by
    induction rows with
    | nil => rfl
    | cons r rs ih =>
      simp only [List.flatMap_cons, List.length_append, List.length_map, List.length_cons]
      rw [ih (fun x hx => hwf x (by simp [hx])), hwf r (by simp)]; omega
  omega

theorem toNat_ofNat_rows (rows : List (List Nat)) (hlt : ∀ r ∈ rows, ∀ x ∈ r, x < 2 ^ 32) :
    (rows.flatMap fun r => r.map (BitVec.ofNat 32)).map (·.toNat) = rows.flatMap id := by
  induction rows with
  | nil => rfl
  | cons r rs ih =>
    simp only [List.flatMap_cons, List.map_append, List.map_map, id]
    rw [ih (fun x hx => hlt x (by simp [hx]))]
    congr 1
    have hr := hlt r (by simp)
    clear ih hlt
    induction r with
    | nil => rfl
    | cons x xs ihx =>
      simp only [List.map_cons, Function.comp]
      rw [ihx (fun y hy => hr y (by simp [hy]))]
      congr 1
      simp only [BitVec.toNat_ofNat]
      exact Nat.mod_eq_of_lt (hr x (by simp))

/-- the reader gets back the rows the writer encoded, when they sit at `pos` in the archive -/
theorem readTable_encodeTable (arch pre post : Bytes) (rows : List (List Nat)) (key : W32) (pos : Nat)
    (hwf : ∀ r ∈ rows, r.length = 4) (hlt : ∀ r ∈ rows, ∀ x ∈ r, x < 2 ^ 32)
    (harch : arch = pre ++ (encodeTable rows key ++ post)) (hpos : pre.length = pos) :
    readTable arch pos rows.length key = some rows := by
  unfold readTable
  rw [harch, slice_mid pre _ post pos (rows.length * 16) hpos (encodeTable_length rows key hwf)]
  simp only
  rw [encodeTable_decode]
  rw [toNat_ofNat_rows rows hlt, group_flatMap rows hwf]

/-! ### one file, whatever its layout -/

structure FileOK (c : Conv) (codec : Codec) (ssz : Nat) (f : FileSpec) : Prop where
  enc : f.enc ≤ 2
  single : f.data.length ≤ ssz → UnitOK c codec (f.units.headD f.data) f.data
  multi : ¬ f.data.length ≤ ssz → anyCompOf ssz f = true →
    f.units.length = (sectorsOf ssz (f.data.length + 1) f.data).length ∧
    ∀ j (h1 : j < f.units.length) (h2 : j < (sectorsOf ssz (f.data.length + 1) f.data).length),
      UnitOK c codec f.units[j] (sectorsOf ssz (f.data.length + 1) f.data)[j]

theorem readEntry_file (c : Conv) (codec : Codec) (fetch : Nat → Nat → Option Bytes) (ssz : Nat) (hs : 0 < ssz)
    (f : FileSpec) (pos : Nat) (hok : FileOK c codec ssz f) (hsz : (layoutFile c ssz f pos).1.length < 2 ^ 32)
    (hfetch : FetchesBody fetch pos (layoutFile c ssz f pos).1) :
    readEntry c codec fetch ssz f.name pos (layoutFile c ssz f pos).1.length f.data.length (layoutFile c ssz f pos).2
      = .ok f.data := by
  by_cases hsmall : f.data.length ≤ ssz
  · exact readEntry_single c codec fetch ssz f pos hok.enc hsmall (hok.single hsmall) hfetch
  · cases hac : anyCompOf ssz f with
    | false => exact readEntry_plain c codec fetch ssz hs f pos hok.enc hsmall hac hfetch
    | true =>
      obtain ⟨h1, h2⟩ := hok.multi hsmall hac
      exact readEntry_comp c codec fetch ssz hs f pos hok.enc hsmall hac h1 h2 hsz hfetch

/-! ### the header the writer emits, as the reader parses it -/

theorem parseHeader_written (a b v s d e f g : Nat) (rest : Bytes)
    (ha : a < 2 ^ 32) (hb : b < 2 ^ 32) (hs : s < 2 ^ 16) (hd : d < 2 ^ 32) (he : e < 2 ^ 32)
    (hf : f < 2 ^ 32) (hg : g < 2 ^ 32)
    (hv : v = 0 ∨ (v = 1 ∧ ∃ rest', rest = natLE 8 0 ++ (natLE 2 0 ++ (natLE 2 0 ++ rest')))) :
    parseHeader ([0x4D, 0x50, 0x51, 0x1A] ++ (natLE 4 a ++ (natLE 4 b ++ (natLE 2 v ++ (natLE 2 s ++ (natLE 4 d ++
        (natLE 4 e ++ (natLE 4 f ++ (natLE 4 g ++ rest))))))))) =
      some (⟨a, b, v, s, d, e, f, g⟩ : Header) := by
  have hv16 : v < 2 ^ 16 := by rcases hv with h | ⟨h, _⟩ <;> omega
  obtain ⟨h4, h8, h12, h14, h16, h20, h24, h28⟩ :=
    hdr_fields [0x4D, 0x50, 0x51, 0x1A] rfl a b v s d e f g rest ha hb hv16 hs hd he hf hg
  generalize hbs : ([0x4D, 0x50, 0x51, 0x1A] : Bytes) ++ (natLE 4 a ++ (natLE 4 b ++ (natLE 2 v ++ (natLE 2 s ++ (natLE 4 d ++
        (natLE 4 e ++ (natLE 4 f ++ (natLE 4 g ++ rest)))))))) = bs at *
  have hlen : bs.length = 32 + rest.length := by
    rw [← hbs]; simp only [List.length_append, natLE_length, List.length_cons, List.length_nil]; omega
  have htake : bs.take 4 = [0x4D, 0x50, 0x51, 0x1A] := by rw [← hbs]; rfl
  unfold parseHeader
  rw [if_neg (by omega), if_neg (by rw [htake]; simp)]
  simp only [h4, h8, h12, h14, h16, h20, h24, h28]
  have hhi : ∀ o, o = 40 ∨ o = 42 → (if v ≥ 1 ∧ bs.length ≥ 44 then u16At bs o * 4294967296 else 0) = 0 := by
    intro o ho
    rcases hv with h | ⟨h, rest', hr⟩
    · rw [if_neg (by omega)]
    · have l4 : ∀ x, (natLE 4 x).length = 4 := natLE_length 4
      have l2 : ∀ x, (natLE 2 x).length = 2 := natLE_length 2
      have key : u16At bs 40 = 0 ∧ u16At bs 42 = 0 := by
        rw [← hbs, hr]
        constructor
        · rw [u16At_skip _ _ _ (by simp), u16At_skip _ _ _ (by rw [l4]; simp), l4, u16At_skip _ _ _ (by rw [l4]; simp), l4,
            u16At_skip _ _ _ (by rw [l2]; simp), l2, u16At_skip _ _ _ (by rw [l2]; simp), l2,
            u16At_skip _ _ _ (by rw [l4]; simp), l4, u16At_skip _ _ _ (by rw [l4]; simp), l4,
            u16At_skip _ _ _ (by rw [l4]; simp), l4, u16At_skip _ _ _ (by rw [l4]; simp), l4,
            u16At_skip _ _ _ (by rw [natLE_length]; simp), natLE_length]
          exact u16At_here 0 _ (by decide)
        · rw [u16At_skip _ _ _ (by simp), u16At_skip _ _ _ (by rw [l4]; simp), l4, u16At_skip _ _ _ (by rw [l4]; simp), l4,
            u16At_skip _ _ _ (by rw [l2]; simp), l2, u16At_skip _ _ _ (by rw [l2]; simp), l2,
            u16At_skip _ _ _ (by rw [l4]; simp), l4, u16At_skip _ _ _ (by rw [l4]; simp), l4,
            u16At_skip _ _ _ (by rw [l4]; simp), l4, u16At_skip _ _ _ (by rw [l4]; simp), l4,
            u16At_skip _ _ _ (by rw [natLE_length]; simp), natLE_length, u16At_skip _ _ _ (by rw [l2]; simp), l2]
          exact u16At_here 0 _ (by decide)
      rcases ho with rfl | rfl
      · rw [key.1]; split <;> rfl
      · rw [key.2]; split <;> rfl
  rw [hhi 40 (Or.inl rfl), hhi 42 (Or.inr rfl)]
  simp

theorem FetchesBody_of_append (arch A body B : Bytes) (pos : Nat) (harch : arch = A ++ (body ++ B)) (hA : A.length = pos) :
    FetchesBody (slice arch) pos body := by
  intro off n hle
  subst harch; subst hA
  unfold slice
  rw [if_pos (by simp only [List.length_append]; omega)]
  congr 1
  rw [List.drop_append, List.drop_eq_nil_of_le (by omega), List.nil_append,
    show A.length + off - A.length = off by omega, List.drop_append_of_le_length (by omega),
    List.take_append_of_le_length (by simp only [List.length_drop]; omega)]

/-- header + tables + lookup: reading a name comes down to decoding the entry its block index selects -/
theorem readFile_of_shape (c : Conv) (codec : Codec) (arch hdrB BODY : Bytes) (ht bt : List (List Nat))
    (hsz asz version shift : Nat) (name : Bytes) (i pos cs fs fl : Nat)
    (harch : arch = hdrB ++ (BODY ++ (encodeTable ht tableKeyHash ++ encodeTable bt tableKeyBlock)))
    (hhdr : parseHeader arch = some (⟨hsz, asz, version, shift, hdrB.length + BODY.length,
        hdrB.length + BODY.length + (encodeTable ht tableKeyHash).length, ht.length, bt.length⟩ : Header))
    (hwf1 : ∀ r ∈ ht, r.length = 4) (hlt1 : ∀ r ∈ ht, ∀ x ∈ r, x < 2 ^ 32)
    (hwf2 : ∀ r ∈ bt, r.length = 4) (hlt2 : ∀ r ∈ bt, ∀ x ∈ r, x < 2 ^ 32)
    (hfind : findBlock ht name = some i) (hbt : bt[i]? = some [pos, cs, fs, fl]) :
    readFile c codec arch name = readEntry c codec (slice arch) (512 * 2 ^ shift) name pos cs fs fl := by
  have h1 : readTable arch (hdrB.length + BODY.length) ht.length tableKeyHash = some ht :=
    readTable_encodeTable arch (hdrB ++ BODY) (encodeTable bt tableKeyBlock) ht tableKeyHash _ hwf1 hlt1
      (by rw [harch]; simp only [List.append_assoc]) (by simp)
  have h2 : readTable arch (hdrB.length + BODY.length + (encodeTable ht tableKeyHash).length) bt.length tableKeyBlock = some bt :=
    readTable_encodeTable arch (hdrB ++ (BODY ++ encodeTable ht tableKeyHash)) [] bt tableKeyBlock _ hwf2 hlt2
      (by rw [harch]; simp only [List.append_assoc, List.append_nil]) (by simp only [List.length_append]; omega)
  unfold readFile
  simp only [hhdr, h1, h2, hfind, hbt, sectorSize]

theorem layoutFile_single (c : Conv) (ssz : Nat) (f : FileSpec) (pos : Nat) (hsmall : f.data.length ≤ ssz) :
    layoutFile c ssz f pos =
      (if f.enc ≥ 1 then encBytes c (f.units.headD f.data) (writerKey c f pos) else f.units.headD f.data,
       FLAG_EXISTS + FLAG_SINGLE_UNIT + encFlagsOf f.enc +
         (if (f.units.headD f.data).length < f.data.length then FLAG_COMPRESS else 0)) := by
  unfold layoutFile
  rw [if_pos hsmall]
  rfl

theorem encFlagsOf_le (e : Nat) : encFlagsOf e ≤ 0x30000 := by
  unfold encFlagsOf FLAG_ENCRYPTED FLAG_FIX_KEY
  split <;> split <;> omega

theorem layoutFile_flags_lt (c : Conv) (ssz : Nat) (f : FileSpec) (pos : Nat) : (layoutFile c ssz f pos).2 < 2 ^ 32 := by
  have he := encFlagsOf_le f.enc
  by_cases hsmall : f.data.length ≤ ssz
  · rw [layoutFile_single c ssz f pos hsmall]
    simp only [FLAG_EXISTS, FLAG_SINGLE_UNIT, FLAG_COMPRESS]
    split <;> omega
  · cases hac : anyCompOf ssz f with
    | false => rw [layoutFile_plain c ssz f pos hsmall hac]; simp only [FLAG_EXISTS]; omega
    | true => rw [layoutFile_comp c ssz f pos hsmall hac]; simp only [FLAG_EXISTS, FLAG_COMPRESS]; omega

/-- every block-table row the writer emits: position, stored size, file size, flags of the i-th file -/
theorem place_rows (c : Conv) (ssz : Nat) (files : List FileSpec) (pos : Nat) :
    ∀ e ∈ writeArchiveCore.place c ssz files pos,
      pos ≤ e.2.1 ∧ e.2.1 + e.2.2.1 ≤ pos + ((writeArchiveCore.place c ssz files pos).flatMap (·.1)).length ∧
      (∃ f ∈ files, e.2.2.2.1 = f.data.length) ∧ e.2.2.2.2 < 2 ^ 32 := by
  induction files generalizing pos with
  | nil => simp [writeArchiveCore.place]
  | cons f fs ih =>
    intro e he
    simp only [writeArchiveCore.place, List.mem_cons] at he
    rcases he with rfl | he
    · refine ⟨Nat.le_refl _, ?_, ⟨f, by simp, rfl⟩, layoutFile_flags_lt c ssz f pos⟩
      simp only [writeArchiveCore.place, List.flatMap_cons, List.length_append]; omega
    · obtain ⟨h1, h2, ⟨g, hg, h3⟩, h4⟩ := ih (pos + (layoutFile c ssz f pos).1.length) e he
      refine ⟨by omega, ?_, ⟨g, by simp [hg], h3⟩, h4⟩
      simp only [writeArchiveCore.place, List.flatMap_cons, List.length_append]; omega

/-- what the writer's output looks like to the reader: a header that parses to the right table positions, the file
    bodies, and the two encoded tables; the hash table satisfies the insertion invariant -/
theorem archive_decompose (c : Conv) (version shift hashSize : Nat) (files : List FileSpec)
    (hv : version ≤ 1) (hshift : shift < 2 ^ 16)
    (hd : DistinctPairs (files.map (·.name))) (hle : files.length ≤ hashSize) (hhs : hashSize < 0xFFFFFFFE)
    (hok : ∀ f ∈ files, f.data.length < 2 ^ 32)
    (hsize : (writeArchive c version shift hashSize files).length < 2 ^ 32) :
    ∃ (ht bt : List (List Nat)) (hdrB BODY : Bytes) (hdr asz : Nat),
      HtInv (files.map (·.name)) hashSize ht files.length ∧
      writeArchive c version shift hashSize files =
        hdrB ++ (BODY ++ (encodeTable ht tableKeyHash ++ encodeTable bt tableKeyBlock)) ∧
      hdrB.length = hdr ∧
      parseHeader (writeArchive c version shift hashSize files) =
        some (⟨hdr, asz, version, shift, hdrB.length + BODY.length,
          hdrB.length + BODY.length + (encodeTable ht tableKeyHash).length, ht.length, bt.length⟩ : Header) ∧
      (∀ r ∈ ht, r.length = 4) ∧ (∀ r ∈ ht, ∀ x ∈ r, x < 2 ^ 32) ∧
      (∀ r ∈ bt, r.length = 4) ∧ (∀ r ∈ bt, ∀ x ∈ r, x < 2 ^ 32) ∧
      BODY = (writeArchiveCore.place c (512 * 2 ^ shift) files hdr).flatMap (·.1) ∧
      bt = (writeArchiveCore.place c (512 * 2 ^ shift) files hdr).map (fun x => [x.2.1, x.2.2.1, x.2.2.2.1, x.2.2.2.2]) := by
  have hinv := buildHash_inv files hashSize (fun t x => insertHash t x.1.name x.2) (fun _ _ _ => rfl) hd hle (by omega)
  revert hsize
  unfold writeArchive writeArchiveCore
  simp only [List.append_assoc]
  generalize hhdr : (if version = 0 then 32 else 44) = hdr
  generalize hssz' : 512 * 2 ^ shift = ssz at *
  generalize hht : List.foldl (fun t (x : FileSpec × Nat) => insertHash t x.1.name x.2) (List.replicate hashSize emptyHash) files.zipIdx = ht at *
  rw [place_sum]
  have hrows := place_rows c ssz files hdr
  generalize hpl : writeArchiveCore.place c ssz files hdr = placed at *
  generalize hbody : placed.flatMap (fun x => x.1) = BODY at *
  generalize hbt : placed.map (fun x => [x.2.1, x.2.2.1, x.2.2.2.1, x.2.2.2.2]) = bt
  generalize hext : (if version = 0 then ([] : Bytes) else natLE 8 0 ++ (natLE 2 0 ++ natLE 2 0)) = ext
  intro hsize
  have hextlen : 32 + ext.length = hdr := by
    rw [← hext, ← hhdr]; split
    · rfl
    · simp [natLE_length]
  have hwf1 : ∀ r ∈ ht, r.length = 4 := by
    intro r hr
    obtain ⟨k, hk, rfl⟩ := List.getElem_of_mem hr
    rcases hinv.slots k hk with h | ⟨j, _, _, h⟩ <;> rw [h] <;> rfl
  have hlt1 : ∀ r ∈ ht, ∀ x ∈ r, x < 2 ^ 32 := by
    intro r hr x hx
    obtain ⟨k, hk, rfl⟩ := List.getElem_of_mem hr
    rcases hinv.slots k hk with h | ⟨j, hj, hj', h⟩
    · rw [h] at hx; simp [emptyHash] at hx; omega
    · rw [h] at hx
      simp only [List.mem_cons, List.not_mem_nil, or_false] at hx
      rcases hx with rfl | rfl | rfl | rfl
      · exact (hashS 0x100 _).isLt
      · exact (hashS 0x200 _).isLt
      · decide
      · omega
  have hwf2 : ∀ r ∈ bt, r.length = 4 := by
    intro r hr; rw [← hbt] at hr; simp only [List.mem_map] at hr
    obtain ⟨e, _, rfl⟩ := hr; rfl
  have hhdrlt : hdr + BODY.length < 2 ^ 32 := by
    simp only [List.length_append, natLE_length, List.length_cons, List.length_nil] at hsize; omega
  have hlt2 : ∀ r ∈ bt, ∀ x ∈ r, x < 2 ^ 32 := by
    intro r hr x hx; rw [← hbt] at hr; simp only [List.mem_map] at hr
    obtain ⟨e, he, rfl⟩ := hr
    obtain ⟨h1, h2, ⟨g, hg, h3⟩, h4⟩ := hrows e he
    simp only [List.mem_cons, List.not_mem_nil, or_false] at hx
    rcases hx with rfl | rfl | rfl | rfl
    · omega
    · omega
    · rw [h3]; exact hok g hg
    · exact h4
  have hparse := parseHeader_written hdr
    (hdr + BODY.length + (encodeTable ht tableKeyHash).length + (encodeTable bt tableKeyBlock).length)
    version shift (hdr + BODY.length) (hdr + BODY.length + (encodeTable ht tableKeyHash).length) hashSize files.length
    (ext ++ (BODY ++ (encodeTable ht tableKeyHash ++ encodeTable bt tableKeyBlock)))
    (by omega)
    (by simp only [List.length_append, natLE_length, List.length_cons, List.length_nil] at hsize; omega)
    hshift hhdrlt
    (by simp only [List.length_append, natLE_length, List.length_cons, List.length_nil] at hsize; omega)
    (by omega) (by omega)
    (by
      by_cases h0 : version = 0
      · exact Or.inl h0
      · refine Or.inr ⟨by omega, BODY ++ (encodeTable ht tableKeyHash ++ encodeTable bt tableKeyBlock), ?_⟩
        rw [← hext, if_neg h0]; simp only [List.append_assoc])
  refine ⟨ht, bt, [0x4D, 0x50, 0x51, 0x1A] ++ (natLE 4 hdr ++ (natLE 4
      (hdr + BODY.length + (encodeTable ht tableKeyHash).length + (encodeTable bt tableKeyBlock).length) ++
      (natLE 2 version ++ (natLE 2 shift ++ (natLE 4 (hdr + BODY.length) ++
      (natLE 4 (hdr + BODY.length + (encodeTable ht tableKeyHash).length) ++ (natLE 4 hashSize ++ (natLE 4 files.length ++ ext)))))))),
    BODY, hdr, hdr + BODY.length + (encodeTable ht tableKeyHash).length + (encodeTable bt tableKeyBlock).length,
    hinv, by simp only [List.append_assoc], ?_, ?_, hwf1, hlt1, hwf2, hlt2,
    by rw [hpl]; exact hbody.symm, by rw [hpl]; exact hbt.symm⟩
  · simp only [List.length_append, natLE_length, List.length_cons, List.length_nil]; omega
  · rw [hparse]
    have hl : ([0x4D, 0x50, 0x51, 0x1A] ++ (natLE 4 hdr ++ (natLE 4
      (hdr + BODY.length + (encodeTable ht tableKeyHash).length + (encodeTable bt tableKeyBlock).length) ++
      (natLE 2 version ++ (natLE 2 shift ++ (natLE 4 (hdr + BODY.length) ++
      (natLE 4 (hdr + BODY.length + (encodeTable ht tableKeyHash).length) ++ (natLE 4 hashSize ++ (natLE 4 files.length ++ ext)))))))) : Bytes).length = hdr := by
      simp only [List.length_append, natLE_length, List.length_cons, List.length_nil]; omega
    rw [hl, hinv.len, ← hbt, List.length_map, ← hpl, place_length]

/-- WHOLE-ARCHIVE ROUND TRIP: every file the writer was given reads back bit-identically from the archive it wrote -/
theorem archive_roundtrip (c : Conv) (codec : Codec) (version shift hashSize : Nat) (files : List FileSpec)
    (hv : version ≤ 1) (hshift : shift < 2 ^ 16)
    (hd : DistinctPairs (files.map (·.name))) (hle : files.length ≤ hashSize) (hhs : hashSize < 0xFFFFFFFE)
    (hok : ∀ f ∈ files, FileOK c codec (512 * 2 ^ shift) f ∧ f.data.length < 2 ^ 32)
    (hsize : (writeArchive c version shift hashSize files).length < 2 ^ 32)
    (i : Nat) (hi : i < files.length) :
    readFile c codec (writeArchive c version shift hashSize files) files[i].name = .ok files[i].data := by
  obtain ⟨ht, bt, hdrB, BODY, hdr, asz, hinv, harch, hhBlen, hparse, hwf1, hlt1, hwf2, hlt2, hBODY, hbt⟩ :=
    archive_decompose c version shift hashSize files hv hshift hd hle hhs (fun f hf => (hok f hf).2) hsize
  have hssz : 0 < 512 * 2 ^ shift := Nat.mul_pos (by decide) (Nat.two_pow_pos _)
  generalize writeArchive c version shift hashSize files = arch at *
  obtain ⟨posi, pre, post, hget, hsplit, hposi⟩ := place_get c (512 * 2 ^ shift) files hdr i hi
  rw [← hBODY] at hsplit
  generalize hlay : layoutFile c (512 * 2 ^ shift) files[i] posi = lay at *
  have hbti : bt[i]? = some [posi, lay.1.length, files[i].data.length, lay.2] := by
    rw [hbt, List.getElem?_map, hget]; rfl
  have hfind : findBlock ht files[i].name = some i := by
    have := hinv.found i (by simpa using hi) hi
    simpa using this
  rw [readFile_of_shape c codec arch hdrB BODY ht bt hdr asz version shift files[i].name i posi lay.1.length
    files[i].data.length lay.2 harch hparse hwf1 hlt1 hwf2 hlt2 hfind hbti]
  have hfetch : FetchesBody (slice arch) posi lay.1 :=
    FetchesBody_of_append arch (hdrB ++ pre) lay.1 (post ++ (encodeTable ht tableKeyHash ++ encodeTable bt tableKeyBlock)) posi
      (by rw [harch, hsplit]; simp only [List.append_assoc]) (by rw [List.length_append, hhBlen]; exact hposi)
  have hlaylt : lay.1.length < 2 ^ 32 := by
    have h1 := congrArg List.length hsplit
    have h2 := congrArg List.length harch
    simp only [List.length_append] at h1 h2; omega
  have := readEntry_file c codec (slice arch) (512 * 2 ^ shift) hssz files[i] posi (hok files[i] (List.getElem_mem hi)).1
    (by rw [hlay]; exact hlaylt) (by rw [hlay]; exact hfetch)
  rw [hlay] at this
  exact this

/-! ### a name that was never added -/

theorem findIn_some_pair (ht : List (List Nat)) (a b blk : Nat) (seq : List Nat) (h : findIn ht a b seq = some blk) :
    ∃ i ∈ seq, ∃ l, ht[i]? = some [a, b, l, blk] ∧ blk ≠ 0xFFFFFFFF := by
  induction seq with
  | nil => simp [findIn] at h
  | cons i rest ih =>
    simp only [findIn] at h
    generalize hr : ht[i]? = r at h
    split at h
    · split at h
      · exact absurd h (by simp)
      · rename_i hne
        split at h
        · rename_i hm
          obtain ⟨_, rfl, rfl⟩ := hm
          simp only [Option.some.injEq] at h
          subst h
          exact ⟨i, by simp, _, hr, hne⟩
        · obtain ⟨j, hj, l, hl⟩ := ih h
          exact ⟨j, by simp [hj], l, hl⟩
    · exact absurd h (by simp)

/-- NEVER ADDED ⇒ NOT FOUND: a name whose hash pair differs from every added name's is reported as not found -/
theorem archive_absent (c : Conv) (codec : Codec) (version shift hashSize : Nat) (files : List FileSpec)
    (hv : version ≤ 1) (hshift : shift < 2 ^ 16)
    (hd : DistinctPairs (files.map (·.name))) (hle : files.length ≤ hashSize) (hhs : hashSize < 0xFFFFFFFE)
    (hok : ∀ f ∈ files, f.data.length < 2 ^ 32)
    (hsize : (writeArchive c version shift hashSize files).length < 2 ^ 32)
    (name : Bytes) (hname : ∀ f ∈ files, ¬ (pairA f.name = pairA name ∧ pairB f.name = pairB name)) :
    readFile c codec (writeArchive c version shift hashSize files) name = .error "notfound" := by
  obtain ⟨ht, bt, hdrB, BODY, hdr, asz, hinv, harch, hhBlen, hparse, hwf1, hlt1, hwf2, hlt2, hBODY, hbt⟩ :=
    archive_decompose c version shift hashSize files hv hshift hd hle hhs hok hsize
  generalize writeArchive c version shift hashSize files = arch at *
  have hfind : findBlock ht name = none := by
    cases hfb : findBlock ht name with
    | none => rfl
    | some blk =>
      exfalso
      unfold findBlock at hfb
      split at hfb
      · exact absurd hfb (by simp)
      · obtain ⟨k, _, l, hk, hne⟩ := findIn_some_pair ht _ _ blk _ hfb
        have hklt : k < ht.length := by
          rcases Nat.lt_or_ge k ht.length with h | h
          · exact h
          · rw [List.getElem?_eq_none h] at hk; exact absurd hk (by simp)
        rw [List.getElem?_eq_getElem hklt] at hk
        have hk' : ht[k] = [(hashS 0x100 name).toNat, (hashS 0x200 name).toNat, l, blk] := by simpa using hk
        rcases hinv.slots k hklt with h | ⟨j, hj, hj', h⟩
        · rw [h] at hk'
          simp only [emptyHash, List.cons.injEq, and_true] at hk'
          exact hne hk'.2.2.2.symm
        · rw [h] at hk'
          simp only [List.cons.injEq, and_true] at hk'
          obtain ⟨e1, e2, _, _⟩ := hk'
          have hjf : j < files.length := by simpa using hj'
          refine hname files[j] (List.getElem_mem hjf) ⟨?_, ?_⟩
          · simpa [pairA] using e1
          · simpa [pairB] using e2
  have h1 : readTable arch (hdrB.length + BODY.length) ht.length tableKeyHash = some ht :=
    readTable_encodeTable arch (hdrB ++ BODY) (encodeTable bt tableKeyBlock) ht tableKeyHash _ hwf1 hlt1
      (by rw [harch]; simp only [List.append_assoc]) (by simp)
  have h2 : readTable arch (hdrB.length + BODY.length + (encodeTable ht tableKeyHash).length) bt.length tableKeyBlock = some bt :=
    readTable_encodeTable arch (hdrB ++ (BODY ++ encodeTable ht tableKeyHash)) [] bt tableKeyBlock _ hwf2 hlt2
      (by rw [harch]; simp only [List.append_assoc, List.append_nil]) (by simp only [List.length_append]; omega)
  unfold readFile
  simp only [hparse, h1, h2, hfind]

end Wv.Mpq
