/- sparse compressor: what it emits is a well-formed token stream standing for its input -/
import WowVerif.Lemmas.C03
set_option linter.unusedSimpArgs false
namespace Wv.Codec
open Wv

/-! #### the scan -/

theorem scanRun_spec (bs pre : Bytes) (last z : Nat) (hidx : pre.length = last + z)
    (hz : pre.drop last = List.replicate z 0) :
    (scanRun bs pre.length last z).1 + (scanRun bs pre.length last z).2 ≤ (pre ++ bs).length ∧
    ((pre ++ bs).drop (scanRun bs pre.length last z).1).take (scanRun bs pre.length last z).2
        = List.replicate (scanRun bs pre.length last z).2 0 ∧
    ((scanRun bs pre.length last z).2 < 3 →
        (scanRun bs pre.length last z).1 + (scanRun bs pre.length last z).2 = (pre ++ bs).length) := by
  induction bs generalizing pre last z with
  | nil =>
    simp only [scanRun, List.append_nil]
    refine ⟨by omega, ?_, fun _ => by omega⟩
    rw [hz]; simp
  | cons b bs ih =>
    simp only [scanRun]
    by_cases hb : b = 0
    · rw [if_pos hb]
      have h1 : (pre ++ [b]).length = last + (z + 1) := by simp; omega
      have h2 : (pre ++ [b]).drop last = List.replicate (z + 1) 0 := by
        rw [List.drop_append_of_le_length (by omega), hz, hb, List.replicate_succ']
      have := ih (pre ++ [b]) last (z + 1) h1 h2
      have e : (pre ++ [b]).length = pre.length + 1 := by simp
      rw [e] at this
      simpa using this
    · rw [if_neg hb]
      by_cases hz3 : z ≥ 3
      · rw [if_pos hz3]
        refine ⟨by simp; omega, ?_, fun h => by omega⟩
        simp only
        rw [List.drop_append_of_le_length (by omega), hz, List.take_append_of_le_length (by simp)]
        simp
      · rw [if_neg hz3]
        have h1 : (pre ++ [b]).length = (pre.length + 1) + 0 := by simp
        have h2 : (pre ++ [b]).drop (pre.length + 1) = List.replicate 0 0 := by simp
        have := ih (pre ++ [b]) (pre.length + 1) 0 h1 h2
        have e : (pre ++ [b]).length = pre.length + 1 := by simp
        rw [e] at this
        simpa using this

/-- the scan from the current position splits the rest into literal bytes, a zero run and what follows -/
theorem scanRun_split (rest : Bytes) :
    rest = rest.take (scanRun rest 0 0 0).1 ++ List.replicate (scanRun rest 0 0 0).2 0 ++
      rest.drop ((scanRun rest 0 0 0).1 + (scanRun rest 0 0 0).2) ∧
    (scanRun rest 0 0 0).1 + (scanRun rest 0 0 0).2 ≤ rest.length ∧
    ((scanRun rest 0 0 0).2 < 3 → (scanRun rest 0 0 0).1 + (scanRun rest 0 0 0).2 = rest.length) := by
  have h := scanRun_spec rest [] 0 0 rfl rfl
  simp only [List.nil_append, List.length_nil] at h
  obtain ⟨h1, h2, h3⟩ := h
  refine ⟨?_, h1, h3⟩
  generalize (scanRun rest 0 0 0).1 = L at *
  generalize (scanRun rest 0 0 0).2 = Z at *
  rw [← h2, List.append_assoc]
  conv => lhs; rw [← List.take_append_drop L rest]
  congr 1
  conv => lhs; rw [← List.take_append_drop Z (rest.drop L)]
  rw [List.drop_drop]

/-! #### the flushes -/

theorem litToks_spec (f : Nat) (seg : Bytes) (hf : seg.length < f) :
    (∀ t ∈ litToks f seg, t.ok) ∧ (litToks f seg).flatMap Tok.out = seg := by
  induction f generalizing seg with
  | zero => omega
  | succ f ih =>
    unfold litToks
    split
    · rename_i h
      have := ih (seg.drop 0x80) (by simp only [List.length_drop]; omega)
      refine ⟨?_, ?_⟩
      · intro t ht
        rcases List.mem_cons.mp ht with rfl | ht
        · simp only [Tok.ok, List.length_take]; omega
        · exact this.1 t ht
      · simp only [List.flatMap_cons, Tok.out, this.2, List.take_append_drop]
    · split
      · rename_i h1 h2
        refine ⟨?_, ?_⟩
        · intro t ht
          simp only [List.mem_cons, List.not_mem_nil, or_false] at ht
          rcases ht with rfl | rfl
          · simp only [Tok.ok, List.length_take]; omega
          · simp only [Tok.ok, List.length_drop]; omega
        · simp only [List.flatMap_cons, List.flatMap_nil, Tok.out, List.append_nil, List.take_append_drop]
      · split
        · rename_i h1 h2 h3
          refine ⟨?_, by simp [Tok.out]⟩
          intro t ht
          simp only [List.mem_cons, List.not_mem_nil, or_false] at ht
          subst ht
          simp only [Tok.ok]; omega
        · rename_i h1 h2 h3
          have : seg = [] := List.eq_nil_of_length_eq_zero (by omega)
          subst this
          exact ⟨by simp, by simp⟩

theorem zeroToks_spec (f z : Nat) (hf : z < f) :
    (∀ t ∈ zeroToks f z, t.ok) ∧
    (zeroToks f z).flatMap Tok.out = List.replicate (if z ≥ 3 then z else 0) 0 := by
  induction f generalizing z with
  | zero => omega
  | succ f ih =>
    unfold zeroToks
    split
    · rename_i h
      have := ih (z - 0x82) (by omega)
      refine ⟨?_, ?_⟩
      · intro t ht
        rcases List.mem_cons.mp ht with rfl | ht
        · simp [Tok.ok]
        · exact this.1 t ht
      · simp only [List.flatMap_cons, Tok.out, this.2]
        rw [if_pos (by omega), if_pos (by omega), List.replicate_append_replicate,
          show 0x82 + (z - 0x82) = z by omega]
    · split
      · rename_i h1 h2
        refine ⟨?_, ?_⟩
        · intro t ht
          simp only [List.mem_cons, List.not_mem_nil, or_false] at ht
          rcases ht with rfl | rfl
          · simp [Tok.ok]
          · simp only [Tok.ok]; omega
        · simp only [List.flatMap_cons, List.flatMap_nil, Tok.out, List.append_nil]
          rw [if_pos (by omega), List.replicate_append_replicate, show 3 + (z - 3) = z by omega]
      · split
        · rename_i h1 h2 h3
          refine ⟨?_, by simp [Tok.out, h3]⟩
          intro t ht
          simp only [List.mem_cons, List.not_mem_nil, or_false] at ht
          subst ht
          simp only [Tok.ok]; omega
        · rename_i h1 h2 h3
          exact ⟨by simp, by simp⟩

/-! #### the main loop -/

theorem mainToks_spec (f : Nat) (rest : Bytes) (hf : rest.length ≤ f) :
    (∀ t ∈ (mainToks f rest).1, t.ok) ∧
    (mainToks f rest).1.flatMap Tok.out ++ (mainToks f rest).2 = rest ∧
    (mainToks f rest).2.length ≤ 3 := by
  induction f generalizing rest with
  | zero =>
    have : rest = [] := List.eq_nil_of_length_eq_zero (by omega)
    subst this
    simp [mainToks]
  | succ f ih =>
    unfold mainToks
    split
    · rename_i hlen
      simp only
      obtain ⟨hsplit, hle, hshort⟩ := scanRun_split rest
      generalize hL : (scanRun rest 0 0 0).1 = L at *
      generalize hZ : (scanRun rest 0 0 0).2 = Z at *
      have hadv : 0 < L + (if Z ≥ 3 then Z else 0) := by
        by_cases h3 : Z ≥ 3
        · rw [if_pos h3]; omega
        · rw [if_neg h3]; have := hshort (by omega); omega
      have hrec := ih (rest.drop (L + (if Z ≥ 3 then Z else 0)))
        (by simp only [List.length_drop]; omega)
      obtain ⟨r1, r2, r3⟩ := hrec
      have hl := litToks_spec (L + 1) (rest.take L) (by simp only [List.length_take]; omega)
      have hz := zeroToks_spec (Z + 1) Z (by omega)
      refine ⟨?_, ?_, r3⟩
      · intro t ht
        simp only [List.mem_append] at ht
        rcases ht with (ht | ht) | ht
        · exact hl.1 t ht
        · exact hz.1 t ht
        · exact r1 t ht
      · simp only [List.flatMap_append, hl.2, hz.2, List.append_assoc, r2]
        by_cases h3 : Z ≥ 3
        · simp only [if_pos h3]
          rw [← List.append_assoc]; exact hsplit.symm
        · simp only [if_neg h3, List.replicate_zero, List.nil_append, Nat.add_zero]
          exact List.take_append_drop L rest
    · rename_i hlen
      exact ⟨by simp, by simp, by simpa using hlen⟩

/-! #### decoding a token stream followed by a tail -/

theorem sparseGo_tokens_tail (toks : List Tok) (h : ∀ t ∈ toks, t.ok) (f : Nat) (tail : Bytes) (r : Nat)
    (acc : Bytes) :
    sparseGo (toks.length + f) (toks.flatMap Tok.enc ++ tail) ((toks.flatMap Tok.out).length + r) acc =
      sparseGo f tail r (acc ++ toks.flatMap Tok.out) := by
  induction toks generalizing acc with
  | nil => simp
  | cons t ts ih =>
    have ht := h t (by simp)
    have ih' := ih (fun x hx => h x (by simp [hx]))
    have e : (t :: ts).length + f = (ts.length + f) + 1 := by simp; omega
    rw [e]
    cases t with
    | lit bs =>
      obtain ⟨h1, h2⟩ := ht
      simp only [List.flatMap_cons, Tok.enc, Tok.out, List.cons_append, List.length_append, List.append_assoc]
      rw [step_lit _ bs _ _ acc h1 h2 (by omega)]
      rw [show bs.length + (List.flatMap Tok.out ts).length + r - bs.length = (List.flatMap Tok.out ts).length + r by omega]
      rw [ih' (acc ++ bs)]; simp
    | zeros n =>
      obtain ⟨h1, h2⟩ := ht
      simp only [List.flatMap_cons, Tok.enc, Tok.out, List.cons_append, List.nil_append,
        List.length_append, List.length_replicate, List.append_assoc]
      rw [step_zeros _ n _ _ acc h1 h2 (by omega)]
      rw [show n + (List.flatMap Tok.out ts).length + r - n = (List.flatMap Tok.out ts).length + r by omega]
      rw [ih' (acc ++ List.replicate n 0)]; simp

/-- the tail flush decodes to the tail (at most three bytes) -/
theorem sparseGo_final (fin : Bytes) (hlen : fin.length ≤ 3) (f : Nat) (acc : Bytes) :
    sparseGo (f + 1) (finalBytes fin) fin.length acc = acc ++ fin := by
  unfold finalBytes
  by_cases he : fin.isEmpty
  · rw [if_pos he]
    have : fin = [] := by simpa using he
    subst this; simp [sparseGo_nil]
  · rw [if_neg he]
    have hpos : 1 ≤ fin.length := by
      cases fin with
      | nil => simp at he
      | cons a as => simp
    by_cases hany : fin.any (fun b => b ≠ 0)
    · rw [if_pos hany, if_pos (by omega)]
      have := step_lit f fin [] fin.length acc hpos (by omega) (Nat.le_refl _)
      simp only [List.append_nil] at this
      rw [show 0x80 + (fin.length - 1) = 128 + (fin.length - 1) from rfl, this, sparseGo_nil]
    · rw [if_neg hany]
      have hz : fin = List.replicate fin.length 0 := by
        apply List.eq_replicate_iff.mpr
        refine ⟨rfl, ?_⟩
        intro b hb
        simp only [List.any_eq_true, not_exists, not_and] at hany
        have := hany b hb
        simpa using this
      have hb : (0x7F : UInt8).toNat = 127 := by decide
      simp only [sparseGo, hb]
      rw [if_neg (by omega)]
      have : min (127 % 128 + 3) fin.length = fin.length := by omega
      rw [this, sparseGo_nil]
      rw [← hz]

/-- SPARSE ROUND TRIP: the in-tree decoder returns exactly the bytes the in-tree compressor was given -/
theorem sparse_roundtrip (d : Bytes) (hne : d ≠ []) (h32 : d.length < 2 ^ 32) (expected : Nat)
    (he : d.length ≤ expected) : sparseDecompress (sparseCompress d) expected = some d := by
  obtain ⟨hok, hcat, hfin⟩ := mainToks_spec (d.length + 1) d (by omega)
  simp only [sparseCompress]
  generalize (mainToks (d.length + 1) d).1 = toks at *
  generalize (mainToks (d.length + 1) d).2 = fin at *
  have hlen : d.length = (toks.flatMap Tok.out).length + fin.length := by
    rw [← hcat]; simp
  have hne' : (toks.flatMap Tok.enc ++ finalBytes fin).isEmpty = false := by
    cases toks with
    | nil =>
      simp only [List.flatMap_nil, List.nil_append] at hcat ⊢
      subst hcat
      unfold finalBytes
      have : fin.isEmpty = false := by cases fin with
        | nil => exact absurd rfl hne
        | cons a as => rfl
      rw [this]; simp only [Bool.false_eq_true, if_false]
      split <;> rfl
    | cons t ts =>
      have := enc_length_pos t
      cases he' : t.enc with
      | nil => simp [he'] at this
      | cons a as => simp [he']
  have hsize : (UInt8.ofNat (d.length / 16777216)).toNat * 16777216 + (UInt8.ofNat (d.length / 65536 % 256)).toNat * 65536 +
      (UInt8.ofNat (d.length / 256 % 256)).toNat * 256 + (UInt8.ofNat (d.length % 256)).toNat = d.length := by
    simp only [UInt8.toNat_ofNat']; omega
  simp only [be32, List.cons_append, List.nil_append, List.append_assoc, sparseDecompress, hne',
    Bool.false_eq_true, if_false, hsize]
  rw [if_neg (by omega)]
  have hfuel : (toks.flatMap Tok.enc ++ finalBytes fin).length + 1 =
      toks.length + (((toks.flatMap Tok.enc).length - toks.length + (finalBytes fin).length) + 1) := by
    have := flatMap_enc_length toks
    simp only [List.length_append]; omega
  rw [hfuel, hlen, sparseGo_tokens_tail toks hok, sparseGo_final fin hfin, List.nil_append, hcat]

/-- the one input the bare codec does not invert: nothing at all (four header bytes are below the decoder's minimum) -/
theorem sparse_empty : sparseCompress [] = [0, 0, 0, 0] ∧ ∀ n, sparseDecompress (sparseCompress []) n = none := by
  refine ⟨by decide, fun n => ?_⟩
  have : sparseCompress [] = [0, 0, 0, 0] := by decide
  rw [this]; rfl

theorem sparseGo_bounded (f : Nat) (data : Bytes) (rem : Nat) (out : Bytes) :
    (sparseGo f data rem out).length ≤ out.length + rem := by
  induction f generalizing data rem out with
  | zero => simp [sparseGo]
  | succ f ih =>
    cases data with
    | nil => simp [sparseGo]
    | cons b rest =>
      simp only [sparseGo]
      split
      · generalize (if b.toNat % 128 + 1 > rest.length then rest.length else b.toNat % 128 + 1) = avail
        split
        · omega
        · have := ih (rest.drop (min avail rem)) (rem - min avail rem) (out ++ rest.take (min avail rem))
          simp only [List.length_append, List.length_take] at this
          omega
      · have := ih rest (rem - min (b.toNat % 128 + 3) rem) (out ++ List.replicate (min (b.toNat % 128 + 3) rem) 0)
        simp only [List.length_append, List.length_replicate] at this
        omega

/-- the sparse decoder never returns more than the caller's bound, whatever the input declares -/
theorem sparse_output_bounded (data : Bytes) (expected : Nat) (out : Bytes)
    (h : sparseDecompress data expected = some out) : out.length ≤ expected := by
  unfold sparseDecompress at h
  split at h
  · rename_i b0 b1 b2 b3 rest
    split at h
    · simp at h
    · simp only at h
      split at h
      · simp at h
      · rename_i hle
        simp only [Option.some.injEq] at h
        subst h
        have := sparseGo_bounded (rest.length + 1) rest (b0.toNat * 16777216 + b1.toNat * 65536 + b2.toNat * 256 + b3.toNat) []
        simp only [List.length_nil, Nat.zero_add] at this
        omega
  · simp at h

end Wv.Codec
