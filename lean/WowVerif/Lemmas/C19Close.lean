/- lemmas about Model.C19Close: with the archive removed first and the search re-checked, no schedule leaves a handle behind -/
import WowVerif.Model.C19Close
namespace Wv.Close

structure Inv (s : S) : Prop where
  gone : s.closePc ≥ 1 → s.arch = false
  nofiles : s.closePc ≥ 2 → s.files = 0
  pending : s.closePc ≥ 3 → ∀ t ∈ s.finds, s.pc t = 2
  bound : s.closePc ≤ 3

theorem inv_init : Inv {} := ⟨by intro h; simp at h, by intro h; simp at h, by intro h; simp at h, by simp⟩

theorem inv_step (s : S) (a : Act) (h : Inv s) : Inv (step true true s a) := by
  obtain ⟨hg, hf, hp, hb⟩ := h
  cases a with
  | close =>
    simp only [step, closeStep]
    have : s.closePc = 0 ∨ s.closePc = 1 ∨ s.closePc = 2 ∨ s.closePc = 3 := by omega
    rcases this with h0 | h1 | h2 | h3
    · rw [h0]; exact ⟨fun _ => rfl, by intro h; simp at h, by intro h; simp at h, by simp⟩
    · rw [h1]
      exact ⟨fun _ => hg (by omega), fun _ => rfl, by intro h; simp at h, by simp⟩
    · rw [h2]
      exact ⟨fun _ => hg (by omega), fun _ => hf (by omega), fun _ t ht => by simp at ht, by simp⟩
    · rw [h3]; exact ⟨hg, hf, hp, hb⟩
  | openFile =>
    simp only [step]
    by_cases ha : s.arch = true
    · rw [if_pos ha]
      have h0 : s.closePc = 0 := by
        by_cases hc : s.closePc ≥ 1
        · have := hg hc; rw [this] at ha; cases ha
        · omega
      exact ⟨fun h => by simp only at h; omega, fun h => by simp only at h; omega, fun h => by simp only at h; omega, hb⟩
    · rw [if_neg ha]; exact ⟨hg, hf, hp, hb⟩
  | find t =>
    simp only [step]
    have hcase : s.pc t = 0 ∨ s.pc t = 1 ∨ s.pc t = 2 ∨ ∃ k, s.pc t = k + 3 := by
      by_cases h3 : s.pc t ≥ 3
      · exact Or.inr (Or.inr (Or.inr ⟨s.pc t - 3, by omega⟩))
      · omega
    rcases hcase with h0 | h1 | h2 | ⟨k, hk⟩
    · -- listing: thread t has no handle stored, nobody else changes
      have key : ∀ u ∈ s.finds, s.closePc ≥ 3 → u ≠ t := by
        intro u hu hc hut; subst hut; have := hp hc u hu; omega
      simp only [findStep, h0]
      split
      · exact ⟨hg, hf, fun h u hu => by
          have hut := key u hu h
          simp only [hut, if_false]; exact hp h u hu, hb⟩
      · exact ⟨hg, hf, fun h u hu => by
          have hut := key u hu h
          simp only [hut, if_false]; exact hp h u hu, hb⟩
    · -- store the handle
      simp only [findStep, h1]
      refine ⟨hg, hf, fun h u hu => ?_, hb⟩
      simp only at hu ⊢
      rcases List.mem_cons.mp hu with rfl | hu
      · simp
      · have := hp h u hu
        by_cases hut : u = t
        · simp [hut]
        · simp [hut, this]
    · -- look the archive up again
      simp only [findStep, h2]
      refine ⟨hg, hf, fun h u hu => ?_, hb⟩
      simp only at h hu ⊢
      have harch : s.arch = false := hg (by omega)
      simp only [harch, Bool.false_eq_true, not_false_eq_true, and_self, if_true] at hu
      have hmem := List.mem_filter.mp hu
      have hut : u ≠ t := by simpa using hmem.2
      simp [hut, hp h u hmem.1]
    · simp only [findStep, hk]
      exact ⟨hg, hf, hp, hb⟩

theorem inv_run (sched : List Act) : Inv (run true true sched) := by
  unfold run
  have : ∀ (s : S), Inv s → Inv (sched.foldl (step true true) s) := by
    induction sched with
    | nil => intro s h; exact h
    | cons a rest ih => intro s h; exact ih _ (inv_step s a h)
  exact this {} inv_init

end Wv.Close
