/- sparse decoder: correctness on well-formed token streams -/
import WowVerif.Model.C03Codec
set_option linter.unusedSimpArgs false
namespace Wv.Codec
open Wv


def Tok.ok : Tok → Prop
  | .lit bs => 1 ≤ bs.length ∧ bs.length ≤ 128
  | .zeros n => 3 ≤ n ∧ n ≤ 130

theorem sparseGo_nil (f rem : Nat) (out : Bytes) : sparseGo f [] rem out = out := by
  cases f <;> rfl

theorem step_lit (f : Nat) (bs more : Bytes) (rem : Nat) (acc : Bytes)
    (h1 : 1 ≤ bs.length) (h2 : bs.length ≤ 128) (hr : bs.length ≤ rem) :
    sparseGo (f + 1) (UInt8.ofNat (128 + (bs.length - 1)) :: (bs ++ more)) rem acc =
      sparseGo f more (rem - bs.length) (acc ++ bs) := by
  have hb : (UInt8.ofNat (128 + (bs.length - 1))).toNat = 128 + (bs.length - 1) := by
    simp [UInt8.toNat_ofNat']; omega
  have hw : (128 + (bs.length - 1)) % 128 + 1 = bs.length := by omega
  have hav : (if bs.length > (bs ++ more).length then (bs ++ more).length else bs.length) = bs.length := by
    rw [if_neg (by simp)]
  simp only [sparseGo, hb, hw]
  rw [if_pos (by omega), hav, if_neg (by omega)]
  have hmin : min bs.length rem = bs.length := by omega
  rw [hmin, List.drop_left' rfl, List.take_left' rfl]

theorem step_zeros (f n : Nat) (more : Bytes) (rem : Nat) (acc : Bytes)
    (h1 : 3 ≤ n) (h2 : n ≤ 130) (hr : n ≤ rem) :
    sparseGo (f + 1) (UInt8.ofNat (n - 3) :: more) rem acc =
      sparseGo f more (rem - n) (acc ++ List.replicate n 0) := by
  have hb : (UInt8.ofNat (n - 3)).toNat = n - 3 := by simp [UInt8.toNat_ofNat']; omega
  have hw : (n - 3) % 128 + 3 = n := by omega
  simp only [sparseGo, hb, hw]
  rw [if_neg (by omega)]
  have hmin : min n rem = n := by omega
  rw [hmin]

theorem sparseGo_tokens (toks : List Tok) (h : ∀ t ∈ toks, t.ok) (f : Nat) (hf : toks.length ≤ f) (acc : Bytes) :
    sparseGo f (toks.flatMap Tok.enc) (toks.flatMap Tok.out).length acc = acc ++ toks.flatMap Tok.out := by
  induction toks generalizing f acc with
  | nil => simp [sparseGo_nil]
  | cons t ts ih =>
    cases f with
    | zero => simp at hf
    | succ f =>
      have ht := h t (by simp)
      have ih' := ih (fun x hx => h x (by simp [hx])) f (by simpa using hf)
      cases t with
      | lit bs =>
        obtain ⟨h1, h2⟩ := ht
        simp only [List.flatMap_cons, Tok.enc, Tok.out, List.cons_append, List.length_append]
        rw [step_lit f bs _ _ acc h1 h2 (by omega)]
        rw [show bs.length + (List.flatMap Tok.out ts).length - bs.length = (List.flatMap Tok.out ts).length by omega]
        rw [ih' (acc ++ bs)]; simp
      | zeros n =>
        obtain ⟨h1, h2⟩ := ht
        simp only [List.flatMap_cons, Tok.enc, Tok.out, List.cons_append, List.nil_append,
          List.length_append, List.length_replicate]
        rw [step_zeros f n _ _ acc h1 h2 (by omega)]
        rw [show n + (List.flatMap Tok.out ts).length - n = (List.flatMap Tok.out ts).length by omega]
        rw [ih' (acc ++ List.replicate n 0)]; simp

theorem enc_length_pos (t : Tok) : 1 ≤ t.enc.length := by cases t <;> simp [Tok.enc]

theorem flatMap_enc_length (toks : List Tok) : toks.length ≤ (toks.flatMap Tok.enc).length := by
  induction toks with
  | nil => simp
  | cons t ts ih =>
    have := enc_length_pos t
    simp only [List.flatMap_cons, List.length_append, List.length_cons]; omega

/-- the in-tree sparse decoder is correct on every well-formed token stream: a 4-byte big-endian length followed
    by literal tokens (0x80|n-1, n bytes, 1 ≤ n ≤ 128) and zero-run tokens (n-3, 3 ≤ n ≤ 130) decodes to the
    concatenation of what the tokens stand for -/
theorem sparse_decode_tokens (toks : List Tok) (h : ∀ t ∈ toks, t.ok) (hne : toks ≠ []) (expected : Nat)
    (hl : (toks.flatMap Tok.out).length ≤ expected) (h32 : (toks.flatMap Tok.out).length < 2 ^ 32) :
    sparseDecompress
      (UInt8.ofNat ((toks.flatMap Tok.out).length / 16777216) :: UInt8.ofNat ((toks.flatMap Tok.out).length / 65536 % 256) ::
       UInt8.ofNat ((toks.flatMap Tok.out).length / 256 % 256) :: UInt8.ofNat ((toks.flatMap Tok.out).length % 256) ::
       toks.flatMap Tok.enc) expected = some (toks.flatMap Tok.out) := by
  generalize hL : (toks.flatMap Tok.out).length = L at *
  have hne' : (toks.flatMap Tok.enc).isEmpty = false := by
    cases toks with
    | nil => exact absurd rfl hne
    | cons t ts =>
      have := enc_length_pos t
      cases he : t.enc with
      | nil => simp [he] at this
      | cons a as => simp [he]
  have hsize : (UInt8.ofNat (L / 16777216)).toNat * 16777216 + (UInt8.ofNat (L / 65536 % 256)).toNat * 65536 +
      (UInt8.ofNat (L / 256 % 256)).toNat * 256 + (UInt8.ofNat (L % 256)).toNat = L := by
    simp only [UInt8.toNat_ofNat']; omega
  simp only [sparseDecompress, hne', Bool.false_eq_true, if_false, hsize]
  rw [if_neg (by omega)]
  have := sparseGo_tokens toks h ((toks.flatMap Tok.enc).length + 1) (by have := flatMap_enc_length toks; omega) []
  rw [hL] at this
  rw [this]; simp

end Wv.Codec
