/- shared lemmas about Base.Bytes -/
import WowVerif.Base.Bytes
namespace Wv
set_option linter.unusedSimpArgs false

theorem natLE_length (n v : Nat) : (natLE n v).length = n := by
  induction n generalizing v with
  | zero => rfl
  | succ n ih => simp [natLE, ih]

theorem leNat_natLE (n v : Nat) (h : v < 256 ^ n) : leNat (natLE n v) = v := by
  induction n generalizing v with
  | zero => simp [natLE, leNat]; simp at h; omega
  | succ n ih =>
    simp only [natLE, leNat]
    have h2 : v / 256 < 256 ^ n := by
      rw [Nat.div_lt_iff_lt_mul (by decide)]; rw [Nat.pow_succ] at h; exact h
    rw [ih _ h2]
    have : (UInt8.ofNat (v % 256)).toNat = v % 256 := by
      simp [UInt8.toNat_ofNat']
    rw [this]; omega


end Wv
