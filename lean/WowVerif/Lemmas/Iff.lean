/- lemmas about Lib.Iff: an independent chunk walker recovers what was serialised; framing tiles the file -/
import WowVerif.Lib.Iff
import WowVerif.Lemmas.Bytes
namespace Wv.Iff
open Wv
set_option linter.unusedSimpArgs false

theorem encode_length (c : Chunk) (h : WF c) : (encode c).length = 8 + c.data.length := by
  simp [encode, natLE_length, h.1]; omega

theorem walk_encode (f : Nat) (c : Chunk) (h : WF c) (rest : Bytes) (acc : List Chunk) :
    walk (f + 1) (encode c ++ rest) acc = walk f rest (c :: acc) := by
  obtain ⟨hm, hd⟩ := h
  obtain ⟨m, d⟩ := c
  simp only at hm hd
  match m, hm with
  | [m0, m1, m2, m3], _ =>
    have p : (2:Nat) ^ 32 = 256 ^ 4 := by decide
    have e := leNat_natLE 4 d.length (by rw [← p]; exact hd)
    simp only [natLE] at e
    simp only [encode, natLE, List.cons_append, List.nil_append, walk, e, List.append_assoc]
    simp

theorem walk_nil (f : Nat) (acc : List Chunk) : walk f [] acc = .done acc.reverse := by
  cases f <;> rfl

theorem walk_serialize_go (cs : List Chunk) (h : ∀ c ∈ cs, WF c) (f : Nat) (hf : cs.length ≤ f) (acc : List Chunk) :
    walk f (serialize cs) acc = .done (acc.reverse ++ cs) := by
  induction cs generalizing f acc with
  | nil => simp [serialize, walk_nil]
  | cons c cs ih =>
    cases f with
    | zero => simp at hf
    | succ f =>
      simp only [serialize, List.flatMap_cons]
      rw [walk_encode f c (h c (by simp))]
      have := ih (fun x hx => h x (by simp [hx])) f (by simpa using hf) (c :: acc)
      simp only [serialize] at this
      rw [this]; simp

theorem serialize_length_ge (cs : List Chunk) (h : ∀ c ∈ cs, WF c) : 8 * cs.length ≤ (serialize cs).length := by
  induction cs with
  | nil => simp [serialize]
  | cons c cs ih =>
    have := ih (fun x hx => h x (by simp [hx]))
    simp only [serialize, List.flatMap_cons, List.length_append, List.length_cons] at *
    rw [encode_length c (h c (by simp))]; omega

/-- an independent chunk reader recovers exactly the chunk list that was serialised -/
theorem walk_serialize (cs : List Chunk) (h : ∀ c ∈ cs, WF c) : walkAll (serialize cs) = .done cs := by
  unfold walkAll
  have := serialize_length_ge cs h
  rw [walk_serialize_go cs h _ (by omega) []]; simp

/-- chunk framing tiles the file exactly: total length = Σ (8 + payload) -/
theorem serialize_length (cs : List Chunk) (h : ∀ c ∈ cs, WF c) :
    (serialize cs).length = (cs.map fun c => 8 + c.data.length).sum := by
  induction cs with
  | nil => simp [serialize]
  | cons c cs ih =>
    have := ih (fun x hx => h x (by simp [hx]))
    simp only [serialize, List.flatMap_cons, List.length_append, List.map_cons, List.sum_cons] at *
    rw [encode_length c (h c (by simp)), this]

end Wv.Iff
