/- lemmas about Model.C08Read: the file map is first-match lookup, the listing is the union, a patched read is verified -/
import WowVerif.Model.C08Read
import WowVerif.Lemmas.C08
namespace Wv.Chain
open Wv

/-! ### file map -/

theorem mapGet_append (m : FileMap) (k k' idx : Nat) :
    mapGet (m ++ [(k', idx)]) k = (mapGet m k).or (if k' = k then some idx else none) := by
  unfold mapGet
  rw [List.find?_append]
  cases h : m.find? (fun p => p.1 == k) with
  | some p => simp
  | none =>
    simp only [Option.none_or, Option.map_none]
    by_cases hk : k' = k
    · simp [hk]
    · simp [hk]

theorem mapGet_orInsert (m : FileMap) (k k' idx : Nat) :
    mapGet (orInsert m k' idx) k = (mapGet m k).or (if k' = k then some idx else none) := by
  unfold orInsert
  by_cases h : (mapGet m k').isSome
  · rw [if_pos h]
    by_cases hk : k' = k
    · subst hk
      cases hg : mapGet m k' with
      | none => rw [hg] at h; simp at h
      | some v => simp
    · simp [hk]
  · rw [if_neg h, mapGet_append]

theorem mapGet_addNames (m : FileMap) (idx : Nat) (names : List Nat) (k : Nat) :
    mapGet (addNames m idx names) k = (mapGet m k).or (if names.contains k then some idx else none) := by
  unfold addNames
  induction names generalizing m with
  | nil => simp
  | cons n ns ih =>
    rw [List.foldl_cons, ih, mapGet_orInsert]
    cases hg : mapGet m k with
    | some v => simp
    | none =>
      simp only [Option.none_or]
      by_cases hn : n = k
      · subst hn; simp
      · have hkn : ¬ k = n := fun h => hn h.symm
        simp [hn, hkn]

theorem mapGet_rebuildGo (lists : List (List Nat)) (i : Nat) (m : FileMap) (k : Nat) :
    mapGet (rebuildGo lists i m) k = (mapGet m k).or ((lists.findIdx? (·.contains k)).map (· + i)) := by
  induction lists generalizing i m with
  | nil => simp [rebuildGo]
  | cons ns rest ih =>
    rw [rebuildGo, ih, mapGet_addNames, List.findIdx?_cons]
    cases hg : mapGet m k with
    | some v => simp
    | none =>
      simp only [Option.none_or]
      by_cases hc : k ∈ ns
      · simp [hc]
      · simp only [List.contains_iff_mem, hc, if_false, Option.none_or, decide_false, Bool.false_eq_true]
        cases hf : rest.findIdx? (·.contains k) with
        | none => simp at hf ⊢
        | some j => simp at hf ⊢; omega

/-- REFINEMENT: the hash map rebuild_file_map fills answers exactly "the first archive in chain order whose listing
    contains the key" -/
theorem rebuildMap_get (lists : List (List Nat)) (k : Nat) :
    mapGet (rebuildMap lists) k = lists.findIdx? (·.contains k) := by
  unfold rebuildMap
  rw [mapGet_rebuildGo]
  simp [mapGet]

/-! ### listing -/

theorem listGo_mem (seen l : List Nat) (n : Nat) : n ∈ listGo seen l ↔ n ∈ seen ∨ n ∈ l := by
  induction l generalizing seen with
  | nil => simp [listGo]
  | cons x xs ih =>
    unfold listGo
    by_cases hc : seen.contains x = true
    · rw [if_pos hc, ih]
      have hx : x ∈ seen := by simpa using hc
      constructor
      · rintro (h | h)
        · exact Or.inl h
        · exact Or.inr (List.mem_cons_of_mem _ h)
      · rintro (h | h)
        · exact Or.inl h
        · rcases List.mem_cons.mp h with rfl | h
          · exact Or.inl hx
          · exact Or.inr h
    · rw [if_neg hc, ih]
      simp only [List.mem_append, List.mem_singleton, List.mem_cons, List.not_mem_nil, or_false]
      constructor
      · rintro ((h | h) | h)
        · exact Or.inl h
        · exact Or.inr (Or.inl h)
        · exact Or.inr (Or.inr h)
      · rintro (h | h | h)
        · exact Or.inl (Or.inl h)
        · exact Or.inl (Or.inr h)
        · exact Or.inr h

theorem listGo_nodup (seen l : List Nat) (h : seen.Nodup) : (listGo seen l).Nodup := by
  induction l generalizing seen with
  | nil => simpa [listGo]
  | cons x xs ih =>
    unfold listGo
    by_cases hc : seen.contains x = true
    · rw [if_pos hc]; exact ih seen h
    · rw [if_neg hc]
      apply ih
      have hx : x ∉ seen := by simpa using hc
      rw [List.nodup_append]
      refine ⟨h, by simp, ?_⟩
      intro a ha b hb
      simp at hb; subst hb
      intro hab; subst hab; exact hx ha

/-- LISTING = UNION: a name is listed iff some archive of the chain lists it -/
theorem listing_mem (lists : List (List Nat)) (n : Nat) : n ∈ listing lists ↔ ∃ l ∈ lists, n ∈ l := by
  unfold listing
  rw [List.mem_mergeSort, listGo_mem]
  simp [List.mem_flatten]

/-- … once -/
theorem listing_nodup (lists : List (List Nat)) : (listing lists).Nodup := by
  unfold listing
  exact (List.mergeSort_perm _ _).nodup_iff.mpr (listGo_nodup [] _ List.nodup_nil)

/-- … in ascending order -/
theorem listing_sorted (lists : List (List Nat)) : (listing lists).Pairwise (· ≤ ·) := by
  unfold listing
  have := List.pairwise_mergeSort (le := fun a b => decide (a ≤ b))
    (by intro a b c; simp; omega) (by intro a b; simp; omega) (listGo [] lists.flatten)
  simpa using this

/-! ### patched reads -/

theorem applyAll_last (md5 : Bytes → Bytes) (qs : List Patch) (p : Patch) (b out : Bytes)
    (h : applyAll md5 (qs ++ [p]) b = .ok out) :
    md5 out = p.md5After ∧ out.length = p.sizeAfter := by
  induction qs generalizing b with
  | nil =>
    simp only [List.nil_append, applyAll] at h
    cases ha : applyPatch md5 p b with
    | error e => rw [ha] at h; cases h
    | ok o =>
      rw [ha] at h; simp only [applyAll, Except.ok.injEq] at h; subst h
      exact ⟨(applyPatch_verified md5 p b o ha).2, (applyPatch_size md5 p b o ha).1⟩
  | cons q qs ih =>
    simp only [List.cons_append, applyAll] at h
    cases ha : applyPatch md5 q b with
    | error e => rw [ha] at h; cases h
    | ok o => rw [ha] at h; exact ih o h

theorem applyAll_nil (md5 : Bytes → Bytes) (b : Bytes) : applyAll md5 [] b = .ok b := rfl

/-- every patch of the list was applied to a base it verified: the first one to the chain's base -/
theorem applyAll_first (md5 : Bytes → Bytes) (q : Patch) (qs : List Patch) (b out : Bytes)
    (h : applyAll md5 (q :: qs) b = .ok out) : md5 b = q.md5Before ∧ b.length = q.sizeBefore := by
  simp only [applyAll] at h
  cases ha : applyPatch md5 q b with
  | error e => rw [ha] at h; cases h
  | ok o => exact ⟨(applyPatch_verified md5 q b o ha).1, (applyPatch_size md5 q b o ha).2⟩

/-- PATCHED READ: a result is either the chain's base itself (no archive holds a patch version) or carries the digest
    and size that the HIGHEST-PRIORITY patch version declares; an unreadable patch version is never skipped -/
theorem readPatched_verified (md5 : Bytes → Bytes) (vers : List Ver) (out : Bytes)
    (h : readPatched md5 vers = .ok out) :
    ∃ ps b, patchesOf vers = some ps ∧ baseOf vers = some b ∧
      match ps with
      | [] => out = b
      | p :: _ => md5 out = p.md5After ∧ out.length = p.sizeAfter := by
  unfold readPatched at h
  cases hp : patchesOf vers with
  | none => rw [hp] at h; cases h
  | some ps =>
    rw [hp] at h
    cases hb : baseOf vers with
    | none => rw [hb] at h; cases h
    | some b =>
      rw [hb] at h
      refine ⟨ps, b, rfl, rfl, ?_⟩
      cases ps with
      | nil => simp only [List.reverse_nil, applyAll, Except.ok.injEq] at h; exact h.symm
      | cons p rest =>
        simp only [List.reverse_cons] at h
        exact applyAll_last md5 rest.reverse p b out h

theorem patchesOf_mem (vers : List Ver) (ps : List Patch) (h : patchesOf vers = some ps) :
    ∀ v ∈ vers, ∀ p, v = .patch p → ∃ q, p = some q ∧ q ∈ ps := by
  induction vers generalizing ps with
  | nil => intro v hv; cases hv
  | cons x xs ih =>
    intro v hv p hvp
    cases x with
    | absent =>
      simp only [patchesOf] at h
      rcases List.mem_cons.mp hv with rfl | hv
      · cases hvp
      · exact ih ps h v hv p hvp
    | plain d =>
      simp only [patchesOf] at h
      rcases List.mem_cons.mp hv with rfl | hv
      · cases hvp
      · exact ih ps h v hv p hvp
    | patch q =>
      cases q with
      | none => simp [patchesOf] at h
      | some q =>
        simp only [patchesOf] at h
        cases hr : patchesOf xs with
        | none => rw [hr] at h; simp at h
        | some rs =>
          rw [hr] at h; simp at h; subst h
          rcases List.mem_cons.mp hv with rfl | hv
          · cases hvp; exact ⟨q, rfl, by simp⟩
          · obtain ⟨q', h1, h2⟩ := ih rs hr v hv p hvp
            exact ⟨q', h1, List.mem_cons_of_mem _ h2⟩

end Wv.Chain
