/- C01, whole archive, part 1: the builder's hash table finds every inserted name -/
import WowVerif.Lemmas.C01
set_option linter.unusedSimpArgs false
namespace Wv.Mpq
open Wv

/-! ### the probe order visits every slot exactly once -/

theorem probeSeq_lt (size start : Nat) (hs : 0 < size) : ∀ i ∈ probeSeq size start, i < size := by
  intro i hi
  simp only [probeSeq, List.mem_map, List.mem_range] at hi
  obtain ⟨k, _, rfl⟩ := hi
  exact Nat.mod_lt _ hs

theorem probeSeq_mem (size start i : Nat) (hi : i < size) : i ∈ probeSeq size start := by
  simp only [probeSeq, List.mem_map, List.mem_range]
  refine ⟨(i + size - start % size) % size, Nat.mod_lt _ (by omega), ?_⟩
  have hs : start % size < size := Nat.mod_lt _ (by omega)
  have e : (start + (i + size - start % size) % size) % size = (start % size + (i + size - start % size) % size) % size := by
    rw [Nat.add_mod, Nat.mod_mod, ← Nat.add_mod]
  rw [e]
  by_cases h : start % size ≤ i
  · have : (i + size - start % size) % size = i - start % size := by
      rw [show i + size - start % size = (i - start % size) + size by omega, Nat.add_mod_right, Nat.mod_eq_of_lt (by omega)]
    rw [this, show start % size + (i - start % size) = i by omega, Nat.mod_eq_of_lt hi]
  · have : (i + size - start % size) % size = i + size - start % size := Nat.mod_eq_of_lt (by omega)
    rw [this, show start % size + (i + size - start % size) = i + size by omega, Nat.add_mod_right, Nat.mod_eq_of_lt hi]

theorem probeSeq_nodup (size start : Nat) : (probeSeq size start).Nodup := by
  unfold probeSeq
  rw [List.Nodup, List.pairwise_map]
  have h := @List.nodup_range size
  rw [List.Nodup] at h
  refine List.Pairwise.imp_of_mem ?_ h
  intro a b ha hb hab heq
  simp only [List.mem_range] at ha hb
  apply hab
  have h1 : (start + a) % size = (start + b) % size := heq
  -- a, b < size and start + a ≡ start + b (mod size)
  have h2 := Nat.sub_mod_eq_zero_of_mod_eq h1
  have h3 := Nat.sub_mod_eq_zero_of_mod_eq h1.symm
  rw [show start + a - (start + b) = a - b by omega, Nat.mod_eq_of_lt (by omega)] at h2
  rw [show start + b - (start + a) = b - a by omega, Nat.mod_eq_of_lt (by omega)] at h3
  omega

/-! ### inserting into a never-used slot leaves every successful lookup as it was -/

theorem findIn_set_free (ht : List (List Nat)) (p : Nat) (e : List Nat) (a b blk : Nat) (seq : List Nat)
    (hp : ∃ n1 n2 l, ht[p]? = some [n1, n2, l, 0xFFFFFFFF]) (h : findIn ht a b seq = some blk) :
    findIn (ht.set p e) a b seq = some blk := by
  induction seq with
  | nil => simp [findIn] at h
  | cons i rest ih =>
    by_cases hip : i = p
    · subst hip
      obtain ⟨n1, n2, l, hrow⟩ := hp
      simp [findIn, hrow] at h
    · simp only [findIn] at h ⊢
      rw [List.getElem?_set_ne (fun h' => hip h'.symm)]
      generalize ht[i]? = r at h ⊢
      split at h
      · split at h
        · exact absurd h (by simp)
        · rename_i h1
          rw [if_neg h1]
          split at h
          · rename_i h2; rw [if_pos h2]; exact h
          · rename_i h2; rw [if_neg h2]; exact ih h
      · exact absurd h (by simp)

theorem insertIn_spec (ht : List (List Nat)) (e : List Nat) (seq : List Nat)
    (hfree : ∃ i ∈ seq, slotFree ht i = true) :
    ∃ p ∈ seq, slotFree ht p = true ∧ insertIn ht e seq = ht.set p e := by
  induction seq with
  | nil => obtain ⟨i, hi, _⟩ := hfree; simp at hi
  | cons i rest ih =>
    by_cases hf : slotFree ht i = true
    · exact ⟨i, by simp, hf, by simp [insertIn, hf]⟩
    · have : ∃ j ∈ rest, slotFree ht j = true := by
        obtain ⟨j, hj, hjf⟩ := hfree
        rcases List.mem_cons.mp hj with rfl | hj
        · exact absurd hjf hf
        · exact ⟨j, hj, hjf⟩
      obtain ⟨p, hp, hpf, hpe⟩ := ih this
      exact ⟨p, by simp [hp], hpf, by simp [insertIn, hf, hpe]⟩

/-! ### the table after the first `k` insertions -/

def pairA (n : Bytes) : Nat := (hashS 0x100 n).toNat
def pairB (n : Bytes) : Nat := (hashS 0x200 n).toNat

structure HtInv (names : List Bytes) (size : Nat) (ht : List (List Nat)) (k : Nat) : Prop where
  len : ht.length = size
  slots : ∀ i (h : i < ht.length), ht[i] = emptyHash ∨
    ∃ j, j < k ∧ ∃ hj : j < names.length, ht[i] = [pairA names[j], pairB names[j], 0, j]
  free : size - k ≤ ht.countP (fun r => r == emptyHash)
  found : ∀ j (hj : j < names.length), j < k → findBlock ht names[j] = some j

/-- names with pairwise different (hash A, hash B) pairs — what the format itself identifies a file by -/
def DistinctPairs (names : List Bytes) : Prop :=
  ∀ i j (hi : i < names.length) (hj : j < names.length), i ≠ j →
    ¬ (pairA names[i] = pairA names[j] ∧ pairB names[i] = pairB names[j])

theorem HtInv.init (names : List Bytes) (size : Nat) : HtInv names size (List.replicate size emptyHash) 0 where
  len := by simp
  slots := by intro i h; left; simp
  free := by rw [List.countP_replicate]; simp [emptyHash]
  found := by intro j _ h; omega

theorem HtInv.step (names : List Bytes) (size : Nat) (ht : List (List Nat)) (k : Nat)
    (hd : DistinctPairs names) (hk : k < names.length) (hks : k < size) (hbig : names.length < 0xFFFFFFFE)
    (inv : HtInv names size ht k) : HtInv names size (insertHash ht names[k] k) (k + 1) := by
  obtain ⟨hlen, hslots, hfree, hfound⟩ := inv
  have hwf : ∀ r ∈ ht, r.length = 4 := by
    intro r hr
    obtain ⟨i, hi, rfl⟩ := List.getElem_of_mem hr
    rcases hslots i hi with h | ⟨j, _, _, h⟩ <;> rw [h] <;> rfl
  have hpos : 0 < ht.length := by omega
  let seq := probeSeq ht.length ((hashS 0 names[k]).toNat % ht.length)
  have hseq : ∀ i ∈ seq, i < ht.length := probeSeq_lt _ _ hpos
  have hnd : seq.Nodup := probeSeq_nodup _ _
  -- a never-used slot exists
  have hex : ∃ i ∈ seq, slotFree ht i = true := by
    have : 0 < ht.countP (fun r => r == emptyHash) := by omega
    obtain ⟨r, hr, hre⟩ := List.countP_pos_iff.mp this
    obtain ⟨i, hi, rfl⟩ := List.getElem_of_mem hr
    refine ⟨i, probeSeq_mem _ _ i hi, ?_⟩
    have : ht[i] = emptyHash := by simpa using hre
    simp [slotFree, List.getElem?_eq_getElem hi, this, emptyHash]
  have hfresh : ∀ i ∈ seq, ∀ n1 n2 l bb, ht[i]? = some [n1, n2, l, bb] → bb ≠ 0xFFFFFFFF → bb ≠ 0xFFFFFFFE →
      ¬ (n1 = pairA names[k] ∧ n2 = pairB names[k]) := by
    intro i hi n1 n2 l bb hrow h1 _ hcontra
    have hi' := hseq i hi
    rw [List.getElem?_eq_getElem hi'] at hrow
    have hrow' : ht[i] = [n1, n2, l, bb] := by simpa using hrow
    rcases hslots i hi' with h | ⟨j, hjk, hj, h⟩
    · rw [h] at hrow'; simp [emptyHash] at hrow'; omega
    · rw [h] at hrow'
      simp only [List.cons.injEq, and_true] at hrow'
      obtain ⟨e1, e2, _, _⟩ := hrow'
      exact hd j k hj hk (by omega) ⟨by rw [e1]; exact hcontra.1, by rw [e2]; exact hcontra.2⟩
  have hblk : k ≠ 0xFFFFFFFF ∧ k ≠ 0xFFFFFFFE := by omega
  have hnew := findIn_insertIn ht (pairA names[k]) (pairB names[k]) k seq hwf hseq hnd hblk hfresh hex
  obtain ⟨p, hp, hpf, hpe⟩ := insertIn_spec ht [pairA names[k], pairB names[k], 0, k] seq hex
  have hp' := hseq p hp
  have hpempty : ht[p] = emptyHash := by
    rcases hslots p hp' with h | ⟨j, hjk, hj, h⟩
    · exact h
    · simp [slotFree, List.getElem?_eq_getElem hp', h] at hpf; omega
  have hins : insertHash ht names[k] k = ht.set p [pairA names[k], pairB names[k], 0, k] := by
    unfold insertHash; exact hpe
  rw [hins]
  refine ⟨by simpa using hlen, ?_, ?_, ?_⟩
  · intro i hi
    simp only [List.length_set] at hi
    by_cases hip : p = i
    · subst hip
      right; exact ⟨k, by omega, hk, by simp⟩
    · rw [List.getElem_set_ne hip]
      rcases hslots i hi with h | ⟨j, hjk, hj, h⟩
      · left; exact h
      · right; exact ⟨j, by omega, hj, h⟩
  · rw [List.countP_set hp']
    have : (ht[p] == emptyHash) = true := by simp [hpempty]
    simp only [this, if_true]
    split <;> omega
  · intro j hj hjk
    by_cases hjeq : j = k
    · subst hjeq
      unfold findBlock
      rw [List.length_set, if_neg (by omega), ← hpe]; exact hnew
    · have hold := hfound j hj (by omega)
      unfold findBlock at hold ⊢
      rw [List.length_set]
      rw [if_neg (by omega)] at hold ⊢
      exact findIn_set_free ht p _ _ _ j _ ⟨0xFFFFFFFF, 0xFFFFFFFF, 0xFFFFFFFF, by rw [List.getElem?_eq_getElem hp', hpempty]; rfl⟩ hold

/-- the builder's whole insertion loop: afterwards every name finds its own block index -/
theorem buildHash_inv (files : List FileSpec) (size : Nat) (g : List (List Nat) → FileSpec × Nat → List (List Nat))
    (hg : ∀ t f i, g t (f, i) = insertHash t f.name i)
    (hd : DistinctPairs (files.map (·.name))) (hle : files.length ≤ size) (hbig : files.length < 0xFFFFFFFE) :
    HtInv (files.map (·.name)) size (files.zipIdx.foldl g (List.replicate size emptyHash)) files.length := by
  have key : ∀ (rest pfx : List FileSpec) (ht : List (List Nat)), pfx ++ rest = files →
      HtInv (files.map (·.name)) size ht pfx.length →
      HtInv (files.map (·.name)) size ((rest.zipIdx pfx.length).foldl g ht) files.length := by
    intro rest
    induction rest with
    | nil => intro pfx ht h inv; simp at h; subst h; simpa using inv
    | cons f rest ih =>
      intro pfx ht h inv
      simp only [List.zipIdx_cons, List.foldl_cons, hg]
      have hk : pfx.length < (files.map (·.name)).length := by
        rw [← h]; simp
      have hname : (files.map (·.name))[pfx.length] = f.name := by
        simp only [List.getElem_map]
        have : files[pfx.length]'(by rw [← h]; simp) = f := by
          simp only [← h]; simp
        rw [this]
      have step := HtInv.step (files.map (·.name)) size ht pfx.length hd hk
        (by have : pfx.length < files.length := by rw [← h]; simp
            omega) (by simpa using hbig) inv
      rw [hname] at step
      have := ih (pfx ++ [f]) (insertHash ht f.name pfx.length) (by simp [h]) (by simpa using step)
      simpa using this
  simpa using key files [] _ rfl (HtInv.init _ _)

end Wv.Mpq
