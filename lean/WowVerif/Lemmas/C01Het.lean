/- lemmas for Model.C01Het: the extended hash table finds every inserted file, and the lookup confirmed by the block-entry
   table's name hashes resolves to the file itself -/
import WowVerif.Model.C01Het
import WowVerif.Lemmas.C01Hash
namespace Wv.Het
open Wv Wv.Mpq

theorem nameHash1_ne_free (full : Nat) : nameHash1 full ≠ FREE := by
  unfold nameHash1 fileNameHash FREE
  have h : full % 256 < 256 := Nat.mod_lt _ (by decide)
  have h1 : full % 256 ||| 128 < 2 ^ 8 := Nat.or_lt_two_pow h (by decide)
  have h2 : 128 ≤ full % 256 ||| 128 := Nat.right_le_or
  rw [Nat.mod_eq_of_lt h1]; omega

/-- the table keeps its size -/
theorem insertAt_len (t t' : Tab) (n i : Nat) (seq : List Nat) (h : insertAt t n i seq = some t') :
    t'.slots.length = t.slots.length ∧ t'.idx.length = t.idx.length := by
  induction seq with
  | nil => simp [insertAt] at h
  | cons p rest ih =>
    simp only [insertAt] at h
    split at h
    · cases h; simp
    · exact ih h

/-- an insertion replaces one free slot -/
theorem insertAt_spec (t t' : Tab) (n i : Nat) (seq : List Nat) (h : insertAt t n i seq = some t') :
    ∃ p, t.slots[p]? = some FREE ∧ t' = { slots := t.slots.set p n, idx := t.idx.set p i } := by
  induction seq with
  | nil => simp [insertAt] at h
  | cons p rest ih =>
    simp only [insertAt] at h
    split at h
    · rename_i hp; cases h; exact ⟨p, hp, rfl⟩
    · exact ih h

/-- what a lookup found stays found when a free slot is filled -/
theorem cand_set_free (t : Tab) (p n' i' n m j : Nat) (seq : List Nat) (hp : t.slots[p]? = some FREE)
    (h : j ∈ candidatesIn t n m seq) :
    j ∈ candidatesIn { slots := t.slots.set p n', idx := t.idx.set p i' } n m seq := by
  induction seq with
  | nil => simp [candidatesIn] at h
  | cons q rest ih =>
    by_cases hq : q = p
    · subst hq
      simp [candidatesIn, hp] at h
    · simp only [candidatesIn] at h ⊢
      rw [List.getElem?_set_ne (fun h' => hq h'.symm), List.getElem?_set_ne (fun h' => hq h'.symm)]
      generalize t.slots[q]? = s at h ⊢
      cases s with
      | none => simp at h
      | some s =>
        simp only at h ⊢
        split
        · rename_i hs; simp [hs] at h
        · rename_i hs
          simp only [hs, if_false] at h
          split
          · rename_i hn
            simp only [hn, if_true] at h
            generalize t.idx[q]? = ix at h ⊢
            cases ix with
            | none => exact ih h
            | some ix =>
              simp only at h ⊢
              split
              · rename_i hlt
                simp only [hlt, if_true] at h
                rcases List.mem_cons.1 h with rfl | h
                · exact List.mem_cons_self
                · exact List.mem_cons_of_mem _ (ih h)
              · rename_i hlt
                simp only [hlt, if_false] at h
                exact ih h
          · rename_i hn
            simp only [hn, if_false] at h
            exact ih h

/-- right after its insertion a file is among the candidates of its own lookup -/
theorem cand_after_insert (t t' : Tab) (n i m : Nat) (seq : List Nat) (hn : n ≠ FREE) (him : i < m)
    (hlen : t.idx.length = t.slots.length) (hb : ∀ p ∈ seq, p < t.slots.length)
    (h : insertAt t n i seq = some t') : i ∈ candidatesIn t' n m seq := by
  induction seq with
  | nil => simp [insertAt] at h
  | cons p rest ih =>
    have hpb := hb p (by simp)
    simp only [insertAt] at h
    split at h
    · cases h
      simp only [candidatesIn]
      rw [List.getElem?_set_self (by omega), List.getElem?_set_self (by omega)]
      simp [hn, him]
    · rename_i hp
      have ih' := ih (fun q hq => hb q (by simp [hq])) h
      obtain ⟨p', hp', rfl⟩ := insertAt_spec t t' n i rest h
      have hne : p' ≠ p := by intro e; subst e; exact hp hp'
      simp only [candidatesIn]
      rw [List.getElem?_set_ne hne, List.getElem?_set_ne hne]
      have : ∃ s, t.slots[p]? = some s := ⟨t.slots[p], by simp [hpb]⟩
      obtain ⟨s, hs⟩ := this
      rw [hs]
      have hsf : s ≠ FREE := by intro e; subst e; exact hp hs
      simp only [hsf, if_false]
      split
      · generalize t.idx[p]? = ix
        cases ix with
        | none => exact ih'
        | some ix =>
          simp only
          split
          · exact List.mem_cons_of_mem _ ih'
          · exact ih'
      · exact ih'

/-- every candidate is a file index below the bound -/
theorem cand_lt (t : Tab) (n m c : Nat) (seq : List Nat) (h : c ∈ candidatesIn t n m seq) : c < m := by
  induction seq with
  | nil => simp [candidatesIn] at h
  | cons p rest ih =>
    simp only [candidatesIn] at h
    generalize t.slots[p]? = s at h
    cases s with
    | none => simp at h
    | some s =>
      simp only at h
      split at h
      · simp at h
      · split at h
        · generalize t.idx[p]? = ix at h
          cases ix with
          | none => exact ih h
          | some ix =>
            simp only at h
            split at h
            · rcases List.mem_cons.1 h with rfl | h
              · assumption
              · exact ih h
            · exact ih h
        · exact ih h

theorem insert_len (t t' : Tab) (full i : Nat) (h : insert t full i = some t') :
    t'.slots.length = t.slots.length ∧ t'.idx.length = t.idx.length := insertAt_len t t' _ _ _ h

theorem lookup_mono (t t' : Tab) (full i m f j : Nat) (h : insert t full i = some t') (hj : j ∈ lookup t m f) :
    j ∈ lookup t' m f := by
  have hl := insert_len t t' full i h
  obtain ⟨p, hp, rfl⟩ := insertAt_spec t _ _ _ _ h
  unfold lookup at hj ⊢
  simp only [List.length_set] at hl ⊢
  split
  · rename_i h0; simp [h0] at hj
  · rename_i h0
    simp only [h0, if_false] at hj
    exact cand_set_free t p _ _ _ m j _ hp hj

theorem lookup_after_insert (t t' : Tab) (full i m : Nat) (him : i < m) (hlen : t.idx.length = t.slots.length)
    (h : insert t full i = some t') : i ∈ lookup t' m full := by
  have hl := insert_len t t' full i h
  have hpos : 0 < t.slots.length := by
    rcases Nat.eq_zero_or_pos t.slots.length with h0 | h0
    · simp [insert, h0, probeSeq, insertAt] at h
    · exact h0
  unfold lookup
  rw [hl.1]
  simp only [show ¬ t.slots.length = 0 by omega, if_false]
  exact cand_after_insert t t' _ i m _ (nameHash1_ne_free full) him hlen (probeSeq_lt _ _ hpos) h

/-- THE TABLE FINDS EVERY FILE: after the files are inserted in order, each file's index is among the candidates of a
    lookup of its own hash -/
theorem buildFrom_finds (t t' : Tab) (k m : Nat) (hs : List Nat) (hlen : t.idx.length = t.slots.length)
    (hm : k + hs.length ≤ m) (h : buildFrom t k hs = some t') :
    (∀ f j, j ∈ lookup t m f → j ∈ lookup t' m f) ∧ ∀ q (hq : q < hs.length), k + q ∈ lookup t' m hs[q] := by
  induction hs generalizing t k with
  | nil => simp only [buildFrom, Option.some.injEq] at h; subst h; exact ⟨fun _ _ hj => hj, fun q hq => by simp at hq⟩
  | cons a rest ih =>
    simp only [buildFrom] at h
    split at h
    · cases h
    · rename_i t1 hins
      have hl := insert_len t t1 a k hins
      simp only [List.length_cons] at hm
      obtain ⟨mono, found⟩ := ih t1 (k + 1) (by omega) (by omega) h
      refine ⟨fun f j hj => mono f j (lookup_mono t t1 a k m f j hins hj), ?_⟩
      intro q hq
      cases q with
      | zero =>
        simp only [List.getElem_cons_zero, Nat.add_zero]
        exact mono a k (lookup_after_insert t t1 a k m (by omega) hlen hins)
      | succ q =>
        simp only [List.getElem_cons_succ]
        have := found q (by simpa using hq)
        rw [show k + (q + 1) = k + 1 + q by omega]
        exact this

theorem build_finds (hashes : List Nat) (t : Tab) (h : build hashes = some t) (k : Nat) (hk : k < hashes.length) :
    k ∈ lookup t hashes.length hashes[k] := by
  have := (buildFrom_finds _ t 0 hashes.length hashes (by simp [init]) (by omega) h).2 k hk
  simpa using this

/-- LOOKUP RESOLVES TO THE FILE ITSELF: with pairwise different 64-bit name hashes, the first candidate confirmed by
    the block-entry table's hash array is the file's own index -/
theorem resolve_own (hashes : List Nat) (t : Tab) (h : build hashes = some t)
    (hd : hashes.Pairwise (· ≠ ·)) (k : Nat) (hk : k < hashes.length) :
    resolve hashes hashes[k] (lookup t hashes.length hashes[k]) = some k := by
  have hmem := build_finds hashes t h k hk
  unfold resolve
  generalize lookup t hashes.length hashes[k] = cs at hmem
  induction cs with
  | nil => simp at hmem
  | cons c rest ih =>
    simp only [List.find?_cons]
    by_cases hc : hashes[c]? = some hashes[k]
    · simp only [hc, decide_true]
      have hcl : c < hashes.length := by
        rcases Nat.lt_or_ge c hashes.length with h' | h'
        · exact h'
        · rw [List.getElem?_eq_none h'] at hc; cases hc
      rw [List.getElem?_eq_getElem hcl, Option.some.injEq] at hc
      have : c = k := by
        rcases Nat.lt_trichotomy c k with h1 | h1 | h1
        · exact absurd hc (List.pairwise_iff_getElem.1 hd c k hcl hk h1)
        · exact h1
        · exact absurd hc.symm (List.pairwise_iff_getElem.1 hd k c hk hcl h1)
      rw [this]
    · simp only [hc, decide_false]
      rcases List.mem_cons.1 hmem with rfl | hm
      · exact absurd (List.getElem?_eq_getElem hk) hc
      · exact ih hm

/-- A NAME THAT WAS NEVER ADDED RESOLVES TO NOTHING (whatever the 8-bit table says): no candidate is confirmed -/
theorem resolve_absent (hashes : List Nat) (t : Tab) (full : Nat) (hn : full ∉ hashes) (m : Nat) :
    resolve hashes full (lookup t m full) = none := by
  unfold resolve
  rw [List.find?_eq_none]
  intro c _ hc
  simp only [decide_eq_true_eq] at hc
  exact hn (List.mem_of_getElem? hc)

def freeCount (t : Tab) : Nat := t.slots.count FREE

theorem insertAt_some_of_free (t : Tab) (n i : Nat) (seq : List Nat) (h : ∃ p ∈ seq, t.slots[p]? = some FREE) :
    ∃ t', insertAt t n i seq = some t' := by
  induction seq with
  | nil => obtain ⟨p, hp, _⟩ := h; simp at hp
  | cons q rest ih =>
    simp only [insertAt]
    split
    · exact ⟨_, rfl⟩
    · rename_i hq
      apply ih
      obtain ⟨p, hp, hpf⟩ := h
      rcases List.mem_cons.1 hp with rfl | hp
      · exact absurd hpf hq
      · exact ⟨p, hp, hpf⟩

theorem exists_free_of_count (l : List Nat) (h : 0 < l.count FREE) : ∃ p, p < l.length ∧ l[p]? = some FREE := by
  have hm : FREE ∈ l := List.count_pos_iff.1 h
  obtain ⟨p, hp, he⟩ := List.getElem_of_mem hm
  exact ⟨p, hp, by simp [hp, he]⟩

theorem insert_some (t : Tab) (full i : Nat) (h : 0 < freeCount t) : ∃ t', insert t full i = some t' := by
  obtain ⟨p, hp, hf⟩ := exists_free_of_count t.slots h
  exact insertAt_some_of_free t _ _ _ ⟨p, probeSeq_mem _ _ p hp, hf⟩

theorem insert_freeCount (t t' : Tab) (full i : Nat) (h : insert t full i = some t') : freeCount t' + 1 = freeCount t := by
  obtain ⟨p, hp, rfl⟩ := insertAt_spec t _ _ _ _ h
  have hpl : p < t.slots.length := by
    rcases Nat.lt_or_ge p t.slots.length with h' | h'
    · exact h'
    · rw [List.getElem?_eq_none h'] at hp; cases hp
  have hv : t.slots[p] = FREE := by rw [List.getElem?_eq_getElem hpl] at hp; exact Option.some.inj hp
  unfold freeCount
  simp only
  rw [List.count_set hpl]
  have hne : (nameHash1 full == FREE) = false := by simpa using nameHash1_ne_free full
  have hpos : 0 < t.slots.count FREE := List.count_pos_iff.2 (hv ▸ List.getElem_mem hpl)
  simp [hv, hne]
  omega

/-- the builder's table never fills up: with more free slots than files left, every insertion succeeds -/
theorem buildFrom_some (t : Tab) (k : Nat) (hs : List Nat) (h : hs.length ≤ freeCount t) : ∃ t', buildFrom t k hs = some t' := by
  induction hs generalizing t k with
  | nil => exact ⟨t, rfl⟩
  | cons a rest ih =>
    simp only [List.length_cons] at h
    obtain ⟨t1, h1⟩ := insert_some t a k (by omega)
    have := insert_freeCount t t1 a k h1
    simp only [buildFrom, h1]
    exact ih t1 (k + 1) (by omega)

theorem le_nextPow2 (f p n : Nat) (hp : 0 < p) (h : n ≤ p + f) : n ≤ nextPow2 f p n := by
  induction f generalizing p with
  | zero => simpa [nextPow2] using h
  | succ f ih =>
    simp only [nextPow2]
    split
    · exact ih (p * 2) (by omega) (by omega)
    · omega

/-- THE BUILDER ALWAYS COMPLETES THE EXTENDED HASH TABLE: `2·count` rounded up to a power of two leaves room for every file -/
theorem build_some (hashes : List Nat) : ∃ t, build hashes = some t := by
  unfold build
  apply buildFrom_some
  simp only [freeCount, init, List.count_replicate_self, tableSize]
  have := le_nextPow2 (2 * hashes.length) 1 (2 * hashes.length) (by decide) (by omega)
  omega

end Wv.Het
