/- helper lemmas and proofs for C17 (DBC) -/
import WowVerif.Model.C17Dbc
import WowVerif.Lemmas.Bytes
namespace Wv.Dbc
open Wv
set_option linter.unusedSimpArgs false

theorem size_pow (ty : FT) : 2 ^ (8 * ty.size) = 256 ^ ty.size := by
  cases ty <;> decide

/-- the value a parser reads back for a cell: numbers as they are, strings as their block offset -/
def cellNum (offs : List (Bytes × Nat)) : Cell → Nat
  | .num v => v
  | .str s => (lookupOff offs s).getD 0

theorem decodeScalar_encodeCell (offs : List (Bytes × Nat)) (ty : FT) (c : Cell) (rest : Bytes)
    (hc : cellOk ty c = true) (ho : ∀ s, c = .str s → (lookupOff offs s).getD 0 < 2 ^ 32) :
    decodeScalar ty (encodeCell offs ty c ++ rest) = some (cellNum offs c, rest) := by
  cases c with
  | num v =>
    simp only [cellOk, Bool.and_eq_true, bne_iff_ne, ne_eq, decide_eq_true_eq, Bool.or_eq_true] at hc
    obtain ⟨⟨h1, h2⟩, h3⟩ := hc
    rw [size_pow] at h2
    simp only [decodeScalar, encodeCell, cellNum]
    simp only [List.take_left' (natLE_length _ _), List.drop_left' (natLE_length _ _), leNat_natLE _ _ h2,
      natLE_length, if_true]
    by_cases hb : ty = .bool
    · simp only [hb, if_true]
      have : v ≤ 1 := by cases h3 with | inl h => exact absurd hb h | inr h => exact h
      by_cases hv : v = 0
      · simp [hv]
      · have : v = 1 := by omega
        simp [this]
    · simp [hb]
  | str s =>
    simp only [cellOk, Bool.and_eq_true, beq_iff_eq] at hc
    have hty := hc.1.1
    have := ho s rfl
    subst hty
    simp only [decodeScalar, encodeCell, cellNum, FT.size]
    have hl : (natLE 4 ((lookupOff offs s).getD 0)).length = 4 := natLE_length _ _
    simp only [List.take_left' hl, List.drop_left' hl, hl, if_true]
    rw [leNat_natLE _ _ (by simpa using this)]
    simp

def OffsOk (offs : List (Bytes × Nat)) (r : Row) : Prop :=
  ∀ s, Cell.str s ∈ r → (lookupOff offs s).getD 0 < 2 ^ 32

theorem decodeRow_encodeRow (offs : List (Bytes × Nat)) (tys : List FT) (r : Row) (rest : Bytes)
    (hr : rowOk tys r = true) (ho : OffsOk offs r) :
    decodeRow tys (encodeRow offs tys r ++ rest) = some (r.map (cellNum offs), rest) := by
  induction tys generalizing r with
  | nil =>
    cases r with
    | nil => simp [decodeRow, encodeRow]
    | cons c cs => simp [rowOk] at hr
  | cons ty tys ih =>
    cases r with
    | nil => simp [rowOk] at hr
    | cons c cs =>
      simp only [rowOk, Bool.and_eq_true] at hr
      simp only [encodeRow, decodeRow, List.append_assoc]
      rw [decodeScalar_encodeCell offs ty c _ hr.1 (by intro s hs; exact ho s (by simp [hs]))]
      simp only
      rw [ih cs hr.2 (by intro s hs; exact ho s (by simp [hs]))]
      simp

theorem decodeRows_encode (offs : List (Bytes × Nat)) (tys : List FT) (t : Table) (rest : Bytes)
    (ht : t.all (rowOk tys) = true) (ho : ∀ r ∈ t, OffsOk offs r) :
    decodeRows tys t.length (t.flatMap (encodeRow offs tys) ++ rest) = some (t.map (·.map (cellNum offs))) := by
  induction t with
  | nil => simp [decodeRows]
  | cons r rs ih =>
    simp only [List.all_cons, Bool.and_eq_true] at ht
    simp only [List.length_cons, decodeRows, List.flatMap_cons, List.append_assoc]
    rw [decodeRow_encodeRow offs tys r _ ht.1 (ho r (by simp))]
    simp only
    rw [ih ht.2 (by intro r' hr'; exact ho r' (by simp [hr']))]
    simp

theorem encodeRow_length (offs : List (Bytes × Nat)) (tys : List FT) (r : Row) (hr : rowOk tys r = true) :
    (encodeRow offs tys r).length = (tys.map FT.size).sum := by
  induction tys generalizing r with
  | nil => cases r <;> simp_all [encodeRow, rowOk]
  | cons ty tys ih =>
    cases r with
    | nil => simp [rowOk] at hr
    | cons c cs =>
      simp only [rowOk, Bool.and_eq_true] at hr
      simp only [encodeRow, List.length_append, List.map_cons, List.sum_cons, ih cs hr.2]
      cases c with
      | num v => simp [encodeCell, natLE_length]
      | str s =>
        have : ty = .str := by have := hr.1; simp [cellOk] at this; exact this.1.1
        simp [encodeCell, natLE_length, this, FT.size]

theorem flatTypes_size (s : Schema) : ((flatTypes s).map FT.size).sum = recordSize s := by
  induction s with
  | nil => rfl
  | cons f fs ih =>
    simp only [flatTypes, List.flatMap_cons, List.map_append, List.sum_append, recordSize, List.map_cons, List.sum_cons] at *
    rw [ih]
    simp [Field.size, Nat.mul_comm]

theorem records_length (offs : List (Bytes × Nat)) (s : Schema) (t : Table) (ht : tableOk s t = true) :
    (t.flatMap (encodeRow offs (flatTypes s))).length = t.length * recordSize s := by
  induction t with
  | nil => simp
  | cons r rs ih =>
    simp only [tableOk, List.all_cons, Bool.and_eq_true] at ht
    simp only [List.flatMap_cons, List.length_append, List.length_cons]
    rw [encodeRow_length _ _ _ ht.1, flatTypes_size, ih (by simpa [tableOk] using ht.2)]
    rw [Nat.add_mul]; omega

/-! ### string interning invariant -/

def NulFree (s : Bytes) : Prop := ∀ b ∈ s, b ≠ 0
/-- what the writer can store and the reader returns: no NUL inside, well-formed UTF-8 -/
def StrOk (s : Bytes) : Prop := NulFree s ∧ utf8Valid s = true

theorem takeWhile_nul (s post : Bytes) (h : NulFree s) :
    (s ++ 0 :: post).takeWhile (· != 0) = s := by
  induction s with
  | nil => simp
  | cons b bs ih =>
    have hb : b ≠ 0 := h b (by simp)
    simp only [List.cons_append, List.takeWhile_cons, bne_iff_ne, ne_eq, hb, not_false_eq_true, decide_true, if_true]
    rw [ih (fun x hx => h x (by simp [hx]))]

theorem getString_entry (block pre s post : Bytes) (off : Nat) (hb : block = pre ++ s ++ 0 :: post)
    (hp : pre.length = off) (hs : StrOk s) : getString block off = some s := by
  subst hb
  unfold getString
  have : off < (pre ++ s ++ 0 :: post).length := by simp; omega
  rw [if_pos this, List.append_assoc, List.drop_left' hp, takeWhile_nul s post hs.1]
  simp [hs.2]

structure IInv (st : Intern) : Prop where
  blk : st.block = st.offs.flatMap (fun p => p.1 ++ [0])
  ent : ∀ p ∈ st.offs, ∃ pre post, st.block = pre ++ p.1 ++ 0 :: post ∧ pre.length = p.2
  nul : ∀ p ∈ st.offs, StrOk p.1
  nodup : (st.offs.map (·.1)).Nodup

theorem inv_init : IInv ({} : Intern) := by
  refine ⟨by simp, ?_, ?_, by simp⟩
  · intro p hp; simp at hp; subst hp; exact ⟨[], [], by simp, rfl⟩
  · intro p hp; simp at hp; subst hp; exact ⟨by intro b hb; simp at hb, rfl⟩

theorem lookup_none_not_mem (offs : List (Bytes × Nat)) (s : Bytes) (h : lookupOff offs s = none) :
    s ∉ offs.map (·.1) := by
  intro hm
  simp only [List.mem_map] at hm
  obtain ⟨p, hp, rfl⟩ := hm
  simp only [lookupOff, Option.map_eq_none_iff, List.find?_eq_none] at h
  exact h p hp (by simp)

theorem lookup_some_mem (offs : List (Bytes × Nat)) (s : Bytes) (off : Nat) (h : lookupOff offs s = some off) :
    (s, off) ∈ offs := by
  simp only [lookupOff, Option.map_eq_some_iff] at h
  obtain ⟨p, hp, rfl⟩ := h
  have hm := List.mem_of_find?_eq_some hp
  have he := List.find?_some hp
  simp only [beq_iff_eq] at he
  rw [← he]; exact hm

theorem inv_add (st : Intern) (s : Bytes) (hs : StrOk s) (h : IInv st) : IInv (st.add s) := by
  unfold Intern.add
  cases hl : lookupOff st.offs s with
  | some o => simpa using h
  | none =>
    simp only
    refine ⟨?_, ?_, ?_, ?_⟩
    · simp [List.flatMap_append, h.blk]
    · intro p hp
      simp only [List.mem_append, List.mem_singleton] at hp
      cases hp with
      | inl hp =>
        obtain ⟨pre, post, hb, hl⟩ := h.ent p hp
        exact ⟨pre, post ++ s ++ [0], by rw [hb]; simp, hl⟩
      | inr hp => subst hp; exact ⟨st.block, [], by simp, rfl⟩
    · intro p hp
      simp only [List.mem_append, List.mem_singleton] at hp
      cases hp with
      | inl hp => exact h.nul p hp
      | inr hp => subst hp; exact hs
    · simp only [List.map_append, List.map_cons, List.map_nil]
      rw [List.nodup_append]
      refine ⟨h.nodup, by simp, ?_⟩
      intro a ha b hb
      simp at hb; subst hb
      intro hab; subst hab
      exact lookup_none_not_mem _ _ hl ha

theorem lookup_add_mono (st : Intern) (s s' : Bytes) (o : Nat) (h : lookupOff st.offs s = some o) :
    lookupOff (st.add s').offs s = some o := by
  unfold Intern.add
  cases hl : lookupOff st.offs s' with
  | some _ => simpa using h
  | none =>
    simp only [lookupOff, List.find?_append] at *
    simp only [Option.map_eq_some_iff] at h
    obtain ⟨p, hp, rfl⟩ := h
    simp [hp]

theorem lookup_add_self (st : Intern) (s : Bytes) : ∃ o, lookupOff (st.add s).offs s = some o := by
  unfold Intern.add
  cases hl : lookupOff st.offs s with
  | some o => exact ⟨o, by simpa using hl⟩
  | none =>
    refine ⟨st.block.length, ?_⟩
    simp only [lookupOff, List.find?_append] at *
    simp only [Option.map_eq_none_iff] at hl
    simp [hl]

theorem foldl_add_inv (l : List Bytes) (st : Intern) (hl : ∀ s ∈ l, StrOk s) (h : IInv st) :
    IInv (l.foldl Intern.add st) := by
  induction l generalizing st with
  | nil => exact h
  | cons s ss ih =>
    exact ih _ (fun x hx => hl x (by simp [hx])) (inv_add st s (hl s (by simp)) h)

theorem foldl_add_lookup_mono (l : List Bytes) (st : Intern) (s : Bytes) (o : Nat)
    (h : lookupOff st.offs s = some o) : lookupOff (l.foldl Intern.add st).offs s = some o := by
  induction l generalizing st with
  | nil => exact h
  | cons s' ss ih => exact ih _ (lookup_add_mono st s s' o h)

theorem foldl_add_lookup (l : List Bytes) (st : Intern) (s : Bytes) (hs : s ∈ l) :
    ∃ o, lookupOff (l.foldl Intern.add st).offs s = some o := by
  induction l generalizing st with
  | nil => simp at hs
  | cons s' ss ih =>
    simp only [List.mem_cons] at hs
    cases hs with
    | inl h =>
      subst h
      obtain ⟨o, ho⟩ := lookup_add_self st s
      exact ⟨o, foldl_add_lookup_mono ss _ s o ho⟩
    | inr h => exact ih _ h

/-! ### the round trip -/

structure Fits (s : Schema) (t : Table) : Prop where
  nrec : t.length < 2 ^ 32
  nfield : elemCount s < 2 ^ 32
  rsize : recordSize s < 2 ^ 32
  ssize : (intern t).block.length < 2 ^ 32
  nonzero : t ≠ [] → recordSize s ≠ 0 ∧ elemCount s ≠ 0

theorem resolveRow_ok (block : Bytes) (offs : List (Bytes × Nat)) (tys : List FT) (r : Row)
    (hr : rowOk tys r = true)
    (hs : ∀ s, Cell.str s ∈ r → getString block ((lookupOff offs s).getD 0) = some s) :
    resolveRow block tys (r.map (cellNum offs)) = some r := by
  induction tys generalizing r with
  | nil => cases r <;> simp_all [resolveRow, rowOk]
  | cons ty tys ih =>
    cases r with
    | nil => simp [rowOk] at hr
    | cons c cs =>
      simp only [rowOk, Bool.and_eq_true] at hr
      simp only [List.map_cons, resolveRow]
      rw [ih cs hr.2 (fun s h => hs s (by simp [h]))]
      cases c with
      | num v =>
        have : ty ≠ .str := by have := hr.1; simp [cellOk] at this; exact this.1.1
        simp [this, cellNum]
      | str s =>
        have : ty = .str := by have := hr.1; simp [cellOk] at this; exact this.1.1
        simp [this, cellNum, hs s (by simp)]

theorem mapM_some {α β} (f : α → Option β) (l : List α) (g : α → β) (h : ∀ a ∈ l, f a = some (g a)) :
    l.mapM f = some (l.map g) := by
  induction l with
  | nil => rfl
  | cons a as ih =>
    simp only [List.mapM_cons, h a (by simp), ih (fun x hx => h x (by simp [hx]))]
    rfl

theorem mapM_map_some {α β} (f : β → Option α) (h : α → β) (t : List α) (H : ∀ a ∈ t, f (h a) = some a) :
    (t.map h).mapM f = some t := by
  induction t with
  | nil => rfl
  | cons a as ih =>
    simp only [List.map_cons, List.mapM_cons, H a (by simp), ih (fun x hx => H x (by simp [hx]))]
    rfl

theorem strings_mem (t : Table) (r : Row) (hr : r ∈ t) (s : Bytes) (hs : Cell.str s ∈ r) : s ∈ tableStrings t := by
  simp only [tableStrings, List.mem_flatMap]
  exact ⟨r, hr, by simp only [cellStrings, List.mem_filterMap]; exact ⟨_, hs, rfl⟩⟩

theorem strings_nulfree (s : Schema) (t : Table) (ht : tableOk s t = true) : ∀ x ∈ tableStrings t, StrOk x := by
  intro x hx
  simp only [tableStrings, List.mem_flatMap, cellStrings, List.mem_filterMap] at hx
  obtain ⟨r, hr, c, hc, hcx⟩ := hx
  cases c with
  | num v => simp at hcx
  | str s' =>
    simp at hcx; subst hcx
    simp only [tableOk, List.all_eq_true] at ht
    have hrow := ht r hr
    -- walk the row to the cell
    have : ∀ (tys : List FT) (r : Row), rowOk tys r = true → Cell.str s' ∈ r → StrOk s' := by
      intro tys
      induction tys with
      | nil => intro r h hm; cases r <;> simp_all [rowOk]
      | cons ty tys ih =>
        intro r h hm
        cases r with
        | nil => simp at hm
        | cons c cs =>
          simp only [rowOk, Bool.and_eq_true] at h
          simp only [List.mem_cons] at hm
          cases hm with
          | inl he =>
            subst he
            have := h.1; simp [cellOk] at this
            exact ⟨fun b hb => this.1.2 b hb, this.2⟩
          | inr hm => exact ih cs h.2 hm
    exact this _ r hrow hc

theorem dbc_parse_write (s : Schema) (t : Table) (ht : tableOk s t = true) (hf : Fits s t) :
    ∃ p, parse s (write s t) = .ok p ∧ resolve s p = some t := by
  have hinv : IInv (intern t) := foldl_add_inv _ _ (strings_nulfree s t ht) inv_init
  -- every string of the table resolves through its recorded offset
  have hstr : ∀ r ∈ t, ∀ x, Cell.str x ∈ r →
      getString (intern t).block ((lookupOff (intern t).offs x).getD 0) = some x ∧
      (lookupOff (intern t).offs x).getD 0 < 2 ^ 32 := by
    intro r hr x hx
    obtain ⟨o, ho⟩ := foldl_add_lookup (tableStrings t) {} x (strings_mem t r hr x hx)
    have hm := lookup_some_mem _ _ _ ho
    obtain ⟨pre, post, hb, hl⟩ := hinv.ent _ hm
    have hg := getString_entry _ pre x post o hb hl (hinv.nul _ hm)
    have hlt : o < (intern t).block.length := by rw [hb]; simp; omega
    simp only [intern] at ho hg hlt ⊢
    rw [ho]; simp only [Option.getD_some]
    exact ⟨hg, by have := hf.ssize; simp only [intern] at this; omega⟩
  refine ⟨{ rows := t.map (·.map (cellNum (intern t).offs)), block := (intern t).block }, ?_, ?_⟩
  · -- parsing
    have hrecs := records_length (intern t).offs s t ht
    have hdec := decodeRows_encode (intern t).offs (flatTypes s) t (intern t).block
      (by simpa [tableOk] using ht) (fun r hr x hx => (hstr r hr x hx).2)
    have p256 : (2:Nat) ^ 32 = 256 ^ 4 := by decide
    have e1 := leNat_natLE 4 t.length (by rw [← p256]; exact hf.nrec)
    have e2 := leNat_natLE 4 (elemCount s) (by rw [← p256]; exact hf.nfield)
    have e3 := leNat_natLE 4 (recordSize s) (by rw [← p256]; exact hf.rsize)
    have e4 := leNat_natLE 4 (intern t).block.length (by rw [← p256]; exact hf.ssize)
    have l1 := natLE_length 4 t.length
    have l2 := natLE_length 4 (elemCount s)
    have l3 := natLE_length 4 (recordSize s)
    have l4 := natLE_length 4 (intern t).block.length
    unfold parse write header
    simp only [List.append_assoc]
    generalize hR : t.flatMap (encodeRow (intern t).offs (flatTypes s)) = R at *
    generalize hB : (intern t).block = B at *
    generalize hO : (intern t).offs = O at *
    generalize h1 : natLE 4 t.length = f1 at *
    generalize h2 : natLE 4 (elemCount s) = f2 at *
    generalize h3 : natLE 4 (recordSize s) = f3 at *
    generalize h4 : natLE 4 B.length = f4 at *
    have hlen : ([0x57, 0x44, 0x42, 0x43] ++ (f1 ++ (f2 ++ (f3 ++ (f4 ++ (R ++ B)))))).length = 20 + R.length + B.length := by
      simp [l1, l2, l3, l4]; omega
    have d4 : ([0x57, 0x44, 0x42, 0x43] ++ (f1 ++ (f2 ++ (f3 ++ (f4 ++ (R ++ B)))))).drop 4 = f1 ++ (f2 ++ (f3 ++ (f4 ++ (R ++ B)))) := by
      simp
    have d8 : ([0x57, 0x44, 0x42, 0x43] ++ (f1 ++ (f2 ++ (f3 ++ (f4 ++ (R ++ B)))))).drop 8 = f2 ++ (f3 ++ (f4 ++ (R ++ B))) := by
      rw [show 8 = 4 + 4 from rfl, ← List.drop_drop, d4, List.drop_left' l1]
    have d12 : ([0x57, 0x44, 0x42, 0x43] ++ (f1 ++ (f2 ++ (f3 ++ (f4 ++ (R ++ B)))))).drop 12 = f3 ++ (f4 ++ (R ++ B)) := by
      rw [show 12 = 8 + 4 from rfl, ← List.drop_drop, d8, List.drop_left' l2]
    have d16 : ([0x57, 0x44, 0x42, 0x43] ++ (f1 ++ (f2 ++ (f3 ++ (f4 ++ (R ++ B)))))).drop 16 = f4 ++ (R ++ B) := by
      rw [show 16 = 12 + 4 from rfl, ← List.drop_drop, d12, List.drop_left' l3]
    have d20 : ([0x57, 0x44, 0x42, 0x43] ++ (f1 ++ (f2 ++ (f3 ++ (f4 ++ (R ++ B)))))).drop 20 = R ++ B := by
      rw [show 20 = 16 + 4 from rfl, ← List.drop_drop, d16, List.drop_left' l4]
    rw [if_neg (by rw [hlen]; omega)]
    rw [if_neg (by simp)]
    rw [if_neg (by rw [hlen]; omega)]
    simp only [d4, d8, d12, d16, d20, List.take_left' l1, List.take_left' l2, List.take_left' l3, List.take_left' l4,
      e1, e2, e3, e4]
    have hnz : ¬ (recordSize s = 0 ∧ t.length > 0) := by
      intro ⟨h, hl⟩; exact (hf.nonzero (by intro h0; simp [h0] at hl)).1 h
    have hnz2 : ¬ (elemCount s = 0 ∧ t.length > 0) := by
      intro ⟨h, hl⟩; exact (hf.nonzero (by intro h0; simp [h0] at hl)).2 h
    rw [if_neg hnz, if_neg hnz2, if_neg (by simp)]
    rw [hdec]
    simp only
    have hs : slice ([0x57, 0x44, 0x42, 0x43] ++ (f1 ++ (f2 ++ (f3 ++ (f4 ++ (R ++ B)))))) (20 + t.length * recordSize s) B.length = some B := by
      unfold slice
      rw [if_pos (by rw [hlen, hrecs]; omega)]
      rw [← hrecs, ← List.drop_drop, d20, List.drop_left' rfl]
      simp
    rw [hs]
  · -- resolving
    simp only [resolve]
    apply mapM_map_some
    intro r hr
    have hrow : rowOk (flatTypes s) r = true := by
      have := ht; simp only [tableOk, List.all_eq_true] at this; exact this r hr
    exact resolveRow_ok _ _ _ r hrow (fun x hx => (hstr r hr x hx).1)

theorem header_length (a b c d : Nat) : (header a b c d).length = 20 := by
  simp [header, natLE_length]

theorem dbc_size_formula (s : Schema) (t : Table) (ht : tableOk s t = true) :
    (write s t).length = 20 + t.length * recordSize s + (intern t).block.length := by
  simp only [write, List.length_append, header_length, records_length _ s t ht]

theorem decodeScalar_consumes (ty : FT) (bs rest : Bytes) (v : Nat) (h : decodeScalar ty bs = some (v, rest)) :
    rest = bs.drop ty.size ∧ ty.size ≤ bs.length := by
  unfold decodeScalar at h
  simp only at h
  split at h
  · rename_i hl
    simp at h
    refine ⟨h.2.symm, ?_⟩
    rw [List.length_take] at hl; omega
  · simp at h

theorem decodeRow_consumes (tys : List FT) (bs rest : Bytes) (vs : List Nat)
    (h : decodeRow tys bs = some (vs, rest)) : rest = bs.drop (tys.map FT.size).sum := by
  induction tys generalizing bs vs rest with
  | nil => simp [decodeRow] at h; simp [h.2]
  | cons ty tys ih =>
    simp only [decodeRow] at h
    split at h
    · simp at h
    · rename_i v r1 h1
      split at h
      · simp at h
      · rename_i vs' r2 h2
        simp at h
        have := ih _ _ _ h2
        have c := (decodeScalar_consumes _ _ _ _ h1).1
        rw [← h.2, this, c, List.drop_drop]; simp

/-- eager (sequential cursor) decoding agrees with seek-based decoding of record `i` at `i · record_size`,
    for every byte string — not only for files the writer produced -/
theorem eager_eq_seek (tys : List FT) (n : Nat) (bs : Bytes) (rows : List (List Nat))
    (h : decodeRows tys n bs = some rows) :
    rows.length = n ∧ ∀ i (hi : i < rows.length),
      (decodeRow tys (bs.drop (i * (tys.map FT.size).sum))).map (·.1) = some rows[i] := by
  induction n generalizing bs rows with
  | zero => simp [decodeRows] at h; subst h; simp
  | succ n ih =>
    simp only [decodeRows] at h
    split at h
    · simp at h
    · rename_i r rest h1
      split at h
      · simp at h
      · rename_i rs h2
        simp at h; subst h
        obtain ⟨hl, hrec⟩ := ih _ _ h2
        refine ⟨by simp [hl], ?_⟩
        intro i hi
        cases i with
        | zero => simp [h1]
        | succ j =>
          have hc := decodeRow_consumes _ _ _ _ h1
          have := hrec j (by simpa using hi)
          rw [hc, List.drop_drop] at this
          simp only [List.getElem_cons_succ]
          have e : (j + 1) * (tys.map FT.size).sum = (tys.map FT.size).sum + j * (tys.map FT.size).sum := by
            rw [Nat.add_mul]; omega
          rw [e, ← this]

theorem foldl_add_keys (l : List Bytes) (st : Intern) :
    ∀ p ∈ (l.foldl Intern.add st).offs, p ∈ st.offs ∨ p.1 ∈ l := by
  induction l generalizing st with
  | nil => intro p hp; exact Or.inl hp
  | cons s ss ih =>
    intro p hp
    cases ih (st.add s) p hp with
    | inr h => exact Or.inr (by simp [h])
    | inl h =>
      unfold Intern.add at h
      cases hl : lookupOff st.offs s with
      | some o => rw [hl] at h; exact Or.inl h
      | none =>
        rw [hl] at h
        simp only [List.mem_append, List.mem_singleton] at h
        cases h with
        | inl h => exact Or.inl h
        | inr h => subst h; exact Or.inr (by simp)

/-- identical strings are stored once: the written string block is the NUL-terminated concatenation of a
    duplicate-free list consisting of the empty string and exactly the strings occurring in the table -/
theorem strings_stored_once (s : Schema) (t : Table) (ht : tableOk s t = true) :
    ∃ strs : List Bytes, strs.Nodup ∧ (intern t).block = strs.flatMap (· ++ [0]) ∧
      ∀ x, x ∈ strs ↔ (x = [] ∨ x ∈ tableStrings t) := by
  have hinv : IInv (intern t) := foldl_add_inv _ _ (strings_nulfree s t ht) inv_init
  refine ⟨(intern t).offs.map (·.1), hinv.nodup, ?_, ?_⟩
  · rw [hinv.blk, List.flatMap_map]
  · intro x
    constructor
    · intro hx
      simp only [List.mem_map] at hx
      obtain ⟨p, hp, rfl⟩ := hx
      cases foldl_add_keys (tableStrings t) {} p hp with
      | inl h => simp at h; subst h; exact Or.inl rfl
      | inr h => exact Or.inr h
    · intro hx
      have : ∃ o, lookupOff (intern t).offs x = some o := by
        cases hx with
        | inl h => subst h; exact ⟨0, foldl_add_lookup_mono _ {} [] 0 (by simp [lookupOff])⟩
        | inr h => exact foldl_add_lookup _ {} x h
      obtain ⟨o, ho⟩ := this
      simp only [List.mem_map]
      exact ⟨(x, o), lookup_some_mem _ _ _ ho, rfl⟩

theorem go_sound (ks done : List Nat) (m : List (Nat × Nat))
    (hm : ∀ p ∈ m, (done ++ ks)[p.2]? = some p.1) :
    ∀ p ∈ keyMapGo ks done.length m, (done ++ ks)[p.2]? = some p.1 := by
  induction ks generalizing done m with
  | nil => simpa [keyMapGo] using hm
  | cons k ks ih =>
    simp only [keyMapGo]
    have := ih (done ++ [k]) ((k, done.length) :: m.filter (·.1 != k)) (by
      intro p hp
      simp only [List.mem_cons, List.mem_filter] at hp
      cases hp with
      | inl h => subst h; simp
      | inr h => have := hm p h.1; simpa using this)
    simpa using this

theorem go_complete (ks : List Nat) (n : Nat) (m : List (Nat × Nat)) (k : Nat)
    (h : (∃ i, (k, i) ∈ m) ∨ k ∈ ks) : ∃ i, (k, i) ∈ keyMapGo ks n m := by
  induction ks generalizing n m with
  | nil => simpa [keyMapGo] using h
  | cons k' ks ih =>
    simp only [keyMapGo]
    apply ih
    by_cases hk : k = k'
    · subst hk; exact Or.inl ⟨n, by simp⟩
    · cases h with
      | inl h =>
        obtain ⟨i, hi⟩ := h
        exact Or.inl ⟨i, by simp [List.mem_filter, hi, hk]⟩
      | inr h =>
        simp only [List.mem_cons] at h
        cases h with
        | inl h => exact absurd h hk
        | inr h => exact Or.inr h

theorem keyLookup_mem (m : List (Nat × Nat)) (k i : Nat) (h : keyLookup m k = some i) : (k, i) ∈ m := by
  simp only [keyLookup, Option.map_eq_some_iff] at h
  obtain ⟨p, hp, rfl⟩ := h
  have hm := List.mem_of_find?_eq_some hp
  have he := List.find?_some hp
  simp only [beq_iff_eq] at he
  rw [← he]; exact hm

theorem keyLookup_of_mem (m : List (Nat × Nat)) (k i : Nat) (h : (k, i) ∈ m) : ∃ j, keyLookup m k = some j := by
  simp only [keyLookup]
  cases hf : m.find? (·.1 == k) with
  | some p => exact ⟨p.2, rfl⟩
  | none =>
    simp only [List.find?_eq_none] at hf
    exact absurd (by simp) (hf _ h)

/-- hashed key lookup returns a record that carries the key, and finds every key that occurs (duplicates included) -/
theorem key_lookup_sound (keys : List Nat) (k i : Nat) (h : keyLookup (keyMap keys) k = some i) :
    keys[i]? = some k := by
  have := go_sound keys [] [] (by simp) (k, i) (by simpa [keyMap] using keyLookup_mem _ _ _ h)
  simpa using this

theorem key_lookup_complete (keys : List Nat) (k : Nat) (h : k ∈ keys) :
    ∃ i, keyLookup (keyMap keys) k = some i := by
  obtain ⟨i, hi⟩ := go_complete keys 0 [] k (Or.inr h)
  exact keyLookup_of_mem _ _ _ hi

/-- parser.rs:create_sorted_key_map — (key, index) pairs stably sorted by key -/
def sortedKeys (keys : List Nat) : List (Nat × Nat) := (keys.zipIdx).mergeSort (fun a b => a.1 ≤ b.1)

/-- the list handed to the binary search is sorted by key (the precondition of `binary_search_by_key`), and it
    holds exactly the (key, record index) pairs of the table — so whichever matching position the search
    returns, the record at that index carries the key, and every occurring key is present -/
theorem sorted_key_map_ok (keys : List Nat) :
    (sortedKeys keys).Pairwise (fun a b => a.1 ≤ b.1) ∧
    (∀ p ∈ sortedKeys keys, keys[p.2]? = some p.1) ∧
    (∀ k ∈ keys, ∃ i, (k, i) ∈ sortedKeys keys) := by
  refine ⟨?_, ?_, ?_⟩
  · have := List.pairwise_mergeSort (le := fun (a b : Nat × Nat) => decide (a.1 ≤ b.1))
      (by intro a b c; simp; omega) (by intro a b; simp; omega) keys.zipIdx
    simpa [sortedKeys] using this
  · intro p hp
    have hp' : p ∈ keys.zipIdx := (List.mergeSort_perm _ _).mem_iff.mp hp
    obtain ⟨k, i⟩ := p
    rw [List.mem_zipIdx_iff_getElem?] at hp'
    simpa using hp'
  · intro k hk
    obtain ⟨i, hi, he⟩ := List.getElem_of_mem hk
    refine ⟨i, (List.mergeSort_perm _ _).mem_iff.mpr ?_⟩
    rw [List.mem_zipIdx_iff_getElem?]
    simp [he, hi]

end Wv.Dbc
