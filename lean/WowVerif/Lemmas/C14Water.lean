/- lemmas about Model.C14Water: the recorded offsets are exactly where the data lies; nothing overlaps, nothing is left out -/
import WowVerif.Model.C14Water
namespace Wv.Water

theorem tiles_append (a b : List (Nat × Nat)) (s m f : Nat) (ha : Tiles s a m) (hb : Tiles m b f) : Tiles s (a ++ b) f := by
  induction a generalizing s with
  | nil => simp only [Tiles] at ha; subst ha; simpa using hb
  | cons x xs ih =>
    obtain ⟨o, z⟩ := x
    simp only [Tiles, List.cons_append] at ha ⊢
    exact ⟨ha.1, ih _ ha.2⟩

theorem layers_tile (ls : List Layer) (vpos : Nat) :
    Tiles vpos (layerRegions ls (layLayers vpos ls).1) (layLayers vpos ls).2 ∧ (layLayers vpos ls).1.length = ls.length := by
  induction ls generalizing vpos with
  | nil => simp [layLayers, layerRegions, Tiles]
  | cons l r ih =>
    obtain ⟨bm, vd⟩ := l
    simp only [layLayers, layerRegions, List.length_cons]
    cases bm <;> cases vd <;> simp [Tiles, ih]

theorem entry_tiles (e : Entry) (pos : Nat) :
    Tiles pos (entryRegions e (layEntry pos e).1) (layEntry pos e).2 := by
  unfold entryRegions layEntry
  by_cases hn : e.layers.length = 0
  · simp only [hn, if_true]
    cases e.attrs <;> simp [Tiles]
  · simp only [hn, if_false]
    have hl := (layers_tile e.layers (pos + 24 * e.layers.length)).1
    apply tiles_append _ _ pos (layLayers (pos + 24 * e.layers.length) e.layers).2
    · simp only [Tiles]; exact ⟨trivial, hl⟩
    · cases e.attrs <;> simp [Tiles]

theorem all_tile (es : List Entry) (pos : Nat) :
    Tiles pos (allRegions es (layAll pos es).1) (layAll pos es).2 ∧ (layAll pos es).1.length = es.length := by
  induction es generalizing pos with
  | nil => simp [layAll, allRegions, Tiles]
  | cons e r ih =>
    simp only [layAll, allRegions, List.length_cons]
    exact ⟨tiles_append _ _ pos (layEntry pos e).2 _ (entry_tiles e pos) (ih _).1, by rw [(ih _).2]⟩

/-- consecutive regions of a tiling are disjoint and ordered: every region ends where the next one starts -/
theorem tiles_sorted (rs : List (Nat × Nat)) (s f : Nat) (h : Tiles s rs f) :
    rs.Pairwise (fun a b => a.1 + a.2 ≤ b.1) ∧ (∀ r ∈ rs, s ≤ r.1 ∧ r.1 + r.2 ≤ f) := by
  induction rs generalizing s with
  | nil => simp
  | cons x xs ih =>
    obtain ⟨o, z⟩ := x
    simp only [Tiles] at h
    obtain ⟨rfl, h2⟩ := h
    obtain ⟨hp, hb⟩ := ih _ h2
    refine ⟨List.pairwise_cons.mpr ⟨fun b hbm => ?_, hp⟩, fun r hr => ?_⟩
    · exact (hb b hbm).1
    · rcases List.mem_cons.mp hr with rfl | hr
      · refine ⟨Nat.le_refl _, ?_⟩
        cases xs with
        | nil => simp only [Tiles] at h2; omega
        | cons y ys => have := (hb y (by simp)); simp only at this ⊢; omega
      · have := hb r hr; omega

end Wv.Water

namespace Wv.Water

def layersBytes : List Layer → Nat
  | [] => 0
  | l :: r => (if l.bitmap then 8 else 0) + l.vdata.getD 0 + layersBytes r

def entryBytes (e : Entry) : Nat :=
  (if e.layers.length = 0 then 0 else 24 * e.layers.length + layersBytes e.layers) + (if e.attrs then 16 else 0)

theorem layLayers_end (ls : List Layer) (v : Nat) : (layLayers v ls).2 = v + layersBytes ls := by
  induction ls generalizing v with
  | nil => simp [layLayers, layersBytes]
  | cons l r ih =>
    obtain ⟨bm, vd⟩ := l
    simp only [layLayers, layersBytes]
    rw [ih]
    cases bm <;> cases vd <;> simp <;> omega

theorem layEntry_end (e : Entry) (pos : Nat) : (layEntry pos e).2 = pos + entryBytes e := by
  unfold layEntry entryBytes
  by_cases hn : e.layers.length = 0
  · simp only [hn, if_true]; cases e.attrs <;> simp
  · simp only [hn, if_false, layLayers_end]; cases e.attrs <;> simp <;> omega

theorem layAll_end (es : List Entry) (pos : Nat) : (layAll pos es).2 = pos + (es.map entryBytes).sum := by
  induction es generalizing pos with
  | nil => simp [layAll]
  | cons e r ih => simp only [layAll, List.map_cons, List.sum_cons]; rw [ih, layEntry_end]; omega

end Wv.Water
