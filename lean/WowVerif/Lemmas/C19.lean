/- proofs for C19 (handle tables of the C API) -/
import WowVerif.Model.C19Ffi
set_option linter.unusedSimpArgs false
namespace Wv.Ffi


structure FInv (s : St) : Prop where
  next_pos : 0 < s.next
  arch_lt : ∀ a ∈ s.archives, a < s.next ∧ a ≠ 0
  file_ok : ∀ p ∈ s.files, p.1 < s.next ∧ p.1 ≠ 0 ∧ p.2.pos ≤ p.2.len ∧ p.2.arch ∈ s.archives
  find_ok : ∀ p ∈ s.finds, p.1 < s.next ∧ p.1 ≠ 0 ∧ p.2.arch ∈ s.archives

theorem lookupF_mem {l : List (Nat × FileH)} {h : Nat} {f : FileH} (e : lookupF l h = some f) : (h, f) ∈ l := by
  simp only [lookupF, Option.map_eq_some_iff] at e
  obtain ⟨p, hp, rfl⟩ := e
  have := List.find?_some hp
  simp only [beq_iff_eq] at this
  rw [← this]; exact List.mem_of_find?_eq_some hp

theorem inv_init : FInv {} := ⟨by decide, by simp, by simp, by simp⟩

theorem inv_openArchive (s : St) (h : FInv s) : FInv (openArchive s).1 := by
  refine ⟨by simp [openArchive], ?_, ?_, ?_⟩
  · intro a ha
    simp only [openArchive, List.mem_cons] at ha
    rcases ha with ha | ha
    · subst ha; exact ⟨by simp [openArchive], by have := h.next_pos; omega⟩
    · have := h.arch_lt a ha; exact ⟨by simp only [openArchive]; omega, this.2⟩
  · intro p hp
    have := h.file_ok p hp
    exact ⟨by simp only [openArchive]; omega, this.2.1, this.2.2.1, by simp [openArchive, this.2.2.2]⟩
  · intro p hp
    have := h.find_ok p hp
    exact ⟨by simp only [openArchive]; omega, this.2.1, by simp [openArchive, this.2.2]⟩

theorem mem_erase_ne {a h : Nat} {l : List Nat} (ha : a ∈ l) (hne : a ≠ h) : a ∈ l.erase h := by
  exact (List.mem_erase_of_ne hne).mpr ha

theorem inv_closeArchive (s : St) (hd : Nat) (h : FInv s) : FInv (closeArchive s hd).1 := by
  unfold closeArchive
  split
  · exact h
  · split
    · refine ⟨h.next_pos, ?_, ?_, ?_⟩
      · intro a ha; exact h.arch_lt a (List.mem_of_mem_erase ha)
      · intro p hp
        simp only [List.mem_filter, bne_iff_ne, ne_eq] at hp
        have := h.file_ok p hp.1
        exact ⟨this.1, this.2.1, this.2.2.1, mem_erase_ne this.2.2.2 hp.2⟩
      · intro p hp
        simp only [List.mem_filter, bne_iff_ne, ne_eq] at hp
        have := h.find_ok p hp.1
        exact ⟨this.1, this.2.1, mem_erase_ne this.2.2 hp.2⟩
    · refine ⟨h.next_pos, h.arch_lt, ?_, ?_⟩
      · intro p hp
        simp only [List.mem_filter] at hp
        exact h.file_ok p hp.1
      · intro p hp
        simp only [List.mem_filter] at hp
        exact h.find_ok p hp.1

theorem inv_openFile (s : St) (ah : Nat) (len : Option Nat) (h : FInv s) : FInv (openFile s ah len).1 := by
  unfold openFile
  split
  · exact h
  · rename_i hc
    simp only [not_or, Bool.not_eq_true', Bool.not_eq_false] at hc
    cases len with
    | none => exact h
    | some n =>
      refine ⟨by simp, ?_, ?_, ?_⟩
      · intro a ha; have := h.arch_lt a ha; exact ⟨by simp only; omega, this.2⟩
      · intro p hp
        simp only [List.mem_cons] at hp
        rcases hp with hp | hp
        · subst hp
          have hm : ah ∈ s.archives := by simpa using hc.2
          exact ⟨by simp, by have := h.next_pos; simp; omega, by simp, hm⟩
        · have := h.file_ok p hp; exact ⟨by simp only; omega, this.2.1, this.2.2.1, this.2.2.2⟩
      · intro p hp; have := h.find_ok p hp; exact ⟨by simp only; omega, this.2.1, this.2.2⟩

theorem inv_map_files (s : St) (g : Nat × FileH → Nat × FileH) (h : FInv s)
    (hg : ∀ p ∈ s.files, (g p).1 = p.1 ∧ (g p).2.arch = p.2.arch ∧ (g p).2.pos ≤ (g p).2.len) :
    FInv { s with files := s.files.map g } := by
  refine ⟨h.next_pos, h.arch_lt, ?_, h.find_ok⟩
  intro q hq
  simp only [List.mem_map] at hq
  obtain ⟨p, hp, rfl⟩ := hq
  have := h.file_ok p hp
  have e := hg p hp
  exact ⟨by rw [e.1]; exact this.1, by rw [e.1]; exact this.2.1, e.2.2, by rw [e.2.1]; exact this.2.2.2⟩

theorem inv_step (s : St) (c : Call) (h : FInv s) : FInv (step s c).1 := by
  cases c with
  | openArchive => exact inv_openArchive s h
  | closeArchive hd => exact inv_closeArchive s hd h
  | openFile ah len => exact inv_openFile s ah len h
  | closeFile hd =>
    simp only [step, closeFile]
    split
    · exact h
    · split
      · exact h
      · exact ⟨h.next_pos, h.arch_lt, fun p hp => h.file_ok p (List.mem_filter.mp hp).1, h.find_ok⟩
  | read hd w =>
    simp only [step, readFile]
    split
    · exact h
    · split
      · exact h
      · apply inv_map_files s _ h
        intro p hp
        have := h.file_ok p hp
        by_cases e : p.1 = hd
        · rw [if_pos e]; refine ⟨rfl, rfl, ?_⟩
          show p.2.pos + min w (p.2.len - p.2.pos) ≤ p.2.len
          have := this.2.2.1; omega
        · rw [if_neg e]; exact ⟨rfl, rfl, this.2.2.1⟩
  | seek hd off m =>
    simp only [step, seek]
    split
    · exact h
    · split
      · exact h
      · split
        · exact h
        · apply inv_map_files s _ h
          intro p hp
          have := h.file_ok p hp
          by_cases e : p.1 = hd
          · rw [if_pos e]; refine ⟨rfl, rfl, ?_⟩
            show seekPos p.2 off m ≤ p.2.len
            have hsp : ∀ (f : FileH), seekPos f off m ≤ f.len := by
              intro f; unfold seekPos; simp only
              generalize ((if m = 0 then (0:Int) else if m = 1 then (f.pos : Int) else (f.len : Int)) + off) = t
              split
              · exact Nat.le_refl _
              · exact Nat.min_le_right _ _
            exact hsp p.2
          · rw [if_neg e]; exact ⟨rfl, rfl, this.2.2.1⟩
  | size hd => simp only [step, fileSize]; split <;> (try split) <;> exact h
  | findFirst ah t =>
    simp only [step, findFirst]
    split
    · exact h
    · rename_i hc
      simp only [not_or, Bool.not_eq_true', Bool.not_eq_false] at hc
      split
      · exact h
      · refine ⟨by simp, ?_, ?_, ?_⟩
        · intro a ha; have := h.arch_lt a ha; exact ⟨by simp only; omega, this.2⟩
        · intro p hp; have := h.file_ok p hp; exact ⟨by simp only; omega, this.2.1, this.2.2.1, this.2.2.2⟩
        · intro p hp
          simp only [List.mem_cons] at hp
          rcases hp with hp | hp
          · subst hp; exact ⟨by simp, by have := h.next_pos; simp; omega, by simpa using hc.2⟩
          · have := h.find_ok p hp; exact ⟨by simp only; omega, this.2.1, this.2.2⟩
  | findNext hd =>
    simp only [step, findNext]
    split
    · exact h
    · split
      · exact h
      · split
        · exact h
        · refine ⟨h.next_pos, h.arch_lt, h.file_ok, ?_⟩
          intro q hq
          simp only [List.mem_map] at hq
          obtain ⟨p, hp, rfl⟩ := hq
          have := h.find_ok p hp
          by_cases e : p.1 = hd
          · rw [if_pos e]; exact ⟨this.1, this.2.1, this.2.2⟩
          · rw [if_neg e]; exact this
  | findClose hd =>
    simp only [step, findClose]
    split
    · exact h
    · split
      · exact h
      · exact ⟨h.next_pos, h.arch_lt, h.file_ok, fun p hp => h.find_ok p (List.mem_filter.mp hp).1⟩

theorem inv_run (cs : List Call) : FInv (run cs) := by
  have : ∀ s, FInv s → FInv (cs.foldl (fun s c => (step s c).1) s) := by
    induction cs with
    | nil => intro s h; exact h
    | cons c cs ih => intro s h; exact ih _ (inv_step s c h)
  exact this {} inv_init

/-- a read never yields more than requested nor more than what remains, and only from a live file handle -/
theorem read_within (s : St) (h want k : Nat) (s' : St) (e : readFile s h want = (s', .count k)) :
    k ≤ want ∧ ∃ f, lookupF s.files h = some f ∧ k ≤ f.len - f.pos := by
  unfold readFile at e
  split at e
  · simp at e
  · split at e
    · simp at e
    · rename_i f hf
      simp only [Prod.mk.injEq, Res.count.injEq] at e
      obtain ⟨_, rfl⟩ := e
      exact ⟨Nat.min_le_left _ _, f, hf, Nat.min_le_right _ _⟩

/-- an invalid (null, stale, closed or forged-and-not-live) handle is reported as an error and changes nothing -/
theorem invalid_file_handle_noop (s : St) (h : Nat) (hn : lookupF s.files h = none) (want : Nat) (off : Int) (m : Nat) :
    readFile s h want = (s, .invalidHandle) ∧ seek s h off m = (s, .invalidHandle) ∧
    fileSize s h = (s, .invalidHandle) ∧ closeFile s h = (s, .invalidHandle) := by
  unfold readFile seek fileSize closeFile
  by_cases h0 : h = 0 <;> simp [h0, hn]

theorem invalid_find_handle_noop (s : St) (h : Nat) (hn : lookupG s.finds h = none) :
    findNext s h = (s, .invalidHandle) ∧ findClose s h = (s, .invalidHandle) := by
  unfold findNext findClose
  by_cases h0 : h = 0 <;> simp [h0, hn]

/-- closing an archive invalidates exactly its own file and search handles: those are gone, every other handle is
    kept with its state untouched -/
theorem close_invalidates_exactly_own (s : St) (h : Nat) (h0 : h ≠ 0) :
    (closeArchive s h).1.files = s.files.filter (fun p => p.2.arch != h) ∧
    (closeArchive s h).1.finds = s.finds.filter (fun p => p.2.arch != h) := by
  unfold closeArchive
  simp only [h0, if_false]
  split <;> simp

/-- ids come from one strictly increasing counter: a fresh handle is not a key of any table (so a stale or closed
    handle value is never handed out again) -/
theorem fresh_handle (s : St) (hi : FInv s) :
    s.next ∉ s.archives ∧ (∀ p ∈ s.files, p.1 ≠ s.next) ∧ (∀ p ∈ s.finds, p.1 ≠ s.next) := by
  refine ⟨?_, ?_, ?_⟩
  · intro hm; have := (hi.arch_lt _ hm).1; omega
  · intro p hp; have := (hi.file_ok p hp).1; omega
  · intro p hp; have := (hi.find_ok p hp).1; omega

theorem next_monotone (s : St) (c : Call) : s.next ≤ (step s c).1.next := by
  cases c <;> simp only [step, openArchive, closeArchive, openFile, closeFile, readFile, seek, fileSize, findFirst, findNext, findClose]
  all_goals (repeat' split) <;> simp <;> omega

end Wv.Ffi
