/-
  Model.C19Buf — what the C API writes into caller-supplied name buffers (ffi/storm-ffi/src/lib.rs:
  SFileGetArchiveName, SFileGetFileName, fill_find_data). A call is modelled by the bytes it writes from offset 0 of the
  caller's buffer (`none`: the call fails and writes nothing). Import-free.
-/
import WowVerif.Base.Bytes
namespace Wv.Buf
open Wv

/-- SFileGetArchiveName(archive, buffer, buffer_size): the path with its terminator, or ERROR_INSUFFICIENT_BUFFER -/
def archiveName (path : Bytes) (cap : Nat) : Option Bytes :=
  if cap = 0 then none else              -- ERROR_INVALID_PARAMETER
  if path.contains 0 then none else      -- CString::new fails
  if path.length + 1 > cap then none else some (path ++ [0])

/-- SFileGetFileName(file, buffer): the buffer is MAX_PATH = 260 bytes by the API's convention -/
def fileName (name : Bytes) : Option Bytes :=
  if name.contains 0 then none else some (name.take 259 ++ [0])

/-- position after the last backslash (`rfind('\\') + 1`, 0 when there is none) -/
def plainStart : Bytes → Nat
  | [] => 0
  | b :: rest => if rest.contains 92 then 1 + plainStart rest else if b = 92 then 1 else 0

/-- fill_find_data: the 260-byte cFileName array and the offset szPlainName points at -/
def findData (name : Bytes) : Bytes × Nat :=
  let copyLen := min name.length 259
  (name.take copyLen ++ List.replicate (260 - copyLen) 0, min (plainStart name) copyLen)

/-- SFileGetFileInfo for a supported class whose value takes `need` bytes: written only if the buffer holds them -/
def info (need value cap : Nat) : Option Bytes := if cap ≥ need then some (natLE need value) else none

end Wv.Buf
