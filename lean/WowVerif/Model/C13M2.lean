import WowVerif.Base.Bytes
/-!
C13 — offset relocation of preserved key-frame data in `M2Model::write`
(file-formats/graphics/wow-m2/src/model.rs: bone section, and the same scheme for particle, ribbon, texture, colour,
transparency, event, attachment, camera and light tracks).

The writer walks the preserved blobs in order; a blob whose original offset was not seen before is appended to the data
section and its new offset recorded in an old→new map; a blob whose original offset was already seen is shared (written
once). Track records are then rewritten through the map.
-/
namespace Wv.M2
open Wv

/-- old offset ↦ new offset, first occurrence wins (the `HashMap` built with `Entry::Vacant`) -/
def assign (start : Nat) (seen : List (Nat × Nat)) : List (Nat × Bytes) → List (Nat × Nat)
  | [] => seen
  | (o, b) :: rest =>
    if (seen.find? (·.1 == o)).isSome then assign start seen rest
    else assign (start + b.length) (seen ++ [(o, start)]) rest

/-- bytes appended to the data section: every original offset's blob once, in first-occurrence order (`written_offsets`) -/
def emit (seen : List Nat) : List (Nat × Bytes) → Bytes
  | [] => []
  | (o, b) :: rest => if seen.contains o then emit seen rest else b ++ emit (seen ++ [o]) rest

def lookupNew (m : List (Nat × Nat)) (o : Nat) : Option Nat := (m.find? (·.1 == o)).map (·.2)

/-- new offset of every blob, in input order -/
def relocated (start : Nat) (blobs : List (Nat × Bytes)) : List (Option Nat) :=
  let m := assign start [] blobs
  blobs.map fun p => lookupNew m p.1

end Wv.M2
