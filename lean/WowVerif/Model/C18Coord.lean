/-
  Model.C18Coord — wow-wdt lib.rs: tile_to_world / world_to_tile over Lib.SoftF32 (binary32, round-to-nearest-even).
-/
import WowVerif.Lib.SoftF32
namespace Wv.Coord
open Wv.F32

/-- `const MAP_SIZE: f32 = 533.333_3;` -/
def mapSize : Nat := (ofDecimal 5333333 10000).getD 0
/-- `const MAP_OFFSET: f32 = 32.0 * MAP_SIZE;` -/
def mapOffset : Nat := (mul 1107296256 mapSize).getD 0     -- 1107296256 = 32.0f32
/-- `const TILE_EPSILON: f32 = 1.0e-4;` -/
def tileEps : Nat := (ofDecimal 1 10000).getD 0

/-- one axis of tile_to_world: `MAP_OFFSET - (tile as f32 * MAP_SIZE)`; `none` = outside SoftF32's domain -/
def axisToWorld (t : Nat) : Option Nat := do
  let tf ← ofNat t
  let p ← mul tf mapSize
  sub mapOffset p

/-- one axis of world_to_tile: `(((MAP_OFFSET - w) / MAP_SIZE) + TILE_EPSILON) as u32`, then `.min(63)` -/
def axisToTile (w : Nat) : Option Nat := do
  let d ← sub mapOffset w
  let q ← div d mapSize
  let q' ← add q tileEps
  pure (min (toU32 q') 63)

/-- tile_to_world(tile_x, tile_y) = (world_x from tile_y, world_y from tile_x) -/
def tileToWorld (tx ty : Nat) : Option (Nat × Nat) := do
  let wx ← axisToWorld ty
  let wy ← axisToWorld tx
  pure (wx, wy)

/-- world_to_tile(world_x, world_y) = (tile_x from world_y, tile_y from world_x) -/
def worldToTile (wx wy : Nat) : Option (Nat × Nat) := do
  let tx ← axisToTile wy
  let ty ← axisToTile wx
  pure (tx, ty)

end Wv.Coord
