/-
  Model.C08Read — the rest of wow-mpq patch_chain.rs around the ordered list of Model.C08Chain:
  rebuild_file_map (a hash map filled archive by archive with `entry(key).or_insert(idx)`), list (first occurrence
  of every name over the archives in chain order, then sorted), read_file / read_patched_file (the winner decides:
  a plain entry is read from the winning archive; a patch entry collects, over ALL archives in chain order, the first
  readable plain version as base and every patch version, and applies the patches lowest priority first).
  Names are numbers here: the key of a name is its normalised upper-case spelling (C04's subject).
-/
import WowVerif.Model.C08Chain
namespace Wv.Chain
open Wv

/-! ### rebuild_file_map -/

abbrev FileMap := List (Nat × Nat)        -- key ↦ index into the archive list; at most one pair per key

def mapGet (m : FileMap) (k : Nat) : Option Nat := (m.find? fun p => p.1 == k).map (·.2)

/-- `self.file_map.entry(key).or_insert(idx)` -/
def orInsert (m : FileMap) (k idx : Nat) : FileMap := if (mapGet m k).isSome then m else m ++ [(k, idx)]

def addNames (m : FileMap) (idx : Nat) (names : List Nat) : FileMap := names.foldl (fun m k => orInsert m k idx) m

def rebuildGo : List (List Nat) → Nat → FileMap → FileMap
  | [], _, m => m
  | ns :: rest, i, m => rebuildGo rest (i + 1) (addNames m i ns)

/-- rebuild_file_map over the archives' listings in chain order -/
def rebuildMap (lists : List (List Nat)) : FileMap := rebuildGo lists 0 []

/-! ### list -/

def listGo (seen : List Nat) : List Nat → List Nat
  | [] => seen
  | n :: rest => if seen.contains n then listGo seen rest else listGo (seen ++ [n]) rest

/-- PatchChain::list: every name once, at its first occurrence over the archives in chain order, then sorted -/
def listing (lists : List (List Nat)) : List Nat := (listGo [] lists.flatten).mergeSort (fun a b => decide (a ≤ b))

/-! ### read_file -/

/-- what one archive of the chain holds under the name -/
inductive Ver
  | absent
  | plain (d : Option Bytes)      -- `none`: the archive lists it but reading fails (logged, skipped as a base)
  | patch (p : Option Patch)      -- `none`: the entry cannot be read raw or does not parse
  deriving Repr

inductive RErr | notFound | noBase | badPatch | apply (e : PErr) | read
  deriving DecidableEq, Repr

/-- the first readable plain version in chain order -/
def baseOf : List Ver → Option Bytes
  | [] => none
  | .plain (some d) :: _ => some d
  | _ :: rest => baseOf rest

/-- every patch version in chain order (highest priority first); an unreadable or unparseable patch entry makes the
    whole read an error (it is never skipped: after repair D68) -/
def patchesOf : List Ver → Option (List Patch)
  | [] => some []
  | .patch none :: _ => none
  | .patch (some p) :: rest => (patchesOf rest).map (p :: ·)
  | _ :: rest => patchesOf rest

def applyAll (md5 : Bytes → Bytes) : List Patch → Bytes → Except RErr Bytes
  | [], cur => .ok cur
  | p :: ps, cur =>
    match applyPatch md5 p cur with
    | .ok out => applyAll md5 ps out
    | .error e => .error (.apply e)

/-- read_patched_file: base, then the patches lowest priority first -/
def readPatched (md5 : Bytes → Bytes) (vers : List Ver) : Except RErr Bytes :=
  match patchesOf vers with
  | none => .error .badPatch
  | some ps =>
    match baseOf vers with
    | none => .error .noBase
    | some b => applyAll md5 ps.reverse b

/-- read_file: `vers` = what each archive of the chain holds under the name, in chain order; `win` = the index the file
    map gives for the name -/
def readFile (md5 : Bytes → Bytes) (vers : List Ver) (win : Option Nat) : Except RErr Bytes :=
  match win with
  | none => .error .notFound
  | some i =>
    match vers[i]? with
    | some (.patch _) => readPatched md5 vers
    | some (.plain (some d)) => .ok d
    | some (.plain none) => .error .read
    | _ => .error .notFound

end Wv.Chain
