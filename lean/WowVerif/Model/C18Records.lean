/-
  Model.C18Records — the fixed-layout payloads of WDT chunks as Lib.Record layouts (wow-wdt chunks/mphd.rs, main.rs, modf.rs):
  a layout is the list of field widths in file order; floats are carried by their bit patterns. Import-free.
-/
import WowVerif.Lib.Record
namespace Wv.WdtRec
/-- MPHD: flags, then seven dwords (`something` + six unused before BfA; seven file ids when flag 0x200 is set) -/
def mphdW : List Nat := [4, 4, 4, 4, 4, 4, 4, 4]
/-- one MAIN entry: flags, area id (64 x 64 of them) -/
def mainEntryW : List Nat := [4, 4]
/-- one MODF entry: name id, unique id, position, rotation, lower and upper bounds (3 floats each), flags, doodad set, name set, scale -/
def modfW : List Nat := [4, 4, 4, 4, 4, 4, 4, 4, 4, 4, 4, 4, 4, 4, 2, 2, 2, 2]
end Wv.WdtRec
