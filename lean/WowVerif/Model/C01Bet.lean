/-
  Model.C01Bet — the bit-packed extended block table (BET) of V3/V4 archives.

  builder.rs:create_bet_table chooses one width per column (position, size, stored size, flag index) from the largest
  value in the column and writes every entry as `width` low bits of each value at its own bit offset
  (write_bits_at); tables/bet.rs:read_bits_from_table reads a column back through a window of at most 8 bytes.
  The table is modelled as ONE little-endian number: bit `j` of the table is bit `j` of that number.
-/
import WowVerif.Base.Bytes
namespace Wv.Bet
open Wv

/-- builder.rs:calculate_bits_needed -/
def bitsNeeded (v : Nat) : Nat := if v = 0 then 1 else Nat.log2 v + 1

/-- one table row: position, size, stored size, index into the flag array -/
structure Row where
  pos : Nat
  size : Nat
  csize : Nat
  flag : Nat
  deriving Repr, DecidableEq

/-- column widths -/
structure Lay where
  wPos : Nat
  wSize : Nat
  wCsize : Nat
  wFlag : Nat
  deriving Repr, DecidableEq

def Lay.entry (l : Lay) : Nat := l.wPos + l.wSize + l.wCsize + l.wFlag
def Lay.iSize (l : Lay) : Nat := l.wPos
def Lay.iCsize (l : Lay) : Nat := l.wPos + l.wSize
def Lay.iFlag (l : Lay) : Nat := l.wPos + l.wSize + l.wCsize

def maxOf (f : Row → Nat) (rows : List Row) : Nat := rows.foldr (fun r m => max (f r) m) 0

/-- the widths the builder chooses (`nflags` = number of distinct flag words; 0 only for an empty table) -/
def layoutOf (rows : List Row) (nflags : Nat) : Lay :=
  { wPos := bitsNeeded (maxOf (·.pos) rows), wSize := bitsNeeded (maxOf (·.size) rows),
    wCsize := bitsNeeded (maxOf (·.csize) rows), wFlag := if nflags = 0 then 0 else bitsNeeded (nflags - 1) }

/-- one row as a number: each value cut to its width, placed at its bit offset -/
def rowNat (l : Lay) (r : Row) : Nat :=
  r.pos % 2 ^ l.wPos + 2 ^ l.iSize * (r.size % 2 ^ l.wSize) + 2 ^ l.iCsize * (r.csize % 2 ^ l.wCsize)
    + 2 ^ l.iFlag * (r.flag % 2 ^ l.wFlag)

/-- the whole table as a number: row `i` occupies bits `i*entry ..< (i+1)*entry` -/
def tableNat (l : Lay) : List Row → Nat
  | [] => 0
  | r :: rs => rowNat l r + 2 ^ l.entry * tableNat l rs

/-- the table bytes: `ceil(rows * entry / 8)` bytes, little-endian -/
def tableBytes (l : Lay) (rows : List Row) : Bytes := natLE ((rows.length * l.entry + 7) / 8) (tableNat l rows)

/-- tables/bet.rs:read_bits_from_table: a window of at most 8 bytes, shifted and masked -/
def readBits (t : Bytes) (pos count : Nat) : Option Nat :=
  if count = 0 then some 0
  else if count > 64 then none
  else
    let need := (pos % 8 + count + 7) / 8
    if pos / 8 + need > t.length then none
    else some ((leNat ((t.drop (pos / 8)).take (min need 8)) / 2 ^ (pos % 8)) % 2 ^ count)

/-- tables/bet.rs:get_file_info (flag index, not yet looked up in the flag array) -/
def readRow (l : Lay) (t : Bytes) (i : Nat) : Option Row := do
  let base := i * l.entry
  let p ← readBits t base l.wPos
  let s ← readBits t (base + l.iSize) l.wSize
  let c ← readBits t (base + l.iCsize) l.wCsize
  let f ← readBits t (base + l.iFlag) l.wFlag
  pure { pos := p, size := s, csize := c, flag := f }

end Wv.Bet
