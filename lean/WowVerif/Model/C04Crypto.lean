/-
  Model.C04Crypto — what /repo's crypto code does (crypto/hash.rs, encryption.rs, decryption.rs, jenkins.rs,
  builder.rs:encrypt_data, archive.rs:decrypt_file_data), over the constants regenerated from the compiled crate.
-/
import WowVerif.Base.Bytes
import WowVerif.Gen.Consts
namespace Wv.Model
open Wv

def cryptArr : Array Nat := Gen.cryptTable.toArray
def upperArr : Array Nat := Gen.asciiToUpper.toArray
def lowerArr : Array Nat := Gen.asciiToLower.toArray

/-- `ENCRYPTION_TABLE[i]`; the Rust indexing panics for i ≥ 0x500, the model yields 0 there and
    every theorem that relies on in-range indices says so. -/
def tbl (i : Nat) : W32 := BitVec.ofNat 32 (cryptArr.getD i 0)
def upperN (n : Nat) : Nat := upperArr.getD n 0
def lowerN (n : Nat) : Nat := lowerArr.getD n 0
def slashN (n : Nat) : Nat := if n = 47 then 92 else n
def foldN (n : Nat) : Nat := upperN (slashN n)
def foldLowerN (n : Nat) : Nat := lowerN (slashN n)

/-- the code's folding: first `/`→`\`, then table upper-case (`ASCII_TO_UPPER[ch as usize]`) -/
def fold (b : UInt8) : UInt8 := UInt8.ofNat (foldN b.toNat)
/-- `/`→`\`, then `ASCII_TO_LOWER` (jenkins_one_at_a_time) -/
def foldLower (b : UInt8) : UInt8 := UInt8.ofNat (foldLowerN b.toNat)

/-- crypto/hash.rs:hash_string loop body -/
def hashStep (ty : Nat) (s : W32 × W32) (b : UInt8) : W32 × W32 :=
  let ch := fold b
  let s1 := tbl ((ty + ch.toNat) % 4294967296) ^^^ (s.1 + s.2)
  let s2 := b2w ch + s1 + s.2 + (s.2 <<< 5) + 3
  (s1, s2)

def hashString (ty : Nat) (name : Bytes) : W32 :=
  (name.foldl (hashStep ty) (0x7FED7FED#32, 0xEEEEEEEE#32)).1

def nextKey (key : W32) : W32 := ((~~~key <<< 0x15) + 0x11111111#32) ||| (key >>> 0x0B)
def seedAfter (seed plain : W32) : W32 := plain + seed + (seed <<< 5) + 3

def encGo (key seed : W32) : List W32 → List W32
  | [] => []
  | p :: ps =>
      let seed' := seed + tbl (0x400 + (key.toNat % 256))
      (p ^^^ (key + seed')) :: encGo (nextKey key) (seedAfter seed' p) ps

def decGo (key seed : W32) : List W32 → List W32
  | [] => []
  | c :: cs =>
      let seed' := seed + tbl (0x400 + (key.toNat % 256))
      let p := c ^^^ (key + seed')
      p :: decGo (nextKey key) (seedAfter seed' p) cs

/-- encryption.rs:encrypt_block (with its `key == 0` early return) -/
def encryptBlock (ws : List W32) (key : W32) : List W32 :=
  if key = 0 then ws else encGo key 0xEEEEEEEE#32 ws
/-- decryption.rs:decrypt_block -/
def decryptBlock (ws : List W32) (key : W32) : List W32 :=
  if key = 0 then ws else decGo key 0xEEEEEEEE#32 ws
/-- decryption.rs:decrypt_dword -/
def decryptDword (v key : W32) : W32 :=
  if key = 0 then v else v ^^^ (key + (0xEEEEEEEE#32 + tbl (0x400 + (key.toNat % 256))))

/-- zero-pad 1–3 tail bytes to a dword -/
def padTail (t : Bytes) : W32 := le32 (t.getD 0 0) (t.getD 1 0) (t.getD 2 0) (t.getD 3 0)

/-- builder.rs:encrypt_data — whole dwords through `encrypt_block`, the 1–3 tail bytes as one more
    single-dword block under `key + ⌊len/4⌋`, truncated back -/
def encryptBytes (data : Bytes) (key : W32) : Bytes :=
  if data.isEmpty || key == 0 then data else
  let (ws, t) := toWords data
  let body := ofWords (encryptBlock ws key)
  if t.isEmpty then body
  else body ++ (w32le ((encryptBlock [padTail t] (key + BitVec.ofNat 32 ws.length)).headD 0)).take t.length

/-- archive.rs:decrypt_file_data -/
def decryptBytes (data : Bytes) (key : W32) : Bytes :=
  if data.isEmpty || key == 0 then data else
  let (ws, t) := toWords data
  let body := ofWords (decryptBlock ws key)
  if t.isEmpty then body
  else body ++ (w32le (decryptDword (padTail t) (key + BitVec.ofNat 32 ws.length))).take t.length

/-- jenkins.rs:jenkins_one_at_a_time (64-bit state, lower-case folding) -/
def joaatStep (h : W64) (b : UInt8) : W64 :=
  let h := h + b2w64 (foldLower b)
  let h := h + (h <<< 10)
  h ^^^ (h >>> 6)
def jenkinsOAAT (name : Bytes) : W64 :=
  let h := name.foldl joaatStep 0#64
  let h := h + (h <<< 3)
  let h := h ^^^ (h >>> 11)
  h + (h <<< 15)

def rot (x : W32) (k : Nat) : W32 := x.rotateLeft k

def mix (a b c : W32) : W32 × W32 × W32 :=
  let a := a - c; let a := a ^^^ rot c 4;  let c := c + b
  let b := b - a; let b := b ^^^ rot a 6;  let a := a + c
  let c := c - b; let c := c ^^^ rot b 8;  let b := b + a
  let a := a - c; let a := a ^^^ rot c 16; let c := c + b
  let b := b - a; let b := b ^^^ rot a 19; let a := a + c
  let c := c - b; let c := c ^^^ rot b 4;  let b := b + a
  (a, b, c)

def final (a b c : W32) : W32 × W32 × W32 :=
  let c := c ^^^ b; let c := c - rot b 14
  let a := a ^^^ c; let a := a - rot c 11
  let b := b ^^^ a; let b := b - rot a 25
  let c := c ^^^ b; let c := c - rot b 16
  let a := a ^^^ c; let a := a - rot c 4
  let b := b ^^^ a; let b := b - rot a 14
  let c := c ^^^ b; let c := c - rot b 24
  (a, b, c)

def g (k : Bytes) (i : Nat) : UInt8 := k.getD i 0
def w4 (k : Bytes) (i : Nat) : W32 := le32 (g k i) (g k (i+1)) (g k (i+2)) (g k (i+3))

def hl2Loop : Nat → Bytes → W32 → W32 → W32 → (Bytes × W32 × W32 × W32)
  | 0, k, a, b, c => (k, a, b, c)
  | f+1, k, a, b, c =>
      if k.length > 12 then
        let (a, b, c) := mix (a + w4 k 0) (b + w4 k 4) (c + w4 k 8)
        hl2Loop f (k.drop 12) a b c
      else (k, a, b, c)

/-- jenkins.rs: the 12-way `match remaining` exactly as written (shift-and-add of partial words) -/
def tailAdd (k : Bytes) (a b c : W32) : W32 × W32 × W32 :=
  match k.length with
  | 12 => (a + w4 k 0, b + w4 k 4, c + w4 k 8)
  | 11 => (a + w4 k 0, b + w4 k 4, (c + (b2w (g k 10) <<< 16)) + le32 (g k 8) (g k 9) 0 0)
  | 10 => (a + w4 k 0, b + w4 k 4, c + le32 (g k 8) (g k 9) 0 0)
  | 9  => (a + w4 k 0, b + w4 k 4, c + b2w (g k 8))
  | 8  => (a + w4 k 0, b + w4 k 4, c)
  | 7  => (a + w4 k 0, (b + (b2w (g k 6) <<< 16)) + le32 (g k 4) (g k 5) 0 0, c)
  | 6  => (a + w4 k 0, b + le32 (g k 4) (g k 5) 0 0, c)
  | 5  => (a + w4 k 0, b + b2w (g k 4), c)
  | 4  => (a + w4 k 0, b, c)
  | 3  => ((a + (b2w (g k 2) <<< 16)) + le32 (g k 0) (g k 1) 0 0, b, c)
  | 2  => (a + le32 (g k 0) (g k 1) 0 0, b, c)
  | 1  => (a + b2w (g k 0), b, c)
  | _  => (a, b, c)

def hashlittle2 (key : Bytes) (pc pb : W32) : W32 × W32 :=
  let a0 := 0xdeadbeef#32 + BitVec.ofNat 32 key.length + pc
  let (k, a, b, c) := hl2Loop key.length key a0 a0 (a0 + pb)
  if k.isEmpty then (c, b)
  else
    let (a, b, c) := tailAdd k a b c
    let (_, b, c) := final a b c
    (c, b)

/-- jenkins.rs:jenkins_hashlittle2 (`het_hash`). `bits = 0` panics in Rust (shift underflow; see C05):
    the model returns `none` there. For 1 ≤ bits < 8 the `hash_bits - 8` subtraction underflows too. -/
def hetHash (name : Bytes) (bits : Nat) : Option (W64 × UInt8) :=
  let norm := name.map fold
  let (sec, pri) := hashlittle2 norm 2#32 1#32
  let full : W64 := (pri.zeroExtend 64 <<< 32) ||| sec.zeroExtend 64
  if bits < 64 then
    if bits < 8 then none else
    let andMask : W64 := (1#64 <<< bits) - 1
    let orMask : W64 := 1#64 <<< (bits - 1)
    let h := (full &&& andMask) ||| orMask
    some (h, UInt8.ofNat ((h >>> (bits - 8)).toNat % 256))
  else some (full, UInt8.ofNat ((full >>> 56).toNat % 256))

end Wv.Model
