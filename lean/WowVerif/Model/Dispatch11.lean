import WowVerif.Model.C11Path
namespace Wv.Drv
open Wv Wv.PathM

def c11 (toks : List String) : Option String :=
  match toks with
  | ["c11rel", p, h] => do
      let name ← bytesOfHex h
      match extractRel (p == "1") name with
      | none => pure "none"
      | some rel => pure ("/".intercalate (rel.map hexOfBytes))
  | _ => none

end Wv.Drv
