/-
  Model.C03Adpcm — the in-tree IMA ADPCM codec (compression/algorithms/adpcm.rs), mono and stereo.

  Samples are 16-bit little-endian; the stream is `0, bit_shift, one initial sample per channel`, then per input sample
  either the marker 0x80 ("difference below threshold": repeat the predicted sample, step index down), or any number of
  markers 0x81 ("step index up by 8", no sample) followed by one sample byte (≤ 0x7F). Channels alternate per sample;
  a 0x81 marker keeps the decoder on the same channel.
-/
import WowVerif.Base.Bytes
namespace Wv.Adpcm
open Wv

def nextStepTable : List Int :=
  [-1, 0, -1, 4, -1, 2, -1, 6, -1, 1, -1, 5, -1, 3, -1, 7, -1, 1, -1, 5, -1, 3, -1, 7, -1, 2, -1, 4, -1, 6, -1, 8]

def stepSizeTable : List Nat :=
  [7, 8, 9, 10, 11, 12, 13, 14, 16, 17, 19, 21, 23, 25, 28, 31, 34, 37, 41, 45, 50, 55, 60, 66,
   73, 80, 88, 97, 107, 118, 130, 143, 157, 173, 190, 209, 230, 253, 279, 307, 337, 371, 408, 449,
   494, 544, 598, 658, 724, 796, 876, 963, 1060, 1166, 1282, 1411, 1552, 1707, 1878, 2066, 2272,
   2499, 2749, 3024, 3327, 3660, 4026, 4428, 4871, 5358, 5894, 6484, 7132, 7845, 8630, 9493,
   10442, 11487, 12635, 13899, 15289, 16818, 18500, 20350, 22385, 24623, 27086, 29794, 32767]

def stepSize (i : Nat) : Nat := stepSizeTable.getD i 32767

/-- a sample as a signed number -/
def toI16 (lo hi : UInt8) : Int :=
  let u := lo.toNat + 256 * hi.toNat
  if u ≥ 32768 then (u : Int) - 65536 else u

/-- write_sample: two's complement, little-endian -/
def sampleBytes (s : Int) : Bytes :=
  let u := (s % 65536).toNat
  [UInt8.ofNat (u % 256), UInt8.ofNat (u / 256)]

def clamp16 (x : Int) : Int := if x < -32768 then -32768 else if x > 32767 then 32767 else x

/-- get_next_step_index -/
def nextStepIndex (idx : Nat) (enc : Nat) : Nat :=
  let n : Int := (idx : Int) + nextStepTable.getD (enc % 32) 0
  if n < 0 then 0 else if n > 88 then 88 else n.toNat

/-- update_predicted_sample -/
def updatePredicted (pred : Int) (enc : Nat) (diff : Nat) : Int :=
  clamp16 (if enc / 64 % 2 = 1 then pred - diff else pred + diff)

/-- decode_sample -/
def decodeSample (pred : Int) (enc step base : Nat) : Int :=
  let d := base
    + (if enc % 2 = 1 then step else 0) + (if enc / 2 % 2 = 1 then step / 2 else 0)
    + (if enc / 4 % 2 = 1 then step / 4 else 0) + (if enc / 8 % 2 = 1 then step / 8 else 0)
    + (if enc / 16 % 2 = 1 then step / 16 else 0) + (if enc / 32 % 2 = 1 then step / 32 else 0)
  updatePredicted pred enc d

/-- per-channel coder state -/
structure Ch where
  pred : Int
  idx : Nat
  deriving Repr, DecidableEq

/-! ## encoder -/

/-- the "difference too large" loop: markers 0x81 while the step index can still grow (at most 11 rounds) -/
def stepUp : Nat → Nat → Nat → Nat × Nat        -- fuel, difference, idx ↦ (new idx, number of 0x81 markers)
  | 0, _, idx => (idx, 0)
  | f + 1, diff, idx =>
    if diff > 2 * stepSize idx then
      if idx ≥ 0x58 then (idx, 0)
      else
        let idx' := min (idx + 8) 0x58
        let (i, k) := stepUp f diff idx'
        (i, k + 1)
    else (idx, 0)

/-- the bit loop: greedy from the least significant bit with the step halving -/
def encBits : Nat → Nat → Nat → Nat → Nat → Nat → Nat × Nat   -- fuel, bit, maxMask, work, total, diff ↦ (bits, total)
  | 0, _, _, _, total, _ => (0, total)
  | f + 1, bit, maxMask, work, total, diff =>
    if bit ≤ maxMask then
      if total + work ≤ diff then
        let (b, t) := encBits f (bit * 2) maxMask (work / 2) (total + work) diff
        (b + bit, t)
      else encBits f (bit * 2) maxMask (work / 2) total diff
    else (0, total)

/-- one input sample on one channel: the bytes emitted for it and the channel's new state -/
def encOne (level : Nat) (c : Ch) (sample : Int) : Bytes × Ch :=
  let bitShift := if level = 0 then 0 else level - 1
  let d : Int := sample - c.pred
  let sign := if d < 0 then 64 else 0
  let diff := d.natAbs
  if diff < stepSize c.idx / 2 ^ level then
    ([0x80], { c with idx := c.idx - 1 })
  else
    let (idx, k) := stepUp 12 diff c.idx
    let step := stepSize idx
    let maxMask := min (if bitShift > 0 then 2 ^ (bitShift - 1) else 0) 0x20
    let (bits, total) := if maxMask > 0 then encBits 8 1 maxMask step 0 diff else (0, 0)
    let enc := sign + bits
    let pred := updatePredicted c.pred enc (step / 2 ^ bitShift + total)
    (List.replicate k 0x81 ++ [UInt8.ofNat enc], { pred := pred, idx := nextStepIndex idx enc })

/-- the 16-bit samples of a buffer of even length -/
def samplesOf : Bytes → List Int
  | lo :: hi :: rest => toI16 lo hi :: samplesOf rest
  | _ => []

/-- encode the remaining samples, channels alternating; `k` = index of the sample (its channel is `k % n`) -/
def encLoop (level : Nat) : List Ch → Nat → List Int → Bytes
  | _, _, [] => []
  | chs, k, s :: rest =>
    let ci := k % chs.length
    match chs[ci]? with
    | none => []
    | some c =>
      let (bs, c') := encOne level c s
      bs ++ encLoop level (chs.set ci c') (k + 1) rest

/-- compress_internal; `none` = the errors (odd length, sample count not a multiple of the channel count) -/
def encode (n level : Nat) (input : Bytes) : Option Bytes :=
  if n = 0 ∨ n > 2 then none
  else if input.length % 2 ≠ 0 then none
  else
    let ss := samplesOf input
    if ss.length = 0 then some []
    else if ss.length / n = 0 ∨ ss.length % n ≠ 0 then none
    else
      let bitShift := if level = 0 then 0 else level - 1
      let inits := ss.take n
      some ([0, UInt8.ofNat bitShift] ++ (inits.flatMap sampleBytes)
        ++ encLoop level (inits.map fun s => { pred := s, idx := 0x2C }) n (ss.drop n))

/-! ## decoder -/

/-- the byte loop: `ci` is the channel of the previous byte's sample; stops at `outSize` bytes -/
def decLoop (bitShift outSize : Nat) : List Ch → Nat → Bytes → Bytes → Bytes
  | _, _, [], out => out
  | chs, ci, b :: rest, out =>
    if out.length ≥ outSize then out
    else
      let ci := (ci + 1) % chs.length
      match chs[ci]? with
      | none => out
      | some c =>
        if b = 0x80 then
          decLoop bitShift outSize (chs.set ci { c with idx := c.idx - 1 }) ci rest (out ++ sampleBytes c.pred)
        else if b = 0x81 then
          decLoop bitShift outSize (chs.set ci { c with idx := min (c.idx + 8) 0x58 }) ((ci + chs.length - 1) % chs.length) rest out
        else
          let step := stepSize c.idx
          let pred := decodeSample c.pred b.toNat step (step / 2 ^ bitShift)
          decLoop bitShift outSize (chs.set ci { pred := pred, idx := nextStepIndex c.idx b.toNat }) ci rest (out ++ sampleBytes pred)

/-- decompress_internal; `none` = the errors (short input, bit shift over 31, missing initial sample) -/
def decode (n : Nat) (input : Bytes) (outSize : Nat) : Option Bytes :=
  if n = 0 ∨ n > 2 then none
  else if input.isEmpty ∧ outSize = 0 then some []
  else if input.length < 4 then none
  else
    match input with
    | _ :: sh :: rest =>
      if sh.toNat > 31 then none
      else if rest.length < 2 * n then none
      else
        let inits := samplesOf (rest.take (2 * n))
        some (decLoop sh.toNat outSize (inits.map fun s => { pred := s, idx := 0x2C }) (n - 1) (rest.drop (2 * n))
          (inits.flatMap sampleBytes))
    | _ => none

end Wv.Adpcm
