/-
  Model.C01Header — wow-mpq header.rs:MpqHeader::read_with_limits (default SecurityLimits), security.rs:
  validate_header_security, builder.rs:write_header. Header V1–V4 as one version-dependent fixed-layout record
  (Lib.Record). Digests are carried as 16-byte little-endian numbers. Import-free.
-/
import WowVerif.Lib.Record
namespace Wv.Hdr
open Wv

structure Hdr where
  headerSize : Nat
  archiveSize : Nat
  version : Nat          -- raw: 0 = V1 … 3 = V4
  shift : Nat
  hashPos : Nat
  blockPos : Nat
  hashSize : Nat
  blockSize : Nat
  ext : List Nat         -- the version-specific fields in file order
  deriving DecidableEq, Repr

inductive Err | io | ver | fmt
  deriving DecidableEq, Repr

def sig : Nat := 0x1A51504D

def baseW : List Nat := [4, 4, 4, 2, 2, 4, 4, 4, 4]            -- signature … block_table_size
def v2W : List Nat := [8, 2, 2]                                  -- hi_block_table_pos, hash/block_table_pos_hi
def v3W : List Nat := [8, 8, 8]                                  -- archive_size_64, bet_table_pos, het_table_pos
def v4W : List Nat := [8, 8, 8, 8, 8, 4, 16, 16, 16, 16, 16, 16] -- five sizes, raw_chunk_size, six digests

/-- FormatVersion::header_size -/
def minSize : Nat → Nat
  | 0 => 32 | 1 => 44 | 2 => 68 | _ => 208

/-- the fields read_with_limits goes on to read after the 32 common bytes -/
def extW (version headerSize : Nat) : List Nat :=
  match version with
  | 0 => []
  | 1 => v2W
  | _ => v2W ++ v3W ++ (if headerSize ≥ 208 then v4W else [])

/-- default SecurityLimits -/
def maxArchive : Nat := 4 * 1024 * 1024 * 1024
def maxHash : Nat := 1000000
def maxBlock : Nat := 1000000
def maxShift : Nat := 20

def satAdd32 (a b : Nat) : Nat := min (a + b) 4294967295

/-- security.rs:validate_header_security, check by check, in order (u32 arithmetic: checked_mul / checked_add /
    saturating_add as written) -/
def validate (h : Hdr) : Bool :=
  if h.headerSize < 32 ∨ h.headerSize > 1024 then false else
  if h.archiveSize = 0 ∨ h.archiveSize > maxArchive then false else
  if h.version > 4 then false else
  if h.shift > maxShift then false else
  if h.hashPos ≥ h.archiveSize then false else
  if ¬ (h.blockSize = 0 ∧ h.blockPos = h.archiveSize) ∧ h.blockPos > h.archiveSize then false else
  if h.hashSize > maxHash then false else
  if h.blockSize > maxBlock then false else
  if h.hashSize * 16 ≥ 4294967296 then false else
  if h.blockSize * 16 ≥ 4294967296 then false else
  if h.hashPos + h.hashSize * 16 ≥ 4294967296 then false else
  if h.hashPos + h.hashSize * 16 > satAdd32 h.archiveSize 65536 then false else
  if h.blockPos + h.blockSize * 16 ≥ 4294967296 then false else
  if h.blockPos + h.blockSize * 16 > satAdd32 h.archiveSize 65536 then false else
  if h.hashSize = 0 ∨ h.hashSize &&& (h.hashSize - 1) ≠ 0 then false else
  true

/-- the part of read_with_limits after the 32 common bytes have been read -/
def parseFields (vals : List Nat) (rest : Bytes) : Except Err Hdr :=
  match vals with
  | [_, hs, as, v, sh, hp, bp, hsz, bsz] =>
    if v > 3 then .error .ver else
    if validate ⟨hs, as, v, sh, hp, bp, hsz, bsz, []⟩ = false then .error .fmt else
    if hs < minSize v then .error .fmt else
    match Rec.dec (extW v hs) rest with
    | some (ext, _) => .ok ⟨hs, as, v, sh, hp, bp, hsz, bsz, ext⟩
    | none => .error .io
  | _ => .error .io

/-- MpqHeader::read_with_limits -/
def parse (bs : Bytes) : Except Err Hdr :=
  if bs.length < 4 then .error .io else
  if leNat (bs.take 4) ≠ sig then .error .fmt else
  match Rec.dec baseW bs with
  | some (vals, rest) => parseFields vals rest
  | none => .error .io

def baseVals (h : Hdr) : List Nat :=
  [sig, h.headerSize, h.archiveSize, h.version, h.shift, h.hashPos, h.blockPos, h.hashSize, h.blockSize]

/-- builder.rs:write_header — the same fields in the same order -/
def write (h : Hdr) : Bytes :=
  Rec.enc (baseW.zip (baseVals h)) ++ Rec.enc ((extW h.version h.headerSize).zip h.ext)

/-- what a header must satisfy for the writer's bytes to be read back -/
structure WF (h : Hdr) : Prop where
  fitsBase : Rec.Fits (baseW.zip (baseVals h))
  fitsExt : Rec.Fits ((extW h.version h.headerSize).zip h.ext)
  extLen : h.ext.length = (extW h.version h.headerSize).length
  ver : h.version ≤ 3
  valid : validate h = true
  size : minSize h.version ≤ h.headerSize

/-- derived 64-bit positions (get_hash_table_pos / get_block_table_pos / get_archive_size) -/
def hashPos64 (h : Hdr) : Nat := if h.version ≥ 1 then (h.ext.getD 1 0) * 4294967296 + h.hashPos else h.hashPos
def blockPos64 (h : Hdr) : Nat := if h.version ≥ 1 then (h.ext.getD 2 0) * 4294967296 + h.blockPos else h.blockPos
def archiveSize64 (h : Hdr) : Nat := if h.version ≥ 2 then h.ext.getD 3 0 else h.archiveSize

def show_ (r : Except Err Hdr) : String :=
  match r with
  | .error .io => "err io"
  | .error .ver => "err ver"
  | .error .fmt => "err fmt"
  | .ok h => "ok " ++ " ".intercalate ((baseVals h).drop 1 ++ h.ext |>.map toString) ++
      s!" | {hashPos64 h} {blockPos64 h} {archiveSize64 h}"

end Wv.Hdr
