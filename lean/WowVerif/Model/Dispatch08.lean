import WowVerif.Model.C08Chain
import WowVerif.Model.C08Read
namespace Wv.Drv
open Wv Wv.Chain

def intOfString (s : String) : Option Int :=
  if s.startsWith "-" then (s.drop 1).toString.toNat?.map fun n => -(n : Int) else s.toNat?.map fun n => (n : Int)

def chainToString (c : Chain) : String :=
  if c.entries.isEmpty then "-" else ",".intercalate (c.entries.map fun e => s!"{e.id}:{e.prio}")

/-- `1,2;e;0` = three listings, the second one empty; `-` = no archive -/
def listsOfString (s : String) : Option (List (List Nat)) :=
  if s == "-" then some [] else (s.splitOn ";").mapM fun l => if l == "e" then some [] else (l.splitOn ",").mapM String.toNat?

/-- `a` absent, `d:<hex>` plain and readable, `dx` plain and unreadable, `p:<hex>` a patch entry (its PTCH bytes), `px` unreadable -/
def verOfString (s : String) : Option Ver :=
  if s == "a" then some .absent else if s == "dx" then some (.plain none) else if s == "px" then some (.patch none)
  else match s.splitOn ":" with
    | ["d", h] => (bytesOfHex h).map fun b => .plain (some b)
    | ["p", h] => (bytesOfHex h).map fun b => .patch (parsePatch b)
    | _ => none

/-- stateful: returns the new chain and the answer -/
def c08 (c : Chain) (toks : List String) : Option (Chain × String) :=
  match toks with
  | ["c08reset"] => some ({}, "ok")
  | ["c08add", id, p] => do
      let c' := c.add (← id.toNat?) (← intOfString p); pure (c', chainToString c')
  | ["c08rm", id] => do
      let c' := c.remove (← id.toNat?); pure (c', chainToString c')
  | ["c08prio", id, p] => do
      match c.setPriority (← id.toNat?) (← intOfString p) with
      | some c' => pure (c', chainToString c')
      | none => pure (c, "err")
  | ["c08clear"] => some (c.clear, "-")
  | ["c08par", l] => do
      let items ← (if l == "-" then some [] else (l.splitOn ",").mapM fun it =>
        match it.splitOn ":" with
        | [i, p] => do pure ((← i.toNat?), (← intOfString p))
        | _ => none)
      let c' := fromParallel items; pure (c', chainToString c')
  | ["c08find", ids] => do
      let have_ ← (if ids == "-" then some [] else (ids.splitOn ",").mapM String.toNat?)
      match lookup (fun id _ => have_.contains id) c 0 with
      | some e => pure (c, toString e.id)
      | none => pure (c, "none")
  | ["c08patch", ph, bh] => do
      let pb ← bytesOfHex ph; let base ← bytesOfHex bh
      match parsePatch pb with
      | none => pure (c, "err parse")
      | some p =>
        match applyPatch Md5.md5 p base with
        | .ok out => pure (c, "ok " ++ hexOrDash out)
        | .error .format => pure (c, "err format")
        | .error .md5Base => pure (c, "err md5base")
        | .error .md5Result => pure (c, "err md5result")
  | ["c08map", ls, k] => do
      let lists ← listsOfString ls
      match mapGet (rebuildMap lists) (← k.toNat?) with
      | some i => pure (c, toString i)
      | none => pure (c, "none")
  | ["c08list", ls] => do
      let l := listing (← listsOfString ls)
      pure (c, if l.isEmpty then "-" else ",".intercalate (l.map toString))
  | ["c08pread", win, vs] => do
      let vers ← (vs.splitOn ";").mapM verOfString
      match readFile Md5.md5 vers (win.toNat?) with
      | .ok d => pure (c, "ok " ++ hexOrDash d)
      | .error _ => pure (c, "err")
  | ["md5", h] => do pure (c, hexOfBytes (Md5.md5 (← bytesOfHex h)))
  | ["c08rle", h, size] => do
      match rleDecompress (← bytesOfHex h) (← size.toNat?) true with
      | some o => pure (c, hexOrDash o)
      | none => pure (c, "err")
  | _ => none

end Wv.Drv
