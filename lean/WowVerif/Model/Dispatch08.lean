import WowVerif.Model.C08Chain
namespace Wv.Drv
open Wv Wv.Chain

def intOfString (s : String) : Option Int :=
  if s.startsWith "-" then (s.drop 1).toString.toNat?.map fun n => -(n : Int) else s.toNat?.map fun n => (n : Int)

def chainToString (c : Chain) : String :=
  if c.entries.isEmpty then "-" else ",".intercalate (c.entries.map fun e => s!"{e.id}:{e.prio}")

/-- stateful: returns the new chain and the answer -/
def c08 (c : Chain) (toks : List String) : Option (Chain × String) :=
  match toks with
  | ["c08reset"] => some ({}, "ok")
  | ["c08add", id, p] => do
      let c' := c.add (← id.toNat?) (← intOfString p); pure (c', chainToString c')
  | ["c08rm", id] => do
      let c' := c.remove (← id.toNat?); pure (c', chainToString c')
  | ["c08prio", id, p] => do
      match c.setPriority (← id.toNat?) (← intOfString p) with
      | some c' => pure (c', chainToString c')
      | none => pure (c, "err")
  | ["c08clear"] => some (c.clear, "-")
  | ["c08par", l] => do
      let items ← (if l == "-" then some [] else (l.splitOn ",").mapM fun it =>
        match it.splitOn ":" with
        | [i, p] => do pure ((← i.toNat?), (← intOfString p))
        | _ => none)
      let c' := fromParallel items; pure (c', chainToString c')
  | ["c08find", ids] => do
      let have_ ← (if ids == "-" then some [] else (ids.splitOn ",").mapM String.toNat?)
      match lookup (fun id _ => have_.contains id) c 0 with
      | some e => pure (c, toString e.id)
      | none => pure (c, "none")
  | ["c08patch", ph, bh] => do
      let pb ← bytesOfHex ph; let base ← bytesOfHex bh
      match parsePatch pb with
      | none => pure (c, "err parse")
      | some p =>
        match applyPatch Md5.md5 p base with
        | .ok out => pure (c, "ok " ++ hexOrDash out)
        | .error .format => pure (c, "err format")
        | .error .md5Base => pure (c, "err md5base")
        | .error .md5Result => pure (c, "err md5result")
  | ["md5", h] => do pure (c, hexOfBytes (Md5.md5 (← bytesOfHex h)))
  | ["c08rle", h, size] => do
      match rleDecompress (← bytesOfHex h) (← size.toNat?) true with
      | some o => pure (c, hexOrDash o)
      | none => pure (c, "err")
  | _ => none

end Wv.Drv
