import WowVerif.Model.C06Mut
namespace Wv.Drv
open Wv Wv.Mut

def parseSlot (t : String) : Option Slot :=
  if t == "N" then some .never else if t == "D" then some .deleted else
  match t.splitOn "." with
  | [a, b, l, k] => do pure (.used (← a.toNat?) (← b.toNat?) (← l.toNat?) (← k.toNat?))
  | _ => none

def parseBlk (t : String) : Option Blk :=
  match t.splitOn "." with
  | [p, c, f, fl] => do pure ⟨← p.toNat?, ← c.toNat?, ← f.toNat?, ← fl.toNat?⟩
  | _ => none

/-- `hp.bp.hs.bc.asz;slots;blocks` -/
def parseDump (d : String) (listHex : String) : Option Sess :=
  match d.splitOn ";" with
  | [h, sl, bl] =>
    match h.splitOn "." with
    | [hp, bp, _hs, bc, asz] => do
      let slots ← (sl.splitOn ",").mapM parseSlot
      let blocks ← if bl == "-" then some [] else (bl.splitOn ",").mapM parseBlk
      let (hasList, content) ← if listHex == "none" then some (false, []) else (bytesOfHex listHex).map fun c => (true, c)
      pure { hash := slots, blocks := blocks, cursor := none, dirty := false, dHashPos := ← hp.toNat?, dBlockPos := ← bp.toNat?,
             dBlockCount := ← bc.toNat?, dArchiveSize := ← asz.toNat?, dBlocks := blocks, hasList := hasList, listContent := content }
    | _ => none
  | _ => none

def slotStr : Slot → String
  | .never => "N"
  | .deleted => "D"
  | .used a b l k => s!"{a}.{b}.{l}.{k}"

def dumpOf (s : Sess) : String :=
  s!"{s.dHashPos}.{s.dBlockPos}.{s.hash.length}.{s.dBlockCount}.{s.dArchiveSize};" ++ ",".intercalate (s.hash.map slotStr) ++ ";" ++
    (if s.dBlocks.isEmpty then "-" else ",".intercalate (s.dBlocks.map fun b => s!"{b.pos}.{b.csize}.{b.fsize}.{b.flags}"))

def errOr (r : Except String Sess) (s : Sess) : Sess × String :=
  match r with
  | .ok s' => (s', "ok")
  | .error e => (s, e)

/-- one history token; returns the new state and the answer tokens -/
def c06step (s : Sess) (tok : String) : Option (Sess × String) :=
  match tok.splitOn ":" with
  | ["A", nh, fs, cl, enc, rep] => do
      let name ← bytesOfHex nh
      let fsize ← fs.toNat?
      -- the harness sends the raw length when no compression was asked for, "E" when the compressor failed
      let clen := cl.toNat?
      pure (errOr (add s name fsize clen (cl == "E" || clen != some fsize) (← enc.toNat?) (rep == "1")) s)
  | ["R", nh] => do pure (errOr (remove s (← bytesOfHex nh)) s)
  | ["M", oh, nh, z] => do pure (rename s (← bytesOfHex oh) (← bytesOfHex nh) (← z.toNat?))
  | ["F"] => let s' := flush s; some (s', "ok " ++ dumpOf s')
  | ["O"] => let s' := flush s; some (s', dumpOf s')
  | ["C", d, lh] =>
      let s0 := flush s
      if !tablesOk s0 then some (s0, "notables")
      else if !resolvable s0 then some (s0, "noname")
      else do
        let s' ← parseDump d lh
        let same := sortKeys (liveKeys s0.hash s0.blocks) == sortKeys (liveKeys s'.hash s'.blocks)
        pure (s', if same then "ok keys-match" else "ok keys-differ")
  | _ => none

def c06 (toks : List String) : Option String :=
  match toks with
  | "c06run" :: d :: lh :: ops => do
      let s0 ← parseDump d lh
      let (_, outs) ← ops.foldlM (fun (acc : Sess × List String) t => do
        let (s', o) ← c06step acc.1 t
        pure (s', o :: acc.2)) (s0, [])
      pure (" ".intercalate outs.reverse)
  | _ => none

end Wv.Drv
