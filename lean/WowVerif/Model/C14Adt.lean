import WowVerif.Lib.Iff
/-!
C14 — the derived data of an ADT root file (file-formats/world-data/wow-adt/src/builder/serializer.rs): MHDR offsets and
flags, MCIN entries and the offset/size fields of an MCNK header, as functions of the chunk layout alone.
A layout is the list of (chunk id as written, payload length); `posOf` turns it into file positions.
-/
namespace Wv.Adt
open Wv Wv.Iff

abbrev Layout := List (String × Nat)

/-- position of every chunk when the layout starts at `start` -/
def posOf (start : Nat) : Layout → List (String × Nat × Nat)
  | [] => []
  | (id, n) :: rest => (id, start, n) :: posOf (start + 8 + n) rest

def firstOf (id : String) (ps : List (String × Nat × Nat)) : Option (Nat × Nat) :=
  (ps.find? (·.1 == id)).map (·.2)

/-- MHDR payload starts at file offset 20 (MVER chunk = 12 bytes, MHDR header = 8) -/
def mhdrBase : Nat := 20

/-- the 16 dwords of MHDR: flags, then offsets of MCIN MTEX MMDX MMID MWMO MWID MDDF MODF MFBO MH2O MTXF, 4 unused -/
def mhdrOf (l : Layout) : List Nat :=
  let ps := posOf 0 l
  let rel := fun id => match firstOf id ps with
    | some (p, _) => p - mhdrBase
    | none => 0
  let flags := (if (firstOf "MFBO" ps).isSome then 1 else 0) + (if (firstOf "MH2O" ps).isSome then 2 else 0)
  [flags, rel "MCIN", rel "MTEX", rel "MMDX", rel "MMID", rel "MWMO", rel "MWID", rel "MDDF", rel "MODF", rel "MFBO", rel "MH2O", rel "MTXF", 0, 0, 0, 0]

/-- MCIN: (absolute offset, payload size) of every MCNK in file order, padded with zero entries to 256 -/
def mcinOf (l : Layout) : List (Nat × Nat) :=
  let ms := ((posOf 0 l).filter (·.1 == "MCNK")).map (·.2)
  ms ++ List.replicate (256 - ms.length) (0, 0)

/-! ## MCNK header (136 bytes in this crate's layout): derived fields from the sub-chunk layout -/

/-- sub-chunks start behind the 8-byte chunk header and the 136-byte MCNK header; offsets are relative to the chunk start -/
def subStart : Nat := 144

structure McnkDerived where
  ofsHeight : Nat
  ofsNormal : Nat
  ofsLayer : Nat
  nLayers : Nat
  ofsRefs : Nat
  ofsAlpha : Nat
  sizeAlpha : Nat
  ofsShadow : Nat
  sizeShadow : Nat
  ofsSnd : Nat
  nSnd : Nat
  ofsLiquid : Nat
  sizeLiquid : Nat
  ofsMccv : Nat
  ofsMclv : Nat
  mccvFlag : Bool
deriving Repr, DecidableEq

def mcnkOf (subs : Layout) : McnkDerived :=
  let ps := posOf subStart subs
  let ofs : String → Nat := fun id => ((firstOf id ps).map (·.1)).getD 0
  let len : String → Nat := fun id => ((firstOf id ps).map (·.2)).getD 0
  let refs := if ofs "MCRF" ≠ 0 then ofs "MCRF" else if ofs "MCRD" ≠ 0 then ofs "MCRD" else ofs "MCRW"
  { ofsHeight := ofs "MCVT", ofsNormal := ofs "MCNR", ofsLayer := ofs "MCLY", nLayers := len "MCLY" / 16, ofsRefs := refs,
    ofsAlpha := ofs "MCAL", sizeAlpha := len "MCAL", ofsShadow := ofs "MCSH", sizeShadow := len "MCSH",
    ofsSnd := ofs "MCSE", nSnd := len "MCSE" / 28, ofsLiquid := ofs "MCLQ",
    sizeLiquid := if ofs "MCLQ" ≠ 0 then len "MCLQ" + 8 else 0,
    ofsMccv := ofs "MCCV", ofsMclv := ofs "MCLV", mccvFlag := ofs "MCCV" ≠ 0 }

end Wv.Adt
