/-
  Model.C19Ffi — the handle tables of ffi/storm-ffi (ARCHIVES / FILES / FIND_HANDLES keyed by ids from one
  counter), with arbitrary handle values supplied by the caller. 0 is the null handle.
-/
namespace Wv.Ffi

structure FileH where
  arch : Nat
  len : Nat
  pos : Nat
  deriving DecidableEq, Repr

structure FindH where
  arch : Nat
  total : Nat        -- number of matching entries still to report + already reported
  idx : Nat
  deriving DecidableEq, Repr

structure St where
  archives : List Nat := []
  files : List (Nat × FileH) := []
  finds : List (Nat × FindH) := []
  next : Nat := 1
  deriving Repr

inductive Res
  | handle (h : Nat)
  | ok
  | count (n : Nat)          -- bytes read / new position / size
  | invalidHandle
  | invalidParam
  | notFound
  | noMore
  deriving DecidableEq, Repr

def lookupF (l : List (Nat × FileH)) (h : Nat) : Option FileH := (l.find? (·.1 == h)).map (·.2)
def lookupG (l : List (Nat × FindH)) (h : Nat) : Option FindH := (l.find? (·.1 == h)).map (·.2)

/-- SFileOpenArchive / SFileCreateArchive succeeding -/
def openArchive (s : St) : St × Res :=
  ({ s with archives := s.next :: s.archives, next := s.next + 1 }, .handle s.next)

/-- SFileCloseArchive: purge the archive's file handles and search handles, then the archive itself -/
def closeArchive (s : St) (h : Nat) : St × Res :=
  if h = 0 then (s, .invalidHandle) else
  let s' := { s with files := s.files.filter (·.2.arch != h), finds := s.finds.filter (·.2.arch != h) }
  if s.archives.contains h then ({ s' with archives := s.archives.erase h }, .ok) else (s', .invalidHandle)

/-- SFileOpenFileEx; `len` = `some n` when the archive holds the name (n bytes), `none` otherwise -/
def openFile (s : St) (ah : Nat) (len : Option Nat) : St × Res :=
  if ah = 0 ∨ !s.archives.contains ah then (s, .invalidHandle) else
  match len with
  | none => (s, .notFound)
  | some n => ({ s with files := (s.next, ⟨ah, n, 0⟩) :: s.files, next := s.next + 1 }, .handle s.next)

def closeFile (s : St) (h : Nat) : St × Res :=
  if h = 0 then (s, .invalidHandle) else
  match lookupF s.files h with
  | none => (s, .invalidHandle)
  | some _ => ({ s with files := s.files.filter (·.1 != h) }, .ok)

/-- SFileReadFile: min(requested, remaining) bytes from the current position -/
def readFile (s : St) (h : Nat) (want : Nat) : St × Res :=
  if h = 0 then (s, .invalidHandle) else
  match lookupF s.files h with
  | none => (s, .invalidHandle)
  | some f =>
    let k := min want (f.len - f.pos)
    -- (ids are unique, so "the entry with key h" is f; written per entry so that no uniqueness argument is needed)
    ({ s with files := s.files.map fun p => if p.1 = h then (p.1, { p.2 with pos := p.2.pos + min want (p.2.len - p.2.pos) }) else p },
     .count k)

/-- new position: base + offset, a negative target wraps (as usize) and is clamped to the length like any overshoot -/
def seekPos (f : FileH) (off : Int) (method : Nat) : Nat :=
  let base : Int := if method = 0 then 0 else if method = 1 then f.pos else f.len
  let t := base + off
  if t < 0 then f.len else min t.toNat f.len

/-- SFileSetFilePointer. `off` is the combined 64-bit signed offset; method 0/1/2 = begin/current/end. A target
    below zero wraps to a huge unsigned value and is clamped to the length (as the code does). -/
def seek (s : St) (h : Nat) (off : Int) (method : Nat) : St × Res :=
  if h = 0 then (s, .invalidHandle) else
  match lookupF s.files h with
  | none => (s, .invalidHandle)
  | some f =>
    if method > 2 then (s, .invalidParam) else
    ({ s with files := s.files.map fun p => if p.1 = h then (p.1, { p.2 with pos := seekPos p.2 off method }) else p },
     .count (seekPos f off method))

def fileSize (s : St) (h : Nat) : St × Res :=
  if h = 0 then (s, .invalidHandle) else
  match lookupF s.files h with
  | none => (s, .invalidHandle)
  | some f => (s, .count f.len)

/-- SFileFindFirstFile; `total` = number of entries matching the mask -/
def findFirst (s : St) (ah : Nat) (total : Nat) : St × Res :=
  if ah = 0 ∨ !s.archives.contains ah then (s, .invalidHandle) else
  if total = 0 then (s, .notFound) else
  ({ s with finds := (s.next, ⟨ah, total, 1⟩) :: s.finds, next := s.next + 1 }, .handle s.next)

def findNext (s : St) (h : Nat) : St × Res :=
  if h = 0 then (s, .invalidHandle) else
  match lookupG s.finds h with
  | none => (s, .invalidHandle)
  | some g =>
    if g.idx ≥ g.total then (s, .noMore) else
    ({ s with finds := s.finds.map fun p => if p.1 = h then (p.1, { p.2 with idx := p.2.idx + 1 }) else p }, .ok)

def findClose (s : St) (h : Nat) : St × Res :=
  if h = 0 then (s, .invalidHandle) else
  match lookupG s.finds h with
  | none => (s, .invalidHandle)
  | some _ => ({ s with finds := s.finds.filter (·.1 != h) }, .ok)

inductive Call
  | openArchive
  | closeArchive (h : Nat)
  | openFile (ah : Nat) (len : Option Nat)
  | closeFile (h : Nat)
  | read (h want : Nat)
  | seek (h : Nat) (off : Int) (method : Nat)
  | size (h : Nat)
  | findFirst (ah total : Nat)
  | findNext (h : Nat)
  | findClose (h : Nat)
  deriving Repr

def step (s : St) : Call → St × Res
  | .openArchive => openArchive s
  | .closeArchive h => closeArchive s h
  | .openFile ah len => openFile s ah len
  | .closeFile h => closeFile s h
  | .read h w => readFile s h w
  | .seek h o m => seek s h o m
  | .size h => fileSize s h
  | .findFirst ah t => findFirst s ah t
  | .findNext h => findNext s h
  | .findClose h => findClose s h

def run (cs : List Call) : St := cs.foldl (fun s c => (step s c).1) {}

end Wv.Ffi
