/-
  Model.C19Close — SFileCloseArchive against concurrent SFileOpenFileEx / SFileFindFirstFile on the same archive
  (ffi/storm-ffi/src/lib.rs). Every lock-protected section is one atomic step; a schedule is any sequence of
  "which thread moves next". Only handles on the archive being closed are tracked.
    close (three sections, each under its own lock):  remove the archive · purge its file handles · purge its search handles
        (`removeFirst = false` is the order used before repair D70: purge files · purge searches · remove)
    open-file (one section: the archive table stays locked until the handle is stored): if the archive is open, store a handle
    find-first (three sections): list under the archive lock · store the search handle · look the archive up again and
        drop the handle if it is gone
  Import-free.
-/
namespace Wv.Close

structure S where
  arch : Bool := true            -- the archive is in the table
  closePc : Nat := 0             -- sections of SFileCloseArchive already executed (0..3)
  files : Nat := 0               -- file handles stored on the archive
  finds : List Nat := []         -- search threads whose handle is stored
  pc : Nat → Nat := fun _ => 0   -- per search thread: sections executed (0..3)
  saw : Nat → Bool := fun _ => false

inductive Act
  | close                -- the closing thread executes its next section
  | openFile             -- some thread runs SFileOpenFileEx (atomic)
  | find (t : Nat)       -- search thread t executes its next section
  deriving DecidableEq, Repr

def closeStep (removeFirst : Bool) (s : S) : S :=
  match removeFirst, s.closePc with
  | true, 0 => { s with arch := false, closePc := 1 }
  | true, 1 => { s with files := 0, closePc := 2 }
  | true, 2 => { s with finds := [], closePc := 3 }
  | false, 0 => { s with files := 0, closePc := 1 }
  | false, 1 => { s with finds := [], closePc := 2 }
  | false, 2 => { s with arch := false, closePc := 3 }
  | _, _ => s

def findStep (recheck : Bool) (s : S) (t : Nat) : S :=
  match s.pc t with
  | 0 => if s.arch then { s with pc := fun u => if u = t then 1 else s.pc u, saw := fun u => if u = t then true else s.saw u }
         else { s with pc := fun u => if u = t then 3 else s.pc u }          -- invalid handle: nothing stored
  | 1 => { s with finds := t :: s.finds, pc := fun u => if u = t then 2 else s.pc u }
  | 2 => { s with finds := if recheck ∧ ¬ s.arch then s.finds.filter (· ≠ t) else s.finds,
                  pc := fun u => if u = t then 3 else s.pc u }
  | _ => s

def step (removeFirst recheck : Bool) (s : S) : Act → S
  | .close => closeStep removeFirst s
  | .openFile => if s.arch then { s with files := s.files + 1 } else s
  | .find t => findStep recheck s t

def run (removeFirst recheck : Bool) (sched : List Act) : S := sched.foldl (step removeFirst recheck) {}

end Wv.Close
