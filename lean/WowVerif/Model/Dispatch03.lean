import WowVerif.Model.C03Codec
import WowVerif.Model.C03Adpcm
namespace Wv.Drv
open Wv Wv.Codec

def rejName : Rej → String
  | .empty => "empty" | .exhaustion => "exhaustion" | .bomb => "bomb" | .malicious => "malicious" | .invalid => "invalid"

def c03 (toks : List String) : Option String :=
  match toks with
  | ["c03frame", m, dlen, enclen] => do
      let m ← m.toNat?; let d ← dlen.toNat?; let e ← enclen.toNat?
      let out := frame (UInt8.ofNat m) (List.replicate d 1) (List.replicate e 2)
      pure (if out.length = d ∧ out.head? ≠ some (UInt8.ofNat m) ∨ 1 + e ≥ d then "raw" else "framed")
  | ["c03pre", clen, dlen, m] => do
      match preCheck (← clen.toNat?) (← dlen.toNat?) (← m.toNat?) 0 with
      | .ok _ => pure "pass"
      | .error r => pure ("rej " ++ rejName r)
  | ["c03post", dlen, actual] => do
      match postCheck (← dlen.toNat?) (← actual.toNat?) with
      | .ok _ => pure "pass"
      | .error r => pure ("rej " ++ rejName r)
  | ["c03sparse", h, expected] => do
      let b ← bytesOfHex h; let e ← expected.toNat?
      match sparseDecompress b e with
      | some out => pure (hexOrDash out)
      | none => pure "err"
  | ["c03sparsec", h] => do
      let d ← bytesOfHex h
      let enc := sparseCompress d
      pure (if 1 + enc.length ≥ d.length then "raw" else hexOfBytes enc)
  | ["c03adpcmenc", n, h] => do
      -- compress(data, ADPCM mono / stereo): level 5, stored raw when not shorter
      let d ← (if h == "-" then some [] else bytesOfHex h)
      match Adpcm.encode (← n.toNat?) 5 d with
      | none => pure "err"
      | some enc => pure (if 1 + enc.length ≥ d.length then "raw" else hexOfBytes enc)
  | ["c03adpcmdec", n, h, size] => do
      let b ← (if h == "-" then some [] else bytesOfHex h)
      match Adpcm.decode (← n.toNat?) b (← size.toNat?) with
      | none => pure "err"
      | some out => pure (hexOrDash out)
  | ["c03sel", f] => do pure (if selectorSupported (← f.toNat?) then "ok" else "unsupported")
  | _ => none

end Wv.Drv
