/-
  Model.Mpq — an MPQ reader and writer for classic hash/block tables (header V1–V4), written from the published
  format description (docs/src/formats/archives/mpq.md, StormLib's documented layout). Conventions on which
  /repo's code departs from the published format are parameters (`Conv`), so the same functions serve as the
  reference implementation (C02) and as the model of the code (C01).
  Third-party codecs are a finite table `stored ↦ plain` supplied by the caller.
-/
import WowVerif.Model.C04Crypto
import WowVerif.Spec.Crypt
import WowVerif.Model.C03Codec
namespace Wv.Mpq
open Wv

structure Conv where
  /-- file key from the full archive name (what /repo does) instead of the plain name after the last '\' -/
  keyFullName : Bool
  /-- encrypt the 1–3 tail bytes as a zero-padded dword under key+⌊len/4⌋ (what /repo does) instead of leaving them plain -/
  encTail : Bool
  /-- apply the decompressor's ratio / size heuristics (security.rs) to every compressed unit -/
  ratioLimits : Bool
  deriving Repr

def codeConv : Conv := ⟨true, true, true⟩
def publishedConv : Conv := ⟨false, false, false⟩

abbrev Codec := List (Bytes × Bytes)     -- stored unit (method byte + payload) ↦ plain bytes

def hashS (ty : Nat) (name : Bytes) : W32 := Model.hashString ty name

def FLAG_IMPLODE : Nat := 0x100
def FLAG_COMPRESS : Nat := 0x200
def FLAG_ENCRYPTED : Nat := 0x10000
def FLAG_FIX_KEY : Nat := 0x20000
def FLAG_SINGLE_UNIT : Nat := 0x1000000
def FLAG_SECTOR_CRC : Nat := 0x4000000
def FLAG_EXISTS : Nat := 0x80000000
def hasFlag (flags f : Nat) : Bool := flags / f % 2 = 1

/-! ### encryption of byte strings -/

/-- published rule: whole dwords only, the tail stays plain -/
def cryptBytesPlainTail (enc : Bool) (data : Bytes) (key : W32) : Bytes :=
  let (ws, t) := toWords data
  ofWords (if enc then Model.encryptBlock ws key else Model.decryptBlock ws key) ++ t

def encBytes (c : Conv) (data : Bytes) (key : W32) : Bytes :=
  if c.encTail then Model.encryptBytes data key else cryptBytesPlainTail true data key
def decBytes (c : Conv) (data : Bytes) (key : W32) : Bytes :=
  if c.encTail then Model.decryptBytes data key else cryptBytesPlainTail false data key

/-! ### header -/

structure Header where
  headerSize : Nat
  archiveSize : Nat
  version : Nat       -- 0..3 = V1..V4
  shift : Nat
  hashPos : Nat
  blockPos : Nat
  hashCount : Nat
  blockCount : Nat
  deriving Repr

def u16At (bs : Bytes) (o : Nat) : Nat := leNat ((bs.drop o).take 2)
def u32At (bs : Bytes) (o : Nat) : Nat := leNat ((bs.drop o).take 4)

def parseHeader (bs : Bytes) : Option Header :=
  if bs.length < 32 then none else
  if bs.take 4 ≠ [0x4D, 0x50, 0x51, 0x1A] then none else
  let v := u16At bs 12
  let hi (o : Nat) : Nat := if v ≥ 1 ∧ bs.length ≥ 44 then u16At bs o * 4294967296 else 0
  some { headerSize := u32At bs 4, archiveSize := u32At bs 8, version := v, shift := u16At bs 14,
         hashPos := u32At bs 16 + hi 40, blockPos := u32At bs 20 + hi 42, hashCount := u32At bs 24, blockCount := u32At bs 28 }

def sectorSize (h : Header) : Nat := 512 * 2 ^ h.shift

/-! ### tables -/

def tableKeyHash : W32 := hashS 0x300 "(hash table)".toUTF8.toList
def tableKeyBlock : W32 := hashS 0x300 "(block table)".toUTF8.toList

/-- `count` entries of four dwords each, decrypted -/
def readTable (bs : Bytes) (pos count : Nat) (key : W32) : Option (List (List Nat)) :=
  match slice bs pos (count * 16) with
  | none => none
  | some raw =>
    let ws := (Model.decryptBlock (toWords raw).1 key).map (·.toNat)
    let rec group : Nat → List Nat → List (List Nat)
      | 0, _ => []
      | n+1, a :: b :: c :: d :: rest => [a, b, c, d] :: group n rest
      | _, _ => []
    some (group count ws)

structure BlockE where
  pos : Nat
  csize : Nat
  fsize : Nat
  flags : Nat
  deriving Repr

/-- the probe order of a table of `size` slots starting at `start`: start, start+1, …, wrapping around once -/
def probeSeq (size start : Nat) : List Nat := (List.range size).map fun k => (start + k) % size

/-- scan slots in probe order: a never-used slot ends the search, a live slot with both name hashes matches -/
def findIn (ht : List (List Nat)) (a b : Nat) : List Nat → Option Nat
  | [] => none
  | i :: rest =>
    match ht[i]? with
    | some [n1, n2, _, blk] =>
      if blk = 0xFFFFFFFF then none
      else if blk ≠ 0xFFFFFFFE ∧ n1 = a ∧ n2 = b then some blk
      else findIn ht a b rest
    | _ => none

/-- classic lookup (tables/hash.rs:find_file): start at hash(name, 0) mod size, probe linearly -/
def findBlock (ht : List (List Nat)) (name : Bytes) : Option Nat :=
  if ht.length = 0 then none else
  findIn ht (hashS 0x100 name).toNat (hashS 0x200 name).toNat (probeSeq ht.length ((hashS 0 name).toNat % ht.length))

def plainName (name : Bytes) : Bytes :=
  ((name.reverse.takeWhile fun b => b != 92 && b != 47).reverse)

def fileKey (c : Conv) (name : Bytes) (b : BlockE) : W32 :=
  let base := hashS 0x300 (if c.keyFullName then name else plainName name)
  if hasFlag b.flags FLAG_FIX_KEY then (base + BitVec.ofNat 32 b.pos) ^^^ BitVec.ofNat 32 b.fsize else base

def decodeUnit (c : Conv) (codec : Codec) (stored : Bytes) (expected : Nat) (compressedFlag : Bool) : Except String Bytes :=
  if compressedFlag ∧ stored.length < expected then
    if c.ratioLimits ∧ !(Wv.Codec.preCheck (stored.length - 1) expected ((stored.headD 0).toNat) 0).isOk then .error "bomb" else
    match codec.find? (·.1 == stored) with
    | some (_, plain) => if plain.length = expected then .ok plain else .error "codec-length"
    | none => .error "codec-unknown-unit"
  else .ok (stored.take expected)

/-- the raw stored units of a file after decryption, with the plain length each must decode to (for an external,
    independent codec — CPython's zlib/bz2 in C02) -/
def storedUnits (c : Conv) (arch : Bytes) (name : Bytes) : Except String (Nat × List (Nat × Bytes)) :=
  match parseHeader arch with
  | none => .error "header"
  | some h =>
  match readTable arch h.hashPos h.hashCount tableKeyHash, readTable arch h.blockPos h.blockCount tableKeyBlock with
  | some ht, some bt =>
    match findBlock ht name with
    | none => .error "notfound"
    | some bi =>
      match bt[bi]? with
      | some [pos, csize, fsize, flags] =>
        let b : BlockE := ⟨pos, csize, fsize, flags⟩
        let enc := hasFlag flags FLAG_ENCRYPTED
        let comp := hasFlag flags FLAG_COMPRESS || hasFlag flags FLAG_IMPLODE
        let key := fileKey c name b
        let ssz := sectorSize h
        if hasFlag flags FLAG_SINGLE_UNIT then
          match slice arch pos csize with
          | none => .error "bounds"
          | some raw => .ok (flags, [(fsize, if enc then decBytes c raw key else raw)])
        else if comp then
          let n := (fsize + ssz - 1) / ssz
          match slice arch pos ((n + 1) * 4) with
          | none => .error "bounds"
          | some ot =>
            let ot := if enc then decBytes c ot (key - 1) else ot
            let offs := (List.range (n + 1)).map fun i => u32At ot (4 * i)
            let us := (List.range n).map fun i =>
              let s := offs.getD i 0; let e := offs.getD (i + 1) 0
              let raw := ((arch.drop (pos + s)).take (e - s))
              (min ssz (fsize - i * ssz), if enc then decBytes c raw (key + BitVec.ofNat 32 i) else raw)
            .ok (flags, us)
        else
          match slice arch pos fsize with
          | none => .error "bounds"
          | some raw =>
            let n := (fsize + ssz - 1) / ssz
            .ok (flags, (List.range n).map fun i =>
              let r := (raw.drop (i * ssz)).take ssz
              (r.length, if enc then decBytes c r (key + BitVec.ofNat 32 i) else r))
      | _ => .error "blockindex"
  | _, _ => .error "tables"

/-- read the file a block-table entry describes; `fetch off n` is the archive's bytes `[off, off+n)` or `none` when
    out of bounds. Mirrors the published layout: single unit; sectored with an offset table iff COMPRESS/IMPLODE;
    otherwise plain sectors, each encrypted with key + index -/
def readEntry (c : Conv) (codec : Codec) (fetch : Nat → Nat → Option Bytes) (ssz : Nat) (name : Bytes)
    (pos csize fsize flags : Nat) : Except String Bytes :=
  let b : BlockE := ⟨pos, csize, fsize, flags⟩
  if !hasFlag flags FLAG_EXISTS then .error "notfound" else
  let enc := hasFlag flags FLAG_ENCRYPTED
  let comp := hasFlag flags FLAG_COMPRESS || hasFlag flags FLAG_IMPLODE
  let key := fileKey c name b
  if hasFlag flags FLAG_SINGLE_UNIT then
    match fetch pos csize with
    | none => .error "bounds"
    | some raw => decodeUnit c codec (if enc then decBytes c raw key else raw) fsize comp
  else if comp then
    let n := (fsize + ssz - 1) / ssz
    match fetch pos ((n + 1) * 4) with
    | none => .error "bounds"
    | some ot =>
      let ot := if enc then decBytes c ot (key - 1) else ot
      let offs := (List.range (n + 1)).map fun i => u32At ot (4 * i)
      let rec sectors : Nat → Nat → Except String Bytes
        | 0, _ => .ok []
        | k+1, i =>
          let s := offs.getD i 0; let e := offs.getD (i + 1) 0
          if e < s then .error "offsets" else
          match fetch (pos + s) (e - s) with
          | none => .error "bounds"
          | some raw =>
            let expected := min ssz (fsize - i * ssz)
            match decodeUnit c codec (if enc then decBytes c raw (key + BitVec.ofNat 32 i) else raw) expected true,
                  sectors k (i + 1) with
            | .ok d, .ok rest => .ok (d ++ rest)
            | .error e, _ => .error e
            | _, .error e => .error e
      sectors n 0
  else
    match fetch pos fsize with
    | none => .error "bounds"
    | some raw =>
      if !enc then .ok raw else
      let rec secs : Nat → Bytes → Nat → Bytes
        | 0, _, _ => []
        | f+1, r, i => if r.isEmpty then [] else decBytes c (r.take ssz) (key + BitVec.ofNat 32 i) ++ secs f (r.drop ssz) (i + 1)
      .ok (secs (raw.length + 1) raw 0)

/-- read one file by name: header, both tables, hash lookup, block entry, then `readEntry` -/
def readFile (c : Conv) (codec : Codec) (arch : Bytes) (name : Bytes) : Except String Bytes :=
  match parseHeader arch with
  | none => .error "header"
  | some h =>
  match readTable arch h.hashPos h.hashCount tableKeyHash, readTable arch h.blockPos h.blockCount tableKeyBlock with
  | some ht, some bt =>
    match findBlock ht name with
    | none => .error "notfound"
    | some bi =>
      match bt[bi]? with
      | some [pos, csize, fsize, flags] => readEntry c codec (slice arch) (sectorSize h) name pos csize fsize flags
      | _ => .error "blockindex"
  | _, _ => .error "tables"

end Wv.Mpq

namespace Wv.Mpq
open Wv

/-! ### writer -/

structure FileSpec where
  name : Bytes
  data : Bytes
  /-- 0 plain, 1 encrypted, 2 encrypted with position-adjusted key -/
  enc : Nat
  /-- stored form of every unit (single unit: one entry; otherwise one per sector): either the plain bytes or
      method byte + payload, as decided by the store-raw rule -/
  units : List Bytes
  deriving Repr

def sectorsOf (ssz : Nat) : Nat → Bytes → List Bytes
  | 0, _ => []
  | f+1, d => if d.isEmpty then [] else d.take ssz :: sectorsOf ssz f (d.drop ssz)

/-- stored bytes and flags of one file placed at archive offset `pos` -/
def layoutFile (c : Conv) (ssz : Nat) (f : FileSpec) (pos : Nat) : Bytes × Nat :=
  let encFlags := (if f.enc ≥ 1 then FLAG_ENCRYPTED else 0) + (if f.enc = 2 then FLAG_FIX_KEY else 0)
  let key0 := hashS 0x300 (if c.keyFullName then f.name else plainName f.name)
  let key := if f.enc = 2 then (key0 + BitVec.ofNat 32 pos) ^^^ BitVec.ofNat 32 f.data.length else key0
  if f.data.length ≤ ssz then
    let stored := f.units.headD f.data
    let comp := stored.length < f.data.length
    let body := if f.enc ≥ 1 then encBytes c stored key else stored
    (body, FLAG_EXISTS + FLAG_SINGLE_UNIT + encFlags + (if comp then FLAG_COMPRESS else 0))
  else
    let plainSecs := sectorsOf ssz (f.data.length + 1) f.data
    let anyComp := (plainSecs.zip f.units).any fun (p, s) => s.length < p.length
    if !anyComp then
      -- no sector compressed: plain sectors, each encrypted on its own
      let body := if f.enc ≥ 1 then
          (plainSecs.zipIdx.flatMap fun (s, i) => encBytes c s (key + BitVec.ofNat 32 i)) else f.data
      (body, FLAG_EXISTS + encFlags)
    else
      let n := plainSecs.length
      let tableBytes := (n + 1) * 4
      let rec offs : List Bytes → Nat → List Nat
        | [], cur => [cur]
        | u :: us, cur => cur :: offs us (cur + u.length)
      let table := (offs f.units tableBytes).flatMap (natLE 4)
      let secs := f.units.zipIdx.flatMap fun (s, i) => if f.enc ≥ 1 then encBytes c s (key + BitVec.ofNat 32 i) else s
      ((if f.enc ≥ 1 then encBytes c table (key - 1) else table) ++ secs, FLAG_EXISTS + FLAG_COMPRESS + encFlags)

def emptyHash : List Nat := [0xFFFFFFFF, 0xFFFFFFFF, 0xFFFFFFFF, 0xFFFFFFFF]

def slotFree (ht : List (List Nat)) (i : Nat) : Bool :=
  match ht[i]? with
  | some [_, _, _, b] => b = 0xFFFFFFFF || b = 0xFFFFFFFE
  | _ => false

/-- take the first free (never used or deleted) slot in probe order -/
def insertIn (ht : List (List Nat)) (entry : List Nat) : List Nat → List (List Nat)
  | [] => ht
  | i :: rest => if slotFree ht i then ht.set i entry else insertIn ht entry rest

/-- builder.rs:add_to_hash_table — insert by linear probing from hash(name, 0) mod size -/
def insertHash (ht : List (List Nat)) (name : Bytes) (blk : Nat) : List (List Nat) :=
  insertIn ht [(hashS 0x100 name).toNat, (hashS 0x200 name).toNat, 0, blk] (probeSeq ht.length ((hashS 0 name).toNat % ht.length))

def encodeTable (rows : List (List Nat)) (key : W32) : Bytes :=
  ofWords (Model.encryptBlock (rows.flatMap fun r => r.map (BitVec.ofNat 32)) key)

/-- a V1 (version = 0) or V2 (version = 1) archive around a given hash table: header, files, hash table, block table -/
def writeArchiveCore (c : Conv) (version shift hashSize : Nat) (files : List FileSpec) (ht : List (List Nat)) : Bytes :=
  let hdr := if version = 0 then 32 else 44
  let ssz := 512 * 2 ^ shift
  let rec place : List FileSpec → Nat → List (Bytes × Nat × Nat × Nat × Nat)   -- body, pos, csize, fsize, flags
    | [], _ => []
    | f :: fs, pos => let (body, flags) := layoutFile c ssz f pos
                      (body, pos, body.length, f.data.length, flags) :: place fs (pos + body.length)
  let placed := place files hdr
  let dataEnd := hdr + (placed.map (·.1.length)).sum
  let bt := placed.map fun (_, pos, cs, fs, fl) => [pos, cs, fs, fl]
  let htBytes := encodeTable ht tableKeyHash
  let btBytes := encodeTable bt tableKeyBlock
  let total := dataEnd + htBytes.length + btBytes.length
  let header := [0x4D, 0x50, 0x51, 0x1A] ++ natLE 4 hdr ++ natLE 4 total ++ natLE 2 version ++ natLE 2 shift ++
    natLE 4 dataEnd ++ natLE 4 (dataEnd + htBytes.length) ++ natLE 4 hashSize ++ natLE 4 files.length ++
    (if version = 0 then [] else natLE 8 0 ++ natLE 2 0 ++ natLE 2 0)
  header ++ placed.flatMap (·.1) ++ htBytes ++ btBytes

/-- the builder's archive: every file inserted by linear probing into a fresh table -/
def writeArchive (c : Conv) (version shift hashSize : Nat) (files : List FileSpec) : Bytes :=
  writeArchiveCore c version shift hashSize files
    ((files.zipIdx).foldl (fun t (f, i) => insertHash t f.name i) (List.replicate hashSize emptyHash))

/-- slot a live entry of this name occupies (the lookup's walk, returning the slot instead of the block index) -/
def findSlotIn (ht : List (List Nat)) (a b : Nat) : List Nat → Option Nat
  | [] => none
  | i :: rest =>
    match ht[i]? with
    | some [n1, n2, _, blk] =>
      if blk = 0xFFFFFFFF then none
      else if blk ≠ 0xFFFFFFFE ∧ n1 = a ∧ n2 = b then some i
      else findSlotIn ht a b rest
    | _ => none

def deletedHash : List Nat := [0xFFFFFFFF, 0xFFFFFFFF, 0xFFFFFFFF, 0xFFFFFFFE]

/-- what an independent writer leaves behind after "add the tombstone names, add the files, remove the tombstone names":
    files may sit behind deleted markers in their probe chains (the published lookup walks over those) -/
def writeArchiveTomb (c : Conv) (version shift hashSize : Nat) (tomb : List Bytes) (files : List FileSpec) : Bytes :=
  let ht0 := tomb.foldl (fun t n => insertHash t n 0) (List.replicate hashSize emptyHash)
  let ht1 := (files.zipIdx).foldl (fun t (f, i) => insertHash t f.name i) ht0
  let ht2 := tomb.foldl (fun t n =>
      if t.length = 0 then t else
      match findSlotIn t (hashS 0x100 n).toNat (hashS 0x200 n).toNat (probeSeq t.length ((hashS 0 n).toNat % t.length)) with
      | some i => t.set i deletedHash
      | none => t) ht1
  writeArchiveCore c version shift hashSize files ht2

end Wv.Mpq
