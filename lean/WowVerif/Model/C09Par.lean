/-
  Model.C09Par — single_archive_parallel.rs / parallel.rs as pure functions.
  A task is a pure function of the request (each task opens a private archive handle; the library keeps no
  shared mutable state — re-checked by a source scan on every run). A schedule is the order in which tasks
  complete; results are collected by request index (rayon's indexed collect).
-/
namespace Wv.Par

/-- split into chunks of `k` (fuel = length; `k = 0` is rejected by the caller: `chunks(0)` panics in Rust) -/
def chunks {α} (k : Nat) : Nat → List α → List (List α)
  | 0, _ => []
  | f+1, l => if l.isEmpty then [] else l.take k :: chunks k f (l.drop k)

def chunksOf {α} (k : Nat) (l : List α) : List (List α) := chunks k l.length l

/-- slot array after running the tasks in the completion order `sched`: each task writes its own slot -/
def collect {β} (g : Nat → β) (sched : List Nat) : Nat → Option β :=
  sched.foldl (fun slots i => fun j => if j = i then some (g i) else slots j) (fun _ => none)

/-- unbatched extraction with skip-errors: one slot per request, in request order -/
def extractSkip {ν ρ} (read : ν → ρ) (names : List ν) : List (ν × ρ) := names.map fun n => (n, read n)

/-- batched extraction (one handle per batch, sequential inside a batch, batches flattened in order) -/
def extractBatched {ν ρ} (read : ν → ρ) (k : Nat) (names : List ν) : List (ν × ρ) :=
  (chunksOf k names).flatMap fun c => c.map fun n => (n, read n)

/-- without skip-errors the call fails as a whole iff some request fails -/
def extractStrict {ν δ ε} (read : ν → Except ε δ) : List ν → Option (List (ν × δ))
  | [] => some []
  | n :: ns =>
    match read n, extractStrict read ns with
    | .ok d, some r => some ((n, d) :: r)
    | _, _ => none

/-- extract_with_config_batched: effective batch size -/
def effectiveBatch (n cfgBatch threads : Nat) : Nat :=
  if n > 5000 then max cfgBatch (n / (threads * 2)) else cfgBatch

end Wv.Par
