import WowVerif.Model.C10Integrity
import WowVerif.Model.Dispatch18b
namespace Wv.Drv
open Wv Wv.Integ

def c10 (toks : List String) : Option String :=
  match toks with
  | ["c10adler", d] => do pure (toString (adler32 (← rleDecode d)))
  | ["c10crc", d] => do pure (toString (crc32 (← rleDecode d)))
  | _ => none

end Wv.Drv
