import WowVerif.Model.C17Dbc
namespace Wv.Drv
open Wv Wv.Dbc

def ftOfString : String → Option FT
  | "i32" => some .i32 | "u32" => some .u32 | "f32" => some .f32 | "str" => some .str | "bool" => some .bool
  | "u8" => some .u8 | "i8" => some .i8 | "u16" => some .u16 | "i16" => some .i16
  | _ => none

def fieldOfString (s : String) : Option Field :=
  match s.splitOn "*" with
  | [t] => (ftOfString t).map fun ty => { ty := ty, arr := none }
  | [t, n] => do pure { ty := ← ftOfString t, arr := some (← n.toNat?) }
  | _ => none

def schemaOfString (s : String) : Option Schema := (s.splitOn ",").mapM fieldOfString

def cellOfString (s : String) : Option Cell :=
  if s.startsWith "s" then (bytesOfHex (s.drop 1).toString).map Cell.str else s.toNat?.map Cell.num

def tableOfString (s : String) : Option Table :=
  if s == "-" then some [] else
  (s.splitOn ";").mapM fun r => if r == "" then some [] else (r.splitOn ",").mapM cellOfString

def cellToString : Cell → String
  | .num v => toString v
  | .str b => "s" ++ hexOrDash b

def tableToString (t : Table) : String :=
  if t.isEmpty then "-" else ";".intercalate (t.map fun r => ",".intercalate (r.map cellToString))

def c17 (toks : List String) : Option String :=
  match toks with
  | ["dbcwrite", sch, tab] => do
      let s ← schemaOfString sch; let t ← tableOfString tab
      if tableOk s t then pure (hexOfBytes (write s t)) else pure "err type"
  | ["dbcparse", sch, h] => do
      let s ← schemaOfString sch; let b ← bytesOfHex h
      match parse s b with
      | .error .header => pure "err header"
      | .error .schema => pure "err schema"
      | .error .truncated => pure "err truncated"
      | .ok p =>
        match resolve s p with
        | some t => pure ("ok " ++ tableToString t)
        | none => pure "err string"
  | ["dbcat", sch, h, i] => do
      let s ← schemaOfString sch; let b ← bytesOfHex h; let i ← i.toNat?
      match recordAt s b i with
      | some r => pure (",".intercalate (r.map toString))
      | none => pure "none"
  | _ => none

end Wv.Drv
