import WowVerif.Model.Mpq
import WowVerif.Model.C01Bet
import WowVerif.Model.C01Het
import WowVerif.Model.C01Header
import WowVerif.Model.Dispatch18b
namespace Wv.Drv
open Wv Wv.Mpq

def convOfString (s : String) : Conv := if s == "published" then publishedConv else codeConv

/-- file spec on the wire: `namehex|enc|data(rle)|unit(rle),unit(rle),…` -/
def fileSpecOfString (s : String) : Option FileSpec :=
  match s.splitOn "|" with
  | [n, e, d, us] => do
      let units ← (if us == "-" then some [] else (us.splitOn ",").mapM rleDecode)
      pure { name := ← bytesOfHex n, enc := ← e.toNat?, data := ← rleDecode d, units := units }
  | _ => none

def rowOfString (s : String) : Option Bet.Row :=
  match (s.splitOn ",").mapM String.toNat? with
  | some [p, z, c, f] => some { pos := p, size := z, csize := c, flag := f }
  | _ => none

def layOfString (s : String) : Option Bet.Lay :=
  match (s.splitOn ",").mapM String.toNat? with
  | some [p, z, c, f] => some { wPos := p, wSize := z, wCsize := c, wFlag := f }
  | _ => none

/-- stateful (codec table) -/
def c01 (codec : Codec) (toks : List String) : Option (Codec × String) :=
  match toks with
  | ["codecreset"] => some ([], "ok")
  | ["codec", st, pl] => do pure ((← rleDecode st, ← rleDecode pl) :: codec, "ok")
  | ["mpqread", conv, arch, name] => do
      let a ← rleDecode arch; let n ← bytesOfHex name
      match readFile (convOfString conv) codec a n with
      | .ok d => pure (codec, "ok " ++ rleEncode d)
      | .error e => pure (codec, "err " ++ e)
  | ["mpqunits", conv, arch, name] => do
      let a ← rleDecode arch; let n ← bytesOfHex name
      match storedUnits (convOfString conv) a n with
      | .ok (flags, us) => pure (codec, s!"ok {flags} " ++ ";".intercalate (us.map fun (e, b) => s!"{e}:{rleEncode b}"))
      | .error e => pure (codec, "err " ++ e)
  | ["mpqheader", arch] => do
      let a ← rleDecode arch
      match parseHeader a with
      | some h => pure (codec, s!"hdr={h.headerSize} size={h.archiveSize} ver={h.version} shift={h.shift} hash={h.hashPos}/{h.hashCount} block={h.blockPos}/{h.blockCount}")
      | none => pure (codec, "err header")
  | ["mpqblocks", arch] => do
      -- the decrypted block table of a classic archive: pos,csize,fsize,flags per entry
      let a ← rleDecode arch
      match parseHeader a with
      | none => pure (codec, "err header")
      | some h =>
        match readTable a h.blockPos h.blockCount tableKeyBlock with
        | some bt => pure (codec, ";".intercalate (bt.map fun r => ",".intercalate (r.map toString)))
        | none => pure (codec, "err table")
  | ["c01hdr", h] => do pure (codec, Hdr.show_ (Hdr.parse (← bytesOfHex h)))
  | ["c01het", hashes] => do
      -- the builder's extended hash table for files with these 64-bit name hashes: slot bytes and packed index array
      let hs ← (if hashes == "-" then some [] else (hashes.splitOn ",").mapM String.toNat?)
      match Het.build hs with
      | some t => pure (codec, s!"{hexOrDash (t.slots.map UInt8.ofNat)} {hexOrDash (Het.idxBytes (Bet.bitsNeeded hs.length) t)}")
      | none => pure (codec, "full")
  | ["c01hetfind", hashes, q] => do
      -- candidates of a lookup, and the candidate confirmed by the 64-bit hashes
      let hs ← (if hashes == "-" then some [] else (hashes.splitOn ",").mapM String.toNat?)
      let full ← q.toNat?
      match Het.build hs with
      | some t =>
        let cs := Het.lookup t hs.length full
        pure (codec, s!"{",".intercalate (cs.map toString)} -> {match Het.resolve hs full cs with | some k => toString k | none => "none"}")
      | none => pure (codec, "full")
  | ["c01bet", nflags, rows] => do
      -- the builder's extended block table for these rows: chosen widths and the packed table
      let rs ← (if rows == "-" then some [] else (rows.splitOn ";").mapM rowOfString)
      let l := Bet.layoutOf rs (← nflags.toNat?)
      pure (codec, s!"{l.wPos},{l.wSize},{l.wCsize},{l.wFlag} {hexOrDash (Bet.tableBytes l rs)}")
  | ["c01betrow", lay, table, i] => do
      -- the reader on any table bytes with any declared widths
      let l ← layOfString lay
      let t ← (if table == "-" then some [] else bytesOfHex table)
      match Bet.readRow l t (← i.toNat?) with
      | some r => pure (codec, s!"{r.pos},{r.size},{r.csize},{r.flag}")
      | none => pure (codec, "none")
  | ["c01betrow", lay, table, i, nfl] => do
      -- the same through an identity flag array of `nfl` words (an index past the array reads as flags 0)
      let l ← layOfString lay
      let t ← (if table == "-" then some [] else bytesOfHex table)
      let n ← nfl.toNat?
      match Bet.readRow l t (← i.toNat?) with
      | some r => pure (codec, s!"{r.pos},{r.size},{r.csize},{if r.flag < n then r.flag else 0}")
      | none => pure (codec, "none")
  | "mpqwritetomb" :: conv :: ver :: shift :: hsize :: tombs :: files => do
      let fs ← files.mapM fileSpecOfString
      let ts ← (if tombs == "-" then some [] else (tombs.splitOn ",").mapM bytesOfHex)
      pure (codec, rleEncode (writeArchiveTomb (convOfString conv) (← ver.toNat?) (← shift.toNat?) (← hsize.toNat?) ts fs))
  | "mpqwrite" :: conv :: ver :: shift :: hsize :: files => do
      let fs ← files.mapM fileSpecOfString
      pure (codec, rleEncode (writeArchive (convOfString conv) (← ver.toNat?) (← shift.toNat?) (← hsize.toNat?) fs))
  | _ => none

end Wv.Drv
