import WowVerif.Model.C14Adt
import WowVerif.Model.C14Water
import WowVerif.Model.Dispatch18b
namespace Wv.Drv
open Wv Wv.Adt

def parseLayout (s : String) : Option Layout :=
  if s == "-" then some [] else
  (s.splitOn ",").mapM fun t => match t.splitOn ":" with
    | [id, n] => do pure (id, ← n.toNat?)
    | _ => none

def u32sOf (bs : Bytes) : List Nat :=
  match bs with
  | a :: b :: c :: d :: rest => leNat [a, b, c, d] :: u32sOf rest
  | _ => []
termination_by bs.length

def firstDiff (names : List String) (got want : List Nat) : String :=
  match ((names.zip (got.zip want)).find? fun p => p.2.1 ≠ p.2.2) with
  | some (n, g, w) => s!"{n}: file has {g}, layout gives {w}"
  | none => if got.length ≠ want.length then s!"length {got.length} vs {want.length}" else "ok"

/-- `1:1.648,0.-` = an entry with attributes and two layers (bitmap + 648 bytes of vertex data; neither) -/
def waterEntryOfString (s : String) : Option Water.Entry :=
  match s.splitOn ":" with
  | [a, ls] => do
      let layers ← (if ls == "" then some [] else (ls.splitOn ",").mapM fun l =>
        match l.splitOn "." with
        | [b, v] => some ({ bitmap := b == "1", vdata := if v == "-" then none else v.toNat? } : Water.Layer)
        | _ => none)
      pure { layers := layers, attrs := a == "1" }
  | _ => none

def c14 (toks : List String) : Option String :=
  match toks with
  | ["c14water", spec] => do
      let es ← (spec.splitOn ";").mapM waterEntryOfString
      let r := Water.layout es
      let outs := (r.1.zipIdx.filter fun (o, _) => ¬ (o.count = 0 ∧ o.attr = 0 ∧ o.inst = 0)).map fun (o, i) =>
        s!"{i}={o.inst},{o.count},{o.attr}[" ++ ",".intercalate (o.offs.map fun p => s!"{p.1}.{p.2}") ++ "]"
      pure ((if outs.isEmpty then "-" else " ".intercalate outs) ++ s!" total={r.2}")
  | ["c14top", lay, mh, mc] => do
      let l ← parseLayout lay
      let mhdr := u32sOf (← bytesOfHex mh)
      let mcin := u32sOf (← rleDecode mc)
      let d1 := firstDiff ["flags", "mcin", "mtex", "mmdx", "mmid", "mwmo", "mwid", "mddf", "modf", "mfbo", "mh2o", "mtxf", "u1", "u2", "u3", "u4"] mhdr (mhdrOf l)
      if d1 != "ok" then pure ("MHDR " ++ d1) else
      let want := (mcinOf l).flatMap fun p => [p.1, p.2, 0, 0]
      let d2 := firstDiff ((List.range 1024).map fun i => s!"entry {i / 4} field {i % 4}") mcin want
      pure (if d2 == "ok" then "ok" else "MCIN " ++ d2)
  | ["c14mcnk", lay, hh] => do
      let l ← parseLayout lay
      let h := u32sOf (← bytesOfHex hh)
      let g := fun i => h.getD i 0
      let d := mcnkOf l
      let got := [g 5, g 6, g 7, g 3, g 8, g 9, g 10, g 11, g 12, g 22, g 23, g 24, g 25, g 29, g 30, if (g 0) / 64 % 2 = 1 then 1 else 0]
      let want := [d.ofsHeight, d.ofsNormal, d.ofsLayer, d.nLayers, d.ofsRefs, d.ofsAlpha, d.sizeAlpha, d.ofsShadow, d.sizeShadow, d.ofsSnd, d.nSnd, d.ofsLiquid, d.sizeLiquid, d.ofsMccv, d.ofsMclv, if d.mccvFlag then 1 else 0]
      pure (firstDiff ["ofs_height", "ofs_normal", "ofs_layer", "n_layers", "ofs_refs", "ofs_alpha", "size_alpha", "ofs_shadow", "size_shadow", "ofs_snd_emitters", "n_snd_emitters", "ofs_liquid", "size_liquid", "ofs_mccv", "ofs_mclv", "has_mccv flag"] got want)
  | _ => none

end Wv.Drv
