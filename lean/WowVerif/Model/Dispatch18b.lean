import WowVerif.Model.C18Wdt
namespace Wv.Drv
open Wv Wv.Wdt

/-- run-length hex: pieces separated by `.`, a piece is hex bytes or `z<N>` (N zero bytes); `-` = empty -/
def rleDecode (s : String) : Option Bytes :=
  if s == "-" then some [] else
  (s.splitOn ".").foldlM (fun acc p =>
    if p.startsWith "z" then (p.drop 1).toString.toNat?.map fun n => acc ++ List.replicate n 0
    else (bytesOfHexChars p.toList).map fun b => acc ++ b) []

/-- canonical spelling: zero runs of length ≥ 8 become `zN`, everything else is literal hex -/
def rleEncodeGo : Bytes → Nat → Bytes → List String → List String
  | [], z, lit, out =>
    if z ≥ 8 then
      let out := if lit.isEmpty then out else hexOfBytes lit.reverse :: out
      (s!"z{z}" :: out).reverse
    else
      let lit := List.replicate z 0 ++ lit
      (if lit.isEmpty then out else hexOfBytes lit.reverse :: out).reverse
  | b :: bs, z, lit, out =>
    if b = 0 then rleEncodeGo bs (z + 1) lit out
    else if z ≥ 8 then
      rleEncodeGo bs 0 [b] (s!"z{z}" :: (if lit.isEmpty then out else hexOfBytes lit.reverse :: out))
    else rleEncodeGo bs 0 (b :: (List.replicate z 0 ++ lit)) out

def rleEncode (bs : Bytes) : String :=
  if bs.isEmpty then "-" else ".".intercalate (rleEncodeGo bs 0 [] [])

def optBytes (s : String) : Option (Option Bytes) :=
  if s == "none" then some none else (rleDecode s).map some
def namesOfString (s : String) : Option (Option (List Bytes)) :=
  if s == "none" then some none else if s == "e" then some (some []) else
  ((s.splitOn ";").mapM fun n => bytesOfHex n).map some
def namesToString : Option (List Bytes) → String
  | none => "none"
  | some [] => "e"
  | some ns => ";".intercalate (ns.map hexOrDash)
def optToString : Option Bytes → String
  | none => "none"
  | some b => rleEncode b

def c18b (toks : List String) : Option String :=
  match toks with
  | ["wdtwrite", v, mphd, main, maid, mwmo, modf] => do
      let w : Wdt := { ver := ← v.toNat?, mphd := ← rleDecode mphd, main := ← rleDecode main, maid := ← optBytes maid,
                       mwmo := ← namesOfString mwmo, modf := ← optBytes modf }
      pure (rleEncode (write w))
  | ["wdtread", hint, file] => do
      let h ← hint.toNat?; let b ← rleDecode file
      match read h b with
      | .ok w => pure s!"ok {w.ver} {rleEncode w.mphd} {rleEncode w.main} {optToString w.maid} {namesToString w.mwmo} {optToString w.modf}"
      | .error .size => pure "err size"
      | .error .version => pure "err version"
      | .error .flags => pure "err flags"
      | .error .missing => pure "err missing"
      | .error .truncated => pure "err truncated"
  | _ => none

end Wv.Drv
