import WowVerif.Model.C05Total
import WowVerif.Model.Dispatch18b
namespace Wv.Drv
open Wv Wv.Total

def c05 (toks : List String) : Option String :=
  match toks with
  | ["c05hdr", d] => do
      let bs ← rleDecode d
      pure (match findHeader bs with
        | .at o => s!"found {o}"
        | .notFound => "none"
        | .readError => "read-error"
        | .outOfFuel => "out-of-fuel")
  | ["c05walk", d] => do
      let bs ← rleDecode d
      pure (match discover bs with
        | none => "too-small"
        | some cs => if cs.isEmpty then "-" else ",".intercalate (cs.map fun c => s!"{hexOfBytes c.1}:{c.2}"))
  | _ => none

end Wv.Drv
