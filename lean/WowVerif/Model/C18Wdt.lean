/-
  Model.C18Wdt — wow-wdt lib.rs: WdtWriter::write / WdtReader::read at chunk level.
  Fixed-layout chunk payloads (MPHD 32 bytes, MAIN 64·64·8, MAID k·64·64·4, MODF 64·n) are carried as bytes:
  their field codecs are plain little-endian reads/writes; the harness builds the expected payloads itself.
-/
import WowVerif.Lib.Iff
namespace Wv.Wdt
open Wv Wv.Iff

def mMVER : Bytes := [0x52, 0x45, 0x56, 0x4D]   -- "REVM"
def mMPHD : Bytes := [0x44, 0x48, 0x50, 0x4D]   -- "DHPM"
def mMAIN : Bytes := [0x4E, 0x49, 0x41, 0x4D]   -- "NIAM"
def mMAID : Bytes := [0x44, 0x49, 0x41, 0x4D]   -- "DIAM"
def mMWMO : Bytes := [0x4F, 0x4D, 0x57, 0x4D]   -- "OMWM"
def mMODF : Bytes := [0x46, 0x44, 0x4F, 0x4D]   -- "FDOM"

/-- WowVersion as its ordinal: Classic 0, TBC 1, WotLK 2, Cataclysm 3, MoP 4, WoD 5, Legion 6, BfA 7, SL 8, DF 9 -/
-- (plain `Nat`: omega drops hypotheses stated over an abbreviation of Nat)

structure Wdt where
  ver : Nat
  mphd : Bytes
  main : Bytes
  maid : Option Bytes
  mwmo : Option (List Bytes)
  modf : Option Bytes
  deriving DecidableEq, Repr

def flagsOf (mphd : Bytes) : Nat := leNat (mphd.take 4)
def wmoOnly (mphd : Bytes) : Bool := flagsOf mphd % 2 = 1

/-- version.rs:should_have_chunk("MWMO", wmo_only) -/
def shouldWriteMwmo (v : Nat) (wmoOnly : Bool) : Bool := wmoOnly || v < 3

def mwmoPayload (names : List Bytes) : Bytes := names.flatMap (· ++ [0])

/-- lib.rs:WdtWriter::write -/
def chunksOf (w : Wdt) : List Chunk :=
  [⟨mMVER, natLE 4 18⟩, ⟨mMPHD, w.mphd⟩, ⟨mMAIN, w.main⟩]
  ++ (match w.maid with | some d => [⟨mMAID, d⟩] | none => [])
  ++ (match w.mwmo with
      | some ns => if shouldWriteMwmo w.ver (wmoOnly w.mphd) then [⟨mMWMO, mwmoPayload ns⟩] else []
      | none => [])
  ++ (match w.modf with | some d => [⟨mMODF, d⟩] | none => [])

def write (w : Wdt) : Bytes := serialize (chunksOf w)

/-- chunks/mod.rs:MwmoChunk::read — split at NUL, drop empty pieces, a trailing unterminated piece counts -/
def splitNames : Bytes → Bytes → List Bytes
  | [], cur => if cur.isEmpty then [] else [cur.reverse]
  | b :: bs, cur =>
    if b = 0 then (if cur.isEmpty then splitNames bs [] else cur.reverse :: splitNames bs [])
    else splitNames bs (b :: cur)

inductive RErr | size | version | flags | missing | truncated
  deriving DecidableEq, Repr

structure Acc where
  mver : Bool := false
  mphd : Option Bytes := none
  main : Option Bytes := none
  maid : Option Bytes := none
  mwmo : Option (List Bytes) := none
  modf : Option Bytes := none

/-- per-chunk dispatch of WdtReader::read (later chunks of the same type overwrite earlier ones) -/
def absorb (a : Acc) (c : Chunk) : Except RErr Acc :=
  if c.magic = mMVER then
    if c.data.length ≠ 4 then .error .size
    else if leNat c.data ≠ 18 then .error .version else .ok { a with mver := true }
  else if c.magic = mMPHD then
    if c.data.length ≠ 32 then .error .size
    else if flagsOf c.data ≥ 65536 then .error .flags else .ok { a with mphd := some c.data }
  else if c.magic = mMAIN then
    if c.data.length ≠ 32768 then .error .size else .ok { a with main := some c.data }
  else if c.magic = mMAID then
    if c.data.length % 16384 ≠ 0 then .error .size else .ok { a with maid := some c.data }
  else if c.magic = mMWMO then .ok { a with mwmo := some (splitNames c.data []) }
  else if c.magic = mMODF then
    if c.data.length % 64 ≠ 0 then .error .size else .ok { a with modf := some c.data }
  else .ok a

def absorbAll : List Chunk → Acc → Except RErr Acc
  | [], a => .ok a
  | c :: cs, a => match absorb a c with
    | .error e => .error e
    | .ok a' => absorbAll cs a'

/-- lib.rs:detect_version -/
def detect (hint : Nat) (mphd : Bytes) (maid : Bool) (mwmo : Bool) (modf : Bool) : Nat :=
  if maid then 7 else
  let f := flagsOf mphd
  let wo := wmoOnly mphd
  if !wo && !mwmo then 3
  else if !wo && mwmo then
    (if f / 2 % 2 = 1 ∨ f / 4 % 2 = 1 ∨ f / 8 % 2 = 1 then 2 else if f % 2 = 1 ∨ f > 1 then 1 else 0)
  else if wo && modf then (if f > 15 then 2 else if f > 1 then 1 else 0)
  else hint

def known (m : Bytes) : Bool := m = mMVER || m = mMPHD || m = mMAIN || m = mMAID || m = mMWMO || m = mMODF

/-- lib.rs:WdtReader::read. A known chunk whose payload runs past the end is an I/O error; an unknown one is
    skipped by seeking and the loop ends at the next header read. -/
def read (hint : Nat) (bs : Bytes) : Except RErr Wdt :=
  let fin (cs : List Chunk) : Except RErr Wdt :=
    match absorbAll cs {} with
    | .error e => .error e
    | .ok a =>
      if !a.mver then .error .missing else
      match a.mphd, a.main with
      | some p, some m =>
        .ok { ver := detect hint p a.maid.isSome a.mwmo.isSome a.modf.isSome,
              mphd := p, main := m, maid := a.maid, mwmo := a.mwmo, modf := a.modf }
      | _, _ => .error .missing
  match walkAll bs with
  | .done cs => fin cs
  | .short cs magic size avail =>
    if known magic then
      match absorbAll cs {} with
      | .error e => .error e
      | .ok _ =>
        -- size checks come before the payload is read; MPHD validates its flags as soon as they are read
        if (magic = mMVER ∧ size ≠ 4) ∨ (magic = mMPHD ∧ size ≠ 32) ∨ (magic = mMAIN ∧ size ≠ 32768) ∨
           (magic = mMAID ∧ size % 16384 ≠ 0) ∨ (magic = mMODF ∧ size % 64 ≠ 0) then .error .size
        else if magic = mMPHD ∧ avail.length ≥ 4 ∧ flagsOf avail ≥ 65536 then .error .flags
        else .error .truncated
    else fin cs

/-- what the writer can represent and the reader returns unchanged -/
def nameOk (n : Bytes) : Bool := !n.isEmpty && n.all (· != 0)

def WellFormed (w : Wdt) : Prop :=
  w.mphd.length = 32 ∧ flagsOf w.mphd < 65536 ∧ w.main.length = 32768 ∧
  (∀ d, w.maid = some d → d.length % 16384 = 0 ∧ d.length < 2 ^ 32 ∧ w.ver ≥ 7) ∧
  (∀ ns, w.mwmo = some ns → shouldWriteMwmo w.ver (wmoOnly w.mphd) = true ∧ (∀ n ∈ ns, nameOk n = true) ∧
      (mwmoPayload ns).length < 2 ^ 32) ∧
  (∀ d, w.modf = some d → d.length % 64 = 0 ∧ d.length < 2 ^ 32)

end Wv.Wdt
