import WowVerif.Model.C15Wmo
import WowVerif.Model.Dispatch14
namespace Wv.Drv
open Wv Wv.Wmo

def natsOf (s : String) : Option (List Nat) := if s == "" || s == "-" then some [] else (s.splitOn ",").mapM String.toNat?

def c15 (toks : List String) : Option String :=
  match toks with
  | ["c15root", lay, hh] => do
      let l ← parseLayout lay
      let h := u32sOf (← bytesOfHex hh)
      pure (firstDiff ["n_materials", "n_groups", "n_portals", "n_lights", "n_doodad_names", "n_doodad_defs", "n_doodad_sets"] (h.take 7) (rootCounts l))
  | ["c15names", t, offs] => do
      let tb ← rleDecode t
      let os ← natsOf offs
      pure (",".intercalate (os.map fun o => hexOrDash (stringAt tb o)))
  | ["c15vis", offs, d] => do
      let os ← natsOf offs
      let data ← rleDecode d
      pure (",".intercalate ((decodeVis os data).map fun l => if l.isEmpty then "-" else ".".intercalate (l.map toString)))
  | ["c15gflags", to, fl] => do pure (toString (groupFlagsTo (← to.toNat?) (← fl.toNat?)))
  | ["c15group", lay] => do
      let l ← parseLayout lay
      pure (" ".intercalate ((groupCounts l).map fun p => s!"{p.1}={p.2}"))
  | _ => none

end Wv.Drv
