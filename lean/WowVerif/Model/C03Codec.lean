/-
  Model.C03Codec — wow-mpq compression front end (compress.rs), the decompressor's acceptance arithmetic
  (security.rs: validate_file_bounds, AdaptiveCompressionLimits, detect_compression_bomb_patterns,
  validate_decompression_result, DecompressionMonitor size check) and the in-tree sparse codec (sparse.rs).
  Third-party codecs are a parameter: the payload `enc` they produced.
-/
import WowVerif.Base.Bytes
namespace Wv.Codec
open Wv

/-- compress.rs:compress — method byte + payload, or the raw data when that would not be shorter -/
def frame (method : UInt8) (d enc : Bytes) : Bytes :=
  if 1 + enc.length ≥ d.length then d else method :: enc

/-- what a reader does with a stored unit of known original length (archive.rs): shorter ⇒ framed -/
def unframe (dec : UInt8 → Bytes → Nat → Option Bytes) (stored : Bytes) (origLen : Nat) : Option Bytes :=
  if stored.length < origLen then
    match stored with
    | m :: payload => dec m payload origLen
    | [] => none
  else some stored

/-! ### multi-method selector support (compress.rs:compress_multiple) -/

def bit (f n : Nat) : Bool := f / n % 2 = 1

/-- number of non-ADPCM methods in a selector that `compress_multiple` looks at -/
def remainingCount (f : Nat) : Nat :=
  [bit f 1, bit f 2, bit f 8, bit f 16, bit f 32].countP id

/-- selectors `compress` accepts: none, zlib, PKWare, bzip2, sparse, ADPCM mono/stereo, LZMA (0x12), and ADPCM
    combined with at most one further method. Huffman (0x01) and implode (0x04) have no compressor: a selector
    that reaches the Huffman compressor is an error; the implode bit is ignored inside combinations. -/
def selectorSupported (f : Nat) : Bool :=
  f = 0x12 || f = 0 || f = 2 || f = 8 || f = 16 || f = 32 || f = 64 || f = 128 ||
  (f ≠ 1 && f ≠ 4 && remainingCount f ≤ 1 && !bit f 1)

/-! ### acceptance arithmetic under SecurityLimits::default() -/

inductive Rej | empty | exhaustion | bomb | malicious | invalid
  deriving DecidableEq, Repr

def maxRatioBase : Nat := 1000
def maxDecompressed : Nat := 100 * 1024 * 1024
def maxSession : Nat := 1024 * 1024 * 1024

/-- `.clamp(50, 50000)` -/
def clampRatio (m : Nat) : Nat := if m < 50 then 50 else if m > 50000 then 50000 else m

/-- security.rs:AdaptiveCompressionLimits::calculate_limit (enabled, base 1000) -/
def adaptiveLimit (clen method : Nat) : Nat :=
  let sizeBased :=
    if clen ≤ 512 then maxRatioBase * 10 else if clen ≤ 4096 then maxRatioBase * 5
    else if clen ≤ 65536 then maxRatioBase * 2 else if clen ≤ 1048576 then maxRatioBase else maxRatioBase / 2
  let m :=
    if method = 0x02 then sizeBased * 2 else if method = 0x10 then sizeBased * 3
    else if method = 0x12 then sizeBased * 4 else if method = 0x20 then sizeBased / 2
    else if method = 0x08 then sizeBased else if method = 0x01 then sizeBased / 2
    else if method = 0x40 ∨ method = 0x80 then sizeBased * 2 else sizeBased
  clampRatio m

/-- decompress_secure's checks before any codec runs; `session` = bytes already decompressed in this session -/
def preCheck (clen dlen method session : Nat) : Except Rej Unit :=
  if clen = 0 then .error .empty else
  if session + dlen > maxSession then .error .exhaustion else
  if dlen > maxDecompressed then .error .exhaustion else
  if dlen > 0 ∧ dlen / clen > maxRatioBase then .error .bomb else
  if dlen > 0 ∧ dlen / clen > adaptiveLimit clen method then .error .bomb else
  if clen < 100 ∧ dlen > 10 * 1024 * 1024 then .error .malicious else
  if method > 0x80 ∧ dlen > 0 ∧ dlen / clen > adaptiveLimit clen method / 2 then .error .bomb else
  .ok ()

/-- checks on the codec's result: the monitor (max_size = min(expected, limit)) and the ±10 % rule -/
def postCheck (dlen actual : Nat) : Except Rej Unit :=
  if actual > min dlen maxDecompressed then .error .exhaustion else
  if dlen = 0 then .ok () else
  let tol := dlen * 10 / 100
  if actual < dlen - tol ∨ actual > dlen + tol then .error .invalid else .ok ()

/-- the decompressor accepts a payload of `clen` bytes claiming `dlen` bytes that really decodes to `dlen` bytes -/
def accepts (clen dlen method : Nat) : Bool :=
  (preCheck clen dlen method 0).isOk && (postCheck dlen dlen).isOk

/-! ### sparse codec (sparse.rs) -/

/-- sparse.rs:decompress body after the 4-byte big-endian size; `rem` = bytes still to produce -/
def sparseGo : Nat → Bytes → Nat → Bytes → Bytes
  | 0, _, _, out => out
  | _, [], _, out => out
  | f+1, b :: rest, rem, out =>
    if b.toNat ≥ 128 then
      let want := b.toNat % 128 + 1
      let avail := if want > rest.length then rest.length else want
      if avail = 0 then out else
      let n := min avail rem
      sparseGo f (rest.drop n) (rem - n) (out ++ rest.take n)
    else
      let n := min (b.toNat % 128 + 3) rem
      sparseGo f rest (rem - n) (out ++ List.replicate n 0)

def sparseDecompress (data : Bytes) (expected : Nat) : Option Bytes :=
  match data with
  | b0 :: b1 :: b2 :: b3 :: rest =>
    if rest.isEmpty then none else
    let size := b0.toNat * 16777216 + b1.toNat * 65536 + b2.toNat * 256 + b3.toNat
    if size > expected then none else some (sparseGo (rest.length + 1) rest size [])
  | _ => none

end Wv.Codec
