/-
  Model.C03Codec — wow-mpq compression front end (compress.rs), the decompressor's acceptance arithmetic
  (security.rs: validate_file_bounds, AdaptiveCompressionLimits, detect_compression_bomb_patterns,
  validate_decompression_result, DecompressionMonitor size check) and the in-tree sparse codec (sparse.rs).
  Third-party codecs are a parameter: the payload `enc` they produced.
-/
import WowVerif.Base.Bytes
namespace Wv.Codec
open Wv

/-- compress.rs:compress — method byte + payload, or the raw data when that would not be shorter -/
def frame (method : UInt8) (d enc : Bytes) : Bytes :=
  if 1 + enc.length ≥ d.length then d else method :: enc

/-- what a reader does with a stored unit of known original length (archive.rs): shorter ⇒ framed -/
def unframe (dec : UInt8 → Bytes → Nat → Option Bytes) (stored : Bytes) (origLen : Nat) : Option Bytes :=
  if stored.length < origLen then
    match stored with
    | m :: payload => dec m payload origLen
    | [] => none
  else some stored

/-! ### multi-method selector support (compress.rs:compress_multiple) -/

def bit (f n : Nat) : Bool := f / n % 2 = 1

/-- number of non-ADPCM methods in a selector that `compress_multiple` looks at -/
def remainingCount (f : Nat) : Nat :=
  [bit f 1, bit f 2, bit f 8, bit f 16, bit f 32].countP id

/-- selectors `compress` accepts: none, zlib, PKWare, bzip2, sparse, ADPCM mono/stereo, LZMA (0x12), and ADPCM
    combined with at most one further method. Huffman (0x01) and implode (0x04) have no compressor: a selector
    that reaches the Huffman compressor is an error; the implode bit is ignored inside combinations. -/
def selectorSupported (f : Nat) : Bool :=
  f = 0x12 || f = 0 || f = 2 || f = 8 || f = 16 || f = 32 || f = 64 || f = 128 ||
  (f ≠ 1 && f ≠ 4 && remainingCount f ≤ 1 && !bit f 1)

/-! ### acceptance arithmetic under SecurityLimits::default() -/

inductive Rej | empty | exhaustion | bomb | malicious | invalid
  deriving DecidableEq, Repr

def maxRatioBase : Nat := 1000
def maxDecompressed : Nat := 100 * 1024 * 1024
def maxSession : Nat := 1024 * 1024 * 1024

/-- `.clamp(50, 50000)` -/
def clampRatio (m : Nat) : Nat := if m < 50 then 50 else if m > 50000 then 50000 else m

/-- security.rs:AdaptiveCompressionLimits::calculate_limit (enabled, base 1000) -/
def adaptiveLimit (clen method : Nat) : Nat :=
  let sizeBased :=
    if clen ≤ 512 then maxRatioBase * 10 else if clen ≤ 4096 then maxRatioBase * 5
    else if clen ≤ 65536 then maxRatioBase * 2 else if clen ≤ 1048576 then maxRatioBase else maxRatioBase / 2
  let m :=
    if method = 0x02 then sizeBased * 2 else if method = 0x10 then sizeBased * 3
    else if method = 0x12 then sizeBased * 4 else if method = 0x20 then sizeBased / 2
    else if method = 0x08 then sizeBased else if method = 0x01 then sizeBased / 2
    else if method = 0x40 ∨ method = 0x80 then sizeBased * 2 else sizeBased
  clampRatio m

/-- decompress_secure's checks before any codec runs; `session` = bytes already decompressed in this session -/
def preCheck (clen dlen method session : Nat) : Except Rej Unit :=
  if clen = 0 then .error .empty else
  if session + dlen > maxSession then .error .exhaustion else
  if dlen > maxDecompressed then .error .exhaustion else
  if dlen > 0 ∧ dlen / clen > maxRatioBase then .error .bomb else
  if dlen > 0 ∧ dlen / clen > adaptiveLimit clen method then .error .bomb else
  if clen < 100 ∧ dlen > 10 * 1024 * 1024 then .error .malicious else
  if method > 0x80 ∧ dlen > 0 ∧ dlen / clen > adaptiveLimit clen method / 2 then .error .bomb else
  .ok ()

/-- checks on the codec's result: the monitor (max_size = min(expected, limit)) and the ±10 % rule -/
def postCheck (dlen actual : Nat) : Except Rej Unit :=
  if actual > min dlen maxDecompressed then .error .exhaustion else
  if dlen = 0 then .ok () else
  let tol := dlen * 10 / 100
  if actual < dlen - tol ∨ actual > dlen + tol then .error .invalid else .ok ()

/-- the decompressor accepts a payload of `clen` bytes claiming `dlen` bytes that really decodes to `dlen` bytes -/
def accepts (clen dlen method : Nat) : Bool :=
  (preCheck clen dlen method 0).isOk && (postCheck dlen dlen).isOk

/-! ### sparse codec (sparse.rs) -/

/-- sparse.rs:decompress body after the 4-byte big-endian size; `rem` = bytes still to produce -/
def sparseGo : Nat → Bytes → Nat → Bytes → Bytes
  | 0, _, _, out => out
  | _, [], _, out => out
  | f+1, b :: rest, rem, out =>
    if b.toNat ≥ 128 then
      let want := b.toNat % 128 + 1
      let avail := if want > rest.length then rest.length else want
      if avail = 0 then out else
      let n := min avail rem
      sparseGo f (rest.drop n) (rem - n) (out ++ rest.take n)
    else
      let n := min (b.toNat % 128 + 3) rem
      sparseGo f rest (rem - n) (out ++ List.replicate n 0)

def sparseDecompress (data : Bytes) (expected : Nat) : Option Bytes :=
  match data with
  | b0 :: b1 :: b2 :: b3 :: rest =>
    if rest.isEmpty then none else
    let size := b0.toNat * 16777216 + b1.toNat * 65536 + b2.toNat * 256 + b3.toNat
    if size > expected then none else some (sparseGo (rest.length + 1) rest size [])
  | _ => none


/-! ### sparse compressor (sparse.rs:compress), as the token sequence it emits -/

/-- what the compressor emits: a literal chunk or a zero run -/
inductive Tok
  | lit (bs : Bytes)
  | zeros (n : Nat)

def Tok.enc : Tok → Bytes
  | .lit bs => UInt8.ofNat (128 + (bs.length - 1)) :: bs
  | .zeros n => [UInt8.ofNat (n - 3)]
def Tok.out : Tok → Bytes
  | .lit bs => bs
  | .zeros n => List.replicate n 0

/-- the inner scan of `compress`: walks from the current position, counting zeros; stops at the end of the data or at
    a non-zero byte that follows at least three zeros. `idx` is the position, `last` one past the last byte that
    goes into the literal chunk, `z` the zeros seen since. Returns (literal length, zero count). -/
def scanRun : Bytes → Nat → Nat → Nat → Nat × Nat
  | [], _, last, z => (last, z)
  | b :: bs, idx, last, z =>
    if b = 0 then scanRun bs (idx + 1) last (z + 1)
    else if z ≥ 3 then (last, z) else scanRun bs (idx + 1) (idx + 1) 0

/-- flush of the literal bytes: 0x80-byte chunks while more than 0x81 remain, the one-byte chunk StormLib emits at
    exactly 0x81 ("BUGBUG" in the source), then the rest -/
def litToks : Nat → Bytes → List Tok
  | 0, _ => []
  | f+1, seg =>
    if seg.length > 0x81 then .lit (seg.take 0x80) :: litToks f (seg.drop 0x80)
    else if seg.length > 0x80 then [.lit (seg.take 1), .lit (seg.drop 1)]
    else if seg.length ≥ 1 then [.lit seg] else []

/-- flush of the zero run: 0x82-zero markers while more than 0x85 remain, three zeros if more than 0x82 remain,
    then the rest (only if at least three) -/
def zeroToks : Nat → Nat → List Tok
  | 0, _ => []
  | f+1, z =>
    if z > 0x85 then .zeros 0x82 :: zeroToks f (z - 0x82)
    else if z > 0x82 then [.zeros 3, .zeros (z - 3)]
    else if z ≥ 3 then [.zeros z] else []

/-- the main loop (`while pb_in_buffer < end - 3`): tokens emitted and the unconsumed tail -/
def mainToks : Nat → Bytes → List Tok × Bytes
  | 0, rest => ([], rest)
  | f+1, rest =>
    if rest.length > 3 then
      let r := scanRun rest 0 0 0
      let adv := r.1 + (if r.2 ≥ 3 then r.2 else 0)
      let m := mainToks f (rest.drop adv)
      (litToks (r.1 + 1) (rest.take r.1) ++ zeroToks (r.2 + 1) r.2 ++ m.1, m.2)
    else ([], rest)

/-- "flush last three bytes": one literal chunk if any byte is non-zero, else the 0x82-zeros marker -/
def finalBytes (rest : Bytes) : Bytes :=
  if rest.isEmpty then [] else
  if rest.any (fun b => b ≠ 0) then
    (if rest.length ≤ 0x80 then UInt8.ofNat (0x80 + (rest.length - 1)) else 0xFF) :: rest
  else [0x7F]

def be32 (n : Nat) : Bytes :=
  [UInt8.ofNat (n / 16777216), UInt8.ofNat (n / 65536 % 256), UInt8.ofNat (n / 256 % 256), UInt8.ofNat (n % 256)]

def sparseCompress (d : Bytes) : Bytes :=
  let m := mainToks (d.length + 1) d
  be32 d.length ++ m.1.flatMap Tok.enc ++ finalBytes m.2

end Wv.Codec
