import WowVerif.Model.C04Crypto
import WowVerif.Spec.Crypt
namespace Wv.Drv
open Wv Wv.Model

def w32? (s : String) : Option W32 := s.toNat?.map (BitVec.ofNat 32)

def specCryptArr : Array Nat := Spec.cryptTable.toArray

def c04 (toks : List String) : Option String :=
  match toks with
  | ["hash", ty, h] => do
      let t ← ty.toNat?; let b ← bytesOfHex h
      pure (hex32 (hashString t b))
  | ["encblk", k, h] => do
      let key ← w32? k; let b ← bytesOfHex h
      pure (hexOrDash (ofWords (encryptBlock (toWords b).1 key)))
  | ["decblk", k, h] => do
      let key ← w32? k; let b ← bytesOfHex h
      pure (hexOrDash (ofWords (decryptBlock (toWords b).1 key)))
  | ["encbytes", k, h] => do
      let key ← w32? k; let b ← bytesOfHex h
      pure (hexOrDash (encryptBytes b key))
  | ["decbytes", k, h] => do
      let key ← w32? k; let b ← bytesOfHex h
      pure (hexOrDash (decryptBytes b key))
  | ["decdword", k, v] => do
      let key ← w32? k; let x ← w32? v
      pure (hex32 (decryptDword x key))
  | ["joaat", h] => do
      let b ← bytesOfHex h
      pure (hex64 (jenkinsOAAT b))
  | ["hl2", bits, h] => do
      let n ← bits.toNat?; let b ← bytesOfHex h
      match hetHash b n with
      | some (x, n1) => pure (hex64 x ++ " " ++ hexOfBytes [n1])
      | none => pure "panic"
  -- answers from the *reference* (Spec), never from regenerated constants
  | ["shash", ty, h] => do
      let t ← ty.toNat?; let b ← bytesOfHex h
      pure (hex32 (Spec.hashString t b))
  | ["sencblk", k, h] => do
      let key ← w32? k; let b ← bytesOfHex h
      pure (hexOrDash (ofWords (Spec.encGo key 0xEEEEEEEE#32 (toWords b).1)))
  | ["shl2", h] => do
      let b ← bytesOfHex h
      let r := Spec.hashlittle2 (b.map Spec.foldByte) 2#32 1#32
      pure (hex64 ((r.2.zeroExtend 64 <<< 32) ||| r.1.zeroExtend 64))
  | ["stable", "crypt", i] => do pure (toString (specCryptArr.getD (← i.toNat?) 0))
  | ["stable", "upper", i] => do pure (toString (Spec.upperNat (← i.toNat?)))
  | ["stable", "lower", i] => do pure (toString (Spec.lowerNat (← i.toNat?)))
  | _ => none

end Wv.Drv
