import WowVerif.Model.C18Coord
namespace Wv.Drv
open Wv Wv.F32 Wv.Coord

def optNat : Option Nat → String
  | some n => toString n
  | none => "unsupported"

def c18 (toks : List String) : Option String :=
  match toks with
  | ["f32", op, a, b] => do
      let x ← a.toNat?; let y ← b.toNat?
      match op with
      | "mul" => pure (optNat (mul x y))
      | "div" => pure (optNat (div x y))
      | "add" => pure (optNat (add x y))
      | "sub" => pure (optNat (sub x y))
      | _ => none
  | ["f32ofnat", a] => do pure (optNat (ofNat (← a.toNat?)))
  | ["f32tou32", a] => do pure (toString (toU32 (← a.toNat?)))
  | ["t2w", x, y] => do
      match tileToWorld (← x.toNat?) (← y.toNat?) with
      | some (a, b) => pure s!"{a} {b}"
      | none => pure "unsupported"
  | ["w2t", a, b] => do
      match worldToTile (← a.toNat?) (← b.toNat?) with
      | some (x, y) => pure s!"{x} {y}"
      | none => pure "unsupported"
  | _ => none

end Wv.Drv
