/-
  Model.C01Het — the extended hash table (HET) of V3/V4 archives and the lookup through it.

  builder.rs:create_het_table_with_hash_table inserts one byte per file (the top byte of the masked name hash) by
  linear probing from `hash mod size` and records the file's index in a bit-packed side array;
  tables/het.rs:find_file_with_collision_info walks the same probe order collecting every slot whose byte matches,
  until a free slot; archive.rs:find_file keeps the first candidate whose 64-bit name hash in the block-entry table
  equals the name's. The Jenkins hash itself is an input here (`full`: the 64-bit hashlittle2 value of the folded name).
-/
import WowVerif.Model.Mpq
import WowVerif.Model.C01Bet
namespace Wv.Het
open Wv Wv.Mpq

/-- marker of a never-used slot -/
def FREE : Nat := 0

/-- jenkins.rs:jenkins_hashlittle2 with hash_bits = 8: masked hash (low byte, top bit forced) -/
def fileNameHash (full : Nat) : Nat := (full % 256) ||| 128
/-- … and the byte stored in the table -/
def nameHash1 (full : Nat) : Nat := fileNameHash full % 256

structure Tab where
  slots : List Nat
  idx : List Nat
  deriving Repr, DecidableEq

def init (size width : Nat) : Tab := { slots := List.replicate size FREE, idx := List.replicate size (2 ^ width - 1) }

/-- take the first free slot in probe order; `none` = table full -/
def insertAt (t : Tab) (n i : Nat) : List Nat → Option Tab
  | [] => none
  | p :: rest => if t.slots[p]? = some FREE then some { slots := t.slots.set p n, idx := t.idx.set p i } else insertAt t n i rest

def insert (t : Tab) (full i : Nat) : Option Tab :=
  insertAt t (nameHash1 full) i (probeSeq t.slots.length (fileNameHash full % t.slots.length))

/-- insert the files in order, file `k` gets index `k` -/
def buildFrom (t : Tab) (k : Nat) : List Nat → Option Tab
  | [] => some t
  | h :: hs => match insert t h k with
    | none => none
    | some t' => buildFrom t' (k + 1) hs

/-- builder: table of `(2·count).nextPowerOfTwo` slots, index width = bits needed for `count` -/
def nextPow2 : Nat → Nat → Nat → Nat
  | 0, p, _ => p
  | f + 1, p, n => if p < n then nextPow2 f (p * 2) n else p
/-- `(2·count).next_power_of_two()` (1 for an empty archive) -/
def tableSize (count : Nat) : Nat := nextPow2 (2 * count) 1 (2 * count)
def build (hashes : List Nat) : Option Tab :=
  buildFrom (init (tableSize hashes.length) (Bet.bitsNeeded hashes.length)) 0 hashes

/-- het.rs:find_file_with_collision_info: every slot on the probe path, up to the first free one, whose byte matches
    and whose index is a file index -/
def candidatesIn (t : Tab) (n maxCount : Nat) : List Nat → List Nat
  | [] => []
  | p :: rest =>
    match t.slots[p]? with
    | none => []
    | some s =>
      if s = FREE then []
      else if s = n then
        match t.idx[p]? with
        | some i => if i < maxCount then i :: candidatesIn t n maxCount rest else candidatesIn t n maxCount rest
        | none => candidatesIn t n maxCount rest
      else candidatesIn t n maxCount rest

def lookup (t : Tab) (maxCount full : Nat) : List Nat :=
  if t.slots.length = 0 then [] else
  candidatesIn t (nameHash1 full) maxCount (probeSeq t.slots.length (fileNameHash full % t.slots.length))

/-- archive.rs:find_file: the first candidate whose 64-bit name hash in the block-entry table equals the name's -/
def resolve (betHashes : List Nat) (full : Nat) (cands : List Nat) : Option Nat :=
  cands.find? fun c => betHashes[c]? = some full

/-- the side array as bytes: `width` bits per slot -/
def idxBytes (width : Nat) (t : Tab) : Bytes :=
  Bet.tableBytes { wPos := width, wSize := 0, wCsize := 0, wFlag := 0 } (t.idx.map fun i => { pos := i, size := 0, csize := 0, flag := 0 })

end Wv.Het
