import WowVerif.Base.Bytes
/-!
C15 — derived data of WMO root and group files (file-formats/graphics/wow-wmo/src/writer.rs ↔ parser.rs):
header counts as functions of chunk sizes, NUL-terminated string tables addressed by byte offset (MOGN/MOGI),
and the MOVV/MOVB visibility lists (offset table + 0xFFFF-terminated runs).
-/
namespace Wv.Wmo
open Wv

abbrev Layout := List (String × Nat)

def sizeOf (l : Layout) (id : String) : Nat := ((l.find? (·.1 == id)).map (·.2)).getD 0

/-- the seven counts at the start of MOHD, from the sizes of the chunks holding the lists (record sizes of the writer) -/
def rootCounts (l : Layout) : List Nat :=
  [sizeOf l "MOMT" / 64, sizeOf l "MOGI" / 32, sizeOf l "MOPT" / 20, sizeOf l "MOLT" / 48,
   sizeOf l "MODD" / 40, sizeOf l "MODD" / 40, sizeOf l "MODS" / 32]

/-- element counts of a group file's lists from its sub-chunk sizes -/
def groupCounts (l : Layout) : List (String × Nat) :=
  [("MOVT", sizeOf l "MOVT" / 12), ("MOVI", sizeOf l "MOVI" / 2), ("MONR", sizeOf l "MONR" / 12), ("MOTV", sizeOf l "MOTV" / 8),
   ("MOCV", sizeOf l "MOCV" / 4), ("MOBA", sizeOf l "MOBA" / 24), ("MODR", sizeOf l "MODR" / 2)]

/-! ## string tables -/

/-- `write_group_names` / `write_textures`: names one after the other, each followed by a NUL -/
def table : List Bytes → Bytes
  | [] => []
  | n :: rest => n ++ [0] ++ table rest

/-- `write_group_info`: offset of each name in the table -/
def nameOffsets (start : Nat) : List Bytes → List Nat
  | [] => []
  | n :: rest => start :: nameOffsets (start + n.length + 1) rest

/-- `get_string_at_offset`: bytes from `off` up to (not including) the next NUL -/
def stringAt (t : Bytes) (off : Nat) : Bytes := (t.drop off).takeWhile (· ≠ 0)

/-! ## visibility lists -/

def u16le (x : Nat) : Bytes := [UInt8.ofNat (x % 256), UInt8.ofNat (x / 256 % 256)]

/-- MOVB: every list followed by the 0xFFFF terminator -/
def visData : List (List Nat) → Bytes
  | [] => []
  | l :: rest => l.flatMap u16le ++ u16le 0xFFFF ++ visData rest

/-- MOVV: byte offset of every list in MOVB -/
def visOffsets (start : Nat) : List (List Nat) → List Nat
  | [] => []
  | l :: rest => start :: visOffsets (start + 2 * (l.length + 1)) rest

/-- `parse_visible_block_lists`: read u16 values from `off` until 0xFFFF or the data runs out (fuel = data length) -/
def readList : Nat → Bytes → List Nat
  | 0, _ => []
  | f + 1, a :: b :: rest =>
    let v := a.toNat + 256 * b.toNat
    if v = 0xFFFF then [] else v :: readList f rest
  | _, _ => []

def decodeVis (offsets : List Nat) (data : Bytes) : List (List Nat) :=
  offsets.map fun o => readList data.length (data.drop o)

/-! ### group flags across versions (converter.rs:convert_group_flags) -/

/-- bits a group of version `to` can carry (expansion ordinals: Classic 0, TBC 1, WotLK 2, Cataclysm 3, MoP 4, WoD 5,
    Legion 6, …): scene graph 0x4000, more motion types 0x8000 and exterior BSP 0x20000 exist from Cataclysm on,
    mount allowed 0x10000 from Legion on -/
def groupFlagMask (to : Nat) : Nat :=
  0xFFFFFFFF - (if to < 3 then 0x2C000 else 0) - (if to < 6 then 0x10000 else 0)

/-- the flag word kept when a group goes to version `to` -/
def groupFlagsTo (to : Nat) (flags : Nat) : Nat := flags &&& groupFlagMask to

end Wv.Wmo
