/-
  Model.C11Path — warcraft-rs mpq extract: archive entry name → path written
  (wow-mpq path.rs:mpq_path_to_system, std::path::Path::{components, file_name, join} on Unix,
   warcraft-rs commands/mpq.rs:extract_files_with_options, contained_output_path).
  Names are byte strings; '/' = 47, '\' = 92, '.' = 46.
-/
import WowVerif.Base.Bytes
namespace Wv.PathM
open Wv

/-- mpq_path_to_system on Unix: every backslash becomes a slash -/
def toSystem (name : Bytes) : Bytes := name.map fun b => if b = 92 then 47 else b

/-- split at '/' -/
def splitSlash : Bytes → Bytes → List Bytes
  | [], cur => [cur.reverse]
  | b :: bs, cur => if b = 47 then cur.reverse :: splitSlash bs [] else splitSlash bs (b :: cur)

inductive Comp
  | root | cur | parent
  | normal (s : Bytes)
  deriving DecidableEq, Repr

/-- std::path::Path::components (Unix): a leading '/' is RootDir; empty pieces vanish; "." vanishes except as the
    very first piece of a relative path; ".." is ParentDir -/
def components (p : Bytes) : List Comp :=
  let pieces := splitSlash p []
  let isAbs := p.head? = some 47
  let body := pieces.zipIdx.filterMap fun (s, i) =>
    if s = [] then none
    else if s = [46] then (if i = 0 ∧ !isAbs then some Comp.cur else none)
    else if s = [46, 46] then some Comp.parent
    else some (Comp.normal s)
  if isAbs then Comp.root :: body else body

/-- commands/mpq.rs:contained_output_path — the relative components to push, or refuse -/
def containedRel (sys : Bytes) : Option (List Bytes) :=
  let cs := components sys
  if cs.any (fun c => c = Comp.parent ∨ c = Comp.root) then none else
  let ns := cs.filterMap fun | .normal s => some s | _ => none
  if ns.isEmpty then none else some ns

/-- Path::file_name: the last component if it is a normal one -/
def fileName (sys : Bytes) : Option Bytes :=
  match (components sys).getLast? with
  | some (.normal s) => some s
  | _ => none

/-- where an entry is written, relative to the output directory; `none` = nothing is written for this entry -/
def extractRel (preserve : Bool) (name : Bytes) : Option (List Bytes) :=
  let sys := toSystem name
  if preserve then containedRel sys
  else (fileName sys).map fun f => [f]     -- (no file name ⇒ join gives the directory itself; the write fails)

/-- a component that cannot move up or across: non-empty, not "." or "..", no separator inside -/
def SafeComp (c : Bytes) : Prop := c ≠ [] ∧ c ≠ [46] ∧ c ≠ [46, 46] ∧ 47 ∉ c

end Wv.PathM
