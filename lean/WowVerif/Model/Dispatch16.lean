import WowVerif.Model.C16Blp
import WowVerif.Model.C16Header
import WowVerif.Model.Dispatch18b
namespace Wv.Drv
open Wv Wv.Blp

def c16 (toks : List String) : Option String :=
  match toks with
  | ["c16count", w, h] => do pure (toString (mipCount (← w.toNat?) (← h.toNat?) true))
  | ["c16layout", hdr, fmt, cmap, w, h, mips] => do
      let (f, ab) := match fmt.splitOn ":" with
        | [f, b] => (f, b.toNat?.getD 0)
        | _ => (fmt, 0)
      let levels := chain (← w.toNat?) (← h.toNat?) (mips == "1")
      let lay := layout ((← hdr.toNat?) + 4 * (← cmap.toNat?)) (levels.map (levelBytes f ab))
      let body : String := ",".intercalate (lay.map fun p => s!"{p.1}:{p.2}")
      pure (s!"{lay.length} " ++ body)
  | ["c16hdr", h] => do pure (BlpH.show_ (BlpH.parse (← bytesOfHex h)))
  | ["c16alpha", bits, d] => do
      let as ← rleDecode d
      pure (rleEncode ((packAlpha (← bits.toNat?) as).map UInt8.ofNat))
  | _ => none

end Wv.Drv
