/-
  Model.C13Skin — the offsets wow-m2 skin.rs:SkinG::write records for the five data sections of a skin file (vertex lookup
  indices, triangle indices, bone indices, submeshes, batches): the sections follow the header one after the other; an empty
  section is recorded as (0, 0). Element sizes: 2, 2, 1 (four per vertex; the count recorded is bytes / 4), 48, 24.
  Import-free (shares the tiling predicate of Model.C14Water).
-/
import WowVerif.Model.C14Water
namespace Wv.Skin
open Wv.Water (Tiles)

/-- offsets recorded for sections of the given byte sizes, starting at `pos`; and the end of the data -/
def lay (pos : Nat) : List Nat → List Nat × Nat
  | [] => ([], pos)
  | n :: r => ((if n = 0 then 0 else pos) :: (lay (pos + n) r).1, (lay (pos + n) r).2)

/-- the non-empty sections as (offset, size), from the recorded offsets -/
def regions : List Nat → List Nat → List (Nat × Nat)
  | n :: ns, o :: os => (if n = 0 then [] else [(o, n)]) ++ regions ns os
  | _, _ => []

/-- byte sizes of the five sections -/
def sectionBytes (nIdx nTri nBoneBytes nSub nBatch : Nat) : List Nat := [2 * nIdx, 2 * nTri, nBoneBytes, 48 * nSub, 24 * nBatch]

/-- SkinHeader::calculate_size / OldSkinHeader::calculate_size -/
def headerSize (oldLayout bfa : Bool) : Nat := if oldLayout then 48 else if bfa then 76 else 60

/-- counts recorded in the header (the bone section counts vertices, four bytes each) -/
def counts (nIdx nTri nBoneBytes nSub nBatch : Nat) : List Nat :=
  [nIdx, nTri, if nBoneBytes = 0 then 0 else nBoneBytes / 4, nSub, nBatch]

end Wv.Skin
