import WowVerif.Model.C19Ffi
import WowVerif.Model.C19Buf
import WowVerif.Model.Dispatch08
namespace Wv.Drv
open Wv.Ffi

def resToString : Res → String
  | .handle h => s!"h:{h}"
  | .ok => "ok"
  | .count n => s!"n:{n}"
  | .invalidHandle => "invalid"
  | .invalidParam => "param"
  | .notFound => "notfound"
  | .noMore => "nomore"

/-- stateful; `c19reset <next>` starts a history with empty tables and the implementation's current id counter -/
def c19 (s : St) (toks : List String) : Option (St × String) :=
  let fin (r : St × Res) : Option (St × String) := some (r.1, resToString r.2)
  match toks with
  | ["c19reset", n] => do pure ({ next := ← n.toNat? }, "ok")
  | ["c19", "openarch"] => fin (openArchive s)
  | ["c19", "closearch", h] => do fin (closeArchive s (← h.toNat?))
  | ["c19", "openfile", ah, len] => do fin (openFile s (← ah.toNat?) (if len == "-" then none else len.toNat?))
  | ["c19", "closefile", h] => do fin (closeFile s (← h.toNat?))
  | ["c19", "read", h, w] => do fin (readFile s (← h.toNat?) (← w.toNat?))
  | ["c19", "seek", h, off, m] => do fin (seek s (← h.toNat?) (← intOfString off) (← m.toNat?))
  | ["c19", "size", h] => do fin (fileSize s (← h.toNat?))
  | ["c19", "findfirst", ah, t] => do fin (findFirst s (← ah.toNat?) (← t.toNat?))
  | ["c19", "findnext", h] => do fin (findNext s (← h.toNat?))
  | ["c19", "findclose", h] => do fin (findClose s (← h.toNat?))
  -- caller buffers: what the call writes from offset 0 of the buffer (`none`: it fails and writes nothing)
  | ["c19buf", "archname", path, cap] => do
      match Wv.Buf.archiveName (← Wv.bytesOfHex path) (← cap.toNat?) with
      | some w => pure (s, "ok " ++ Wv.hexOfBytes w)
      | none => pure (s, "err")
  | ["c19buf", "info", need, value, cap] => do
      match Wv.Buf.info (← need.toNat?) (← value.toNat?) (← cap.toNat?) with
      | some w => pure (s, "ok " ++ Wv.hexOrDash w)
      | none => pure (s, "err")
  | ["c19buf", "filename", name] => do
      match Wv.Buf.fileName (← Wv.bytesOfHex name) with
      | some w => pure (s, "ok " ++ Wv.hexOfBytes w)
      | none => pure (s, "err")
  | ["c19buf", "finddata", name] => do
      let r := Wv.Buf.findData (← Wv.bytesOfHex name)
      pure (s, s!"{Wv.hexOfBytes r.1} {r.2}")
  | _ => none

end Wv.Drv
