import WowVerif.Base.Bytes
import WowVerif.Model.C04Crypto
/-!
C06 — model of `MutableArchive` (file-formats/archives/wow-mpq/src/modification.rs): the cached hash table with
deleted markers, the block table, the append cursor, the placement of the tables on flush, the text `(listfile)`.
Mirrors the code function by function; the correspondence check replays whole histories through `runHistory`
and compares every table slot, block entry and header position with the bytes the implementation left on disk.
-/
namespace Wv.Mut
open Wv

inductive Slot where
  | never
  | deleted
  | used (a b loc blk : Nat)
deriving DecidableEq, Repr, Inhabited

structure Blk where
  pos : Nat
  csize : Nat
  fsize : Nat
  flags : Nat
deriving DecidableEq, Repr, Inhabited

def Slot.isFree : Slot → Bool
  | .used .. => false
  | _ => true

/-- `find_file_entry` / `add_to_hash_table` probe order: start, start+1, …, wrapping, at most `n` slots -/
def probe (n start : Nat) : List Nat := (List.range n).map fun k => (start + k) % n

/-- `find_file_entry`: stop at the key, stop at a never-used slot, skip deleted markers and other keys -/
def findGo (tbl : List Slot) (a b : Nat) : List Nat → Option Nat
  | [] => none
  | i :: rest =>
    match tbl[i]? with
    | some (.used a' b' _ _) => if a' = a ∧ b' = b then some i else findGo tbl a b rest
    | some .deleted => findGo tbl a b rest
    | some .never => none
    | none => none

def find (tbl : List Slot) (home a b : Nat) : Option Nat := findGo tbl a b (probe tbl.length home)

/-- `add_to_hash_table`: first never-used or deleted slot in probe order; `none` when the table is full -/
def insertGo (tbl : List Slot) (s : Slot) : List Nat → Option (List Slot)
  | [] => none
  | i :: rest =>
    match tbl[i]? with
    | some (.used ..) => insertGo tbl s rest
    | some _ => some (tbl.set i s)
    | none => none

def insert (tbl : List Slot) (home : Nat) (s : Slot) : Option (List Slot) := insertGo tbl s (probe tbl.length home)

def hasFree (tbl : List Slot) : Bool := tbl.any Slot.isFree

/-- block index stored under a key, the map the table represents -/
def lookup (tbl : List Slot) (home a b : Nat) : Option Nat :=
  match find tbl home a b with
  | some i => match tbl[i]? with
    | some (.used _ _ _ k) => some k
    | _ => none
  | none => none

/-! ## layout -/

def FLAG_COMPRESS : Nat := 0x200
def FLAG_ENCRYPTED : Nat := 0x10000
def FLAG_FIX_KEY : Nat := 0x20000
def FLAG_SINGLE_UNIT : Nat := 0x1000000
def FLAG_EXISTS : Nat := 0x80000000
def hasFlag (flags f : Nat) : Bool := flags / f % 2 = 1

def align512 (n : Nat) : Nat := (n + 511) / 512 * 512

def blkEnd (b : Blk) : Nat := if hasFlag b.flags FLAG_EXISTS then b.pos + b.csize else 0
def maxEnd (bs : List Blk) : Nat := bs.foldl (fun m b => max m (blkEnd b)) 0

structure Key where
  home : Nat
  a : Nat
  b : Nat
deriving DecidableEq, Repr, Inhabited

/-- session state of a `MutableArchive` plus the view of the file it last loaded -/
structure Sess where
  hash : List Slot
  blocks : List Blk
  cursor : Option Nat          -- next_file_offset
  dirty : Bool
  dHashPos : Nat               -- header of the file as last written / loaded
  dBlockPos : Nat
  dBlockCount : Nat
  dArchiveSize : Nat
  dBlocks : List Blk           -- block table of the read-only view
  hasList : Bool               -- the read-only view has a (listfile)
  listContent : Bytes          -- current content of the (listfile)
deriving Repr, Inhabited

/-- `get_archive_end_offset` when nothing is cached -/
def computeEnd (s : Sess) : Nat :=
  align512 (max (max (s.dHashPos + 16 * s.hash.length) (s.dBlockPos + 16 * s.dBlockCount)) (max (maxEnd s.dBlocks) (maxEnd s.blocks)))

def endOffset (s : Sess) : Nat :=
  match s.cursor with
  | some c => c
  | none => computeEnd s

def keyOf (n : Nat) (name : Bytes) : Key :=
  ⟨Nat.land (Model.hashString 0x000 name).toNat (n - 1), (Model.hashString 0x100 name).toNat, (Model.hashString 0x200 name).toNat⟩

def listName : Bytes := "(listfile)".toUTF8.toList
def attrName : Bytes := "(attributes)".toUTF8.toList
def sigName : Bytes := "(signature)".toUTF8.toList

/-- the part of `add_file_data` that touches tables and cursor; `internal` = update of a special file (block index reused) -/
def addCore (s : Sess) (k : Key) (fsize stored flags loc : Nat) (replace internal : Bool) : Except String Sess :=
  let existing := find s.hash k.home k.a k.b
  if existing.isSome && !replace then .error "exists"
  else if existing.isNone && !hasFree s.hash then .error "full"
  else
    let off := endOffset s
    let blk : Blk := ⟨off, stored, fsize, flags⟩
    let (hash1, blkIdx, reuse) : List Slot × Nat × Bool :=
      match existing with
      | some i =>
        let old := match s.hash[i]? with
          | some (.used _ _ _ kk) => kk
          | _ => 0
        (s.hash.set i .deleted, if internal then old else s.blocks.length, internal)
      | none => (s.hash, s.blocks.length, false)
    let blocks := if reuse then s.blocks.set blkIdx blk else s.blocks ++ [blk]
    match insert hash1 k.home (.used k.a k.b loc blkIdx) with
    | none => .error "full"
    | some hash2 => .ok { s with hash := hash2, blocks := blocks, cursor := some (align512 (off + stored)), dirty := true }

/-! ## the text listfile -/

def isSpace (b : UInt8) : Bool := b = 32 || (9 ≤ b && b ≤ 13)
def trimB (l : Bytes) : Bytes := ((l.dropWhile isSpace).reverse.dropWhile isSpace).reverse

/-- Rust `str::lines` -/
def splitOn10 : Bytes → Bytes → List Bytes
  | [], cur => [cur.reverse]
  | c :: rest, cur => if c = 10 then cur.reverse :: splitOn10 rest [] else splitOn10 rest (c :: cur)
def stripCR (l : Bytes) : Bytes := if l.getLast? = some 13 then l.dropLast else l
def linesB (c : Bytes) : List Bytes :=
  let ps := splitOn10 c []
  let ps := if ps.getLast? = some [] then ps.dropLast else ps
  ps.map stripCR

def joinNL : List Bytes → Bytes
  | [] => []
  | [x] => x
  | x :: rest => x ++ [10] ++ joinNL rest

def plainFlags : Nat := FLAG_EXISTS + FLAG_SINGLE_UNIT

def writeList (s : Sess) (content : Bytes) : Except String Sess := do
  let n := s.hash.length
  let s' ← addCore s (keyOf n listName) content.length content.length plainFlags 0 true true
  pure { s' with listContent := content }

/-- `update_listfile` -/
def updateListfile (s : Sess) (name : Bytes) : Except String Sess :=
  if !s.hasList then .ok s
  else if (linesB s.listContent).any (fun l => trimB l = name) then .ok s
  else
    let c := s.listContent
    let c := if c.getLast? ≠ some 10 ∧ c ≠ [] then c ++ [10] else c
    writeList s (c ++ name ++ [10])

/-- `remove_from_listfile` -/
def removeFromListfile (s : Sess) (name : Bytes) : Except String Sess :=
  if !s.hasList then .ok s
  else
    let kept := (linesB s.listContent).filter (fun l => trimB l ≠ name)
    let newc := joinNL kept
    if newc ≠ trimB s.listContent then writeList s (if newc = [] then [] else newc ++ [10])
    else .ok s

/-! ## operations -/

def tablesOk (s : Sess) : Bool := s.dBlockCount > 0

/-- stored length and compression flag: compressed only when that is shorter; `none` = the compressor failed -/
def storedOf (comp : Bool) (clen : Option Nat) (fsize : Nat) : Option (Nat × Nat) :=
  match comp, clen with
  | false, _ => some (fsize, 0)
  | true, none => none
  | true, some c => some (if c < fsize then (c, FLAG_COMPRESS) else (fsize, 0))

/-- `add_file_data` for a user file. `clen` = length of the compressed form (`none` = compression failed) -/
def add (s : Sess) (name : Bytes) (fsize : Nat) (clen : Option Nat) (comp : Bool) (enc : Nat) (replace : Bool) (loc : Nat := 0) : Except String Sess :=
  if !tablesOk s then .error "notables" else
  let k := keyOf s.hash.length name
  -- the early exits come before compression
  let existing := find s.hash k.home k.a k.b
  if existing.isSome && !replace then .error "exists" else
  if existing.isNone && !hasFree s.hash then .error "full" else
  match storedOf comp clen fsize with
  | none => .error "comperr"
  | some (stored, cflag) =>
    let eflag := if enc = 0 then 0 else if enc = 2 then FLAG_ENCRYPTED + FLAG_FIX_KEY else FLAG_ENCRYPTED
    let internal := name = listName || name = attrName
    match addCore s k fsize stored (FLAG_EXISTS + cflag + eflag + FLAG_SINGLE_UNIT) loc replace internal with
    | .error e => .error e
    | .ok s1 => if name ≠ listName && !internal then updateListfile s1 name else .ok s1

def remove (s : Sess) (name : Bytes) : Except String Sess :=
  if !tablesOk s then .error "notables" else
  let k := keyOf s.hash.length name
  match find s.hash k.home k.a k.b with
  | none => .error "notfound"
  | some i =>
    match removeFromListfile { s with hash := s.hash.set i .deleted } name with
    | .error e => .error e
    | .ok s2 => .ok { s2 with dirty := true }

/-- `flush` (archives without `(attributes)`): tables behind the data, header rewritten, view reloaded -/
def flush (s : Sess) : Sess :=
  if !s.dirty then s
  else
    let hp := endOffset s
    let bp := hp + 16 * s.hash.length
    let k := keyOf s.hash.length listName
    { s with dirty := false, cursor := none, dHashPos := hp, dBlockPos := bp, dBlockCount := s.blocks.length,
             dArchiveSize := bp + 16 * s.blocks.length, dBlocks := s.blocks,
             hasList := (find s.hash k.home k.a k.b).isSome }

/-- `rename_file`. Returns the state even on failure: the encrypted path flushes before it can fail
    (which changes the file layout, not the name→content map). -/
def rename (s : Sess) (old new : Bytes) (zlen : Nat) : Sess × String :=
  if !tablesOk s then (s, "notables") else
  let n := s.hash.length
  let ko := keyOf n old
  let kn := keyOf n new
  match find s.hash ko.home ko.a ko.b with
  | none => (s, "notfound")
  | some i =>
    if (find s.hash kn.home kn.a kn.b).isSome then (s, "exists") else
    let (loc, bi) := match s.hash[i]? with
      | some (.used _ _ l kk) => (l, kk)
      | _ => (0, 0)
    match s.blocks[bi]? with
    | none => (s, "err")
    | some blk =>
      if hasFlag blk.flags FLAG_ENCRYPTED then
        -- read_file flushes pending changes, then the content is stored again under the new name
        let s0 := flush s
        match add s0 new blk.fsize (some zlen) (hasFlag blk.flags FLAG_COMPRESS) (if hasFlag blk.flags FLAG_FIX_KEY then 2 else 1) true loc with
        | .error e => (s0, e)
        | .ok s1 =>
          match remove s1 old with
          | .error e => (s1, e)
          | .ok s2 => (s2, "ok")
      else
        let hash1 := s.hash.set i .deleted
        match insert hash1 kn.home (.used kn.a kn.b loc bi) with
        | none => (s, "full")
        | some hash2 =>
          let s1 := { s with hash := hash2 }
          match removeFromListfile s1 old with
          | .error e => (s1, e)
          | .ok s2 =>
            match updateListfile s2 new with
            | .error e => (s2, e)
            | .ok s3 => ({ s3 with dirty := true }, "ok")

/-- names `compact` can resolve: lines of the listfile (as `parse_listfile` reads them) plus the internal names -/
def listedNames (s : Sess) : List Bytes :=
  let ls := (linesB s.listContent).filterMap fun l =>
    let t := trimB l
    if t = [] ∨ t.head? = some 59 ∨ t.head? = some 35 then none
    else
      let f := trimB (t.takeWhile (· ≠ 59))
      if f = [] then none else some f
  (if s.hasList then ls else []) ++ [listName, attrName, sigName]

def resolvable (s : Sess) : Bool :=
  let keys := (listedNames s).map (keyOf s.hash.length)
  s.hash.all fun sl => match sl with
    | .used a b _ _ => keys.any fun k => k.a = a ∧ k.b = b
    | _ => true

/-- user-visible content of the tables: (A, B, file size) of every used slot that is not an internal file -/
def liveKeys (hash : List Slot) (blocks : List Blk) : List (Nat × Nat × Nat) :=
  let n := hash.length
  let special := [listName, attrName, sigName].map (keyOf n)
  hash.filterMap fun sl => match sl with
    | .used a b _ k => if special.any (fun s => s.a = a ∧ s.b = b) then none else some (a, b, (blocks[k]?.map (·.fsize)).getD 0)
    | _ => none

def sortKeys (l : List (Nat × Nat × Nat)) : List (Nat × Nat × Nat) :=
  l.mergeSort fun x y => x.1 < y.1 ∨ (x.1 = y.1 ∧ (x.2.1 < y.2.1 ∨ (x.2.1 = y.2.1 ∧ x.2.2 ≤ y.2.2)))

end Wv.Mut
