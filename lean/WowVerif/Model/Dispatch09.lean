import WowVerif.Model.C09Par
namespace Wv.Drv
open Wv.Par

def natList (s : String) : Option (List Nat) := if s == "-" then some [] else (s.splitOn ",").mapM String.toNat?

def c09 (toks : List String) : Option String :=
  match toks with
  | ["c09", mode, skip, k, names, bad] => do
      let k ← k.toNat?; let ns ← natList names; let bad ← natList bad
      let read (n : Nat) : Except Unit Unit := if bad.contains n then .error () else .ok ()
      if mode == "b" ∧ k = 0 then pure "panic" else
      let slots : List (Nat × Except Unit Unit) :=
        if mode == "b" then extractBatched read k ns else extractSkip read ns
      let render (l : List (Nat × Except Unit Unit)) : String :=
        if l.isEmpty then "-" else ",".intercalate (l.map fun (n, r) => s!"{n}:{match r with | .ok _ => "o" | .error _ => "e"}")
      if skip == "1" then pure (render slots)
      else match extractStrict read ns with
        | some _ => pure (render slots)
        | none => pure "fail"
  | ["c09eff", n, b, t] => do pure (toString (effectiveBatch (← n.toNat?) (← b.toNat?) (← t.toNat?)))
  | _ => none

end Wv.Drv
