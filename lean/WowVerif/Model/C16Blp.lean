import WowVerif.Base.Bytes
/-!
C16 — BLP header arithmetic, mip-level layout and alpha bit packing
(file-formats/graphics/wow-blp/src/types/header.rs, types/direct/*.rs:mipmap_locator, convert/raw1.rs, convert/mipmap.rs).
-/
namespace Wv.Blp
open Wv

/-- `BlpHeader::mipmaps_count`: floor(log2) of the larger side when the image has mipmaps -/
def mipCount (w h : Nat) (mips : Bool) : Nat := if mips then max (Nat.log2 w) (Nat.log2 h) else 0

/-- `BlpHeader::mipmap_size` -/
def mipSize (w h i : Nat) : Nat × Nat := if i = 0 then (w, h) else (max (w >>> i) 1, max (h >>> i) 1)

/-- `generate_mipmaps`: halve (never below one pixel) until 1x1, at most 16 levels -/
def chainGo : Nat → Nat → Nat → List (Nat × Nat)
  | 0, w, h => [(w, h)]
  | fuel + 1, w, h => if w ≤ 1 ∧ h ≤ 1 then [(w, h)] else (w, h) :: chainGo fuel (max (w / 2) 1) (max (h / 2) 1)
def chain (w h : Nat) (mips : Bool) : List (Nat × Nat) := if mips then chainGo 15 w h else [(w, h)]

/-- bytes of one level -/
def levelBytes (fmt : String) (alphaBits : Nat) (wh : Nat × Nat) : Nat :=
  let n := wh.1 * wh.2
  if fmt = "raw1" then n + (n * alphaBits + 7) / 8
  else if fmt = "raw3" then 4 * n
  else if fmt = "dxt1" then ((wh.1 + 3) / 4) * ((wh.2 + 3) / 4) * 8
  else ((wh.1 + 3) / 4) * ((wh.2 + 3) / 4) * 16

/-- `mipmap_locator`: consecutive extents starting behind the header and the colour map -/
def layout (start : Nat) : List Nat → List (Nat × Nat)
  | [] => []
  | s :: rest => (start, s) :: layout (start + s) rest

/-! ## alpha packing (`index_alpha_*`) and unpacking (`raw1_to_image`) -/

def quant4 (a : UInt8) : Nat := (a.toNat * 30 + 255) / 510          -- round(a / 255 * 15), ties cannot occur

/-- consecutive groups of `k` elements (the last one may be shorter); `fuel` ≥ length -/
def chunksOf {α : Type} (k : Nat) : Nat → List α → List (List α)
  | 0, _ => []
  | f + 1, l => if l = [] then [] else l.take k :: chunksOf k f (l.drop k)

/-- little-endian value of a group of bits: pixel `j` of the group is bit `j` of the byte -/
def byteOfBits : List Bool → Nat
  | [] => 0
  | b :: r => (if b then 1 else 0) + 2 * byteOfBits r

/-- `index_alpha_1bit`: eight pixels per byte, first pixel in the least significant bit -/
def pack1 (as : List UInt8) : List Nat := (chunksOf 8 as.length (as.map fun a => decide (a.toNat > 0))).map byteOfBits

def nibblesVal : List Nat → Nat
  | [] => 0
  | n :: r => n + 16 * nibblesVal r

/-- `index_alpha_4bit`: two pixels per byte, first pixel in the low nibble -/
def pack4 (as : List UInt8) : List Nat := (chunksOf 2 as.length (as.map quant4)).map nibblesVal

def packAlpha (bits : Nat) (as : List UInt8) : List Nat :=
  if bits = 0 then [] else if bits = 1 then pack1 as else if bits = 4 then pack4 as else as.map (·.toNat)

/-- decoder side: alpha of pixel `i` -/
def unpack1 (packed : List Nat) (i : Nat) : Nat := if (packed.getD (i / 8) 0) / 2 ^ (i % 8) % 2 = 1 then 255 else 0
def unpack4 (packed : List Nat) (i : Nat) : Nat :=
  let b := packed.getD (i / 2) 0
  let nib := if i % 2 = 0 then b % 16 else b / 16
  nib * 16 + nib

end Wv.Blp
