import WowVerif.Base.Bytes
/-!
C10 — the integrity mechanisms of wow-mpq as executable definitions: ADLER32 sector checksums, CRC32 file attributes,
the byte range a weak signature's digest covers, and the accept/reject logic of the sector reader and of `SFileVerifyFile`.
-/
namespace Wv.Integ
open Wv

/-! ## ADLER32 (RFC 1950) -/
def adlerStep (s : Nat × Nat) (x : UInt8) : Nat × Nat :=
  let a := (s.1 + x.toNat) % 65521
  (a, (s.2 + a) % 65521)
def adlerState (bs : Bytes) : Nat × Nat := bs.foldl adlerStep (1, 0)
def adler32 (bs : Bytes) : Nat := (adlerState bs).2 * 65536 + (adlerState bs).1

/-! ## CRC32 (IEEE 802.3, reflected, polynomial 0xEDB88320) -/
def crcShift (c : Nat) : Nat := if c % 2 = 1 then Nat.xor 0xEDB88320 (c / 2) else c / 2
def crcEntry (i : Nat) : Nat := crcShift (crcShift (crcShift (crcShift (crcShift (crcShift (crcShift (crcShift i)))))))
def crcTable : List Nat := (List.range 256).map crcEntry
def crcTableA : Array Nat := crcTable.toArray
def crcStep (c : Nat) (x : UInt8) : Nat := Nat.xor (crcTableA.getD (Nat.xor c x.toNat % 256) 0) (c / 256)
def crcState (bs : Bytes) : Nat := bs.foldl crcStep 0xFFFFFFFF
def crc32 (bs : Bytes) : Nat := Nat.xor (crcState bs) 0xFFFFFFFF

/-! ## what a weak signature signs: every byte of the archive, with the signature file itself zeroed -/
def maskSig (bs : Bytes) (pos len : Nat) : Bytes :=
  bs.take pos ++ List.replicate ((bs.drop pos).take len).length 0 ++ bs.drop (pos + len)

/-! ## accept / reject logic -/

/-- the sectored reader: each decoded sector must match its stored checksum, otherwise the read fails (`none`) -/
def readSectors : List Bytes → List Nat → Option Bytes
  | [], _ => some []
  | d :: ds, c :: cs => if adler32 d = c then (readSectors ds cs).map (d ++ ·) else none
  | _ :: _, [] => none

/-- `SFileVerifyFile` with both attributes present: content must match the CRC32 and the MD5 of the (attributes) entry -/
def verifyFile (md5 : Bytes → Bytes) (data : Bytes) (crc : Option Nat) (digest : Option Bytes) : Bool :=
  (match crc with | some c => crc32 data = c | none => true) && (match digest with | some m => md5 data = m | none => true)

end Wv.Integ
