import WowVerif.Model.C13M2
import WowVerif.Model.C13Anim
namespace Wv.Drv
open Wv Wv.M2

def c13 (toks : List String) : Option String :=
  match toks with
  | ["c13reloc", st, bl] => do
      let start ← st.toNat?
      let blobs ← (bl.splitOn ",").mapM fun t => match t.splitOn ":" with
        | [o, n] => do pure ((← o.toNat?), List.replicate (← n.toNat?) (0 : UInt8))
        | _ => none
      pure (",".intercalate ((relocated start blobs).map fun o => match o with | some n => toString n | none => "unmapped"))
  | ["c13animparse", h] => do
      -- the model reads a .anim file the writer produced
      let ws ← Anim.wordsOfBytes (← bytesOfHex h)
      match Anim.parseFile ws with
      | some f => pure (Anim.fileStr f)
      | none => pure "err"
  | ["c13animrw", h] => do
      -- … and lays the same content out again: the bytes must be the writer's
      let ws ← Anim.wordsOfBytes (← bytesOfHex h)
      match Anim.parseFile ws with
      | some f => pure (hexOfBytes (Anim.bytesOfWords (Anim.writeFile f)))
      | none => pure "err"
  | _ => none

end Wv.Drv
