import WowVerif.Model.C13M2
import WowVerif.Model.C13Anim
import WowVerif.Model.C13Skin
namespace Wv.Drv
open Wv Wv.M2

def c13 (toks : List String) : Option String :=
  match toks with
  -- skin sections: header size, then element counts of the five sections (bone section in bytes) -> (count,offset) pairs and the file size
  | ["c13skin", hdr, a, b, c, d, e] => do
      let (na, nb, nc, nd, ne) := (← a.toNat?, ← b.toNat?, ← c.toNat?, ← d.toNat?, ← e.toNat?)
      let r := Skin.lay (← hdr.toNat?) (Skin.sectionBytes na nb nc nd ne)
      let pairs := (Skin.counts na nb nc nd ne).zip r.1
      pure (" ".intercalate (pairs.map fun p => s!"{p.1},{p.2}") ++ s!" size={r.2}")
  | ["c13reloc", st, bl] => do
      let start ← st.toNat?
      let blobs ← (bl.splitOn ",").mapM fun t => match t.splitOn ":" with
        | [o, n] => do pure ((← o.toNat?), List.replicate (← n.toNat?) (0 : UInt8))
        | _ => none
      pure (",".intercalate ((relocated start blobs).map fun o => match o with | some n => toString n | none => "unmapped"))
  | ["c13animparse", h] => do
      -- the model reads a .anim file the writer produced
      let ws ← Anim.wordsOfBytes (← bytesOfHex h)
      match Anim.parseFile ws with
      | some f => pure (Anim.fileStr f)
      | none => pure "err"
  | ["c13animrw", h] => do
      -- … and lays the same content out again: the bytes must be the writer's
      let ws ← Anim.wordsOfBytes (← bytesOfHex h)
      match Anim.parseFile ws with
      | some f => pure (hexOfBytes (Anim.bytesOfWords (Anim.writeFile f)))
      | none => pure "err"
  | _ => none

end Wv.Drv
