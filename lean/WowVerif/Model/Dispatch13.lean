import WowVerif.Model.C13M2
namespace Wv.Drv
open Wv Wv.M2

def c13 (toks : List String) : Option String :=
  match toks with
  | ["c13reloc", st, bl] => do
      let start ← st.toNat?
      let blobs ← (bl.splitOn ",").mapM fun t => match t.splitOn ":" with
        | [o, n] => do pure ((← o.toNat?), List.replicate (← n.toNat?) (0 : UInt8))
        | _ => none
      pure (",".intercalate ((relocated start blobs).map fun o => match o with | some n => toString n | none => "unmapped"))
  | _ => none

end Wv.Drv
