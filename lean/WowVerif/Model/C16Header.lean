/-
  Model.C16Header — wow-blp parser/header.rs:parse_header and encode/mod.rs:encode_header: the BLP0/1/2 header as
  fixed-layout records (Lib.Record), read field by field in the parser's order (so the first failing check decides the
  error), with the parser's normalisations (unknown content tag → JPEG, non-standard alpha depth of old headers → 0).
  Import-free.
-/
import WowVerif.Lib.Record
namespace Wv.BlpH
open Wv

inductive Flags
  | old (alphaBits extra hasMips : Nat)
  | blp2 (compression alphaBits alphaType hasMips : Nat)
  deriving DecidableEq, Repr

structure Hdr where
  version : Nat          -- 0, 1, 2
  content : Nat          -- 0 = JPEG, 1 = direct
  flags : Flags
  width : Nat
  height : Nat
  locator : List Nat     -- 16 offsets then 16 sizes (internal locator, version ≥ 1); [] = external (BLP0)
  deriving DecidableEq, Repr

inductive Err | eof | magic | compression | alphaType | tooBig | external
  deriving DecidableEq, Repr

def magicOf (v : Nat) : Nat := 0x30504C42 + v * 0x1000000     -- "BLP0" / "BLP1" / "BLP2" as a little-endian dword

def versionOf (m : Nat) : Option Nat :=
  if m = magicOf 0 then some 0 else if m = magicOf 1 then some 1 else if m = magicOf 2 then some 2 else none

def normContent (c : Nat) : Nat := if c = 1 then 1 else 0

def normAlpha (content raw : Nat) : Nat :=
  if content = 0 ∧ (raw ≠ 0 ∧ raw ≠ 8) then 0
  else if content = 1 ∧ (raw ≠ 0 ∧ raw ≠ 1 ∧ raw ≠ 4 ∧ raw ≠ 8) then 0
  else raw

def okAlphaType (a : Nat) : Bool := a = 0 ∨ a = 1 ∨ a = 7 ∨ a = 8

def locW : List Nat := List.replicate 32 4

def nth : List Nat → Nat → Nat
  | [], _ => 0
  | x :: _, 0 => x
  | _ :: xs, i + 1 => nth xs i

def parseLocator (v : Nat) (bs : Bytes) : Except Err (List Nat) :=
  if v ≥ 1 then
    match Rec.dec locW bs with
    | some p => .ok p.1
    | none => .error .eof
  else .ok []

/-- BLP2: compression, alpha depth, alpha type, mipmap flag, dimensions, locator — each check right after its field -/
def parseV2 (content : Nat) (r1 : Bytes) : Except Err Hdr :=
  match Rec.dec [1] r1 with
  | none => .error .eof
  | some p2 =>
    if nth p2.1 0 > 3 then .error .compression else
    match Rec.dec [1, 1] p2.2 with
    | none => .error .eof
    | some p3 =>
      if ¬ okAlphaType (nth p3.1 1) then .error .alphaType else
      match Rec.dec [1, 4, 4] p3.2 with
      | none => .error .eof
      | some p4 =>
        match parseLocator 2 p4.2 with
        | .ok l => .ok ⟨2, content, .blp2 (nth p2.1 0) (nth p3.1 0) (nth p3.1 1) (nth p4.1 0), nth p4.1 1, nth p4.1 2, l⟩
        | .error e => .error e

/-- BLP0 / BLP1: alpha depth (normalised), dimensions, extra, mipmap flag, locator (BLP1) -/
def parseOld (v content : Nat) (r1 : Bytes) : Except Err Hdr :=
  match Rec.dec [4, 4, 4, 4, 4] r1 with
  | none => .error .eof
  | some p2 =>
    match parseLocator v p2.2 with
    | .ok l => .ok ⟨v, content, .old (normAlpha content (nth p2.1 0)) (nth p2.1 3) (nth p2.1 4), nth p2.1 1, nth p2.1 2, l⟩
    | .error e => .error e

/-- parse_header -/
def parse (bs : Bytes) : Except Err Hdr :=
  match Rec.dec [4] bs with
  | none => .error .eof
  | some p0 =>
    match versionOf (nth p0.1 0) with
    | none => .error .magic
    | some v =>
      match Rec.dec [4] p0.2 with
      | none => .error .eof
      | some p1 =>
        if v = 2 then parseV2 (normContent (nth p1.1 0)) p1.2 else parseOld v (normContent (nth p1.1 0)) p1.2

/-- encode_header -/
def write (h : Hdr) : Except Err Bytes :=
  if h.width > 65535 ∨ h.height > 65535 then .error .tooBig else
  if h.locator = [] ∧ h.version > 0 then .error .external else
  let mid := match h.flags with
    | .old ab extra hm => Rec.enc [(4, ab), (4, h.width), (4, h.height), (4, extra), (4, hm)]
    | .blp2 comp ab at_ hm => Rec.enc [(1, comp)] ++ (Rec.enc [(1, ab), (1, at_)] ++ Rec.enc [(1, hm), (4, h.width), (4, h.height)])
  .ok (Rec.enc [(4, magicOf h.version)] ++ (Rec.enc [(4, h.content)] ++ (mid ++ Rec.enc (locW.zip h.locator))))

/-- the headers the converter produces and the parser returns -/
structure Normal (h : Hdr) : Prop where
  ver : h.version ≤ 2
  content : h.content ≤ 1
  dims : h.width ≤ 65535 ∧ h.height ≤ 65535
  loc : (h.version = 0 ∧ h.locator = []) ∨ (h.version ≥ 1 ∧ h.locator.length = 32 ∧ ∀ x ∈ h.locator, x < 2 ^ 32)
  flags : match h.flags with
    | .old ab extra hm => h.version ≤ 1 ∧ normAlpha h.content ab = ab ∧ ab < 2 ^ 32 ∧ extra < 2 ^ 32 ∧ hm < 2 ^ 32
    | .blp2 comp ab at_ hm => h.version = 2 ∧ comp ≤ 3 ∧ ab < 256 ∧ okAlphaType at_ = true ∧ hm < 256

def size (v : Nat) : Nat := if v = 0 then 28 else if v = 1 then 156 else 148

def show_ (r : Except Err Hdr) : String :=
  match r with
  | .error .eof => "err eof"
  | .error .magic => "err magic"
  | .error .compression => "err compression"
  | .error .alphaType => "err alphatype"
  | .error _ => "err other"
  | .ok h =>
    let fl := match h.flags with
      | .old ab extra hm => s!"old {ab} {extra} {hm}"
      | .blp2 c ab at_ hm => s!"blp2 {c} {ab} {at_} {hm}"
    s!"ok {h.version} {h.content} {fl} {h.width} {h.height} " ++
      (if h.locator.isEmpty then "ext" else ",".intercalate (h.locator.map toString))

end Wv.BlpH
