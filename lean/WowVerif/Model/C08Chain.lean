/-
  Model.C08Chain — wow-mpq patch_chain.rs (ordered archive list, first-match lookup) and patch/apply.rs,
  patch/header.rs, compression/algorithms/rle.rs (COPY / BSD0 patches with MD5 verification).
-/
import WowVerif.Base.Bytes
import WowVerif.Spec.Md5
namespace Wv.Chain
open Wv

structure Entry where
  id : Nat          -- which archive (its path)
  prio : Int
  stamp : Nat       -- order of insertion (a re-prioritised archive counts as inserted anew)
  deriving DecidableEq, Repr

structure Chain where
  entries : List Entry := []
  next : Nat := 0
  deriving Repr

/-- `position(|e| e.priority < priority).unwrap_or(len)` followed by `insert` -/
def insertSorted (e : Entry) : List Entry → List Entry
  | [] => [e]
  | x :: xs => if x.prio < e.prio then e :: x :: xs else x :: insertSorted e xs

def Chain.add (c : Chain) (id : Nat) (p : Int) : Chain :=
  { entries := insertSorted ⟨id, p, c.next⟩ c.entries, next := c.next + 1 }

/-- remove the first entry with that path -/
def removeFirst (id : Nat) : List Entry → List Entry
  | [] => []
  | x :: xs => if x.id = id then xs else x :: removeFirst id xs

def Chain.remove (c : Chain) (id : Nat) : Chain := { c with entries := removeFirst id c.entries }

def Chain.setPriority (c : Chain) (id : Nat) (p : Int) : Option Chain :=
  if c.entries.any (·.id = id) then
    some { entries := insertSorted ⟨id, p, c.next⟩ (removeFirst id c.entries), next := c.next + 1 }
  else none

def Chain.clear (c : Chain) : Chain := { c with entries := [] }

/-- from_archives_parallel: open all, then a stable sort by descending priority of the input order -/
def fromParallel (l : List (Nat × Int)) : Chain :=
  { entries := (l.zipIdx.map fun ((id, p), i) => (⟨id, p, i⟩ : Entry)).mergeSort (fun a b => decide (a.prio ≥ b.prio)),
    next := l.length }

inductive Op
  | add (id : Nat) (p : Int)
  | remove (id : Nat)
  | setPriority (id : Nat) (p : Int)
  | clear
  deriving Repr

def step (c : Chain) : Op → Chain
  | .add id p => c.add id p
  | .remove id => c.remove id
  | .setPriority id p => (c.setPriority id p).getD c
  | .clear => c.clear

def run (ops : List Op) : Chain := ops.foldl step {}

/-- rebuild_file_map + read_file: the first archive in list order whose listing contains the name -/
def lookup (has : Nat → Nat → Bool) (c : Chain) (name : Nat) : Option Entry :=
  c.entries.find? fun e => has e.id name

/-! ### patches -/

structure Patch where
  dataSize : Nat        -- PTCH patch_data_size (size of the RLE-decoded BSDIFF block)
  sizeBefore : Nat
  sizeAfter : Nat
  md5Before : Bytes
  md5After : Bytes
  isCopy : Bool
  data : Bytes
  deriving Repr

inductive PErr | format | md5Base | md5Result
  deriving DecidableEq, Repr

def u32At (bs : Bytes) (o : Nat) : Nat := leNat ((bs.drop o).take 4)
def u64At (bs : Bytes) (o : Nat) : Nat := leNat ((bs.drop o).take 8)

/-- patch/header.rs:PatchFile::parse (PTCH 16 bytes, MD5_ 40 bytes, XFRM 12 bytes = 68; the length pre-check is
    against the constant 64, shorter reads fail as I/O errors) -/
def parsePatch (bs : Bytes) : Option Patch :=
  if bs.length < 68 then none else
  if u32At bs 0 ≠ 0x48435450 then none else
  if u32At bs 16 ≠ 0x5f35444d then none else
  if u32At bs 20 ≠ 40 then none else
  if u32At bs 56 ≠ 0x4d524658 then none else
  let ty := u32At bs 64
  if ty ≠ 0x59504f43 ∧ ty ≠ 0x30445342 then none else
  some { dataSize := u32At bs 4, sizeBefore := u32At bs 8, sizeAfter := u32At bs 12,
         md5Before := (bs.drop 24).take 16, md5After := (bs.drop 40).take 16,
         isCopy := ty = 0x59504f43, data := bs.drop 68 }

/-- rle.rs:decompress — output is always `size` bytes, zero-filled where the stream skips or ends early -/
def rleGo : Nat → Bytes → Nat → Bytes → Bytes
  | 0, _, _, acc => acc
  | _, [], _, acc => acc
  | f+1, b :: rest, size, acc =>
    if acc.length ≥ size then acc else
    if b.toNat ≥ 128 then
      let n := min (min (b.toNat % 128 + 1) (size - acc.length)) rest.length
      rleGo f (rest.drop n) size (acc ++ rest.take n)
    else rleGo f rest size (acc ++ List.replicate (b.toNat + 1) 0)

def rleDecompress (compressed : Bytes) (size : Nat) (skipHeader : Bool) : Option Bytes :=
  if skipHeader ∧ compressed.length < 4 then none else
  let data := if skipHeader then compressed.drop 4 else compressed
  -- rle.rs: a declared size beyond 128 bytes per input byte is refused before anything is allocated
  if size > data.length * 128 then none else
  some ((rleGo (data.length + 1) data size [] ++ List.replicate size 0).take size)

structure Bs where
  newOff : Nat := 0
  oldOff : Nat := 0
  dataPtr : Nat := 0
  extraPtr : Nat := 0
  out : Bytes := []

def addBytes (seg base : Bytes) : Bytes :=
  List.zipWith (fun (a b : UInt8) => a + b) seg base ++ seg.drop base.length

/-- one BSDIFF control triple of apply.rs:apply_bsd0_patch, every bound check as in the code -/
def bsdStep (base dataBlk extraBlk : Bytes) (newSize : Nat) (st : Bs) (add mov raw : Nat) : Option Bs :=
  if st.newOff + add > newSize then none else
  if st.dataPtr + add > dataBlk.length then none else
  let seg := (dataBlk.drop st.dataPtr).take add
  let combine := if st.oldOff + add ≥ base.length then base.length - st.oldOff else add
  let seg' := addBytes seg ((base.drop st.oldOff).take combine)
  let newOff := st.newOff + add
  let oldOff := st.oldOff + add
  if newOff + mov > newSize then none else
  if st.extraPtr + mov > extraBlk.length then none else
  let ext := (extraBlk.drop st.extraPtr).take mov
  let oldOff' := if raw ≥ 2147483648 then oldOff - ((2147483648 + 4294967296 - raw) % 4294967296) else oldOff + raw
  some { newOff := newOff + mov, oldOff := oldOff', dataPtr := st.dataPtr + add, extraPtr := st.extraPtr + mov,
         out := st.out ++ seg' ++ ext }

def bsdLoop (base ctrl dataBlk extraBlk : Bytes) (newSize : Nat) : Nat → Nat → Bs → Option Bs
  | 0, _, st => some st
  | n+1, i, st =>
    match bsdStep base dataBlk extraBlk newSize st (u32At ctrl (12 * i)) (u32At ctrl (12 * i + 4)) (u32At ctrl (12 * i + 8)) with
    | none => none
    | some st' => bsdLoop base ctrl dataBlk extraBlk newSize n (i + 1) st'

def applyBsd0 (p : Patch) (base : Bytes) : Option Bytes :=
  if base.length ≠ p.sizeBefore then none else
  match rleDecompress p.data p.dataSize true with
  | none => none
  | some d =>
    if d.length < 32 then none else
    if u64At d 0 ≠ 0x3034464649445342 then none else
    let ctrlSize := u64At d 8
    let dataSize := u64At d 16
    let newSize := u64At d 24
    if newSize ≠ p.sizeAfter then none else
    if 32 + ctrlSize + dataSize > d.length then none else
    let ctrl := (d.drop 32).take ctrlSize
    let dataBlk := (d.drop (32 + ctrlSize)).take dataSize
    let extraBlk := d.drop (32 + ctrlSize + dataSize)
    -- apply.rs: every output byte comes from the diff block or the extra block
    if newSize > dataBlk.length + extraBlk.length then none else
    match bsdLoop base ctrl dataBlk extraBlk newSize (ctrlSize / 12) 0 {} with
    | none => none
    | some st => if st.newOff ≠ newSize then none else some st.out

def applyCopy (p : Patch) (base : Bytes) : Option Bytes :=
  if base.length ≠ p.sizeBefore then none else
  if p.data.length ≠ p.sizeAfter then none else some p.data

/-- patch/apply.rs:apply_patch with an arbitrary digest function -/
def applyPatch (md5 : Bytes → Bytes) (p : Patch) (base : Bytes) : Except PErr Bytes :=
  if md5 base ≠ p.md5Before then .error .md5Base else
  match (if p.isCopy then applyCopy p base else applyBsd0 p base) with
  | none => .error .format
  | some out => if md5 out ≠ p.md5After then .error .md5Result else .ok out

end Wv.Chain
