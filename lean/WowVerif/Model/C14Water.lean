/-
  Model.C14Water — the layout wow-adt builder/serializer.rs:write_mh2o_chunk computes for the water chunk (MH2O): a table of
  256 twelve-byte headers, then per populated entry the instance records (24 bytes each), then per instance its 8-byte
  exists bitmap and its vertex data (when present), then the entry's 16-byte attributes (when present). All offsets are
  relative to the start of the chunk payload; 0 means "absent". Import-free.
-/
namespace Wv.Water

structure Layer where
  bitmap : Bool            -- the instance has an exists bitmap
  vdata : Option Nat       -- byte size of its vertex data, if it has any
  deriving DecidableEq, Repr

structure Entry where
  layers : List Layer
  attrs : Bool
  deriving DecidableEq, Repr

/-- what the writer records for one entry -/
structure Out where
  inst : Nat                       -- header.offset_instances
  count : Nat                      -- header.layer_count
  attr : Nat                       -- header.offset_attributes
  offs : List (Nat × Nat)          -- per instance: (offset_exists_bitmap, offset_vertex_data)
  deriving DecidableEq, Repr

def layLayers (vpos : Nat) : List Layer → List (Nat × Nat) × Nat
  | [] => ([], vpos)
  | l :: r =>
    let bm := if l.bitmap then vpos else 0
    let v1 := if l.bitmap then vpos + 8 else vpos
    let vd := match l.vdata with | some _ => v1 | none => 0
    let v2 := match l.vdata with | some n => v1 + n | none => v1
    ((bm, vd) :: (layLayers v2 r).1, (layLayers v2 r).2)

def layEntry (pos : Nat) (e : Entry) : Out × Nat :=
  let n := e.layers.length
  let inst := if n = 0 then 0 else pos
  let ll := layLayers (pos + 24 * n) e.layers
  let p1 := if n = 0 then pos else ll.2
  let attr := if e.attrs then p1 else 0
  let p2 := if e.attrs then p1 + 16 else p1
  ({ inst := inst, count := n, attr := attr, offs := if n = 0 then [] else ll.1 }, p2)

def layAll (pos : Nat) : List Entry → List Out × Nat
  | [] => ([], pos)
  | e :: r => ((layEntry pos e).1 :: (layAll (layEntry pos e).2 r).1, (layAll (layEntry pos e).2 r).2)

/-- the whole chunk: recorded offsets per entry and the payload size (the variable data starts behind the header table) -/
def layout (es : List Entry) : List Out × Nat := layAll 3072 es

/-! regions actually occupied, read off the RECORDED offsets: (offset, size) in emission order -/

def layerRegions : List Layer → List (Nat × Nat) → List (Nat × Nat)
  | l :: ls, (bm, vd) :: os =>
    (if l.bitmap then [(bm, 8)] else []) ++ (match l.vdata with | some n => [(vd, n)] | none => []) ++ layerRegions ls os
  | _, _ => []

def entryRegions (e : Entry) (o : Out) : List (Nat × Nat) :=
  (if e.layers.length = 0 then [] else (o.inst, 24 * e.layers.length) :: layerRegions e.layers o.offs) ++
  (if e.attrs then [(o.attr, 16)] else [])

def allRegions : List Entry → List Out → List (Nat × Nat)
  | e :: es, o :: os => entryRegions e o ++ allRegions es os
  | _, _ => []

/-- the regions follow one another without gap or overlap from `start` to `fin` -/
def Tiles (start : Nat) : List (Nat × Nat) → Nat → Prop
  | [], fin => fin = start
  | (o, s) :: r, fin => o = start ∧ Tiles (start + s) r fin

end Wv.Water
