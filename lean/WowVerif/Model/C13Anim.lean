/-
  Model.C13Anim — one animation section of a modern .anim file (wow-m2 anim.rs: AnimSection::write / ::parse), at the
  level of 32-bit words (every field is a u32 or an f32).

  Layout: "AFID", id, start, end; one offset per bone (absolute byte position of the bone's data, 0 = no data); then the
  data of the bones that have any, in order: bone id, flags (1 translation, 2 rotation, 4 scaling), then per present track
  its key count, the time stamps, the values (3 words per translation / scaling key, 4 per rotation key).
  The entry's size field covers the header and the offset table (16 + 4·bones): that is what the reader derives the bone
  count from.
-/
namespace Wv.Anim

structure Track where
  ts : List Nat
  vals : List Nat        -- the keys' words, flattened
  deriving Repr, DecidableEq

structure Bone where
  id : Nat
  t : Option Track
  r : Option Track
  s : Option Track
  deriving Repr, DecidableEq

structure Section where
  id : Nat
  start : Nat
  stop : Nat
  bones : List Bone
  deriving Repr, DecidableEq

def AFID : Nat := 0x44494641

def Bone.hasData (b : Bone) : Bool := b.t.isSome || b.r.isSome || b.s.isSome
def Bone.flags (b : Bone) : Nat := (if b.t.isSome then 1 else 0) + (if b.r.isSome then 2 else 0) + (if b.s.isSome then 4 else 0)

def trackWords : Option Track → List Nat
  | none => []
  | some tr => tr.ts.length :: (tr.ts ++ tr.vals)

def boneWords (b : Bone) : List Nat := [b.id, b.flags] ++ trackWords b.t ++ trackWords b.r ++ trackWords b.s

/-- offsets and data of the bones, the next data going to byte position `pos` -/
def layout (pos : Nat) : List Bone → List Nat × List Nat
  | [] => ([], [])
  | b :: bs =>
    if b.hasData then
      let r := layout (pos + 4 * (boneWords b).length) bs
      (pos :: r.1, boneWords b ++ r.2)
    else
      let r := layout pos bs
      (0 :: r.1, r.2)

/-- AnimSection::write at stream position `pos` -/
def writeSection (pos : Nat) (s : Section) : List Nat :=
  [AFID, s.id, s.start, s.stop] ++ (layout (pos + 16 + 4 * s.bones.length) s.bones).1 ++ (layout (pos + 16 + 4 * s.bones.length) s.bones).2

/-- the size the writer records for the section's entry -/
def entrySize (s : Section) : Nat := 16 + 4 * s.bones.length

def readTrack (k : Nat) (present : Bool) (ws : List Nat) : Option (Option Track × List Nat) :=
  if !present then some (none, ws) else
  match ws with
  | [] => none
  | c :: rest =>
    if rest.length < c + k * c then none
    else some (some { ts := rest.take c, vals := (rest.drop c).take (k * c) }, rest.drop (c + k * c))

def readBone (ws : List Nat) : Option (Bone × List Nat) :=
  match ws with
  | id :: fl :: rest => do
    let (t, r1) ← readTrack 3 (fl % 2 == 1) rest
    let (r, r2) ← readTrack 4 (fl / 2 % 2 == 1) r1
    let (s, r3) ← readTrack 3 (fl / 4 % 2 == 1) r2
    pure ({ id := id, t := t, r := r, s := s }, r3)
  | _ => none

def readBones : List Nat → List Nat → Option (List Bone × List Nat)
  | [], ws => some ([], ws)
  | o :: os, ws =>
    if o > 0 then do
      let (b, r) ← readBone ws
      let (bs, r') ← readBones os r
      pure (b :: bs, r')
    else do
      let (bs, r') ← readBones os ws
      pure ({ id := 0, t := none, r := none, s := none } :: bs, r')

/-- AnimSection::parse with the entry's size -/
def parseSection (size : Nat) (ws : List Nat) : Option (Section × List Nat) :=
  match ws with
  | m :: id :: st :: en :: rest =>
    if m ≠ AFID then none
    else if size < 16 then none
    else
      let n := (size - 16) / 4
      if rest.length < n then none
      else do
        let (bs, r) ← readBones (rest.take n) (rest.drop n)
        pure ({ id := id, start := st, stop := en, bones := bs }, r)
  | _ => none

/-- what the file can carry of a section: a bone without any track has no data, so its id is not stored -/
def Bone.norm (b : Bone) : Bone := if b.hasData then b else { id := 0, t := none, r := none, s := none }
def Section.norm (s : Section) : Section := { s with bones := s.bones.map Bone.norm }

def TrackOk (k : Nat) : Option Track → Prop
  | none => True
  | some tr => tr.vals.length = k * tr.ts.length
def BoneOk (b : Bone) : Prop := TrackOk 3 b.t ∧ TrackOk 4 b.r ∧ TrackOk 3 b.s

end Wv.Anim

namespace Wv.Anim

/-! ## the whole file: MAOF header, entry table, sections (AnimFile::write_modern / AnimParser::parse_modern) -/

def MAOF : Nat := 0x464F414D

structure File where
  version : Nat
  unknown : Nat
  sections : List Section
  deriving Repr, DecidableEq

/-- sections one after the other, the first at byte position `pos`; with each its entry (id, offset, size) -/
def placeSections (pos : Nat) : List Section → List (Nat × Nat × Nat) × List Nat
  | [] => ([], [])
  | s :: ss =>
    let w := writeSection pos s
    let r := placeSections (pos + 4 * w.length) ss
    ((s.id, pos, entrySize s) :: r.1, w ++ r.2)

def writeFile (f : File) : List Nat :=
  let n := f.sections.length
  let p := placeSections (20 + 12 * n) f.sections
  [MAOF, f.version, n, f.unknown, 20] ++ p.1.flatMap (fun e => [e.1, e.2.1, e.2.2]) ++ p.2

def readEntries : Nat → List Nat → Option (List (Nat × Nat × Nat))
  | 0, _ => some []
  | n + 1, id :: off :: size :: rest => (readEntries n rest).map ((id, off, size) :: ·)
  | _ + 1, _ => none

/-- every entry's section is read at the entry's offset with the entry's size -/
def readSections (file : List Nat) : List (Nat × Nat × Nat) → Option (List Section)
  | [] => some []
  | (_, off, size) :: es => do
    if off % 4 ≠ 0 then none else
    let (s, _) ← parseSection size (file.drop (off / 4))
    let ss ← readSections file es
    pure (s :: ss)

def parseFile (ws : List Nat) : Option File :=
  match ws with
  | m :: ver :: cnt :: unk :: eo :: _ =>
    if m ≠ MAOF then none
    else if eo % 4 ≠ 0 then none
    else do
      let es ← readEntries cnt (ws.drop (eo / 4))
      let ss ← readSections ws es
      pure { version := ver, unknown := unk, sections := ss }
  | _ => none

def File.norm (f : File) : File := { f with sections := f.sections.map Section.norm }

end Wv.Anim

namespace Wv.Anim

def wordsOfBytes : List UInt8 → Option (List Nat)
  | [] => some []
  | a :: b :: c :: d :: rest => (wordsOfBytes rest).map (fun ws => (a.toNat + 256 * b.toNat + 65536 * c.toNat + 16777216 * d.toNat) :: ws)
  | _ => none

def bytesOfWords (ws : List Nat) : List UInt8 :=
  ws.flatMap fun w => [UInt8.ofNat (w % 256), UInt8.ofNat (w / 256 % 256), UInt8.ofNat (w / 65536 % 256), UInt8.ofNat (w / 16777216 % 256)]

def dots (l : List Nat) : String := ".".intercalate (l.map toString)
def trackStr : Option Track → String
  | none => "-"
  | some t => s!"{dots t.ts}|{dots t.vals}"
def boneStr (b : Bone) : String := s!"B{b.id}:{trackStr b.t}/{trackStr b.r}/{trackStr b.s}"
def sectionStr (s : Section) : String := s!"S{s.id},{s.start},{s.stop}" ++ String.join (s.bones.map fun b => " " ++ boneStr b)
def fileStr (f : File) : String := s!"v{f.version} u{f.unknown}" ++ String.join (f.sections.map fun s => " " ++ sectionStr s)

end Wv.Anim
