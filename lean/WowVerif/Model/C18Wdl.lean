/-
  Model.C18Wdl — wow-wdl parser.rs:WdlParser::write, the MAOF offset table and the file layout at chunk level.
  Header chunks (MVER, MWMO/MWID/MODF or ML**) are carried as an opaque chunk list; what is modelled is the
  running-offset computation and the order in which MARE / MAHO chunks are emitted.
-/
import WowVerif.Lib.Iff
import WowVerif.Gen.Consts
namespace Wv.Wdl
open Wv Wv.Iff

def mMAOF : Bytes := [0x46, 0x4F, 0x41, 0x4D]   -- "FOAM"
def mMARE : Bytes := [0x45, 0x52, 0x41, 0x4D]   -- "ERAM"
def mMAHO : Bytes := [0x4F, 0x48, 0x41, 0x4D]   -- "OHAM"

/-- bytes of a MARE payload: `HeightMapTile::TOTAL_COUNT * 2`; of a MAHO payload: `HolesData::MASK_COUNT * 2` -/
def mareBytes : Nat := Gen.wdlHeightTotalCount * 2
def mahoBytes : Nat := Gen.wdlHolesMaskCount * 2

/-- a present tile in row-major order: its MARE payload and, if the version has holes and the tile has an entry,
    its MAHO payload -/
structure Tile where
  idx : Nat                -- y*64 + x
  mare : Bytes
  maho : Option Bytes
  deriving DecidableEq, Repr

def tileChunks (t : Tile) : List Chunk :=
  ⟨mMARE, t.mare⟩ :: (match t.maho with | some h => [⟨mMAHO, h⟩] | none => [])

/-- the writer's running offset: `current_offset += 8 + TOTAL_COUNT*2`, `+= 8 + MASK_COUNT*2` when holes are written -/
def tileAdvance (t : Tile) : Nat := 8 + mareBytes + (if t.maho.isSome then 8 + mahoBytes else 0)

/-- (idx, offset) for every present tile, given the offset of the first tile chunk -/
def offsets : Nat → List Tile → List (Nat × Nat)
  | _, [] => []
  | cur, t :: ts => (t.idx, cur) :: offsets (cur + tileAdvance t) ts

def hdrBytes (hdr : List Chunk) : Nat := (hdr.map fun c => 8 + c.data.length).sum

/-- first tile offset: all header chunks, then the MAOF chunk itself (8 + 64·64·4) -/
def firstOffset (hdr : List Chunk) : Nat := hdrBytes hdr + 8 + 16384

def maofPayload (offs : List (Nat × Nat)) : Bytes :=
  (List.range 4096).flatMap fun i => natLE 4 (((offs.find? (·.1 == i)).map (·.2)).getD 0)

def fileChunks (hdr : List Chunk) (tiles : List Tile) : List Chunk :=
  hdr ++ [⟨mMAOF, maofPayload (offsets (firstOffset hdr) tiles)⟩] ++ tiles.flatMap tileChunks

def write (hdr : List Chunk) (tiles : List Tile) : Bytes := serialize (fileChunks hdr tiles)

def TileOk (t : Tile) : Prop :=
  t.mare.length = mareBytes ∧ (∀ h, t.maho = some h → h.length = mahoBytes)

/-! independent check on real bytes (used by the driver): walk the file, read MAOF, test every non-zero entry -/

def startsWith (bs pre : Bytes) : Bool := bs.take pre.length == pre

structure Check where
  tiles : Nat
  holes : Nat
  bad : List Nat
  deriving Repr

/-- positions of chunk headers, from the walk -/
def chunkStarts : List Chunk → Nat → List (Nat × Chunk)
  | [], _ => []
  | c :: cs, pos => (pos, c) :: chunkStarts cs (pos + 8 + c.data.length)

def checkFile (bs : Bytes) : Option Check :=
  match walkAll bs with
  | .short .. => none
  | .done cs =>
    let starts := chunkStarts cs 0
    match cs.find? (·.magic == mMAOF) with
    | none => none
    | some maof =>
      let entries := (List.range 4096).map fun i => leNat ((maof.data.drop (4 * i)).take 4)
      let nz := entries.zipIdx.filter (·.1 != 0)
      let bad := nz.filter fun (off, _) => !(starts.any fun (p, c) => p == off && c.magic == mMARE)
      let holes := (cs.filter (·.magic == mMAHO)).length
      some { tiles := nz.length, holes := holes, bad := bad.map (·.2) }

end Wv.Wdl
