import WowVerif.Model.C07Rebuild
namespace Wv.Drv
open Wv Wv.Rebuild

def parseEntry07 (t : String) : Option Entry :=
  match t.splitOn ":" with
  | [n, fl, r] => do pure ⟨← bytesOfHex n, ← fl.toNat?, if r == "1" then some [] else none⟩
  | _ => none

def c07 (toks : List String) : Option String :=
  match toks with
  | ["c07plan", ss, se, l] => do
      let es ← if l == "-" then some [] else (l.splitOn ",").mapM parseEntry07
      match summary ⟨ss == "1", se == "1"⟩ es with
      | .ok s => pure s!"ok {s.source} {s.extracted} {s.skipped}"
      | .error n => pure ("err " ++ hexOfBytes n)
  | _ => none

end Wv.Drv
