import WowVerif.Model.C12Fs
namespace Wv.Drv
open Wv.Fs

/-- `c7` create, `w7` write, `o7` read-only access, `u7` unlink, `m7>1` rename, `W1` destination opened for writing -/
def fsOpOfString (s : String) : Option FsOp :=
  let rest := (s.drop 1).toString
  if s.startsWith "c" then rest.toNat?.map FsOp.create
  else if s.startsWith "w" then rest.toNat?.map (FsOp.write · 0)
  else if s.startsWith "W" then rest.toNat?.map (FsOp.write · 0)
  else if s.startsWith "o" then rest.toNat?.map FsOp.read
  else if s.startsWith "u" then rest.toNat?.map FsOp.unlink
  else if s.startsWith "m" then
    match rest.splitOn ">" with
    | [a, b] => do pure (FsOp.rename (← a.toNat?) (← b.toNat?))
    | _ => none
  else none

def c12 (toks : List String) : Option String :=
  match toks with
  | ["c12shape", dest, ops] => do
      let d ← dest.toNat?
      let l ← (if ops == "-" then some [] else (ops.splitOn ",").mapM fsOpOfString)
      pure (if safeShape d l then "safe" else "unsafe")
  | _ => none

end Wv.Drv
