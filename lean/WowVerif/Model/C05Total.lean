import WowVerif.Lib.Iff
/-!
C05 — the two loops every container parser starts with, as total functions with explicit fuel:
the MPQ header search (file-formats/archives/wow-mpq/src/header.rs:find_header_with_limits) and chunk discovery
(wow-adt/src/chunk_discovery.rs:discover_chunks, the same walk as wow-wmo / wow-wdt / wow-wdl), plus the bounded
pre-allocation rule introduced by the fixes (a declared count is only a capacity hint up to 64K elements; read buffers
grow with what the stream delivers).
-/
namespace Wv.Total
open Wv Wv.Iff

def u32At (bs : Bytes) (off : Nat) : Option Nat :=
  match bs.drop off with
  | a :: b :: c :: d :: _ => some (leNat [a, b, c, d])
  | _ => none

def MPQ_HDR : Nat := 0x1A51504D
def MPQ_USER : Nat := 0x1B51504D

inductive Found where
  | at (off : Nat)          -- an MPQ header signature stands here (the header itself is validated afterwards)
  | notFound                -- "No MPQ header found"
  | readError               -- a user-data header cut off by the end of the file
  | outOfFuel               -- never returned with enough fuel (theorem)
deriving DecidableEq, Repr

/-- `find_header_with_limits`: try every 512-byte boundary; a user-data header redirects to `offset + header_offset` -/
def scan (bs : Bytes) : Nat → Nat → Found
  | fuel, off =>
    if off ≥ bs.length then .notFound else
    match fuel with
    | 0 => .outOfFuel
    | f + 1 =>
      match u32At bs off with
      | none => scan bs f (off + 512)
      | some sig =>
        if sig = MPQ_HDR then .at off
        else if sig = MPQ_USER then
          match u32At bs (off + 4), u32At bs (off + 8), u32At bs (off + 12) with
          | some _, some ho, some _ =>
            let m := off + ho
            if m < bs.length then
              match u32At bs m with
              | none => .readError
              | some s2 => if s2 = MPQ_HDR then .at m else scan bs f (off + 512)
            else scan bs f (off + 512)
          | _, _, _ => .readError
        else scan bs f (off + 512)

def findHeader (bs : Bytes) : Found := scan bs (bs.length / 512 + 1) 0

/-- chunk discovery result: the chunks found (id, payload size) -/
def discover (bs : Bytes) : Option (List (Bytes × Nat)) :=
  if bs.length < 12 then none
  else match walkAll bs with
    | .done cs => some (cs.map fun c => (c.magic, c.data.length))
    | .short cs _ _ _ => some (cs.map fun c => (c.magic, c.data.length))

/-- capacity hint for a list whose element count comes from the file -/
def boundedCapacity (count : Nat) : Nat := min count 65536

/-- a read buffer for `len` declared bytes when `avail` are left: it only ever holds what was delivered -/
def readVec (avail len : Nat) : Option Nat := if len ≤ avail then some len else none

end Wv.Total
