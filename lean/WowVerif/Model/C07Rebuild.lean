import WowVerif.Base.Bytes
/-!
C07 — model of `rebuild_archive` (file-formats/archives/wow-mpq/src/rebuild.rs): enumerate the source's listed files,
drop what the options exclude, read every remaining file (an unreadable one fails the rebuild), re-add, report counts;
and of the content comparison of `compare_archives`.
-/
namespace Wv.Rebuild
open Wv

structure Entry where
  name : Bytes
  flags : Nat
  content : Option Bytes       -- `none`: the reader reports an error for this file
deriving DecidableEq, Repr, Inhabited

structure Opts where
  skipSig : Bool
  skipEnc : Bool
deriving DecidableEq, Repr, Inhabited

def FLAG_ENCRYPTED : Nat := 0x10000
def sigName : Bytes := "(signature)".toUTF8.toList
def strongSigName : Bytes := "(strong signature)".toUTF8.toList

/-- the two filters of `extract_files_with_metadata` -/
def excluded (o : Opts) (e : Entry) : Bool :=
  (o.skipSig && (e.name = sigName || e.name = strongSigName)) || (o.skipEnc && e.flags / FLAG_ENCRYPTED % 2 = 1)

/-- `extract_files_with_metadata`, in listing order; the first selected file that cannot be read fails the rebuild -/
def extract (o : Opts) : List Entry → Except Bytes (List (Bytes × Bytes))
  | [] => .ok []
  | e :: rest =>
    if excluded o e then extract o rest
    else match e.content with
      | none => .error e.name
      | some d => match extract o rest with
        | .error n => .error n
        | .ok xs => .ok ((e.name, d) :: xs)

structure Summary where
  source : Nat
  extracted : Nat
  skipped : Nat
deriving DecidableEq, Repr, Inhabited

def summary (o : Opts) (l : List Entry) : Except Bytes Summary :=
  match extract o l with
  | .error n => .error n
  | .ok xs => .ok ⟨l.length, xs.length, l.length - xs.length⟩

/-- the rebuilt archive as a map: first entry of a name wins (the builder's hash table keeps one entry per name) -/
def lookup (m : List (Bytes × Bytes)) (n : Bytes) : Option Bytes := (m.find? (·.1 = n)).map (·.2)

/-- `compare_files` content check: common names whose contents differ -/
def contentDifferences (src tgt : List (Bytes × Bytes)) : List Bytes :=
  (src.filter fun p => match lookup tgt p.1 with
    | some d => d ≠ p.2
    | none => false).map (·.1)

def sourceOnly (src tgt : List (Bytes × Bytes)) : List Bytes :=
  (src.filter fun p => (lookup tgt p.1).isNone).map (·.1)

end Wv.Rebuild
