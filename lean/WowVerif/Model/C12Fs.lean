/-
  Model.C12Fs — a file-system model for "writing an archive is all-or-nothing at the destination path"
  (builder.rs:build — NamedTempFile in the destination directory, write, persist = rename;
   modification.rs:compact — build to a temp path, rename over the archive).
  Paths are numbers, a file's content is the list of write tokens applied to it.
-/
namespace Wv.Fs

abbrev Path := Nat
abbrev Content := List Nat

inductive FsOp
  | create (p : Path)                 -- open(O_CREAT|O_EXCL) of a fresh temp file / truncate-create
  | write (p : Path) (tok : Nat)      -- write / pwrite through a descriptor of p
  | rename (src dst : Path)
  | unlink (p : Path)
  | read (p : Path)                   -- open for reading, stat, lseek, fsync … : no effect on contents
  deriving DecidableEq, Repr

abbrev Fs := Path → Option Content

def apply (fs : Fs) : FsOp → Fs
  | .create p => fun q => if q = p then some [] else fs q
  | .write p tok => fun q => if q = p then (fs p).map (· ++ [tok]) else fs q
  | .rename s d => fun q => if q = d then fs s else if q = s then none else fs q
  | .unlink p => fun q => if q = p then none else fs q
  | .read _ => fs

def run (ops : List FsOp) (fs : Fs) : Fs := ops.foldl apply fs

/-- does the operation change what is stored under path `d`? -/
def touches (d : Path) : FsOp → Bool
  | .create p => p == d
  | .write p _ => p == d
  | .rename s t => s == d || t == d
  | .unlink p => p == d
  | .read _ => false

/-- the shape the implementation's system-call trace must have: nothing touches the destination except exactly
    one rename onto it -/
def safeShape (dest : Path) : List FsOp → Bool
  | [] => true                                   -- (an operation that failed before the rename)
  | .rename s t :: rest => if t == dest then s != dest && rest.all (fun o => !touches dest o)
                           else !(s == dest) && safeShape dest rest
  | op :: rest => !touches dest op && safeShape dest rest

end Wv.Fs
