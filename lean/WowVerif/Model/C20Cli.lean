/-
  Model.C20Cli — the decision logic that turns per-item outcomes into the process exit status
  (warcraft-rs main.rs: `Err` ⇒ exit 1; commands/mpq.rs: extract_files_with_options, validate_archive;
   every other sub-command: exit 0 iff its library call chain returned Ok).
-/
namespace Wv.Cli

inductive Cmd
  | extract (skipErrors : Bool)
  | validate
  | other            -- info / list / tree / convert / create / rebuild …: a chain of `?`
  deriving DecidableEq, Repr

structure Outcome where
  opened : Bool        -- the input could be opened / parsed at all
  items : Nat          -- requested items (files to extract / validate)
  failed : Nat         -- items whose read or write failed
  fatal : Bool         -- an I/O error outside the per-item accounting (e.g. the output cannot be written)
  deriving Repr

/-- exit status of the fixed code -/
def exitStatus (c : Cmd) (o : Outcome) : Nat :=
  if !o.opened || o.fatal then 1 else
  match c with
  | .extract skip => if !skip && o.failed > 0 then 1 else 0
  | .validate => if o.failed > 0 then 1 else 0
  | .other => 0

/-- how many items were completely produced -/
def produced (o : Outcome) : Nat := o.items - o.failed

end Wv.Cli
