import WowVerif.Model.C20Cli
namespace Wv.Drv
open Wv.Cli

/-- `c20exit <cmd> <skip> <opened> <items> <failed> <fatal>` → exit status -/
def c20 (toks : List String) : Option String :=
  match toks with
  | ["c20exit", cmd, skip, opened, items, failed, fatal] => do
      let c ← (match cmd with
        | "extract" => some (Cmd.extract (skip == "1"))
        | "validate" => some Cmd.validate
        | "other" => some Cmd.other
        | _ => none)
      pure (toString (exitStatus c ⟨opened == "1", ← items.toNat?, ← failed.toNat?, fatal == "1"⟩))
  | _ => none

end Wv.Drv
