/-
  Model.C17Dbc — the WDBC table format as /repo's wow-cdbc crate reads and writes it
  (header.rs, schema.rs, field_parser.rs, stringblock.rs, writer.rs, parser.rs, lazy.rs, parallel.rs).
  Scalars are kept as raw bit patterns (`Nat` below 2^(8·size)); floats are never interpreted.
-/
import WowVerif.Base.Bytes
namespace Wv.Dbc
open Wv

inductive FT | i32 | u32 | f32 | str | bool | u8 | i8 | u16 | i16
  deriving DecidableEq, Repr

/-- schema.rs:FieldType::size -/
def FT.size : FT → Nat
  | .i32 | .u32 | .f32 | .str | .bool => 4
  | .u8 | .i8 => 1
  | .u16 | .i16 => 2

structure Field where
  ty : FT
  /-- `Some n` for `is_array` with `array_size = Some n` -/
  arr : Option Nat
  deriving DecidableEq, Repr

/-- number of scalar slots of a field -/
def Field.count (f : Field) : Nat := f.arr.getD 1
/-- schema.rs:SchemaField::size -/
def Field.size (f : Field) : Nat := f.ty.size * f.count

abbrev Schema := List Field

/-- schema.rs:Schema::record_size -/
def recordSize (s : Schema) : Nat := (s.map Field.size).sum
/-- the element count `Schema::validate` compares with the header's field count -/
def elemCount (s : Schema) : Nat := (s.map Field.count).sum
/-- the scalar slot types of a record, arrays flattened -/
def flatTypes (s : Schema) : List FT := s.flatMap fun f => List.replicate f.count f.ty

/-- a cell as the user sees it: a number (raw bits) or a string -/
inductive Cell
  | num (raw : Nat)
  | str (s : Bytes)
  deriving DecidableEq, Repr

abbrev Row := List Cell      -- flattened: one cell per scalar slot
abbrev Table := List Row

/-! ### string interning (writer.rs:build_string_block): first-occurrence order, the empty string at offset 0 -/

structure Intern where
  block : Bytes := [0]
  offs : List (Bytes × Nat) := [([], 0)]

def lookupOff (offs : List (Bytes × Nat)) (s : Bytes) : Option Nat :=
  (offs.find? (·.1 == s)).map (·.2)

def Intern.add (st : Intern) (s : Bytes) : Intern :=
  match lookupOff st.offs s with
  | some _ => st
  | none => { block := st.block ++ s ++ [0], offs := st.offs ++ [(s, st.block.length)] }

def cellStrings (r : Row) : List Bytes := r.filterMap fun | .str s => some s | .num _ => none
def tableStrings (t : Table) : List Bytes := t.flatMap cellStrings

def intern (t : Table) : Intern := (tableStrings t).foldl Intern.add {}

/-! ### record encoding -/

def encodeCell (offs : List (Bytes × Nat)) (ty : FT) (c : Cell) : Bytes :=
  match c with
  | .num v => natLE ty.size v
  | .str s => natLE 4 ((lookupOff offs s).getD 0)

def encodeRow (offs : List (Bytes × Nat)) : List FT → Row → Bytes
  | ty :: tys, c :: cs => encodeCell offs ty c ++ encodeRow offs tys cs
  | _, _ => []

def header (nrec nfield rsize ssize : Nat) : Bytes :=
  [0x57, 0x44, 0x42, 0x43] ++ natLE 4 nrec ++ natLE 4 nfield ++ natLE 4 rsize ++ natLE 4 ssize

/-- writer.rs:write_records (with the element count as field count, strings inside arrays interned) -/
def write (s : Schema) (t : Table) : Bytes :=
  let st := intern t
  header t.length (elemCount s) (recordSize s) st.block.length ++
    t.flatMap (encodeRow st.offs (flatTypes s)) ++ st.block

/-! ### parsing -/

/-- well-formed UTF-8 (what `std::str::from_utf8` accepts: no overlongs, no surrogates, ≤ U+10FFFF) -/
def utf8Valid : Bytes → Bool
  | [] => true
  | b0 :: rest =>
    let n0 := b0.toNat
    let cont (b : UInt8) : Bool := 0x80 ≤ b.toNat && b.toNat ≤ 0xBF
    if n0 < 0x80 then utf8Valid rest
    else if 0xC2 ≤ n0 && n0 ≤ 0xDF then
      match rest with
      | b1 :: r => cont b1 && utf8Valid r
      | _ => false
    else if 0xE0 ≤ n0 && n0 ≤ 0xEF then
      match rest with
      | b1 :: b2 :: r =>
        (if n0 = 0xE0 then 0xA0 ≤ b1.toNat && b1.toNat ≤ 0xBF
         else if n0 = 0xED then 0x80 ≤ b1.toNat && b1.toNat ≤ 0x9F
         else cont b1) && cont b2 && utf8Valid r
      | _ => false
    else if 0xF0 ≤ n0 && n0 ≤ 0xF4 then
      match rest with
      | b1 :: b2 :: b3 :: r =>
        (if n0 = 0xF0 then 0x90 ≤ b1.toNat && b1.toNat ≤ 0xBF
         else if n0 = 0xF4 then 0x80 ≤ b1.toNat && b1.toNat ≤ 0x8F
         else cont b1) && cont b2 && cont b3 && utf8Valid r
      | _ => false
    else false

/-- stringblock.rs:get_string — bytes from `off` up to the next NUL (or the end); error when off ≥ len or when
    the bytes are not UTF-8 -/
def getString (block : Bytes) (off : Nat) : Option Bytes :=
  if off < block.length then
    let s := (block.drop off).takeWhile (· != 0)
    if utf8Valid s then some s else none
  else none

/-- field_parser.rs: one scalar; booleans are normalised to 0/1 (`value != 0`) -/
def decodeScalar (ty : FT) (bs : Bytes) : Option (Nat × Bytes) :=
  let hd := bs.take ty.size       -- (no `bs.length` here: the driver must stay linear in the file size)
  if hd.length = ty.size then
    let v := leNat hd
    some (if ty = .bool then (if v = 0 then 0 else 1) else v, bs.drop ty.size)
  else none

def decodeRow : List FT → Bytes → Option (List Nat × Bytes)
  | [], bs => some ([], bs)
  | ty :: tys, bs =>
    match decodeScalar ty bs with
    | none => none
    | some (v, rest) =>
      match decodeRow tys rest with
      | none => none
      | some (vs, rest') => some (v :: vs, rest')

def decodeRows (tys : List FT) : Nat → Bytes → Option (List (List Nat))
  | 0, _ => some []
  | n+1, bs =>
    match decodeRow tys bs with
    | none => none
    | some (r, rest) =>
      match decodeRows tys n rest with
      | none => none
      | some rs => some (r :: rs)

structure Parsed where
  rows : List (List Nat)
  block : Bytes
  deriving DecidableEq, Repr

inductive PErr | header | schema | truncated
  deriving DecidableEq, Repr

/-- header.rs:DbcHeader::parse + Schema::validate + parser.rs:parse_records (eager, sequential cursor) -/
def parse (s : Schema) (bs : Bytes) : Except PErr Parsed :=
  if bs.length < 4 then .error .truncated else
  if bs.take 4 ≠ [0x57, 0x44, 0x42, 0x43] then .error .header else
  if bs.length < 20 then .error .truncated else
  let nrec := leNat ((bs.drop 4).take 4)
  let nfield := leNat ((bs.drop 8).take 4)
  let rsize := leNat ((bs.drop 12).take 4)
  let ssize := leNat ((bs.drop 16).take 4)
  if rsize = 0 ∧ nrec > 0 then .error .header else
  if nfield = 0 ∧ nrec > 0 then .error .header else
  if elemCount s ≠ nfield ∨ recordSize s ≠ rsize then .error .schema else
  match decodeRows (flatTypes s) nrec (bs.drop 20) with
  | none => .error .truncated
  | some rows =>
    match slice bs (20 + nrec * rsize) ssize with
    | none => .error .truncated
    | some block => .ok { rows := rows, block := block }

/-- lazy.rs / parallel.rs / mmap: record `i` decoded at byte `20 + i·record_size` -/
def recordAt (s : Schema) (bs : Bytes) (i : Nat) : Option (List Nat) :=
  (decodeRow (flatTypes s) (bs.drop (20 + i * recordSize s))).map (·.1)

/-- user-level view of a parsed row: string slots resolved through the string block -/
def resolveRow (block : Bytes) : List FT → List Nat → Option Row
  | ty :: tys, v :: vs =>
    match (if ty = .str then (getString block v).map Cell.str else some (Cell.num v)), resolveRow block tys vs with
    | some c, some cs => some (c :: cs)
    | _, _ => none
  | [], [] => some []
  | _, _ => none

def resolve (s : Schema) (p : Parsed) : Option Table :=
  p.rows.mapM (resolveRow p.block (flatTypes s))

/-! ### well-formed tables: what the writer accepts (record.get_value(i) typed like the schema) -/

def cellOk (ty : FT) : Cell → Bool
  | .num v => ty != .str && v < 2 ^ (8 * ty.size) && (ty != .bool || v ≤ 1)
  | .str s => ty == .str && s.all (· != 0) && utf8Valid s

def rowOk : List FT → Row → Bool
  | ty :: tys, c :: cs => cellOk ty c && rowOk tys cs
  | [], [] => true
  | _, _ => false

def tableOk (s : Schema) (t : Table) : Bool := t.all (rowOk (flatTypes s))

/-! ### key maps (parser.rs:RecordSet::new, create_sorted_key_map) -/

/-- hashed map: `map.insert(key, i)` in record order — the last record carrying a key wins -/
def keyMapGo : List Nat → Nat → List (Nat × Nat) → List (Nat × Nat)
  | [], _, m => m
  | k :: ks, i, m => keyMapGo ks (i + 1) ((k, i) :: m.filter (·.1 != k))

def keyMap (keys : List Nat) : List (Nat × Nat) := keyMapGo keys 0 []

def keyLookup (m : List (Nat × Nat)) (k : Nat) : Option Nat := (m.find? (·.1 == k)).map (·.2)

end Wv.Dbc
