import WowVerif.Model.C18Wdl
import WowVerif.Model.Dispatch18b
namespace Wv.Drv
open Wv Wv.Wdl

def c18c (toks : List String) : Option String :=
  match toks with
  -- offsets the writer must record: header bytes before MAOF, then `idx:h` per present tile in row-major order
  | ["wdllayout", pre, tiles] => do
      let p ← pre.toNat?
      let ts ← (if tiles == "-" then some [] else (tiles.splitOn ";").mapM fun t =>
        match t.splitOn ":" with
        | [i, h] => do pure ({ idx := ← i.toNat?, mare := [], maho := if h == "1" then some [] else none } : Tile)
        | _ => none)
      let offs := offsets (p + 8 + 16384) ts
      pure (if offs.isEmpty then "-" else ",".intercalate (offs.map fun (i, o) => s!"{i}:{o}"))
  -- independent chunk walk of a real file: count tiles / holes, list MAOF entries not pointing at a MARE header
  | ["wdlcheck", file] => do
      let b ← rleDecode file
      match checkFile b with
      | none => pure "bad-framing"
      | some c => pure (if c.bad.isEmpty then s!"ok tiles={c.tiles} holes={c.holes}" else s!"bad-offsets {c.bad}")
  | _ => none

end Wv.Drv
