import WowVerif.Model.C18Wdl
import WowVerif.Lib.Record
import WowVerif.Model.Dispatch18b
namespace Wv.Drv
open Wv Wv.Wdl

def c18c (toks : List String) : Option String :=
  match toks with
  -- offsets the writer must record: header bytes before MAOF, then `idx:h` per present tile in row-major order
  | ["wdllayout", pre, tiles] => do
      let p ← pre.toNat?
      let ts ← (if tiles == "-" then some [] else (tiles.splitOn ";").mapM fun t =>
        match t.splitOn ":" with
        | [i, h] => do pure ({ idx := ← i.toNat?, mare := [], maho := if h == "1" then some [] else none } : Tile)
        | _ => none)
      let offs := offsets (p + 8 + 16384) ts
      pure (if offs.isEmpty then "-" else ",".intercalate (offs.map fun (i, o) => s!"{i}:{o}"))
  -- independent chunk walk of a real file: count tiles / holes, list MAOF entries not pointing at a MARE header
  | ["wdlcheck", file] => do
      let b ← rleDecode file
      match checkFile b with
      | none => pure "bad-framing"
      | some c => pure (if c.bad.isEmpty then s!"ok tiles={c.tiles} holes={c.holes}" else s!"bad-offsets {c.bad}")
  -- generic fixed-layout records (Lib.Record): `rec 4,4,2 7,8,9` = the bytes of a record with those field widths and values
  -- (`err` when a value does not fit its field); `unrec 4,4,2 <hex>` = the values read back and the number of bytes left
  | ["rec", ws, vs] => do
      let w ← (ws.splitOn ",").mapM String.toNat?
      let v ← (vs.splitOn ",").mapM String.toNat?
      if w.length ≠ v.length ∨ ¬ Rec.fitsB (w.zip v) then pure "err" else pure (hexOrDash (Rec.enc (w.zip v)))
  | ["unrec", ws, h] => do
      let w ← (ws.splitOn ",").mapM String.toNat?
      match Rec.dec w (← bytesOfHex h) with
      | some (vs, rest) => pure (",".intercalate (vs.map toString) ++ s!" +{rest.length}")
      | none => pure "short"
  | _ => none

end Wv.Drv
