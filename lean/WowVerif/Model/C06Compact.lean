/-
  Model.C06Compact — modification.rs:MutableArchive::compact as a function of what it finds: for every live hash-table
  entry the name the (listfile) resolves it to (`none`: no listed name hashes to it — the `resolvable` predicate of
  Model.C06Mut, which the differential run compares with the implementation's refusal) and what reading that file
  returns. Compaction refuses an archive with an unresolvable entry, fails when a file cannot be read, and otherwise
  re-adds every file to a fresh archive — the extraction of Model.C07Rebuild without exclusions.
-/
import WowVerif.Model.C07Rebuild
namespace Wv.Compact
open Wv Wv.Rebuild

inductive Err
  | unresolvable                 -- "Cannot compact: the name of the file at hash table index … is not in the (listfile)"
  | unreadable (name : Bytes)    -- the read error is propagated; nothing is replaced
  deriving DecidableEq, Repr

def noOpts : Opts := ⟨false, false⟩

/-- the new archive's content, or the reason nothing was replaced -/
def plan (live : List (Option Entry)) : Except Err (List (Bytes × Bytes)) :=
  if live.any (·.isNone) then .error .unresolvable else
  match extract noOpts (live.filterMap id) with
  | .error n => .error (.unreadable n)
  | .ok xs => .ok xs

end Wv.Compact
