-- root of the WowVerif library: property theorems per property
import WowVerif.Props.C04
import WowVerif.Props.C17
import WowVerif.Props.C18
import WowVerif.Props.C03
import WowVerif.Props.C08
import WowVerif.Props.C09
import WowVerif.Props.C12
import WowVerif.Props.C11
import WowVerif.Props.C20
import WowVerif.Props.C19
import WowVerif.Props.C01
import WowVerif.Props.C02
import WowVerif.Props.C06
import WowVerif.Props.C07
import WowVerif.Props.C10
import WowVerif.Props.C16
import WowVerif.Props.C14
