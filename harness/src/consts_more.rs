//! Further constants (flags, sizes, limits) — extended as properties are added.
pub fn dump() {
    println!("def wdlHeightTotalCount : Nat := {}", wow_wdl::types::HeightMapTile::TOTAL_COUNT);
    println!("def wdlHolesMaskCount : Nat := {}", wow_wdl::types::HolesData::MASK_COUNT);
}
