//! Further constants (flags, sizes, limits) — extended as properties are added.
pub fn dump() {}
