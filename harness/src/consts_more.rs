//! Further constants (flags, sizes, limits) — extended as properties are added.
pub fn dump() {
    println!("def wdlHeightTotalCount : Nat := {}", wow_wdl::types::HeightMapTile::TOTAL_COUNT);
    println!("def wdlHolesMaskCount : Nat := {}", wow_wdl::types::HolesData::MASK_COUNT);
    // MPQ block flags, header sizes, method bytes (C02: Gen = published values)
    use wow_mpq::tables::BlockEntry as B;
    println!("def mpqFlags : List Nat := [{}, {}, {}, {}, {}, {}, {}, {}, {}]", B::FLAG_IMPLODE, B::FLAG_COMPRESS, B::FLAG_ENCRYPTED,
        B::FLAG_FIX_KEY, B::FLAG_PATCH_FILE, B::FLAG_SINGLE_UNIT, B::FLAG_DELETE_MARKER, B::FLAG_SECTOR_CRC, B::FLAG_EXISTS);
    use wow_mpq::FormatVersion as V;
    println!("def mpqHeaderSizes : List Nat := [{}, {}, {}, {}]", V::V1.header_size(), V::V2.header_size(), V::V3.header_size(), V::V4.header_size());
    use wow_mpq::compression::flags as m;
    println!("def mpqMethods : List Nat := [{}, {}, {}, {}, {}, {}, {}, {}, {}]", m::HUFFMAN, m::ZLIB, m::IMPLODE, m::PKWARE, m::BZIP2, m::SPARSE, m::ADPCM_MONO, m::ADPCM_STEREO, m::LZMA);
    println!("def mpqTableKeys : List Nat := [{}, {}]", wow_mpq::crypto::hash_string("(hash table)", 0x300), wow_mpq::crypto::hash_string("(block table)", 0x300));
}
