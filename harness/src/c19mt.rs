//! C19 (threads): shared handles used from N threads; every call must return (watchdog outside), reads on a thread's
//! own file handle must be exact, invalid handles must be errors. Run as a child process with a timeout.
use crate::common::*;
use crate::ffi::storm::*;
use std::ffi::{CString, c_void};

fn h(n: usize) -> HANDLE { n as HANDLE }

pub fn run(ctx: &mut Ctx) {
    let mut rng = ctx.rng.clone();
    let (paths, names, data, _dir) = crate::c19::build_world(&mut rng);
    let cps: Vec<CString> = paths.iter().map(|p| CString::new(p.to_str().unwrap_or("")).unwrap()).collect();
    // 1. single-threaded: verify a whole archive (SFILE_VERIFY_ALL_FILES) — must return
    let mut a: HANDLE = std::ptr::null_mut();
    if unsafe { SFileOpenArchive(cps[0].as_ptr(), 0, 0, &mut a) } {
        eprintln!("C19MT phase verify-archive");
        let ok = unsafe { SFileVerifyArchive(a, 0x20) };
        ctx.out.oracle(true, "", "");
        ctx.out.stat(if ok { "c19mt.verify_archive.true" } else { "c19mt.verify_archive.false" });
        let _ = SFileCloseArchive(a);
    }
    // 2. threads sharing archive handles: open/read/close files, find, and one thread churning open/close of archives
    eprintln!("C19MT phase threads");
    let rounds = if ctx.thorough { 400 } else { 60 };
    let nthreads = if ctx.thorough { 8 } else { 4 };
    let mut shared: Vec<usize> = vec![];
    for cp in &cps { let mut x: HANDLE = std::ptr::null_mut(); if unsafe { SFileOpenArchive(cp.as_ptr(), 0, 0, &mut x) } { shared.push(x as usize); } }
    let shared = std::sync::Arc::new(shared);
    let data = std::sync::Arc::new(data);
    let names = std::sync::Arc::new(names);
    let cps = std::sync::Arc::new(cps);
    let fails = std::sync::Arc::new(std::sync::Mutex::new(Vec::<String>::new()));
    let mut ths = vec![];
    for t in 0..nthreads {
        let (shared, data, names, cps, fails) = (shared.clone(), data.clone(), names.clone(), cps.clone(), fails.clone());
        let seed = ctx.seed.wrapping_add(t as u64 * 977);
        ths.push(std::thread::spawn(move || {
            let mut rng = Rng::new(seed);
            for r in 0..rounds {
                if t == 0 {
                    // churn: open and close a private archive handle; close stale / forged handles
                    let mut x: HANDLE = std::ptr::null_mut();
                    if unsafe { SFileOpenArchive(cps[r % 2].as_ptr(), 0, 0, &mut x) } { let _ = SFileCloseArchive(x); let _ = SFileCloseArchive(x); }
                    let _ = SFileCloseArchive(h(rng.range(100000, 200000) as usize));
                    continue;
                }
                let wi = rng.below(shared.len() as u64) as usize;
                let ni = rng.below(names.len() as u64) as usize;
                let cn = CString::new(names[ni].as_str()).unwrap();
                let mut f: HANDLE = std::ptr::null_mut();
                let ok = unsafe { SFileOpenFileEx(h(shared[wi]), cn.as_ptr(), 0, &mut f) };
                if ok != data[wi][ni].is_some() { fails.lock().unwrap().push(format!("open {} on archive {wi}: {ok}", names[ni])); }
                if ok {
                    let d = data[wi][ni].as_ref().unwrap();
                    let mut out = vec![0u8; d.len() + 8];
                    let mut got = 0u32; let mut total = 0usize;
                    loop { let want = rng.range(1, 5000) as u32;
                        let r = unsafe { SFileReadFile(f, out[total..].as_mut_ptr() as *mut c_void, want.min((out.len() - total) as u32), &mut got, std::ptr::null_mut()) };
                        if !r || got == 0 { break; } total += got as usize; }
                    if out[..total] != d[..] { fails.lock().unwrap().push(format!("thread {t}: read of {} returned {} bytes, differs", names[ni], total)); }
                    let _ = SFileCloseFile(f);
                    let mut junk = [0u8; 4];
                    if unsafe { SFileReadFile(f, junk.as_mut_ptr() as *mut c_void, 4, &mut got, std::ptr::null_mut()) } { fails.lock().unwrap().push("read on a closed file handle succeeded".into()); }
                }
                if r % 5 == 0 { let cm = CString::new("*").unwrap(); let mut fd: SFILE_FIND_DATA = unsafe { std::mem::zeroed() };
                    let g = unsafe { SFileFindFirstFile(h(shared[wi]), cm.as_ptr(), &mut fd, std::ptr::null()) };
                    if !g.is_null() { while unsafe { SFileFindNextFile(g, &mut fd) } {} let _ = unsafe { SFileFindClose(g) }; } }
            }
        }));
    }
    for th in ths { let _ = th.join(); }
    let f = fails.lock().unwrap();
    ctx.out.oracle(f.is_empty(), "ffi-threads-wrong-answer", &f.iter().take(3).cloned().collect::<Vec<_>>().join(" | "));
    ctx.out.stat_n("c19mt.thread_rounds", (rounds * nthreads) as u64);
    for a in shared.iter() { let _ = SFileCloseArchive(h(*a)); }
    // 3. closing an archive while other threads open files and searches on it: once SFileCloseArchive has returned, NO file or
    //    search handle opened on that archive may still be usable ("closing an archive invalidates exactly its own handles")
    eprintln!("C19MT phase close-race");
    {
        use std::sync::atomic::{AtomicBool, AtomicUsize, Ordering};
        let cur = std::sync::Arc::new(AtomicUsize::new(0));
        let stop = std::sync::Arc::new(AtomicBool::new(false));
        let opened = std::sync::Arc::new(std::sync::Mutex::new(Vec::<(usize, usize, bool)>::new())); // (archive, handle, is_find)
        let closed = std::sync::Arc::new(std::sync::Mutex::new(Vec::<usize>::new()));
        let big = (0..names.len()).filter(|ni| data[0][*ni].is_some()).max_by_key(|ni| data[0][*ni].as_ref().map(|d| d.len()).unwrap_or(0)).unwrap_or(0);
        let mut ths = vec![];
        for t in 0..3usize {
            let (cur, stop, opened, names) = (cur.clone(), stop.clone(), opened.clone(), names.clone());
            ths.push(std::thread::spawn(move || {
                let cn = CString::new(names[big].as_str()).unwrap(); let cm = CString::new("*").unwrap();
                while !stop.load(Ordering::SeqCst) {
                    let a = cur.load(Ordering::SeqCst); if a == 0 { std::thread::yield_now(); continue; }
                    if t < 2 {
                        let mut f: HANDLE = std::ptr::null_mut();
                        if unsafe { SFileOpenFileEx(h(a), cn.as_ptr(), 0, &mut f) } { opened.lock().unwrap().push((a, f as usize, false)); }
                    } else {
                        let mut fd: SFILE_FIND_DATA = unsafe { std::mem::zeroed() };
                        let g = unsafe { SFileFindFirstFile(h(a), cm.as_ptr(), &mut fd, std::ptr::null()) };
                        if !g.is_null() { opened.lock().unwrap().push((a, g as usize, true)); }
                    }
                }
            }));
        }
        let n = if ctx.thorough { 400 } else { 80 };
        for r in 0..n {
            let mut x: HANDLE = std::ptr::null_mut();
            if !unsafe { SFileOpenArchive(cps[0].as_ptr(), 0, 0, &mut x) } { continue; }
            cur.store(x as usize, Ordering::SeqCst);
            for _ in 0..(r % 7) * 200 { std::hint::spin_loop(); }
            if r % 3 == 0 { std::thread::sleep(std::time::Duration::from_micros(150)); }
            if SFileCloseArchive(x) { closed.lock().unwrap().push(x as usize); }
            cur.store(0, Ordering::SeqCst);
        }
        stop.store(true, Ordering::SeqCst);
        for th in ths { let _ = th.join(); }
        let closed = closed.lock().unwrap(); let opened = opened.lock().unwrap();
        let mut alive = vec![];
        for &(a, hd, is_find) in opened.iter() {
            if !closed.contains(&a) { continue; }
            if is_find { let mut fd: SFILE_FIND_DATA = unsafe { std::mem::zeroed() }; let _ = unsafe { SFileFindNextFile(h(hd), &mut fd) };
                if unsafe { SFileFindClose(h(hd)) } { alive.push(format!("search handle {hd:#x} of closed archive {a:#x} still closes as valid")); } }
            else { let mut hi = 0u32; let sz = unsafe { SFileGetFileSize(h(hd), &mut hi) };
                if sz != 0xFFFF_FFFF { alive.push(format!("file handle {hd:#x} of closed archive {a:#x} still answers (size {sz})")); let _ = SFileCloseFile(h(hd)); } }
        }
        ctx.out.oracle(alive.is_empty(), "ffi-handle-survives-archive-close", &format!("{} of {} handles opened concurrently with SFileCloseArchive outlive it: {}", alive.len(), opened.len(), alive.iter().take(2).cloned().collect::<Vec<_>>().join(" | ")));
        ctx.out.stat_n("c19mt.close_race_handles", opened.len() as u64);
    }
    eprintln!("C19MT done");
}
