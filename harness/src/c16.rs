//! C16 — BLP encode→parse is exact; lossless encodings preserve pixels.
use crate::common::*;
use ::image::{DynamicImage, RgbaImage};
use wow_blp::convert::{AlphaBits, Blp2Format, BlpOldFormat, BlpTarget, DxtAlgorithm, FilterType, blp_to_image, image_to_blp};
use wow_blp::encode::{encode_blp, encode_blp0};
use wow_blp::parser::{parse_blp, parse_blp_with_externals, preloaded_mipmaps};
use wow_blp::types::*;

fn gen_image(rng: &mut Rng, w: u32, h: u32, kind: u64) -> RgbaImage {
    let mut img = RgbaImage::new(w, h);
    let pal: Vec<[u8; 4]> = (0..7).map(|_| [rng.next() as u8, rng.next() as u8, rng.next() as u8, *rng.pick(&[0u8, 1, 17, 128, 254, 255])]).collect();
    for (i, p) in img.pixels_mut().enumerate() {
        p.0 = match kind {
            0 => [rng.next() as u8, rng.next() as u8, rng.next() as u8, rng.next() as u8],           // noise, > 256 colours when large
            1 => *rng.pick(&pal),                                                                     // few colours
            2 => [rng.next() as u8, rng.next() as u8, rng.next() as u8, 0],                           // all transparent
            3 => [(i * 7) as u8, (i / 3) as u8, (i * 13) as u8, (i * 255 / (w * h).max(1) as usize) as u8], // gradients
            _ => [200, 100, 50, 255],                                                                 // flat opaque
        };
    }
    img
}

fn targets() -> Vec<(String, BlpTarget)> {
    let mut v = vec![];
    for (an, ab) in [("a0", AlphaBits::NoAlpha), ("a1", AlphaBits::Bit1), ("a4", AlphaBits::Bit4), ("a8", AlphaBits::Bit8)] {
        v.push((format!("blp0-raw1-{an}"), BlpTarget::Blp0(BlpOldFormat::Raw1 { alpha_bits: ab })));
        v.push((format!("blp1-raw1-{an}"), BlpTarget::Blp1(BlpOldFormat::Raw1 { alpha_bits: ab })));
        v.push((format!("blp2-raw1-{an}"), BlpTarget::Blp2(Blp2Format::Raw1 { alpha_bits: ab })));
    }
    v.push(("blp2-raw3".into(), BlpTarget::Blp2(Blp2Format::Raw3)));
    for ha in [false, true] {
        v.push((format!("blp0-jpeg-{ha}"), BlpTarget::Blp0(BlpOldFormat::Jpeg { has_alpha: ha })));
        v.push((format!("blp1-jpeg-{ha}"), BlpTarget::Blp1(BlpOldFormat::Jpeg { has_alpha: ha })));
        v.push((format!("blp2-jpeg-{ha}"), BlpTarget::Blp2(Blp2Format::Jpeg { has_alpha: ha })));
        v.push((format!("blp2-dxt1-{ha}"), BlpTarget::Blp2(Blp2Format::Dxt1 { has_alpha: ha, compress_algorithm: DxtAlgorithm::RangeFit })));
        v.push((format!("blp2-dxt3-{ha}"), BlpTarget::Blp2(Blp2Format::Dxt3 { has_alpha: ha, compress_algorithm: DxtAlgorithm::RangeFit })));
        v.push((format!("blp2-dxt5-{ha}"), BlpTarget::Blp2(Blp2Format::Dxt5 { has_alpha: ha, compress_algorithm: DxtAlgorithm::RangeFit })));
    }
    v
}

/// encoder output with full mip chains for the C05 corpus
pub fn sample_blps(rng: &mut Rng) -> Vec<(String, Vec<u8>)> {
    let mut v = vec![];
    for (name, target) in targets() {
        if !(name.starts_with("blp1-raw1-a8") || name.starts_with("blp2-raw1-a1") || name == "blp2-raw3" || name == "blp1-jpeg-true" || name == "blp2-jpeg-false" || name == "blp2-dxt1-false" || name == "blp2-dxt5-true") { continue; }
        let img = gen_image(rng, 16, 8, 3);
        if let Ok(b) = image_to_blp(DynamicImage::ImageRgba8(img), true, target, FilterType::Nearest) { if let Ok(bytes) = encode_blp(&b) { v.push((name, bytes)); } }
    }
    v
}

fn level_count(w: u32, h: u32, mips: bool) -> usize { if !mips { 1 } else { (31 - w.max(h).leading_zeros()) as usize + 1 } }

pub fn run(ctx: &mut Ctx) {
    let sizes: Vec<(u32, u32)> = if ctx.thorough {
        vec![(1, 1), (2, 2), (1, 2), (3, 5), (7, 1), (1, 9), (4, 4), (5, 4), (8, 2), (16, 16), (17, 33), (64, 2), (2, 64), (31, 32), (100, 60), (128, 128), (255, 257), (256, 256), (512, 512), (512, 3)]
    } else {
        vec![(1, 1), (2, 2), (3, 5), (7, 1), (1, 9), (5, 4), (8, 2), (16, 16), (17, 33), (64, 2), (31, 32), (100, 60)]
    };
    let tg = targets();
    let mut k = 0u64;
    for (w, h) in sizes {
        for (tname, target) in &tg {
            // the exact (pixel-preserving) BGRA target sees every image class at every size: transparent, opaque, mixed
            let exact = tname == "blp2-raw3";
            for (mips, forced_kind) in [(false, None), (true, None)].into_iter().chain(if exact { (0..5u64).map(|kd| (kd % 2 == 1, Some(kd))).collect::<Vec<_>>() } else { vec![] }) {
                k += 1;
                // quick tier: a third of the (size, target, mips) grid, rotating
                if !ctx.thorough && forced_kind.is_none() && (k + ctx.seed) % 3 != 0 { continue; }
                let kind = forced_kind.unwrap_or_else(|| ctx.rng.below(5));
                let filter = *ctx.rng.pick(&[FilterType::Nearest, FilterType::Triangle]);
                let src = gen_image(&mut ctx.rng, w, h, kind);
                let desc = format!("{w}x{h} kind{kind} {tname} mips={mips} filter={filter:?}");
                ctx.out.stat(&format!("c16.target.{}", tname.rsplitn(2, '-').last().unwrap_or("")));
                let t2 = target.clone(); let s2 = src.clone();
                let conv = std::panic::catch_unwind(move || image_to_blp(DynamicImage::ImageRgba8(s2), mips, t2, filter));
                let blp = match conv { Err(_) => { ctx.out.oracle(false, "convert-panics", &desc); continue; } Ok(Err(e)) => { ctx.out.stat("c16.convert_error"); ctx.out.known("convert-error", &format!("{desc}: {e}")); continue; } Ok(Ok(b)) => b };
                let is0 = blp.header.version == BlpVersion::Blp0;
                let (bytes, ext) = if is0 { match encode_blp0(&blp) { Ok(r) => (r.blp_bytes, r.blp_mipmaps), Err(e) => { ctx.out.oracle(false, "encode-fails", &format!("{desc}: {e}")); continue; } } }
                    else { match encode_blp(&blp) { Ok(b) => (b, vec![]), Err(e) => { ctx.out.oracle(false, "encode-fails", &format!("{desc}: {e}")); continue; } } };
                let parsed = if is0 { parse_blp_with_externals(&bytes, |i| preloaded_mipmaps(&ext, i)) } else { parse_blp(&bytes) };
                let parsed = match parsed { Ok(p) => p, Err(e) => { ctx.out.oracle(false, "own-output-does-not-parse", &format!("{desc}: {e}")); continue; } };
                header_cases(ctx, &bytes, &ext, is0);
                let mut bad = false;
                let fail = |ctx: &mut Ctx, tag: &str, what: String| { ctx.out.oracle(false, tag, &format!("{what} :: {desc}")); };
                if parsed != blp { bad = true; fail(ctx, "parsed-structure-differs", format!("header {:?} vs {:?}; images {} vs {}", parsed.header, blp.header, parsed.image_count(), blp.image_count())); }
                // second write is byte-identical
                let again = if is0 { encode_blp0(&parsed).map(|r| r.blp_bytes) } else { encode_blp(&parsed) };
                if again.as_ref().ok() != Some(&bytes) { bad = true; fail(ctx, "re-encode-differs", "".into()); }
                // mip chain down to 1x1
                let want_levels = level_count(w, h, mips);
                if parsed.image_count() != want_levels { bad = true; fail(ctx, "mip-chain-does-not-reach-1x1", format!("{} levels, want {want_levels}", parsed.image_count())); }
                if parsed.header.mipmaps_count() + 1 != level_count(w, h, mips) { bad = true; fail(ctx, "header-mip-count-wrong", format!("{}", parsed.header.mipmaps_count())); }
                for i in 0..parsed.image_count() {
                    let (mw, mh) = parsed.header.mipmap_size(i);
                    let (ew, eh) = ((w >> i).max(1), (h >> i).max(1));
                    if (mw, mh) != (ew, eh) { bad = true; fail(ctx, "mip-level-size-wrong", format!("level {i}: {mw}x{mh}, want {ew}x{eh}")); }
                    if let Ok(img) = blp_to_image(&parsed, i) { if (img.width(), img.height()) != (ew, eh) { bad = true; fail(ctx, "decoded-level-size-wrong", format!("level {i}: {}x{}, want {ew}x{eh}", img.width(), img.height())); } }
                    else if i == 0 || !matches!(parsed.content, BlpContent::Jpeg(_)) { bad = true; fail(ctx, "level-does-not-decode", format!("level {i}")); }
                }
                // offsets and sizes inside the file, no overlap; layout equals the model's
                if let Some((offs, szs)) = parsed.header.internal_mipmaps() {
                    let n = parsed.image_count();
                    let mut iv: Vec<(u32, u32)> = (0..n).map(|i| (offs[i], szs[i])).collect();
                    for (i, (o, s)) in iv.iter().enumerate() { if *s == 0 || (*o as usize) + (*s as usize) > bytes.len() || (*o as usize) < BlpHeader::size(parsed.header.version) { bad = true; fail(ctx, "mip-extent-outside-file", format!("level {i}: offset {o} size {s}, file {} bytes", bytes.len())); } }
                    iv.sort();
                    for p in iv.windows(2) { if p[0].0 + p[0].1 > p[1].0 { bad = true; fail(ctx, "mip-extents-overlap", format!("{:?}", p)); } }
                    for i in n..16 { if offs[i] != 0 || szs[i] != 0 { bad = true; fail(ctx, "unused-locator-slot-not-zero", format!("slot {i}")); } }
                    let fmt = match &parsed.content { BlpContent::Raw1(_) => format!("raw1:{}", parsed.header.alpha_bits()), BlpContent::Raw3(_) => "raw3".into(), BlpContent::Dxt1(_) => "dxt1".into(), BlpContent::Dxt3(_) => "dxt3".into(), BlpContent::Dxt5(_) => "dxt5".into(), BlpContent::Jpeg(_) => "jpeg".into() };
                    if fmt != "jpeg" {
                        let cmap = match &parsed.content { BlpContent::Raw1(r) => r.cmap.len(), BlpContent::Raw3(r) => r.cmap.len(), BlpContent::Dxt1(d) | BlpContent::Dxt3(d) | BlpContent::Dxt5(d) => d.cmap.len(), _ => 0 };
                        ctx.out.case(&format!("c16layout {} {fmt} {cmap} {w} {h} {}", BlpHeader::size(parsed.header.version), mips as u8),
                            &format!("{} {}", n, (0..n).map(|i| format!("{}:{}", offs[i], szs[i])).collect::<Vec<_>>().join(",")));
                    }
                }
                // pixels
                match &parsed.content {
                    BlpContent::Raw3(_) => { match blp_to_image(&parsed, 0) { Ok(img) => { if img.to_rgba8().as_raw() != src.as_raw() { bad = true; fail(ctx, "raw-bgra-pixels-differ", "".into()); } } Err(e) => { bad = true; fail(ctx, "level-does-not-decode", format!("{e}")); } } }
                    BlpContent::Raw1(r) => {
                        let bits = parsed.header.alpha_bits();
                        let alphas: Vec<u8> = src.pixels().map(|p| p.0[3]).collect();
                        ctx.out.case(&format!("c16alpha {bits} {}", crate::c18_wdt::canon_rle(&alphas)), &crate::c18_wdt::canon_rle(&r.images[0].indexed_alpha));
                        if let Ok(img) = blp_to_image(&parsed, 0) {
                            let rgba = img.to_rgba8();
                            for (i, (p, s)) in rgba.pixels().zip(src.pixels()).enumerate() {
                                let col = (p.0[0] as u32) | ((p.0[1] as u32) << 8) | ((p.0[2] as u32) << 16);
                                if !r.cmap.iter().any(|c| c & 0xFF_FFFF == col) { bad = true; fail(ctx, "decoded-colour-not-in-palette", format!("pixel {i}")); break; }
                                let a = s.0[3];
                                let want = match bits { 0 => 255, 1 => if a > 0 { 255 } else { 0 }, 4 => { let n = ((a as f64 / 255.0) * 15.0).round() as u8; (n << 4) | n }, _ => a };
                                if p.0[3] != want { bad = true; fail(ctx, "palettised-alpha-not-source-alpha-quantised", format!("pixel {i}: alpha {} from source {a} at {bits} bits, want {want}", p.0[3])); break; }
                            }
                        }
                    }
                    _ => {}
                }
                if !bad { ctx.out.oracle(true, "", ""); ctx.out.nontrivial(desc.as_bytes()); }
            }
        }
    }
    // header arithmetic over the whole dimension range
    for w in (1u32..=600).chain([1023, 1024, 1025, 4095, 4096, 8191, 8192, 16383, 16384, 32767, 32768, 65535]) {
        let h = BlpHeader { width: w, height: 1, flags: BlpFlags::Blp2 { compression: Compression::Raw3, alpha_bits: 8, alpha_type: AlphaType::None, has_mipmaps: 1 }, version: BlpVersion::Blp2, content: BlpContentTag::Direct, mipmap_locator: MipmapLocator::External };
        ctx.out.case(&format!("c16count {w} 1"), &h.mipmaps_count().to_string());
    }
}

/// the header as Model.C16Header.show_ prints it
fn header_view(h: &BlpHeader) -> String {
    let ver = match h.version { BlpVersion::Blp0 => 0, BlpVersion::Blp1 => 1, BlpVersion::Blp2 => 2 };
    let content: u32 = h.content.into();
    let fl = match h.flags { BlpFlags::Old { alpha_bits, extra, has_mipmaps } => format!("old {alpha_bits} {extra} {has_mipmaps}"),
        BlpFlags::Blp2 { compression, alpha_bits, alpha_type, has_mipmaps } => { let c: u8 = compression.into(); let a: u8 = alpha_type.into(); format!("blp2 {c} {alpha_bits} {a} {has_mipmaps}") } };
    let loc = match h.mipmap_locator { MipmapLocator::Internal { offsets, sizes } => offsets.iter().chain(sizes.iter()).map(|x| x.to_string()).collect::<Vec<_>>().join(","), MipmapLocator::External => "ext".to_string() };
    format!("ok {ver} {content} {fl} {} {} {loc}", h.width, h.height)
}

/// what parse_blp says about the HEADER of `bytes`: its fields, a header error class, or None when the header was accepted
/// but the content behind it was not (the header's fields are then not observable)
fn header_answer(bytes: &[u8], ext: &[Vec<u8>], is0: bool) -> Option<String> {
    use wow_blp::parser::Error as E;
    let b2 = bytes.to_vec(); let e2 = ext.to_vec();
    let r = std::panic::catch_unwind(move || if is0 { parse_blp_with_externals(&b2, |i| preloaded_mipmaps(&e2, i)) } else { parse_blp(&b2) });
    match r {
        Err(_) => Some("panic".into()),
        Ok(Ok(img)) => Some(header_view(&img.header)),
        Ok(Err(E::Context(c, inner))) if c == "header" => { let mut e: &E = &inner; while let E::Context(_, i) = e { e = i; }
            Some(match e { E::WrongMagic(_) => "err magic", E::Blp2UnknownCompression(_) => "err compression", E::UnknownAlphaType(_) | E::Blp2UnknownAlphaType(_) => "err alphatype", E::UnexpectedEof => "err eof", _ => "err other" }.to_string()) }
        Ok(Err(_)) => None,
    }
}

/// Model.C16Header against parse_blp: the encoder's header, every header byte replaced by boundary values, truncations
fn header_cases(ctx: &mut Ctx, bytes: &[u8], ext: &[Vec<u8>], is0: bool) {
    let hl = bytes.len().min(160);
    if let Some(a) = header_answer(bytes, ext, is0) { ctx.out.case(&format!("c16hdr {}", hex(&bytes[..hl])), &a); ctx.out.stat("c16.hdr.intact"); }
    if ctx.rng.below(3) != 0 && !ctx.thorough { return; }
    for off in 0..28usize.min(hl) {
        for v in [0u8, 1, 2, 3, 4, 7, 8, 9, 0x30, 0x32, 0x33, 0xFF] {
            if bytes[off] == v || (ctx.rng.below(3) != 0 && !ctx.thorough) { continue; }
            let mut m = bytes.to_vec(); m[off] = v;
            match header_answer(&m, ext, is0) { Some(a) => { ctx.out.stat(&format!("c16.hdrmut.{}", a.split(' ').take(2).collect::<Vec<_>>().join("_").replace(|c: char| c.is_ascii_digit(), ""))); ctx.out.case(&format!("c16hdr {}", hex(&m[..hl])), &a); }
                None => ctx.out.stat("c16.hdrmut.content_rejected") }
        }
    }
    for cut in [0usize, 3, 4, 7, 8, 9, 11, 12, 19, 20, 27, 28, 100, 147, 148, 155, 156] {
        if cut >= bytes.len() { continue; }
        if let Some(a) = header_answer(&bytes[..cut], ext, is0) { if a.starts_with("err") { ctx.out.case(&format!("c16hdr {}", if cut == 0 { "-".to_string() } else { hex(&bytes[..cut]) }), &a); ctx.out.stat(&format!("c16.hdrcut.{}", a.replace(' ', "_"))); } }
    }
}
