//! C07 — rebuilding an archive preserves its file set and contents (source × target version × options sweep).
use crate::c01::{build, gen_case, Cfg, F, VERS};
use crate::common::*;
use std::collections::BTreeMap;
use wow_mpq::compare::compare_archives;
use wow_mpq::{Archive, RebuildOptions, rebuild_archive};

const FLAG_ENCRYPTED: u32 = 0x0001_0000;

#[derive(Clone, Debug)]
pub struct Opt { pub target: Option<usize>, pub preserve: bool, pub skip_enc: bool, pub skip_sig: bool, pub verify: bool, pub comp: Option<u8>, pub shift: Option<u16>, pub list_only: bool }

fn gen_opt(rng: &mut Rng, k: u64) -> Opt {
    Opt { target: if k % 5 == 4 { None } else { Some((k % 5 % 4) as usize) }, preserve: rng.chance(1, 2), skip_enc: rng.chance(1, 3), skip_sig: rng.chance(3, 4),
          verify: rng.chance(1, 3), comp: *rng.pick(&[None, None, Some(0u8), Some(0x02), Some(0x10)]), shift: *rng.pick(&[None, None, Some(0u16), Some(3), Some(6)]), list_only: rng.chance(1, 10) }
}

fn is_special(n: &str) -> bool { n.starts_with('(') }

pub fn run(ctx: &mut Ctx) {
    let dir = tempfile::tempdir().expect("tmp");
    let n = if ctx.thorough { 1200 } else { 120 };
    for ci in 0..n {
        let mut rng = ctx.rng.clone();
        let (mut cfg, files): (Cfg, Vec<F>) = gen_case(&mut rng, true);
        cfg.ver = (ci % 4) as usize;
        if ci % 7 != 6 { cfg.listfile = true; }
        let mut opt = gen_opt(&mut rng, ci);
        ctx.rng = rng;
        // fixed witness of finding D2 reached through rebuild (runs in every tier): a constant 70000-byte file in a
        // 128 KiB sector, zlib in the source (readable, ~690:1), recompressed with bzip2 (~1489:1) into the target
        let (cfg, files) = if ci == 0 {
            opt = Opt { target: Some(3), preserve: true, skip_enc: false, skip_sig: true, verify: false, comp: Some(0x10), shift: None, list_only: false };
            (Cfg { ver: 3, shift: 8, crc: true, attrs: 0, listfile: true, table_comp: false },
             vec![F { name: "b.bin".into(), data: vec![0x5A; 70000], method: 0x02, enc: 0 }, F { name: "Data\\small.txt".into(), data: b"kept".to_vec(), method: 0x02, enc: 0 }])
        } else { (cfg, files) };
        let src = dir.path().join(format!("s{ci}.mpq"));
        let dst = dir.path().join(format!("t{ci}.mpq"));
        let desc = format!("source V{} shift={} crc={} attrs={} listfile={} tablecomp={} files=[{}] opts={:?}", cfg.ver + 1, cfg.shift, cfg.crc, cfg.attrs, cfg.listfile, cfg.table_comp,
            files.iter().map(|f| format!("{}:{}b:m{}:e{}", f.name, f.data.len(), f.method, f.enc)).collect::<Vec<_>>().join(" "), opt);
        // one source in six carries a listfile that does not list itself (as original game archives do), some of them partial
        let external = ci % 6 == 5;
        let built = if external {
            let partial = ci % 12 == 11;
            let listed: Vec<&F> = files.iter().enumerate().filter(|(i, _)| !partial || i % 2 == 0).map(|(_, f)| f).collect();
            let lf = dir.path().join(format!("l{ci}.txt"));
            std::fs::write(&lf, listed.iter().map(|f| f.name.clone()).collect::<Vec<_>>().join("\r\n") + "\r\n").ok();
            ctx.out.stat(if partial { "c07.listfile.external_partial" } else { "c07.listfile.external" });
            let mut b = wow_mpq::ArchiveBuilder::new().version(VERS[cfg.ver]).block_size(cfg.shift).listfile_option(wow_mpq::ListfileOption::External(lf));
            for f in &files { b = match f.enc { 0 => b.add_file_data_with_options(f.data.clone(), &f.name, f.method, false, 0), e => b.add_file_data_with_encryption(f.data.clone(), &f.name, f.method, e == 2, 0) }; }
            b.build(&src)
        } else { build(&cfg, &files, &src) };
        if built.is_err() { ctx.out.stat("c07.source_build_error"); continue; }
        // what of the source is readable at all (a file the reader itself rejects — ratio limit, C03 — is not rebuild's loss)
        let mut truth: BTreeMap<String, Vec<u8>> = BTreeMap::new();
        let listing: Vec<(String, u32, bool)> = {
            let mut a = match Archive::open(&src) { Ok(a) => a, Err(_) => { ctx.out.stat("c07.source_open_error"); continue; } };
            let l = match a.list() { Ok(l) if !l.is_empty() => l, _ => a.list_all().unwrap_or_default() };
            l.iter().map(|e| { let r = a.read_file(&e.name); let ok = r.is_ok(); if let Ok(d) = r { truth.insert(e.name.clone(), d); } (e.name.clone(), e.flags, ok) }).collect()
        };
        let src_count = Archive::open(&src).and_then(|mut a| a.get_info()).map(|i| i.file_count).unwrap_or(0);
        ctx.out.stat(&format!("c07.source.V{}", cfg.ver + 1));
        ctx.out.stat(&format!("c07.target.{}", opt.target.map(|t| format!("V{}", t + 1)).unwrap_or(if opt.preserve { "preserve".into() } else { "modernize".into() })));
        ctx.out.stat(&format!("c07.listfile.{}", cfg.listfile));
        let ropt = RebuildOptions { preserve_format: opt.preserve, target_format: opt.target.map(|t| VERS[t]), preserve_order: true, skip_encrypted: opt.skip_enc, skip_signatures: opt.skip_sig,
            verify: opt.verify, override_compression: opt.comp, override_block_size: opt.shift, list_only: opt.list_only };
        let (s2, d2) = (src.clone(), dst.clone());
        let res = std::panic::catch_unwind(move || rebuild_archive(&s2, &d2, ropt, None));
        let res = match res { Ok(r) => r, Err(_) => { ctx.out.oracle(false, "rebuild-panics", &desc); continue; } };
        // expected selection: listed names minus the explicitly excluded ones
        let excluded = |n: &str, fl: u32| (opt.skip_sig && (n == "(signature)" || n == "(strong signature)")) || (opt.skip_enc && fl & FLAG_ENCRYPTED != 0);
        let want: Vec<&(String, u32, bool)> = listing.iter().filter(|(n, fl, _)| !excluded(n, *fl)).collect();
        let _ = src_count;
        let req = format!("c07plan {} {} {}", opt.skip_sig as u8, opt.skip_enc as u8,
            if listing.is_empty() { "-".to_string() } else { listing.iter().map(|(n, fl, ok)| format!("{}:{}:{}", hex(n.as_bytes()), fl, *ok as u8)).collect::<Vec<_>>().join(",") });
        match res {
            Err(e) => {
                let es = e.to_string();
                ctx.out.stat("c07.rebuild_err");
                // a rebuild may refuse (e.g. unreadable source file); it must not be because of a file the options excluded
                if let Some(rest) = es.strip_prefix("Invalid MPQ format: Cannot rebuild: failed to read file ") {
                    let name = rest.split(": ").next().unwrap_or("");
                    ctx.out.case(&req, &format!("err {}", hex(name.as_bytes())));
                } else { ctx.out.stat("c07.rebuild_err_after_extraction"); }
                ctx.out.known("rebuild-error", &format!("{es} :: {desc}"));
                ctx.out.oracle(true, "", "");
            }
            Ok(sum) => {
                ctx.out.stat(if opt.list_only { "c07.list_only" } else { "c07.rebuilt" });
                ctx.out.case(&req, &format!("ok {} {} {}", sum.source_files, sum.extracted_files, sum.skipped_files));
                if opt.list_only { ctx.out.oracle(!dst.exists(), "list-only-writes-target", &desc); continue; }
                let mut t = match Archive::open(&dst) { Ok(t) => t, Err(e) => { ctx.out.oracle(false, "target-does-not-open", &format!("{e} :: {desc}")); continue; } };
                let mut bad = false;
                // files the target holds but the reader's ratio heuristics refuse (finding D2 reached through rebuild)
                let mut ratio_rejected: Vec<String> = vec![];
                for (n, _, readable) in want.iter().map(|x| (&x.0, x.1, x.2)) {
                    if !readable { continue; }
                    if is_special(n) && n != "(listfile)" { continue; }
                    match t.read_file(n) {
                        Ok(d) => if n != "(listfile)" && Some(&d) != truth.get(n) { bad = true; ctx.out.oracle(false, "rebuilt-content-differs", &format!("{n}: {} bytes vs {} :: {desc}", d.len(), truth[n].len())); },
                        Err(e) => {
                            bad = true;
                            let bomb = matches!(e, wow_mpq::Error::CompressionBomb { .. });
                            if bomb { ratio_rejected.push(n.clone()); }
                            ctx.out.oracle(false, if bomb { "rebuilt-file-rejected-by-ratio-limit" } else { "file-lost-in-rebuild" }, &format!("{n}: {e} :: {desc}"));
                        }
                    }
                }
                // the result must list what it holds: every selected name appears in its listing
                {
                    let names: Vec<String> = t.list().map(|l| l.into_iter().map(|e| e.name).collect()).unwrap_or_default();
                    for w in want.iter().filter(|w| w.2 && !is_special(&w.0)) {
                        if !names.contains(&w.0) { bad = true; ctx.out.oracle(false, "rebuilt-listing-misses-file", &format!("{} :: {desc}", w.0)); break; }
                    }
                }
                for (n, fl, _) in &listing {
                    if excluded(n, *fl) && !is_special(n) && t.read_file(n).is_ok() { bad = true; ctx.out.oracle(false, "excluded-file-present", &format!("{n} :: {desc}")); }
                }
                // truthful counts: extracted = what went in; skipped = what did not; together the source's count
                let user_in_target = want.iter().filter(|x| t.find_file(&x.0).map(|f| f.is_some()).unwrap_or(false)).count();
                if sum.extracted_files != user_in_target { bad = true; ctx.out.oracle(false, "summary-extracted-count-untrue", &format!("reported {} files extracted, {} of the selected files are in the target :: {desc}", sum.extracted_files, user_in_target)); }
                // the reported counts against the harness' own bookkeeping: listed entries, entries the options exclude
                let n_excluded = listing.iter().filter(|(n, fl, _)| excluded(n, *fl)).count();
                if sum.source_files != listing.len() || sum.skipped_files != n_excluded {
                    bad = true; ctx.out.oracle(false, "summary-counts-untrue", &format!("{:?} but the source lists {} entries of which the options exclude {} :: {desc}", sum, listing.len(), n_excluded));
                }
                if sum.source_files != sum.extracted_files + sum.skipped_files { bad = true; ctx.out.oracle(false, "summary-counts-do-not-add-up", &format!("{:?} :: {desc}", sum)); }
                if sum.verified != opt.verify { bad = true; ctx.out.oracle(false, "summary-verified-flag-untrue", &format!("{:?} :: {desc}", sum)); }
                // comparison reports no content difference and nothing missing beyond the exclusions
                match compare_archives(&src, &dst, true, true, false, false, None) {
                    Ok(c) => { if let Some(f) = &c.files {
                        let missing: Vec<&String> = f.source_only.iter().filter(|n| !listing.iter().any(|(m, fl, ok)| m == *n && (excluded(m, *fl) || !*ok || is_special(m)))).collect();
                        if !f.content_differences.is_empty() {
                            bad = true;
                            let only_ratio = f.content_differences.iter().all(|n| ratio_rejected.iter().any(|r| r == n));
                            ctx.out.oracle(false, if only_ratio { "compare-difference-on-ratio-rejected-file" } else { "compare-reports-content-difference" }, &format!("{:?} :: {desc}", f.content_differences));
                        }
                        if !missing.is_empty() { bad = true; ctx.out.oracle(false, "compare-reports-missing-files", &format!("{:?} :: {desc}", missing)); }
                    } }
                    Err(e) => { bad = true; ctx.out.oracle(false, "compare-fails", &format!("{e} :: {desc}")); }
                }
                if !bad { ctx.out.oracle(true, "", ""); ctx.out.nontrivial(desc.as_bytes()); }
            }
        }
        let _ = std::fs::remove_file(&src); let _ = std::fs::remove_file(&dst);
    }
}
